#!/usr/bin/env python3
"""Registers every kept, detected agent mutant in /verif/seeded/ as a seeded variant of the thorough
self-test (variants/agent_<id>.patch): the property/rule that reports it today is the reference for later
changes of the machinery. Run after keep_seeds.py."""
import json, os, glob, re, subprocess, shutil
out = "/verif/variants"
listing = subprocess.run(["/verif/bin/apdlint", "-list"], capture_output=True, text=True).stdout
rules_of = {}
cur = None
for line in listing.splitlines():
    m = re.match(r"^(C\d+) ", line)
    if m: cur = m.group(1); rules_of[cur] = []; continue
    m = re.match(r"^\s+(C\d+\.R\d+) ", line)
    if m and cur: rules_of[cur].append(m.group(1))
idx = [v for v in json.load(open(out + "/index.json")) if not v["name"].startswith("agent_")]
for f in glob.glob(out + "/agent_*.patch"): os.remove(f)
n = 0
for d in sorted(x for x in glob.glob("/verif/seeded/C*") if not x.endswith(".obsolete")):
    meta = json.load(open(d + "/meta.json"))
    if not meta.get("detected"): continue
    props, rules = meta["caught_by_properties"], meta["caught_by_rules"]
    own = meta.get("property", "")
    cands = ([own] if own in props else []) + [p for p in props if p != own]
    pick = None
    for p in cands:
        rs = [r for r in rules if r in rules_of.get(p, [])]
        if rs: pick = (p, rs[0]); break
    if not pick: continue
    name = "agent_" + os.path.basename(d).replace("-", "_")
    shutil.copy(d + "/patch.diff", f"{out}/{name}.patch")
    idx.append({"name": name, "kind": "seeded", "property": pick[0], "rule": pick[1], "construct_contains": ""})
    n += 1
json.dump(idx, open(out + "/index.json", "w"), indent=1)
print(n, "agent seeds registered;", len(idx), "variants")
