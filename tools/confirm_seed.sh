#!/bin/bash
# usage: confirm_seed.sh <dir with patch.diff demo_test.go meta.json> -> prints CONFIRMED/REJECTED with reasons
# Uses its own scratch worktree of /repo HEAD under /tmp, removed afterwards.
set -u
d="$1"; name=$(echo "$d" | sed 's#/#_#g')
export GOFLAGS=-mod=mod GOPROXY=off GOSUMDB=off GOTOOLCHAIN=local GOWORK=off
wt=$(mktemp -d /tmp/confirm.XXXXXX); rmdir "$wt"
git -C /repo worktree add -q --detach "$wt" HEAD || { echo "$d REJECTED worktree"; exit 1; }
trap 'git -C /repo worktree remove --force "$wt" >/dev/null 2>&1' EXIT
cd "$wt"
testname=$(grep -o 'func Test[A-Za-z0-9_]*' "$d/demo_test.go" | head -1 | sed 's/func //')
cp "$d/demo_test.go" ./zz_demo_test.go
clean=$(timeout 120 go test -vet=off -count=1 -run "^${testname}\$" . 2>&1 | tail -1)
git apply "$d/patch.diff" || { echo "$d REJECTED patch-does-not-apply"; exit 1; }
go build ./... || { echo "$d REJECTED does-not-compile"; exit 1; }
mut=$(timeout 120 go test -vet=off -count=1 -run "^${testname}\$" . 2>&1 | tail -1)
rm -f zz_demo_test.go
suite=$(python3 /verif/tools/baseline_check.py "$wt" | head -1)
ok=1
echo "$clean" | grep -q "^ok" || ok=0
echo "$mut" | grep -q "^FAIL\|panic\|timeout" || ok=0
echo "$suite" | grep -q "missing_from_stable=0" || ok=0
if [ $ok = 1 ]; then echo "$d CONFIRMED ($testname)"; else echo "$d REJECTED clean=[$clean] mutated=[$mut] suite=[$suite]"; fi
