#!/usr/bin/env python3
"""Run the repo test-suite (guard off) and compare with /root/.vp/BASELINE.json stable_pass.
usage: baseline_check.py [repo_dir]   exit 0 iff every stable_pass test passes."""
import json, subprocess, sys, os
repo = sys.argv[1] if len(sys.argv) > 1 else "/repo"
base = json.load(open("/root/.vp/BASELINE.json"))
want = set(base["stable_pass"])
env = dict(os.environ, GOFLAGS="-mod=mod", GOPROXY="off", GOSUMDB="off", GOTOOLCHAIN="local")
p = subprocess.run(["go", "test", "-json", "-vet=off", "-count=1", "-timeout", "25m", "./..."],
                   cwd=repo, env=env, capture_output=True, text=True)
passed = set(); failed = set()
for line in p.stdout.splitlines():
    try: ev = json.loads(line)
    except Exception: continue
    if ev.get("Test") and ev.get("Action") in ("pass", "fail"):
        name = ev["Package"] + "::" + ev["Test"]
        (passed if ev["Action"] == "pass" else failed).add(name)
missing = sorted(want - passed)
print(f"stable_pass={len(want)} passed_now={len(passed)} failed_now={len(failed)} missing_from_stable={len(missing)}")
for m in missing[:40]: print("  MISSING/FAILED:", m)
newfail = sorted(f for f in failed if f in want)
sys.exit(1 if missing else 0)
