#!/usr/bin/env python3
"""Regenerates 'Appendix A. Rule catalogue' at the end of DESIGN.md from `apdlint -list` and evidence/*.json.
Run after `bin/apdlint -property all` so that the evidence files carry the current rule texts."""
import subprocess,re,json,glob
out=subprocess.run(['/verif/bin/apdlint','-list'],capture_output=True,text=True).stdout
props={}; rules={}; cur=None
for line in out.splitlines():
    m=re.match(r'^(C\d\d) (.*)$',line)
    if m: cur=m.group(1); props[cur]={'title':m.group(2),'rules':[]}; continue
    m=re.match(r'^\s+(C\d\d\.R\d+) \(min (\d+)\) (.*)$',line)
    if m and cur:
        props[cur]['rules'].append(m.group(1)); rules.setdefault(m.group(1),m.group(3))
full={}
for f in glob.glob('/verif/evidence/C*.json'):
    def walk(o):
        if isinstance(o,dict):
            if 'rule' in o and 'text' in o and isinstance(o['text'],str): full[o['rule']]=o['text']
            for v in o.values(): walk(v)
        elif isinstance(o,list):
            for v in o: walk(v)
    walk(json.load(open(f)))
def key(r):
    m=re.match(r'C(\d\d)\.R(\d+)',r); return (int(m.group(1)),int(m.group(2)))
lines=["## Appendix A. Rule catalogue (generated from `apdlint -list` and the evidence files by tools/gen_rule_catalogue.py)","",
"Each property is decided by its own rules plus rules shared with neighbouring properties; a rule's id names the property it was written for. The text of each rule is what the evidence file prints under `rule`.","",
"| property | rules applied |","|---|---|"]
for p in sorted(props): lines.append(f"| {p} | {', '.join(props[p]['rules'])} |")
lines+=["","| rule | what it decides (for every input, context, aliasing pattern and history at once) |","|---|---|"]
for r in sorted(rules,key=key):
    t=full.get(r,rules[r]).replace('|','\\|').replace('\n',' ')
    lines.append(f"| {r} | {t} |")
s=open('/verif/DESIGN.md').read()
marker="## Appendix A. Rule catalogue"
if marker in s: s=s[:s.index(marker)].rstrip()+"\n"
open('/verif/DESIGN.md','w').write(s.rstrip()+"\n\n"+"\n".join(lines)+"\n")
print(len(rules),"rules")
