#!/bin/bash
# tries every /tmp/seed/out/Cxx/m*/patch.diff (or /verif/seeded/*/patch.diff with arg "kept")
base=${SEEDBASE:-/tmp/seed/out}
for p in $(ls $base/C*/m*/patch.diff 2>/dev/null | sort); do
  id=$(echo $p | sed -E 's#.*/(C[0-9]+)/(m[0-9])/patch.diff#\1-\2#')
  res=$(/verif/tools/try_patch.sh $p 2>&1 | tail -1)
  echo "$id  $res"
done
