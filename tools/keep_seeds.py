#!/usr/bin/env python3
"""Copies confirmed agent mutants to /verif/seeded/<id>/ and records which checks catch them, using the
prescribed procedure: git -C /repo apply <patch>; run every check's quick command; git -C /repo checkout -- ."""
import json, os, re, shutil, subprocess, sys, glob
src = sys.argv[1] if len(sys.argv) > 1 else "/tmp/seed/out"
suffix = sys.argv[2] if len(sys.argv) > 2 else ""
skips = {
    "": {"C04/m1": "no longer demonstrable: it hoisted Ln's per-iteration error test out of the power-series loop, which spun for ever once a step had trapped under the caller's traps; since the fix 'the inner steps of Sqrt, Ln and Exp are not subject to the caller's exponent range and traps' no step traps for an operand inside the limits and the demonstration returns; the loop is still reported by C04.R4 (kept in the self-test as exseed_C04_m1)",
            "C11/m1": "obsolete: it stopped widening Sqrt's working precision to the operand's digit count, which made the rounded iterate wrong just past a midpoint; since the fixes 'Sqrt locates the root exactly' the iterate is only the starting point of an exact location against the whole operand and the edit is behaviour-preserving (kept as the benign variant benign_agent8_C11_m1; it was detected by C11.R1 while it broke the property)",
            "C01/m1": "obsolete: it moved Mul's `d.Negative = neg` behind Mul's own setExponent call (the subnormal rounding then used the destination's previous sign); that call is gone since the fix 'Mul checks the exponent range after rounding, not before', and ported to the new Mul (sign set after the rounding) the same slip fails 30 tests of the pinned suite (it was detected by C01.R1/C06.R1 while it applied)",
            "C04/m2": "obsolete: it skipped SetString's final rounding at Precision 0, which let exponents below MinExponent through only because setExponent checked each term separately; after the fix 'the exponent limits apply to the sum of the exponent terms' the parsing step's own range check is complete and the change is behaviour-preserving (kept as the benign variant benign_agent5_C04_m2; it was detected by C01.R3 while it broke the property)",
         "C14/m1": "manifests only for exponents beyond the package limits (MaxInt32), outside the property's domain",
         "C05/m2": "obsolete: it mutated Cbrt's exactness test (operand copy z0), which the fix 'Cbrt finds exact roots in every rounding mode' replaced; it was detected by C05.R1 while it applied",
         "C11/m2": "obsolete: it mutated Cbrt's exactness test (operand copy z0), which the fix 'Cbrt finds exact roots in every rounding mode' replaced; it was detected by C05.R1/C11.R2 while it applied"},
    "-r2": {"C02/m1": "obsolete: it capped Sqrt's working precision at twice the target precision; behaviour-preserving since Sqrt locates the root exactly against the whole operand (kept as the benign variant benign_agent8_C02_m1_r2; it was never detected — numeric)",
            "C08/m2": "no longer demonstrable: it stored only Form = Infinite for Mul's infinite result, leaving the destination's coefficient and exponent inside the infinity; the demonstration went through a later rounding of that infinity, which passes infinities through unchanged since the fix 'Rounder.Round passes infinities and NaNs through unchanged'; the leftover fields are still visible in the exported Coeff/Exponent and the store is still reported by C06.R2 (kept in the self-test as exseed_C08_m2_r2)",
            "C11/m1": "obsolete: it dropped the half-even store on Sqrt's working context so that the Newton steps rounded in the caller's mode, which biased the iterate and with it the result; since the fixes 'Sqrt locates the root exactly' and 'the inner steps of Sqrt, Ln and Exp are not subject to the caller's exponent range and traps' the iterate is only a starting point for the exact location and the working context is a copy of BaseContext: the edit is behaviour-preserving (kept as the benign variant benign_agent8_C11_m1_r2; it was detected by C11.R1 while it broke the property)",
            "C06/m1": "obsolete: it moved Mul's `d.Negative = neg` behind Mul's own setExponent call (the subnormal rounding then used the destination's previous sign); that call is gone since the fix 'Mul checks the exponent range after rounding, not before', and ported to the new Mul (sign set after the rounding) the same slip fails 30 tests of the pinned suite (it was detected by C01.R1/C06.R1 while it applied)",
            
        "C04/m2": "obsolete for C04: it took Cbrt's working context from the caller, which made the range-reduction loop spin once the operand underflowed to zero; after the fix 'Cbrt works on the operand scaled to [1, 1000)' the loops run a handful of times whatever the context and the demonstration (a hang) no longer fails. The same edit still breaks C11 under narrow exponent ranges and is kept as seeded/C11-m1-r4 (identical patch); it was detected by C04.R4/C03.R6 while it applied",
        "C18/m2": "not confirmed: with the patch 3 stable baseline tests fail in this sandbox (the GDA runner shares one Context between goroutines)",
        "C04/m1": "manifests only for a target exponent of MaxInt32, outside the package limits (out of the property's domain)",
        "C17/m1": "manifests only for Exponent == MinInt32, outside the package limits (out of the property's domain)"},
    "-r6": {},
    "-r7": {},
    "-r8": {},
    "-r9": {},
    "-r10": {},
    "-r11": {},
    "-r3": {"C03/m2": "no longer demonstrable: it replaced Ln's last ErrDecimal step and error test by a direct call, losing an error recorded by a trapped Halley step; since the fix 'the inner steps of Sqrt, Ln and Exp are not subject to the caller's exponent range and traps' no step traps for an operand inside the limits; the dropped error test is still reported by C02.R3/C03.R5 (kept in the self-test as exseed_C03_m2_r3)",
            "C12/m2": "no longer demonstrable: same edit as C03-m2-r3 (kept in the self-test as exseed_C12_m2_r3)",
            "C03/m1": "obsolete: it cleared Inexact|Rounded in the traps of Sqrt's working context, which was a copy of the caller's and also made the closing error; since the fix 'the inner steps of Sqrt, Ln and Exp are not subject to the caller's exponent range and traps' the working context is a copy of BaseContext (which traps neither) and the closing goError uses the caller's context, so the edit is behaviour-preserving (kept as the benign variant benign_agent8_C03_m1_r3; it was detected by C03.R4 while it broke the property)"},
    "-r5": {"C10/m2": "obsolete: an off-by-one (or a test before the operands are ordered) at upscale's exponent-gap limit of 100000, which refused gaps that operands inside the limits have; since the fix 'Add, Sub, Rem and QuoInteger accept every exponent gap of operands within the limits' the limit is 300000, above every gap such operands can have, and the same slip at the new limit is behaviour-preserving inside the properties' domain (kept as the benign variant benign_agent8_C10_m2_r5; it was detected by C10.R3 while it broke the property)",
            "C06/m1": "obsolete: it handled only SystemOverflow after Quo's setExponent; since the fix 'the lower package limit is on the adjusted exponent, not on the exponent' setExponent has no System-underflow return left and the edit is behaviour-preserving (kept as the benign variant benign_agent8_C06_m1_r5; it was detected by C06.R10 while it broke the property)",
            "C03/m2": "obsolete: same edit as C03-m1-r3 (Sqrt's working context no longer carries the caller's traps; kept as the benign variant benign_agent8_C03_m2_r5; it was detected by C03.R4 while it broke the property)",
            "C20/m1": "obsolete: it cleared Overflow after the infinity had been stored in exponentLimit (an Infinity with Inexact only); ported to today's tree the same slip fails 17 tests of the pinned suite, which reach exponentLimit since Round discards any number of digits and the lower package limit is on the adjusted exponent (it was detected by C02.R6 while it survived)",
            "C20/m2": "obsolete: it moved Mul's `d.Negative = neg` behind Mul's own setExponent call (the subnormal rounding then used the destination's previous sign); that call is gone since the fix 'Mul checks the exponent range after rounding, not before', and ported to the new Mul (sign set after the rounding) the same slip fails 30 tests of the pinned suite (it was detected by C01.R1/C06.R1 while it applied)",
            "C01/m1": "not confirmed: with the patch one stable baseline test (TestGDA/base/emax314) is skipped by the harness ('exponent out of range') instead of passed; the off-by-one at adjusted exponent == MaxExponent was detected by C04.R6 when tried",
            "C09/m1": "not confirmed: same off-by-one (exponent sum == MaxExponent), same stable test skipped instead of passed; detected by C04.R6/C13.R5 when tried",
            "C13/m1": "not confirmed: with the patch four stable baseline tests are skipped instead of passed; the use of the unresolved digit count was detected by C07.R8 when tried"},
    "-r4": {"C10/m2": "obsolete: an off-by-one (or a test before the operands are ordered) at upscale's exponent-gap limit of 100000, which refused gaps that operands inside the limits have; since the fix 'Add, Sub, Rem and QuoInteger accept every exponent gap of operands within the limits' the limit is 300000, above every gap such operands can have, and the same slip at the new limit is behaviour-preserving inside the properties' domain (kept as the benign variant benign_agent8_C10_m2_r4; it was detected by C10.R3 while it broke the property)",
            "C20/m1": "obsolete: an off-by-one (or a test before the operands are ordered) at upscale's exponent-gap limit of 100000, which refused gaps that operands inside the limits have; since the fix 'Add, Sub, Rem and QuoInteger accept every exponent gap of operands within the limits' the limit is 300000, above every gap such operands can have, and the same slip at the new limit is behaviour-preserving inside the properties' domain (kept as the benign variant benign_agent8_C20_m1_r4; it was detected by C10.R3 while it broke the property)",
            "C03/m1": "obsolete: same edit as C03-m1-r3 (Sqrt's working context no longer carries the caller's traps; kept as the benign variant benign_agent8_C03_m1_r4; it was detected by C03.R4 while it broke the property)",
            "C01/m2": "obsolete: it skipped Mul's rounding pass for short coefficients 'because setExponent had already range checked'; Mul no longer calls setExponent itself (fix 'Mul checks the exponent range after rounding, not before'), and ported to the new Mul the same slip fails 71 tests of the pinned suite (it was detected by C01.R3 while it applied)",
            "C05/m2": "obsolete: it moved QuoInteger's sign computation after the destination writes, which changed the result only through the sign stamped on the DivisionImpossible NaN (d.Set(decimalNaN) had cleared an aliased x.Negative); after the fix 'QuoInteger's DivisionImpossible result is NaN, not -NaN' that path returns before the sign is read and the change is behaviour-preserving (kept as the benign variant benign_agent5_C05_m2_r4; it was detected by C05.R1 while it broke the property)",
            "C11/m2": "obsolete: it mutated the exactness test of the old Cbrt tail; ported to the rewritten Cbrt (fix 'Cbrt is correctly rounded in every rounding mode') the same slip fails 9 tests of the pinned suite, so it is no longer a surviving mutant (it was detected by C11.R2 while it applied)",
            "C20/m2": "not confirmed on the tree as repaired in between: with the patch one stable baseline test no longer completes (it was detected by C04.R6 when tried)"},
}
skip = skips.get(suffix, {})
rows = []
for d in sorted(glob.glob(src + "/C*/m*")):
    rel = d[len(src)+1:]
    sid = rel.replace("/", "-") + suffix
    if rel in skip:
        rows.append((sid, "NOT KEPT", skip[rel])); continue
    out = f"/verif/seeded/{sid}"
    os.makedirs(out, exist_ok=True)
    for f in ("patch.diff", "demo_test.go", "meta.json"):
        shutil.copy(os.path.join(d, f), os.path.join(out, f))
    os.rename(os.path.join(out, "demo_test.go"), os.path.join(out, "demo_test.go.txt"))
    assert subprocess.run(["git", "-C", "/repo", "status", "--porcelain"], capture_output=True, text=True).stdout == ""
    ap = subprocess.run(["git", "-C", "/repo", "apply", os.path.join(out, "patch.diff")], capture_output=True, text=True)
    if ap.returncode != 0:
        rows.append((sid, "PATCH DOES NOT APPLY", ap.stderr[:100])); continue
    try:
        r = subprocess.run(["/verif/bin/apdlint", "-repo", "/repo", "-property", "all", "-tier", "quick", "-evidence-dir", "/tmp/seed/ev"], capture_output=True, text=True, errors="replace")
    finally:
        subprocess.run(["git", "-C", "/repo", "checkout", "--", "."], check=True)
    props = sorted(set(re.findall(r"^VIOLATION property=(C\d+)", r.stdout, re.M)))
    rules = sorted(set(re.findall(r"^  \S+: (C\d+\.R\d+):", r.stdout, re.M)))
    first = ""
    m = re.search(r"^  (\S+): (C\d+\.R\d+): .*?: ([^:]+ \| [^:]+): (.*)$", r.stdout, re.M)
    if m: first = f"{m.group(2)} at {m.group(1)}: {m.group(3)}"
    meta = json.load(open(os.path.join(out, "meta.json")))
    meta["origin"] = "written by an independent sub-agent that saw only the property text and a scratch worktree"
    meta["confirmed"] = "tools/confirm_seed.sh: compiles; stable baseline tests all pass with the patch; demo test fails with the patch and passes without"
    meta["checked_with"] = "git -C /repo apply patch.diff; bin/apdlint -repo /repo -property all -tier quick; git -C /repo checkout -- ."
    meta["caught_by_properties"] = props
    meta["caught_by_rules"] = rules
    meta["first_report"] = first
    meta["detected"] = bool(props)
    if not props:
        meta["why_missed"] = "see DESIGN.md §11"
    json.dump(meta, open(os.path.join(out, "meta.json"), "w"), indent=1)
    rows.append((sid, ",".join(props) or "MISSED", ",".join(rules)))
for r in rows: print(*r, sep="\t")
prev = []
if suffix and os.path.exists("/verif/seeded/SUMMARY.json"):
    prev = [e for e in json.load(open("/verif/seeded/SUMMARY.json")) if not e["seed"].endswith(suffix)]
json.dump(prev + [{"seed": a, "properties": b, "rules": c} for a, b, c in rows], open("/verif/seeded/SUMMARY.json", "w"), indent=1)
