#!/bin/bash
# usage: try_patch.sh <patch.diff> [property list, default all]
# Copies /repo's working tree (sources only) to a scratch dir outside /repo and /verif, applies the patch,
# runs apdlint there, prints which properties/rules fire, removes the scratch dir.
set -u
patch="$1"; props="${2:-all}"
tmp=$(mktemp -d /tmp/apdlint_try.XXXXXX)
trap 'rm -rf "$tmp"' EXIT
mkdir -p "$tmp/repo" "$tmp/ev"
(cd /repo && cp *.go go.mod go.sum "$tmp/repo/" 2>/dev/null)
rm -f "$tmp"/repo/*_test.go
(cd "$tmp/repo" && git init -q . 2>/dev/null && git apply --whitespace=nowarn "$patch") || { echo "PATCH DOES NOT APPLY"; exit 3; }
out=$(${APDLINT:-/verif/bin/apdlint} -repo "$tmp/repo" -property "$props" -evidence-dir "$tmp/ev" -tier quick 2>&1)
code=$?
echo "$out" | grep -A1 "^VIOLATION" | grep -v "^VIOLATION" | grep -v "^--" | sed -E 's/^  ([^:]+:[0-9]+): (C[0-9]+\.R[0-9]+): [^…]*…?:? /  \1 \2 /' | cut -c1-330 | sort -u
echo "$out" | grep "CHECK BROKEN" | cut -c1-300 | sort -u
echo "exit=$code properties_flagged: $(echo "$out" | grep -o '^VIOLATION property=C[0-9]*' | sort -u | sed 's/VIOLATION property=//' | tr '\n' ' ')"
