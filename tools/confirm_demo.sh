#!/bin/bash
# usage: confirm_demo.sh <seeded dir with patch.diff demo_test.go.txt> -> DEMO-OK / DEMO-BAD (demo passes on HEAD, fails with the patch)
# lighter than confirm_seed.sh: does not run the pinned suite. Own scratch worktree under /tmp, removed afterwards.
set -u
d="$1"
export GOFLAGS=-mod=mod GOPROXY=off GOSUMDB=off GOTOOLCHAIN=local GOWORK=off
wt=$(mktemp -d /tmp/cdemo.XXXXXX); rmdir "$wt"
git -C /repo worktree add -q --detach "$wt" HEAD || { echo "$d DEMO-BAD worktree"; exit 1; }
trap 'git -C /repo worktree remove --force "$wt" >/dev/null 2>&1' EXIT
cd "$wt"
demo="$d/demo_test.go.txt"; [ -f "$demo" ] || demo="$d/demo_test.go"
testname=$(grep -o 'func Test[A-Za-z0-9_]*' "$demo" | head -1 | sed 's/func //')
cp "$demo" ./zz_demo_test.go
clean=$(timeout 300 go test -vet=off -count=1 -run "^${testname}\$" . 2>&1 | tail -1)
git apply "$d/patch.diff" || { echo "$d DEMO-BAD patch-does-not-apply"; exit 1; }
mut=$(timeout 300 go test -vet=off -count=1 -run "^${testname}\$" . 2>&1 | tail -1)
if echo "$clean" | grep -q "^ok" && echo "$mut" | grep -q "^FAIL\|panic\|timeout\|^exit status"; then echo "$d DEMO-OK"; else echo "$d DEMO-BAD clean=[$clean] mutated=[$mut]"; fi
