package main

import (
	"golang.org/x/tools/go/ssa"
)

// storedFieldValues describes every value instruction `in` (of function f) may
// store into field `field` of the Decimal that pointer value target points to:
// a direct store, or a call of in-package helpers (followed up to three levels)
// that store one of their parameters, a constant or another argument's field.
// Values are rendered in f's terms ("d.Negative", "0", "form"); anything else
// is "opaque:<callee>".
func (w *World) storedFieldValues(f *ssa.Function, in ssa.Instruction, target ssa.Value, field string, depth int) []string {
	switch x := in.(type) {
	case *ssa.Store:
		fa, ok := x.Addr.(*ssa.FieldAddr)
		if !ok || fa.X != target || w.exprOf(f, x.Addr).Name != field {
			return nil
		}
		return []string{w.exprOf(f, x.Val).String()}
	case *ssa.Call:
		g := callee(x)
		if g == nil || !w.inPkg(g) {
			return nil
		}
		args := x.Common().Args
		var out []string
		for j, a := range args {
			if a != target || j >= len(g.Params) {
				continue
			}
			sum := w.summary(g)
			if !(sum.Writes[j][field] || sum.Writes[j][allFields]) {
				continue
			}
			if depth > 3 {
				return []string{"opaque:" + w.shortName(g)}
			}
			// values stored by g into its parameter j, in g's terms, translated to f's terms
			for _, b := range g.Blocks {
				for _, gi := range b.Instrs {
					for _, v := range w.storedFieldValuesRaw(g, gi, g.Params[j], field, depth+1) {
						out = append(out, w.translateValue(f, g, args, v))
					}
				}
			}
		}
		return out
	}
	return nil
}

// rawVal is a stored value in some callee frame: a constant, one of the
// frame's parameters, a field of the object one of its parameters points to, or
// opaque.
type rawVal struct {
	kind  string // const | param | pfield | opaque
	txt   string // constant text / opaque description
	param int
	field string
}

func (w *World) classifyVal(g *ssa.Function, v ssa.Value) rawVal {
	switch x := v.(type) {
	case *ssa.Const:
		return rawVal{kind: "const", txt: constString(x)}
	case *ssa.Parameter:
		for k, p := range g.Params {
			if p == x {
				return rawVal{kind: "param", param: k}
			}
		}
	case *ssa.UnOp:
		if fa, ok := x.X.(*ssa.FieldAddr); ok {
			if p, ok := fa.X.(*ssa.Parameter); ok {
				for k, q := range g.Params {
					if q == p {
						return rawVal{kind: "pfield", param: k, field: w.exprOf(g, x.X).Name}
					}
				}
			}
		}
	}
	return rawVal{kind: "opaque", txt: "opaque:" + w.shortName(g)}
}

func (w *World) storedFieldValuesRaw(g *ssa.Function, in ssa.Instruction, target ssa.Value, field string, depth int) []rawVal {
	switch x := in.(type) {
	case *ssa.Store:
		fa, ok := x.Addr.(*ssa.FieldAddr)
		if !ok || fa.X != target || w.exprOf(g, x.Addr).Name != field {
			return nil
		}
		return []rawVal{w.classifyVal(g, x.Val)}
	case *ssa.Call:
		h := callee(x)
		if h == nil || !w.inPkg(h) {
			return nil
		}
		var out []rawVal
		for j, a := range x.Common().Args {
			if a != target || j >= len(h.Params) {
				continue
			}
			sum := w.summary(h)
			if !(sum.Writes[j][field] || sum.Writes[j][allFields]) {
				continue
			}
			if depth > 3 {
				out = append(out, rawVal{kind: "opaque", txt: "opaque:" + w.shortName(h)})
				continue
			}
			for _, b := range h.Blocks {
				for _, hi := range b.Instrs {
					for _, v := range w.storedFieldValuesRaw(h, hi, h.Params[j], field, depth+1) {
						out = append(out, w.liftVal(g, x.Common().Args, v))
					}
				}
			}
		}
		return out
	}
	return nil
}

// liftVal re-expresses a callee-frame value in the caller g's frame.
func (w *World) liftVal(g *ssa.Function, args []ssa.Value, v rawVal) rawVal {
	switch v.kind {
	case "param":
		if v.param < len(args) {
			return w.classifyVal(g, args[v.param])
		}
	case "pfield":
		if v.param < len(args) {
			if p, ok := args[v.param].(*ssa.Parameter); ok {
				for k, q := range g.Params {
					if q == p {
						return rawVal{kind: "pfield", param: k, field: v.field}
					}
				}
			}
		}
	case "const", "opaque":
		return v
	}
	return rawVal{kind: "opaque", txt: "opaque:" + w.shortName(g)}
}

// translateValue renders a value of callee g (given the call's arguments) in
// the caller f's terms.
func (w *World) translateValue(f, g *ssa.Function, args []ssa.Value, rv rawVal) string {
	switch rv.kind {
	case "const":
		return rv.txt
	case "param":
		if rv.param < len(args) {
			return w.exprOf(f, args[rv.param]).String()
		}
	case "pfield":
		if rv.param < len(args) {
			return baseString(w.exprOf(f, args[rv.param])) + "." + rv.field
		}
	case "opaque":
		return rv.txt
	}
	return "opaque:" + w.shortName(g)
}
