package main

import (
	"fmt"
	"go/types"
	"sort"
	"strings"

	"golang.org/x/tools/go/ssa"
)

// A3 — pointer provenance.
//
// A Root names the object a pointer points into; a Loc adds the first-level
// field of that object ("" = the object as a whole). The analysis is
// intraprocedural over SSA values, with call results resolved through the
// callee's return-provenance summary.

type RootKind int

const (
	RUnknown   RootKind = iota
	RParam              // object pointed to by parameter #Param of the analysed function
	RAlloc              // local variable / new(T) of the analysed function
	RGlobal             // storage of a package-level variable
	RGlobalObj          // object pointed to by a package-level pointer variable
	RFresh              // object freshly allocated by a callee
	RDeref              // object pointed to by pointer field Name of Base
	RNil
	RExtern // pointer produced by an unanalysed (external) callee
)

type Root struct {
	Kind  RootKind
	Param int
	Name  string    // global name, field name (RDeref), callee (RExtern/RFresh)
	Node  ssa.Value // the Alloc, for RAlloc
	Base  *Root     // RDeref
}

type Loc struct {
	Root  Root
	Field string
}

func (r Root) key() string {
	switch r.Kind {
	case RParam:
		return fmt.Sprintf("param%d", r.Param)
	case RAlloc:
		return fmt.Sprintf("alloc@%p", r.Node)
	case RGlobal:
		return "global:" + r.Name
	case RGlobalObj:
		return "globalobj:" + r.Name
	case RFresh:
		return "fresh:" + r.Name
	case RDeref:
		return "deref(" + r.Base.key() + ")." + r.Name
	case RNil:
		return "nil"
	case RExtern:
		return "extern:" + r.Name
	}
	return "unknown"
}

func (l Loc) key() string { return l.Root.key() + "/" + l.Field }

func (r Root) String() string {
	switch r.Kind {
	case RAlloc:
		if a, ok := r.Node.(*ssa.Alloc); ok {
			return "local:" + a.Comment
		}
	}
	return r.key()
}

// shared reports whether the root is process-wide state (package-level storage
// or an object reachable from a package-level pointer).
func (r Root) shared() bool {
	switch r.Kind {
	case RGlobal, RGlobalObj:
		return true
	case RDeref:
		return r.Base.shared()
	}
	return false
}

// paramRooted returns the parameter index when the root is (reachable from) a
// parameter, else -1.
func (r Root) paramRooted() int {
	switch r.Kind {
	case RParam:
		return r.Param
	case RDeref:
		return r.Base.paramRooted()
	}
	return -1
}

type provCtx struct {
	w    *World
	fn   *ssa.Function
	dead map[*ssa.BasicBlock]bool // blocks pruned by the current assumptions (may be nil)
	memo map[ssa.Value][]Loc
	busy map[ssa.Value]bool
	// deadEdgeFn, when set, reports CFG edges pruned by the current assumptions.
	deadEdgeFn func(from, to *ssa.BasicBlock) bool
	// distinctParams: the flow engine's convention — parameters are distinct objects, except the pair
	// (sameA, sameB) when sameB >= 0, which is assumed to be one object.
	distinctParams bool
	sameA, sameB   int
}

func (w *World) newProv(fn *ssa.Function, dead map[*ssa.BasicBlock]bool) *provCtx {
	return &provCtx{w: w, fn: fn, dead: dead, memo: map[ssa.Value][]Loc{}, busy: map[ssa.Value]bool{}}
}

func dedupLocs(in []Loc) []Loc {
	seen := map[string]bool{}
	var out []Loc
	for _, l := range in {
		k := l.key()
		if !seen[k] {
			seen[k] = true
			out = append(out, l)
		}
	}
	sort.Slice(out, func(i, j int) bool { return out[i].key() < out[j].key() })
	return out
}

func withField(ls []Loc, f string) []Loc {
	out := make([]Loc, 0, len(ls))
	for _, l := range ls {
		if l.Field == "" {
			l.Field = f
		}
		out = append(out, l)
	}
	return out
}

// roots returns the locations pointer-like value v may point to.
func (p *provCtx) roots(v ssa.Value) []Loc {
	if r, ok := p.memo[v]; ok {
		return r
	}
	if p.busy[v] {
		return nil // cycle through phi: contributes nothing new
	}
	p.busy[v] = true
	r := dedupLocs(p.roots1(v))
	delete(p.busy, v)
	p.memo[v] = r
	return r
}

func (p *provCtx) roots1(v ssa.Value) []Loc {
	switch v := v.(type) {
	case *ssa.Parameter:
		for i, q := range p.fn.Params {
			if q == v {
				return []Loc{{Root: Root{Kind: RParam, Param: i, Name: v.Name()}}}
			}
		}
		return []Loc{{Root: Root{Kind: RUnknown}}}
	case *ssa.Alloc:
		return []Loc{{Root: Root{Kind: RAlloc, Node: v, Name: v.Comment}}}
	case *ssa.Global:
		return []Loc{{Root: Root{Kind: RGlobal, Name: v.Name()}}}
	case *ssa.Const:
		if v.IsNil() {
			return []Loc{{Root: Root{Kind: RNil}}}
		}
		return nil
	case *ssa.FieldAddr:
		pt := pointee(v.X.Type())
		if typeIs(pt, apdPath, "BigInt") || typeIs(pt, "math/big", "Int") || typeIs(pt, apdPath, "intStruct") {
			// BigInt (and the big.Int it wraps) is one abstract field.
			return p.roots(v.X)
		}
		st := pt.Underlying().(*types.Struct)
		return withField(p.roots(v.X), st.Field(v.Field).Name())
	case *ssa.IndexAddr:
		return p.roots(v.X)
	case *ssa.Slice:
		return p.roots(v.X)
	case *ssa.Phi:
		var out []Loc
		for i, e := range v.Edges {
			if p.dead != nil && p.dead[v.Block().Preds[i]] {
				continue
			}
			if p.deadEdge(v.Block().Preds[i], v.Block()) {
				continue
			}
			out = append(out, p.roots(e)...)
		}
		return out
	case *ssa.ChangeType:
		return p.roots(v.X)
	case *ssa.Convert:
		return p.roots(v.X)
	case *ssa.MakeInterface:
		return p.roots(v.X)
	case *ssa.ChangeInterface:
		return p.roots(v.X)
	case *ssa.TypeAssert:
		return p.roots(v.X)
	case *ssa.UnOp:
		if v.Op.String() != "*" {
			return nil
		}
		// load of a pointer (or slice/interface) from memory
		return p.loadRoots(v.X)
	case *ssa.Extract:
		if c, ok := v.Tuple.(*ssa.Call); ok {
			return p.callRoots(c, v.Index)
		}
		return p.roots(v.Tuple)
	case *ssa.Call:
		return p.callRoots(v, 0)
	case *ssa.MakeSlice:
		return []Loc{{Root: Root{Kind: RFresh, Name: "make"}}}
	case *ssa.BinOp, *ssa.Field, *ssa.Index, *ssa.Lookup, *ssa.MakeMap, *ssa.Range, *ssa.Next, *ssa.MakeChan, *ssa.Select, *ssa.MakeClosure, *ssa.FreeVar, *ssa.Function, *ssa.Builtin:
		return []Loc{{Root: Root{Kind: RUnknown}}}
	}
	return []Loc{{Root: Root{Kind: RUnknown}}}
}

func (p *provCtx) deadEdge(from, to *ssa.BasicBlock) bool {
	return p.deadEdgeFn != nil && p.deadEdgeFn(from, to)
}

// loadRoots: v = *addr where the loaded value is itself pointer-like.
func (p *provCtx) loadRoots(addr ssa.Value) []Loc {
	switch a := addr.(type) {
	case *ssa.Global:
		return []Loc{{Root: Root{Kind: RGlobalObj, Name: a.Name()}}}
	case *ssa.Alloc:
		// address-taken local pointer variable: union over all stores
		var out []Loc
		found := false
		for _, b := range p.fn.Blocks {
			for _, in := range b.Instrs {
				if st, ok := in.(*ssa.Store); ok && st.Addr == a {
					found = true
					out = append(out, p.roots(st.Val)...)
				}
			}
		}
		if !found {
			return []Loc{{Root: Root{Kind: RNil}}}
		}
		return out
	}
	// pointer loaded from a field / element of some object
	base := p.roots(addr)
	var out []Loc
	for _, l := range base {
		b := l.Root
		out = append(out, Loc{Root: Root{Kind: RDeref, Base: &b, Name: l.Field}})
	}
	return out
}

// callRoots resolves the provenance of result #idx of a call.
func (p *provCtx) callRoots(c *ssa.Call, idx int) []Loc {
	w := p.w
	cc := c.Common()
	f := cc.StaticCallee()
	if f == nil {
		if b, ok := cc.Value.(*ssa.Builtin); ok && b.Name() == "append" {
			return p.roots(cc.Args[0])
		}
		return []Loc{{Root: Root{Kind: RExtern, Name: w.calleeName(c)}}}
	}
	if !w.inPkg(f) {
		name := f.String()
		// math/big methods returning their receiver
		if strings.HasPrefix(name, "(*math/big.Int).") && isPointer(c.Type()) && typeIs(c.Type(), "math/big", "Int") && f.Signature.Results().Len() == 1 {
			return p.roots(cc.Args[0])
		}
		return []Loc{{Root: Root{Kind: RExtern, Name: name}}}
	}
	// the alias-aware view helpers: which view comes back depends on whether receiver and `a` are one object
	if n := w.shortName(f); p.distinctParams && (n == "(*BigInt).innerOrAlias" || n == "(*BigInt).innerOrNilOrAlias") && len(cc.Args) > 3 {
		if rp, ok := soleParam(p.roots(cc.Args[0])); ok {
			if ap, ok := soleParam(p.roots(cc.Args[2])); ok {
				same := rp == ap || (p.sameB >= 0 && (rp == p.sameA && ap == p.sameB || rp == p.sameB && ap == p.sameA))
				var out []Loc
				if same {
					out = append(out, p.roots(cc.Args[3])...)
				} else {
					out = append(out, p.roots(cc.Args[0])...)
				}
				if n == "(*BigInt).innerOrNilOrAlias" {
					out = append(out, Loc{Root: Root{Kind: RNil}})
				}
				return out
			}
		}
	}
	s := w.summary(f)
	if idx >= len(s.Returns) {
		return []Loc{{Root: Root{Kind: RUnknown}}}
	}
	var out []Loc
	for _, rl := range s.Returns[idx] {
		out = append(out, p.translate(rl, f, cc.Args)...)
	}
	return out
}

// translate maps a callee-frame location to caller-frame locations.
func (p *provCtx) translate(l Loc, f *ssa.Function, args []ssa.Value) []Loc {
	switch l.Root.Kind {
	case RParam:
		if l.Root.Param >= len(args) {
			return []Loc{{Root: Root{Kind: RUnknown}}}
		}
		return withField(p.roots(args[l.Root.Param]), l.Field)
	case RAlloc:
		return []Loc{{Root: Root{Kind: RFresh, Name: p.w.shortName(f)}, Field: l.Field}}
	case RDeref:
		bases := p.translate(Loc{Root: *l.Root.Base}, f, args)
		var out []Loc
		for _, b := range bases {
			br := b.Root
			out = append(out, Loc{Root: Root{Kind: RDeref, Base: &br, Name: l.Root.Name}, Field: l.Field})
		}
		return out
	default:
		return []Loc{l}
	}
}

// soleParam: ls is exactly one parameter object (whole object, no field).
func soleParam(ls []Loc) (int, bool) {
	if len(ls) != 1 || ls[0].Root.Kind != RParam {
		return 0, false
	}
	return ls[0].Root.Param, true
}
