package main

import (
	"fmt"
	"go/token"
	"go/types"
	"sort"
	"strings"

	"golang.org/x/tools/go/ssa"
)

func init() {
	register(&Rule{ID: "C05.R1", Min: 78,
		Text: "RAW: under the assumption that a destination parameter and an operand parameter are the same object, no path writes a field through the destination and later reads that field through the operand (copies d.F = s.F are the identity under aliasing and do not count)",
		Run:  ruleRAW})
	register(&Rule{ID: "C05.R2", Min: 36,
		Text: "BigInt wrappers: every inner(&tmpN) in a function uses a distinct temporary, and the math/big methods that compare pointers (Mod, DivMod: y==z; GCD: y==b) receive the aliased view through innerOrAlias/innerOrNilOrAlias",
		Run:  ruleTmpDistinct})
	register(&Rule{ID: "C05.R3", Min: 1,
		Text: "functions documented as not alias-safe are internal and every caller passes a fresh destination or is guarded by a != test",
		Run:  ruleNotAliasSafeCallers})
	register(&Rule{ID: "C06.R1", Min: 34,
		Text: "WRITE-ONLY-UNTIL: no field of a Decimal destination is read before this call has assigned it (the result is independent of the destination's previous contents)",
		Run:  ruleWriteOnlyUntil})
	register(&Rule{ID: "C06.R2", Min: 34,
		Text: "DEF-ASSIGN: on every non-error return on which a Decimal destination has been written at all, Form, Negative, Exponent and Coeff are all definitely assigned",
		Run:  ruleDefAssign})
	register(&Rule{ID: "C06.R3", Min: 115,
		Text: "NO-FLOW: no function writes (directly, through a derived pointer, or by handing it to a writer) through a parameter whose role is operand",
		Run:  ruleOperandsReadOnly})
	register(&Rule{ID: "C06.R4", Min: 25,
		Text: "the Context is never written: every store into a Context object targets a function-local or freshly created Context (WithPrecision / new / composite literal)",
		Run:  ruleContextReadOnly})
	register(&Rule{ID: "C06.R5", Min: 129,
		Text: "shared tables and constants are init-only: no function reachable from the exported API writes through a pointer rooted at package-level storage (including results of tableExp10, exp10, constWithPrecision.get)",
		Run:  ruleSharedInitOnly})
	register(&Rule{ID: "C06.R6", Min: 15,
		Text: "no hidden state: every package-level variable is written only by initialisation code (functions not reachable from the exported API)",
		Run:  ruleGlobalsCensus})
}

// sameTypedPtrPairs enumerates (dest, operand) parameter pairs of f: two
// pointer parameters of identical type where dest may be written and operand
// is read.
func (w *World) destOperandPairs(f *ssa.Function) [][2]int {
	s := w.summary(f)
	var out [][2]int
	for i, p := range f.Params {
		if !isPointer(p.Type()) || len(s.Writes[i]) == 0 {
			continue
		}
		if !(isDecimalPtr(p.Type()) || isBigIntPtr(p.Type())) {
			continue
		}
		for j, q := range f.Params {
			if i == j || !types.Identical(p.Type(), q.Type()) || len(s.Reads[j]) == 0 {
				continue
			}
			out = append(out, [2]int{i, j})
		}
	}
	return out
}

func ruleRAW(w *World, r *RuleResult) {
	for _, name := range w.Names {
		f := w.Funcs[name]
		roles := w.roles(f)
		for _, pr := range w.destOperandPairs(f) {
			d, x := pr[0], pr[1]
			// the property speaks about a destination (by role) aliasing an operand
			// (by role); two outputs sharing one object (QuoRem's z and r, Modf's
			// integ and frac) is not a supported pattern, and writes through
			// operand-role parameters are C06.R3's business.
			if roles[d] != RoleDest || roles[x] != RoleOperand {
				continue
			}
			key := fmt.Sprintf("%s | dest=%s operand=%s", name, f.Params[d].Name(), f.Params[x].Name())
			if !w.mayAliasAtSomeCall(f, d, x, 0) {
				// an internal helper whose every call site hands it provably distinct objects (distinct
				// locals, a local and a parameter's field, …): the aliasing the property speaks of cannot arise
				r.ok(key, w.pos(f.Pos()), "never called with these two parameters aliased (all call sites resolved)", false)
				continue
			}
			fr := w.flow(f, d, x)
			if len(fr.Hazards) == 0 {
				nontriv := fr.WritesAnything
				r.ok(key, w.pos(f.Pos()), fmt.Sprintf("no read of %s.F after a non-copy write of %s.F on any path (assuming %s == %s; guard edges contradicting that are pruned)",
					f.Params[x].Name(), f.Params[d].Name(), f.Params[d].Name(), f.Params[x].Name()), nontriv)
				continue
			}
			var parts []string
			for _, h := range fr.Hazards {
				parts = append(parts, fmt.Sprintf("field %s: %s after %s write at %s", h.Field, w.effectString(h.Read), h.Tag, w.instrPos(h.WriteAt)))
			}
			sort.Strings(parts)
			r.bad(key, w.instrPos(fr.Hazards[0].Read.In), "read-after-write under aliasing: "+strings.Join(uniqStrings(parts), "; "))
		}
	}
}

func uniqStrings(in []string) []string {
	seen := map[string]bool{}
	var out []string
	for _, s := range in {
		if !seen[s] {
			seen[s] = true
			out = append(out, s)
		}
	}
	return out
}

// --- C05.R2 -----------------------------------------------------------------

// bigPointerCompare: math/big methods that compare argument *pointers* with
// the receiver or another argument (from math/big's source; trusted base):
// method -> [2]int{arg index, arg index it is compared with}.
var bigPointerCompare = map[string][2]int{
	"Mod":    {2, 0}, // y == z
	"DivMod": {2, 0}, // y == z
	"GCD":    {2, 4}, // y == b ("avoid aliasing b")
}

func ruleTmpDistinct(w *World, r *RuleResult) {
	innerFns := map[string]bool{"(*BigInt).inner": true, "(*BigInt).innerOrNil": true, "(*BigInt).innerOrAlias": true, "(*BigInt).innerOrNilOrAlias": true}
	if !r.need(w, "(*BigInt).inner") {
		return
	}
	for _, name := range w.Names {
		f := w.Funcs[name]
		if innerFns[name] {
			continue
		}
		// (a) distinct temporaries
		used := map[ssa.Value][]string{}
		n := 0
		for _, b := range f.Blocks {
			for _, in := range b.Instrs {
				c, ok := in.(*ssa.Call)
				if !ok {
					continue
				}
				g := callee(c)
				if g == nil || !innerFns[w.shortName(g)] {
					continue
				}
				n++
				tmp := c.Common().Args[1]
				used[tmp] = append(used[tmp], w.instrPos(c))
			}
		}
		if n > 0 {
			key := name + " | distinct inner temporaries"
			bad := ""
			for tmp, sites := range used {
				if len(sites) > 1 {
					if _, isAlloc := tmp.(*ssa.Alloc); isAlloc || true {
						bad += fmt.Sprintf("temporary %s is shared by %d inner() calls (%s); ", tmp.Name(), len(sites), strings.Join(sites, ", "))
					}
				}
			}
			if bad != "" {
				r.bad(key, w.pos(f.Pos()), bad)
			} else {
				r.ok(key, w.pos(f.Pos()), fmt.Sprintf("%d inner views, %d distinct temporaries", n, len(used)), n > 1)
			}
		}
		// (b) pointer-comparing math/big methods
		for _, b := range f.Blocks {
			for _, in := range b.Instrs {
				c, ok := in.(*ssa.Call)
				if !ok {
					continue
				}
				cn := w.calleeName(c)
				if !strings.HasPrefix(cn, "(*math/big.Int).") {
					continue
				}
				m := strings.TrimPrefix(cn, "(*math/big.Int).")
				pc, ok := bigPointerCompare[m]
				if !ok {
					continue
				}
				key := fmt.Sprintf("%s | big.%s pointer-compared argument", name, m)
				arg := c.Common().Args[pc[0]]
				other := c.Common().Args[pc[1]]
				// in the wrapper of the same name the arguments line up with the parameters: what is
				// required is that, when the two BigInts are one object, both positions receive one view
				if m == w.wrapperMethod(f) && len(c.Common().Args) == len(f.Params) {
					va, vo := w.viewUnderPair(f, pc[0], pc[1], arg), w.viewUnderPair(f, pc[0], pc[1], other)
					if len(va) == 1 && len(vo) == 1 && va[0] == vo[0] {
						r.ok(key, w.instrPos(c), fmt.Sprintf("when %s and %s are one object both positions receive the same *big.Int", f.Params[pc[0]].Name(), f.Params[pc[1]].Name()), true)
						continue
					}
				}
				// the view may be chosen among several (a φ): what counts is the one that is passed when the
				// two BigInts are the same object
				if phi, isPhi := arg.(*ssa.Phi); isPhi {
					if sel, ok := w.phiUnderAliasing(f, phi); ok {
						arg = sel
					}
				}
				ic, isCall := arg.(*ssa.Call)
				if !isCall {
					r.bad(key, w.instrPos(c), "argument compared by pointer inside math/big is not produced by an inner*OrAlias helper")
					continue
				}
				g := callee(ic)
				gn := ""
				if g != nil {
					gn = w.shortName(g)
				}
				if gn != "(*BigInt).innerOrAlias" && gn != "(*BigInt).innerOrNilOrAlias" {
					r.bad(key, w.instrPos(c), fmt.Sprintf("math/big.%s compares this argument's pointer with another; it is produced by %s, which yields a distinct temporary when the BigInts alias (math/big then misses the aliasing)", m, gn))
					continue
				}
				// the alias helper must be told the right partner: its `ai`
				// argument must be the very value passed at the compared position
				ai := ic.Common().Args[3]
				if ai != other {
					r.bad(key, w.instrPos(c), "the alias helper is given a view that is not the one math/big compares with")
					continue
				}
				r.ok(key, w.instrPos(c), "aliased operand reuses the partner's *big.Int via "+gn, true)
			}
		}
	}
}

// --- C05.R3 -----------------------------------------------------------------

func ruleNotAliasSafeCallers(w *World, r *RuleResult) {
	// integerPower documents "d and x must not point to the same Decimal".
	// The RAW rule decides whether that still matters; independently, every
	// caller must pass a destination that cannot be the operand.
	f := w.fn("(*Context).integerPower")
	if f == nil {
		r.anchorMissing("(*Context).integerPower")
		return
	}
	if f.Object() != nil && f.Object().Exported() {
		r.bad("(*Context).integerPower | internal", w.pos(f.Pos()), "function documented as not alias-safe became exported")
	}
	di, xi := destArgIndex(w, f), -1
	for i, q := range f.Params {
		if i != di && isDecimalPtr(q.Type()) && xi < 0 {
			xi = i
		}
	}
	if di < 0 || xi < 0 {
		r.anchorMissing("(*Context).integerPower params d,x")
		return
	}
	// If integerPower is itself alias-safe (no hazard for d==x) callers are free.
	selfSafe := len(w.flow(f, di, xi).Hazards) == 0
	for _, c := range w.callersOf(f) {
		g := c.Parent()
		key := fmt.Sprintf("%s | call integerPower(d, x)", w.shortName(g))
		if selfSafe {
			r.ok(key, w.instrPos(c), "callee reads x completely before writing d (RAW-free under d==x), so any destination is acceptable", true)
			continue
		}
		p := w.newProv(g, nil)
		dl, xl := p.roots(c.Common().Args[di]), p.roots(c.Common().Args[xi])
		overlap := false
		for _, a := range dl {
			for _, b := range xl {
				if a.Root.key() == b.Root.key() {
					overlap = true
				}
				if a.Root.Kind == RParam && b.Root.Kind == RParam && a.Root.Param != b.Root.Param &&
					types.Identical(g.Params[a.Root.Param].Type(), g.Params[b.Root.Param].Type()) {
					// two parameters may alias unless the call is guarded
					fr := w.flow(g, a.Root.Param, b.Root.Param)
					_ = fr
					if !w.guardedDistinct(g, c, a.Root.Param, b.Root.Param) {
						overlap = true
					}
				}
			}
		}
		if overlap {
			r.bad(key, w.instrPos(c), "destination may be the same object as the operand x of a callee that is not alias-safe")
		} else {
			r.ok(key, w.instrPos(c), "destination is fresh/local or distinct from x on every path", true)
		}
	}
}

// guardedDistinct: under the assumption param a == param b, the call is
// unreachable or its destination argument no longer roots at a.
func (w *World) guardedDistinct(g *ssa.Function, call ssa.CallInstruction, a, b int) bool {
	c := &flowCtx{w: w, k: flowKey{g, a, b}, f: g}
	c.computeDead()
	if c.dead[call.Block()] {
		return true
	}
	p := w.newProv(g, c.dead)
	p.deadEdgeFn = func(from, to *ssa.BasicBlock) bool {
		for i, s := range from.Succs {
			if s == to && !c.edgeDead(from, i) {
				return false
			}
		}
		return true
	}
	f := callee(call)
	di := destArgIndex(w, f)
	for _, l := range p.roots(call.Common().Args[di]) {
		if l.Root.Kind == RParam && l.Root.Param == a {
			return false
		}
	}
	return true
}

// --- C06.R1 / R2 ------------------------------------------------------------

var decimalFields = []string{"Form", "Negative", "Exponent", "Coeff"}

// decimalDests lists (function, param) pairs where the parameter is a Decimal
// destination by role.
func (w *World) decimalDests() [][2]interface{} {
	var out [][2]interface{}
	for _, name := range w.Names {
		f := w.Funcs[name]
		roles := w.roles(f)
		if f.Object() == nil || !f.Object().Exported() {
			// internal helpers may assign a destination partially (setCoefficient);
			// they are composed into their exported callers through summaries.
			continue
		}
		for i, p := range f.Params {
			if roles[i] == RoleDest && isDecimalPtr(p.Type()) {
				out = append(out, [2]interface{}{f, i})
			}
		}
	}
	return out
}

// inOutDecimal: destinations that are by contract read-modify-write (the
// receiver already holds the value being adjusted).
var inOutDecimal = map[string]string{
	"(*Decimal).setExponent": "in-out: adjusts the receiver that the caller has just computed",
}

func ruleWriteOnlyUntil(w *World, r *RuleResult) {
	for _, df := range w.decimalDests() {
		f, i := df[0].(*ssa.Function), df[1].(int)
		name := w.shortName(f)
		key := fmt.Sprintf("%s | dest=%s", name, f.Params[i].Name())
		if why := inOutDecimal[name]; why != "" {
			r.ok(key, w.pos(f.Pos()), "tabled: "+why, false)
			continue
		}
		fr := w.flow(f, i, -1)
		ue := sortedUE(fr.UERead)
		if len(ue) == 0 {
			r.ok(key, w.pos(f.Pos()), "every read of the destination is dominated by an assignment of that field in this call", fr.WritesAnything)
			continue
		}
		var parts []string
		for _, fl := range ue {
			for _, e := range fr.UERead[fl] {
				parts = append(parts, fmt.Sprintf("%s read before assigned: %s", fl, w.effectString(e)))
			}
		}
		r.bad(key, w.instrPos(fr.UERead[ue[0]][0].In), strings.Join(uniqStrings(parts), "; "))
	}
}

func ruleDefAssign(w *World, r *RuleResult) {
	for _, df := range w.decimalDests() {
		f, i := df[0].(*ssa.Function), df[1].(int)
		name := w.shortName(f)
		key := fmt.Sprintf("%s | dest=%s", name, f.Params[i].Name())
		if why := inOutDecimal[name]; why != "" {
			r.ok(key, w.pos(f.Pos()), "tabled: "+why, false)
			continue
		}
		fr := w.flow(f, i, -1)
		var bad []string
		nret := 0
		for _, rs := range fr.Returns {
			if rs.IsError || len(rs.May) == 0 {
				continue
			}
			nret++
			var missing []string
			for _, fl := range decimalFields {
				if !rs.Must[fl] {
					missing = append(missing, fl)
				}
			}
			if len(missing) > 0 {
				bad = append(bad, fmt.Sprintf("return at %s: destination written (%s) but %s not assigned on every path to it", w.instrPos(rs.In), mayString(rs.May), strings.Join(missing, ",")))
			}
		}
		if len(bad) > 0 {
			r.bad(key, w.pos(f.Pos()), strings.Join(bad, "; "))
		} else {
			r.ok(key, w.pos(f.Pos()), fmt.Sprintf("%d result-delivering returns, all four fields definitely assigned on each", nret), nret > 0)
		}
	}
}

// --- C06.R3 -----------------------------------------------------------------

func ruleOperandsReadOnly(w *World, r *RuleResult) {
	for _, name := range w.Names {
		f := w.Funcs[name]
		roles := w.roles(f)
		hasOperand := false
		for i := range f.Params {
			if roles[i] == RoleOperand {
				hasOperand = true
			}
		}
		if !hasOperand {
			continue
		}
		viol := map[int][]string{}
		for oi := range f.Params {
			if roles[oi] != RoleOperand {
				continue
			}
			// an operand that is the same object as a destination/out parameter is a destination: the branches
			// taken only then (p_operand == p_out) are pruned for this operand
			p := w.provOperandDistinct(f, oi, roles)
			for _, b := range f.Blocks {
				for _, in := range b.Instrs {
					for _, e := range w.instrEffects(p, in, nil) {
						if !e.Write || e.Loc.Root.Kind != RParam {
							continue
						}
						i := e.Loc.Root.Param
						if i != oi {
							continue
						}
						// a write through a callee's own operand parameter is
						// reported in that callee
						if ci, ok := in.(ssa.CallInstruction); ok {
							if g := callee(ci); g != nil && w.inPkg(g) {
								gr := w.roles(g)
								if e.Arg < len(gr) && gr[e.Arg] == RoleOperand {
									continue
								}
							}
						}
						viol[i] = append(viol[i], w.effectString(e))
					}
				}
			}
		}
		for i, p := range f.Params {
			if roles[i] != RoleOperand {
				continue
			}
			key := fmt.Sprintf("%s | operand=%s", name, p.Name())
			if len(viol[i]) > 0 {
				r.bad(key, w.pos(f.Pos()), "operand is written: "+strings.Join(uniqStrings(viol[i]), "; "))
			} else {
				s := w.summary(f)
				r.ok(key, w.pos(f.Pos()), "mod-set through this parameter (incl. derived pointers and callees) is empty", len(s.Reads[i]) > 0)
			}
		}
	}
}

// --- C06.R4 -----------------------------------------------------------------

func ruleContextReadOnly(w *World, r *RuleResult) {
	reach := w.apiReachable()
	for _, name := range w.Names {
		f := w.Funcs[name]
		if !reach[f] {
			continue // package initialisers build BaseContext; covered by C06.R5/R6
		}
		p := w.newProv(f, nil)
		var viol []string
		nStores := 0
		for _, b := range f.Blocks {
			for _, in := range b.Instrs {
				switch x := in.(type) {
				case *ssa.Store:
					base := x.Addr
					for {
						if fa, ok := base.(*ssa.FieldAddr); ok {
							base = fa.X
							continue
						}
						break
					}
					if !isContextPtr(base.Type()) {
						continue
					}
					nStores++
					for _, l := range p.roots(base) {
						if !w.localContextRoot(f, l.Root, 0) {
							viol = append(viol, fmt.Sprintf("store into Context rooted at %s at %s", l.Root, w.instrPos(in)))
						}
					}
				case ssa.CallInstruction:
					g := callee(x)
					if g == nil || !w.inPkg(g) {
						continue
					}
					s := w.summary(g)
					for i, q := range g.Params {
						if !isContextPtr(q.Type()) || len(s.Writes[i]) == 0 || i >= len(x.Common().Args) {
							continue
						}
						nStores++
						for _, l := range p.roots(x.Common().Args[i]) {
							if !w.localContextRoot(f, l.Root, 0) {
								viol = append(viol, fmt.Sprintf("Context rooted at %s handed to %s, which writes it, at %s", l.Root, w.shortName(g), w.instrPos(in)))
							}
						}
					}
				}
			}
		}
		hasCtx := false
		for _, q := range f.Params {
			if isContextPtr(q.Type()) {
				hasCtx = true
			}
		}
		if !hasCtx && nStores == 0 {
			continue
		}
		key := name + " | Context writes"
		if len(viol) > 0 {
			r.bad(key, w.pos(f.Pos()), strings.Join(uniqStrings(viol), "; "))
		} else {
			r.ok(key, w.pos(f.Pos()), fmt.Sprintf("%d stores/writer calls on Context objects, all on local or fresh contexts", nStores), nStores > 0)
		}
	}
	// no store to BaseContext outside its initialiser is covered by C06.R5/R6.
}

// localContextRoot: the root is a local allocation or a fresh object; a
// parameter of a non-exported helper is accepted when every caller passes a
// local/fresh context.
func (w *World) localContextRoot(f *ssa.Function, rt Root, depth int) bool {
	switch rt.Kind {
	case RAlloc, RFresh:
		return true
	case RParam:
		if depth > 4 || (f.Object() != nil && f.Object().Exported()) {
			return false
		}
		callers := w.callersOf(f)
		if len(callers) == 0 {
			return false
		}
		for _, c := range callers {
			g := c.Parent()
			p := w.newProv(g, nil)
			for _, l := range p.roots(c.Common().Args[rt.Param]) {
				if !w.localContextRoot(g, l.Root, depth+1) {
					return false
				}
			}
		}
		return true
	}
	return false
}

// --- C06.R5 / R6 ------------------------------------------------------------

func (w *World) apiReachable() map[*ssa.Function]bool {
	return w.reachable(w.exportedAPI())
}

func ruleSharedInitOnly(w *World, r *RuleResult) {
	reach := w.apiReachable()
	for _, name := range w.Names {
		f := w.Funcs[name]
		if !reach[f] {
			continue
		}
		p := w.newProv(f, nil)
		var viol []string
		nShared := 0
		unk := map[string]bool{}
		for _, b := range f.Blocks {
			for _, in := range b.Instrs {
				for _, e := range w.instrEffects(p, in, unk) {
					if !e.Loc.Root.shared() {
						continue
					}
					nShared++
					if e.Write {
						// writes already attributed to a callee reachable from the API are reported there
						if ci, ok := in.(ssa.CallInstruction); ok && e.Via != "" {
							if g := callee(ci); g != nil && w.inPkg(g) && len(w.summary(g).GWrites) > 0 && e.Loc.Root.Kind == RGlobal && w.summary(g).GWrites[e.Loc.Root.Name] && !argShared(p, ci) {
								continue
							}
						}
						viol = append(viol, w.effectString(e))
					}
				}
			}
		}
		for u := range unk {
			if strings.Contains(u, "global") {
				viol = append(viol, "pointer into shared state escapes to unanalysed callee: "+u)
			}
		}
		key := name + " | shared state"
		if len(viol) > 0 {
			r.bad(key, w.pos(f.Pos()), "write through a pointer rooted at package-level state: "+strings.Join(uniqStrings(viol), "; "))
		} else {
			r.ok(key, w.pos(f.Pos()), fmt.Sprintf("%d accesses to shared tables/constants, all reads", nShared), nShared > 0)
		}
	}
}

// argShared reports whether any pointer argument of the call is rooted at
// shared state (then the write is this function's doing, not the callee's).
func argShared(p *provCtx, c ssa.CallInstruction) bool {
	for _, a := range c.Common().Args {
		if !pointerLike(a.Type()) {
			continue
		}
		for _, l := range p.roots(a) {
			if l.Root.shared() {
				return true
			}
		}
	}
	return false
}

func ruleGlobalsCensus(w *World, r *RuleResult) {
	reach := w.apiReachable()
	writers := map[string][]string{}
	for _, name := range w.Names {
		f := w.Funcs[name]
		if !reach[f] {
			continue
		}
		p := w.newProv(f, nil)
		for _, b := range f.Blocks {
			for _, in := range b.Instrs {
				if _, isCall := in.(ssa.CallInstruction); isCall {
					// only direct stores and external-call writes are attributed here;
					// in-package callees are visited themselves
					if g := callee(in.(ssa.CallInstruction)); g != nil && w.inPkg(g) {
						// still attribute writes made through shared pointers passed as arguments
						for _, e := range w.instrEffects(p, in, nil) {
							if e.Write && e.Loc.Root.shared() && argShared(p, in.(ssa.CallInstruction)) {
								gn := rootGlobalName(e.Loc.Root)
								writers[gn] = append(writers[gn], w.effectString(e)+" in "+name)
							}
						}
						continue
					}
				}
				for _, e := range w.instrEffects(p, in, nil) {
					if e.Write && e.Loc.Root.shared() {
						gn := rootGlobalName(e.Loc.Root)
						writers[gn] = append(writers[gn], w.effectString(e)+" in "+name)
					}
				}
			}
		}
	}
	var names []string
	for n, m := range w.SSA.Members {
		if _, ok := m.(*ssa.Global); ok && !strings.HasPrefix(n, "init$") {
			names = append(names, n)
		}
	}
	sort.Strings(names)
	for _, n := range names {
		key := "var " + n
		g := w.SSA.Members[n].(*ssa.Global)
		if ws := writers[n]; len(ws) > 0 {
			r.bad(key, w.pos(g.Pos()), "package-level state written by code reachable from the exported API: "+strings.Join(uniqStrings(ws), "; "))
		} else {
			r.ok(key, w.pos(g.Pos()), "written only by initialisation code; read-only afterwards", true)
		}
	}
}

// mayAliasAtSomeCall: can parameters d and x of f denote the same object at
// some call? Exported functions: yes (the caller is arbitrary). Unexported:
// only if some resolved call site passes arguments whose provenance may
// coincide — the same value, a common root, or two parameters of the caller
// that may themselves alias. Anything unresolved answers yes.
func (w *World) mayAliasAtSomeCall(f *ssa.Function, d, x int, depth int) bool {
	if f.Object() == nil || f.Object().Exported() || depth > 4 {
		return true
	}
	callers := w.callersOf(f)
	if len(callers) == 0 {
		return true
	}
	for _, c := range callers {
		args := c.Common().Args
		if c.Common().IsInvoke() || len(args) != len(f.Params) {
			return true
		}
		if _, isCall := c.(*ssa.Call); !isCall {
			return true // go/defer: not reasoned about
		}
		g := c.Parent()
		p := w.newProv(g, nil)
		rd, rx := p.roots(args[d]), p.roots(args[x])
		if len(rd) == 0 || len(rx) == 0 {
			return true
		}
		for _, a := range rd {
			for _, b := range rx {
				switch {
				case a.Root.Kind == RAlloc && b.Root.Kind == RAlloc:
					if a.Root.Node == b.Root.Node && a.Field == b.Field {
						return true
					}
				case a.Root.Kind == RParam && b.Root.Kind == RParam:
					if a.Root.Param == b.Root.Param {
						if a.Field == b.Field {
							return true
						}
					} else if a.Field == b.Field && w.mayAliasAtSomeCall(g, a.Root.Param, b.Root.Param, depth+1) {
						return true
					}
				case (a.Root.Kind == RAlloc && b.Root.Kind == RParam) || (a.Root.Kind == RParam && b.Root.Kind == RAlloc):
					// a local of the caller is not reachable from its parameters
				case (a.Root.Kind == RAlloc || a.Root.Kind == RFresh) && (b.Root.Kind == RGlobal || b.Root.Kind == RGlobalObj),
					(b.Root.Kind == RAlloc || b.Root.Kind == RFresh) && (a.Root.Kind == RGlobal || a.Root.Kind == RGlobalObj):
					// a local is not a package-level object
				case a.Root.Kind == RNil || b.Root.Kind == RNil:
				case (a.Root.Kind == RParam && (b.Root.Kind == RGlobal || b.Root.Kind == RGlobalObj) || b.Root.Kind == RParam && (a.Root.Kind == RGlobal || a.Root.Kind == RGlobalObj)) && a.Field != b.Field:
					// a field of a caller-supplied value and a whole package-level object (or the other way
					// round) are different locations: &d.Coeff is inside d, bigTen and the power table are not
					// fields of a Decimal
				default:
					return true
				}
			}
		}
	}
	return false
}

// phiUnderAliasing: phi selects among views of BigInt parameters; one of its edges is an alias-aware helper
// call recv.innerOr…Alias(tmp, a, ai). Under the assumption recv == a (edges contradicting it pruned), if
// exactly one distinct value remains on the live edges it is returned.
func (w *World) phiUnderAliasing(f *ssa.Function, phi *ssa.Phi) (ssa.Value, bool) {
	var helper *ssa.Call
	var walk func(v ssa.Value, d int)
	walk = func(v ssa.Value, d int) {
		if d > 4 || helper != nil {
			return
		}
		switch x := v.(type) {
		case *ssa.Phi:
			for _, e := range x.Edges {
				walk(e, d+1)
			}
		case *ssa.Call:
			if n := w.calleeName(x); (n == "(*BigInt).innerOrAlias" || n == "(*BigInt).innerOrNilOrAlias") && len(x.Common().Args) > 3 {
				helper = x
			}
		}
	}
	walk(phi, 0)
	if helper == nil {
		return nil, false
	}
	rp, ok1 := helper.Common().Args[0].(*ssa.Parameter)
	ap, ok2 := helper.Common().Args[2].(*ssa.Parameter)
	if !ok1 || !ok2 {
		return nil, false
	}
	ri, ai := -1, -1
	for i, q := range f.Params {
		if q == rp {
			ri = i
		}
		if q == ap {
			ai = i
		}
	}
	if ri < 0 || ai < 0 {
		return nil, false
	}
	// the convention for a pair under analysis: the two are one non-nil object, every other parameter is
	// a different object
	dead, deadE := deadUnderPair(f, ri, ai)
	leaves := liveLeaves(phi, dead, deadE, 0)
	uniq := map[ssa.Value]bool{}
	for _, l := range leaves {
		uniq[l] = true
	}
	if len(uniq) != 1 {
		return nil, false
	}
	return leaves[0], true
}

// deadUnderPair: blocks and edges of f that are dead when parameters i and j are one non-nil object and
// every other parameter is a different object.
func deadUnderPair(f *ssa.Function, i, j int) (map[*ssa.BasicBlock]bool, map[[2]int]bool) {
	pidx := func(v ssa.Value) int {
		for k, q := range f.Params {
			if ssa.Value(q) == v {
				return k
			}
		}
		return -1
	}
	inE := func(k int) bool { return k == i || k == j }
	return deadUnder(f, func(bo *ssa.BinOp) (bool, bool) {
		x, y := pidx(bo.X), pidx(bo.Y)
		eq := false
		switch {
		case x >= 0 && y >= 0:
			eq = x == y || (inE(x) && inE(y))
		case x >= 0 && inE(x) && isNilConst(bo.Y), y >= 0 && inE(y) && isNilConst(bo.X):
			eq = false
		default:
			return false, false
		}
		return eq == (bo.Op == token.EQL), true
	})
}

// provOperandDistinct: provenance for f in which the edges taken only when operand parameter oi is the
// same object as a non-operand (destination / out) parameter are dead.
func (w *World) provOperandDistinct(f *ssa.Function, oi int, roles []Role) *provCtx {
	dead, deadE := deadAssumingDistinct(f, func(i, j int) bool {
		other := -1
		if i == oi {
			other = j
		} else if j == oi {
			other = i
		}
		return other >= 0 && other < len(roles) && roles[other] != RoleOperand
	})
	p := w.newProv(f, dead)
	p.deadEdgeFn = func(from, to *ssa.BasicBlock) bool {
		if dead[from] {
			return true
		}
		for si, s := range from.Succs {
			if s == to && !deadE[[2]int{from.Index, si}] {
				return false
			}
		}
		return true
	}
	return p
}

// deadAssumingDistinct: the blocks and edges of f that are dead when the parameter pairs selected by
// distinct(i, j) are different objects (the equal edge of every p_i == p_j / p_i != p_j test is dead).
func deadAssumingDistinct(f *ssa.Function, distinct func(i, j int) bool) (map[*ssa.BasicBlock]bool, map[[2]int]bool) {
	pidx := func(v ssa.Value) int {
		for i, q := range f.Params {
			if ssa.Value(q) == v {
				return i
			}
		}
		return -1
	}
	deadE := map[[2]int]bool{}
	for _, b := range f.Blocks {
		if len(b.Instrs) == 0 {
			continue
		}
		iff, ok := b.Instrs[len(b.Instrs)-1].(*ssa.If)
		if !ok {
			continue
		}
		bo, ok := iff.Cond.(*ssa.BinOp)
		if !ok || (bo.Op != token.EQL && bo.Op != token.NEQ) {
			continue
		}
		x, y := pidx(bo.X), pidx(bo.Y)
		if x < 0 || y < 0 || !distinct(x, y) {
			continue
		}
		if bo.Op == token.EQL {
			deadE[[2]int{b.Index, 0}] = true
		} else {
			deadE[[2]int{b.Index, 1}] = true
		}
	}
	reach := map[*ssa.BasicBlock]bool{}
	var visit func(b *ssa.BasicBlock)
	visit = func(b *ssa.BasicBlock) {
		if reach[b] {
			return
		}
		reach[b] = true
		for si, s := range b.Succs {
			if !deadE[[2]int{b.Index, si}] {
				visit(s)
			}
		}
	}
	if len(f.Blocks) > 0 {
		visit(f.Blocks[0])
	}
	dead := map[*ssa.BasicBlock]bool{}
	for _, b := range f.Blocks {
		if !reach[b] {
			dead[b] = true
		}
	}
	return dead, deadE
}

// deadUnder: dead blocks/edges of f when decide settles the pointer comparisons it knows about.
func deadUnder(f *ssa.Function, decide func(bo *ssa.BinOp) (bool, bool)) (map[*ssa.BasicBlock]bool, map[[2]int]bool) {
	deadE := map[[2]int]bool{}
	for _, b := range f.Blocks {
		if len(b.Instrs) == 0 {
			continue
		}
		iff, ok := b.Instrs[len(b.Instrs)-1].(*ssa.If)
		if !ok {
			continue
		}
		bo, ok := iff.Cond.(*ssa.BinOp)
		if !ok || (bo.Op != token.EQL && bo.Op != token.NEQ) {
			continue
		}
		val, known := decide(bo)
		if !known {
			continue
		}
		if val {
			deadE[[2]int{b.Index, 1}] = true
		} else {
			deadE[[2]int{b.Index, 0}] = true
		}
	}
	reach := map[*ssa.BasicBlock]bool{}
	var visit func(b *ssa.BasicBlock)
	visit = func(b *ssa.BasicBlock) {
		if reach[b] {
			return
		}
		reach[b] = true
		for si, s := range b.Succs {
			if !deadE[[2]int{b.Index, si}] {
				visit(s)
			}
		}
	}
	if len(f.Blocks) > 0 {
		visit(f.Blocks[0])
	}
	dead := map[*ssa.BasicBlock]bool{}
	for _, b := range f.Blocks {
		if !reach[b] {
			dead[b] = true
		}
	}
	return dead, deadE
}

// liveLeaves: the non-φ values v can take on the edges that are not dead.
func liveLeaves(v ssa.Value, dead map[*ssa.BasicBlock]bool, deadE map[[2]int]bool, depth int) []ssa.Value {
	x, isPhi := v.(*ssa.Phi)
	if !isPhi || depth > 5 {
		return []ssa.Value{v}
	}
	var out []ssa.Value
	for i, e := range x.Edges {
		pred := x.Block().Preds[i]
		d := dead[pred]
		for si, s := range pred.Succs {
			if s == x.Block() && deadE[[2]int{pred.Index, si}] {
				d = true
			}
		}
		if !d {
			out = append(out, liveLeaves(e, dead, deadE, depth+1)...)
		}
	}
	return out
}
