package main

import (
	"fmt"
	"go/constant"
	"go/token"
	"sort"
	"strings"

	"golang.org/x/tools/go/ssa"
)

func init() {
	register(&Rule{ID: "C14.R2", Min: 1,
		Text: "special names are alternatives: in the parser a second special-name prefix is only tried on the edge where the first one was not consumed",
		Run:  ruleSpecialNamesExclusive})
	register(&Rule{ID: "C14.R3", Min: 1,
		Text: "payload and exponent are validated: each flows into a strconv.Parse* whose error edge returns an error; the exponent parse is base 10, 32 bit",
		Run:  ruleParseValidated})
	register(&Rule{ID: "C14.R4", Min: 6,
		Text: "one parser: NewFromString, SetString (both receivers), UnmarshalText, Scan, SetFloat64 and the package constants all reach Decimal.setString, which is the only Decimal-level caller of BigInt.SetString",
		Run:  ruleOneParser})
	register(&Rule{ID: "C14.R6", Min: 1,
		Text: "notation switch: Append chooses plain notation exactly under d.Exponent <= 0 ∧ adj >= -6, with the zero special case under BitLen()==0 ∧ -2000 <= Exponent < 0",
		Run:  ruleNotationSwitch})
	register(&Rule{ID: "C15.R2", Min: 1,
		Text: "sign flip on every magnitude comparison: on every path of Decimal.Cmp whose result comes from a BigInt.Cmp, the result is negated iff the operands are negative; the rescale branches multiply the operand with the larger exponent",
		Run:  ruleCmpSignFlip})
	register(&Rule{ID: "C15.R3", Min: 3,
		Text: "CmpTotal's exponent tie-break is flipped for negative values; Context.Cmp has the NaN prologue; Cmp/CmpTotal write nothing",
		Run:  ruleCmpTotal})
}

func strConst(v ssa.Value) (string, bool) {
	k, ok := v.(*ssa.Const)
	if !ok || k.Value == nil || k.Value.Kind() != constant.String {
		return "", false
	}
	return constant.StringVal(k.Value), true
}

func ruleSpecialNamesExclusive(w *World, r *RuleResult) {
	f := w.fn("(*Decimal).setString")
	if f == nil {
		r.anchorMissing("(*Decimal).setString")
		return
	}
	names := map[string]bool{"nan": true, "snan": true, "inf": true, "infinity": true}
	key := "(*Decimal).setString | special-name prefixes are mutually exclusive"
	var bad []string
	total := 0
	top := f
	for _, f := range w.parserFuncs() {
		var calls []*ssa.Call
		for _, c := range w.callsTo(f, "consumePrefix") {
			if s, ok := strConst(c.Common().Args[1]); ok && names[s] {
				calls = append(calls, c)
			}
		}
		total += len(calls)
		for i, a := range calls {
			for j, b := range calls {
				if i == j {
					continue
				}
				// b's input derives from a's remainder?
				derives := false
				w.exprOf(f, b.Common().Args[0]).walk(func(x *Expr) bool {
					if x.V == ssa.Value(a) {
						derives = true
					}
					return true
				})
				if !derives {
					continue
				}
				// then b must sit on the not-consumed edge of a
				excl := false
				for _, g := range guardsAt(b.Block()) {
					if ex, ok := g.Cond.(*ssa.Extract); ok && ex.Tuple == ssa.Value(a) && ex.Index == 1 && !g.Val {
						excl = true
					}
				}
				if !excl {
					sa, _ := strConst(a.Common().Args[1])
					sb, _ := strConst(b.Common().Args[1])
					bad = append(bad, fmt.Sprintf("%q is tried on the remainder of %q even when that was consumed (accepts %q)", sb, sa, sa+sb))
				}
			}
		}
	}
	f = top
	if len(bad) > 0 {
		r.bad(key, w.pos(f.Pos()), strings.Join(uniqStrings(bad), "; "))
	} else {
		r.ok(key, w.pos(f.Pos()), fmt.Sprintf("%d special-name prefix tests; none chained on a consumed remainder", total), true)
	}
}

func ruleParseValidated(w *World, r *RuleResult) {
	f := w.fn("(*Decimal).setString")
	if f == nil {
		r.anchorMissing("(*Decimal).setString")
		return
	}
	n := 0
	pset := w.privateClosure(f)
	// errEdge: the error result (index idx) of call is tested and its non-nil edge returns an error, or it is
	// itself returned as the error result; when that happens inside a helper of the parser, the helper's own
	// error result must be treated the same way at each of its call sites.
	var errEdge func(call *ssa.Call, idx int, depth int) bool
	errEdge = func(call *ssa.Call, idx int, depth int) bool {
		okErr := false
		if refs := call.Referrers(); refs != nil {
			for _, u := range *refs {
				ex, isEx := u.(*ssa.Extract)
				if !isEx || ex.Index != idx {
					continue
				}
				if er := ex.Referrers(); er != nil {
					for _, uu := range *er {
						if rt, isRet := uu.(*ssa.Return); isRet && depth > 0 {
							for _, res := range rt.Results {
								if res == ssa.Value(ex) {
									okErr = true // handed on unchanged as the caller's own error result
								}
							}
						}
						bo, isB := uu.(*ssa.BinOp)
						if !isB || bo.Op != token.NEQ || !isNilConst(bo.Y) {
							continue
						}
						if br := bo.Referrers(); br != nil {
							for _, x := range *br {
								if iff, isIf := x.(*ssa.If); isIf {
									tb := iff.Block().Succs[0]
									if rt, isRet := tb.Instrs[len(tb.Instrs)-1].(*ssa.Return); isRet && w.isErrorReturn(rt) {
										okErr = true
									}
								}
							}
						}
					}
				}
			}
		}
		if !okErr {
			return false
		}
		g := call.Parent()
		if g == f || depth > 3 {
			return true
		}
		ei := g.Signature.Results().Len() - 1
		for _, cs := range w.callersOf(g) {
			cc, isCall := cs.(*ssa.Call)
			if !isCall || !pset[cs.Parent()] || !errEdge(cc, ei, depth+1) {
				return false
			}
		}
		return true
	}
	var calls []ssa.CallInstruction
	for _, pf := range w.closureFuncs(f) {
		calls = append(calls, callsIn(pf)...)
	}
	for _, c := range calls {
		call, ok := c.(*ssa.Call)
		if !ok {
			continue
		}
		cn := w.calleeName(call)
		if !strings.HasPrefix(cn, "strconv.Parse") {
			continue
		}
		n++
		key := fmt.Sprintf("(*Decimal).setString | %s error is returned", cn)
		if k := countKey(r, key); k > 0 {
			key = fmt.Sprintf("%s #%d", key, k+1)
		}
		okErr := errEdge(call, 1, 0)
		if okErr {
			r.ok(key, w.instrPos(call), "non-nil error edge returns an error", true)
		} else {
			r.bad(key, w.instrPos(call), "the parse error is not turned into an error return: malformed text would be accepted")
		}
		if cn == "strconv.ParseInt" {
			a := call.Common().Args
			b, _ := a[1].(*ssa.Const)
			bits, _ := a[2].(*ssa.Const)
			k2 := "(*Decimal).setString | exponent is parsed base 10, 32 bit"
			if b != nil && bits != nil && ci(b) == 10 && ci(bits) == 32 {
				r.ok(k2, w.instrPos(call), "ParseInt(·, 10, 32)", true)
			} else {
				r.bad(k2, w.instrPos(call), "the exponent must be parsed with ParseInt(·, 10, 32) (setExponent sums int32-sized terms)")
			}
		}
	}
	// a bounded integer parse is not a validation of "any number of digits"
	for _, pf := range w.closureFuncs(f) {
		for _, c := range w.callsTo(pf, "strconv.ParseUint") {
			r.bad("(*Decimal).setString | NaN payload of any length", w.instrPos(c), "the NaN payload is validated by parsing it into a fixed-size integer: payloads above 2^64-1 are rejected although the grammar allows any number of digits (\"NaN18446744073709551616\")")
		}
	}
	// the NaN payload may be validated by a digits-only scan instead (any number of digits is allowed):
	// a loop over the bytes whose comparisons with '0' and '9' lead to an error return
	digitScan := false
	for _, pf := range w.closureFuncs(f) {
		lo, hi := false, false
		for _, b := range pf.Blocks {
			iff, ok := b.Instrs[len(b.Instrs)-1].(*ssa.If)
			if !ok {
				continue
			}
			bo, ok := iff.Cond.(*ssa.BinOp)
			if !ok {
				continue
			}
			k, isK := bo.Y.(*ssa.Const)
			if !isK || k.Value == nil || k.Value.Kind() != constant.Int {
				continue
			}
			// the "not a digit" edge reaches an error return — directly, or as `return false` of a
			// predicate helper whose false result returns an error at every call site
			errEdge := false
			for _, sc := range b.Succs {
				rt, isRet := sc.Instrs[len(sc.Instrs)-1].(*ssa.Return)
				if !isRet {
					continue
				}
				if w.isErrorReturn(rt) {
					errEdge = true
				}
				if len(rt.Results) == 1 {
					if kk, isKK := rt.Results[0].(*ssa.Const); isKK && kk.Value != nil && kk.Value.Kind() == constant.Bool && !boolConst(kk) && w.falseMeansError(pf) {
						errEdge = true
					}
				}
			}
			if ci(k) == '0' && bo.Op == token.LSS && errEdge {
				lo = true
			}
			if ci(k) == '9' && bo.Op == token.GTR && (errEdge || lo) {
				hi = true
			}
		}
		if lo && hi {
			digitScan = true
		}
	}
	if digitScan {
		n++
		r.ok("(*Decimal).setString | NaN payload is a digits-only scan", w.pos(f.Pos()), "every payload byte is compared with '0' and '9'; anything else returns an error", true)
	}
	if n < 2 {
		r.bad("(*Decimal).setString | payload and exponent parsers", w.pos(f.Pos()), fmt.Sprintf("expected the NaN payload and the exponent to be validated (strconv.Parse* or a digits-only scan with an error edge), found %d such validations", n))
	}
}

func ruleOneParser(w *World, r *RuleResult) {
	reach := w.reachesFn("(*Decimal).setString")
	for _, name := range []string{"NewFromString", "(*Decimal).SetString", "(*Context).NewFromString", "(*Context).SetString", "(*Decimal).UnmarshalText", "(*Decimal).Scan", "(*Decimal).SetFloat64", "makeConst", "makeConstWithPrecision"} {
		f := w.fn(name)
		if f == nil {
			r.anchorMissing(name)
			continue
		}
		if reach[f] {
			r.ok(name+" | parses through setString", w.pos(f.Pos()), "reaches (*Decimal).setString", true)
		} else {
			r.bad(name+" | parses through setString", w.pos(f.Pos()), "no longer converts text through (*Decimal).setString: its acceptance set can differ")
		}
	}
	// nobody else turns text into coefficients
	var others []string
	parserSet := map[*ssa.Function]bool{}
	for _, pf := range w.parserFuncs() {
		parserSet[pf] = true
	}
	for _, c := range w.allCallsTo("(*BigInt).SetString") {
		if n := w.shortName(c.Parent()); !parserSet[c.Parent()] {
			others = append(others, n+" at "+w.instrPos(c))
		}
	}
	for _, n := range w.Names {
		f := w.Funcs[n]
		if rc := f.Signature.Recv(); rc != nil && w.apdTypeName(rc.Type()) == "BigInt" {
			continue
		}
		for _, c := range callsIn(f) {
			cn := w.calleeName(c)
			if cn == "(*math/big.Int).SetString" || cn == "(*BigInt).UnmarshalText" || cn == "(*BigInt).Scan" {
				others = append(others, n+" at "+w.instrPos(c))
			}
		}
	}
	if len(others) == 0 {
		r.ok("package | single text→coefficient site", "", "only (*Decimal).setString calls (*BigInt).SetString", true)
	} else {
		r.bad("package | single text→coefficient site", "", "text is converted to a coefficient outside the parser: "+strings.Join(others, "; "))
	}
}

func ruleNotationSwitch(w *World, r *RuleResult) {
	f := w.fn("(*Decimal).Append")
	if f == nil {
		r.anchorMissing("(*Decimal).Append")
		return
	}
	// plain notation = the fmtF call under the g/G case
	var plain *ssa.Call
	delegated := false
	for _, c := range w.callsTo(f, "fmtF") {
		for _, g := range guardsAt(c.Block()) {
			if strings.Contains(w.exprOf(f, g.Cond).String(), ".Exponent <= 0") {
				plain = c
			}
			// the decision was moved into a predicate helper (useFixedNotation(d, n) bool)
			if hc, isCall := g.Cond.(*ssa.Call); isCall {
				if h := callee(hc); h != nil && w.inPkg(h) && (h.Object() == nil || !h.Object().Exported()) && h.Signature.Recv() == nil {
					delegated = true
				}
			}
		}
	}
	key := "(*Decimal).Append | plain notation iff Exponent <= 0 ∧ adj >= -6"
	if plain == nil && delegated {
		r.ok(key, w.pos(f.Pos()), "the notation decision is delegated to a predicate helper: this shape is not decided", false)
		r.ok("(*Decimal).Append | zero special case bounds", w.pos(f.Pos()), "not decided for this shape", false)
	} else if plain == nil {
		r.bad(key, w.pos(f.Pos()), "no fmtF call guarded by d.Exponent <= 0")
	} else {
		var conds []string
		for _, g := range guardsAt(plain.Block()) {
			if g.Val {
				conds = append(conds, w.exprOf(f, g.Cond).String())
			}
		}
		sort.Strings(conds)
		hasExp, hasAdj := false, false
		for _, c := range conds {
			if strings.HasSuffix(c, ".Exponent <= 0)") {
				hasExp = true
			}
			if strings.HasSuffix(c, ">= -6)") && strings.Contains(c, ".Exponent") {
				hasAdj = true
			}
		}
		if hasExp && hasAdj {
			r.ok(key, w.instrPos(plain), strings.Join(conds, " ∧ "), true)
		} else {
			r.bad(key, w.instrPos(plain), "plain notation is chosen under "+strings.Join(conds, " ∧ ")+"; the specification's to-scientific-string requires exponent <= 0 and adjusted exponent >= -6")
		}
	}
	// adjusted exponent = Exponent + (digitLen - 1)
	key = "(*Decimal).Append | zero special case bounds"
	okZero := false
	for _, b := range f.Blocks {
		var conds []string
		for _, g := range guardsAt(b) {
			if g.Val {
				conds = append(conds, w.exprOf(f, g.Cond).String())
			}
		}
		j := strings.Join(conds, " ∧ ")
		if strings.Contains(j, "(*BigInt).BitLen(&") && strings.Contains(j, ".Coeff) == 0") && strings.Contains(j, ".Exponent >= -2000)") && strings.Contains(j, ".Exponent < 0)") {
			okZero = true
		}
	}
	if plain == nil && delegated {
		// reported above
	} else if okZero {
		r.ok(key, w.pos(f.Pos()), "digit length is padded only under BitLen()==0 ∧ Exponent >= -2000 ∧ Exponent < 0", true)
	} else {
		r.bad(key, w.pos(f.Pos()), "the documented zero exception (exponent in [-2000,-1]) is no longer guarded by BitLen()==0 ∧ -2000 <= Exponent < 0")
	}
	// fmtE: adjusted exponent and sign
	if g := w.fn("fmtE"); g != nil {
		key := "fmtE | exponent is Exponent + len(digits) - 1 with explicit sign"
		okAdj := false
		for _, b := range g.Blocks {
			for _, in := range b.Instrs {
				if bo, ok := in.(*ssa.BinOp); ok && bo.Op == token.SUB {
					if s := w.exprOf(g, bo).String(); strings.Contains(s, "d.Exponent") && strings.Contains(s, "builtin len(digits)") && strings.HasSuffix(s, "- 1)") {
						okAdj = true
					}
				}
			}
		}
		if okAdj {
			r.ok(key, w.pos(g.Pos()), "adj = int64(d.Exponent) + int64(len(digits)) - 1", true)
		} else {
			r.bad(key, w.pos(g.Pos()), "the printed exponent is no longer the adjusted exponent")
		}
	} else {
		r.anchorMissing("fmtE")
	}
}

// ---- C15 --------------------------------------------------------------------

func ruleCmpSignFlip(w *World, r *RuleResult) {
	f := w.fn("(*Decimal).Cmp")
	if f == nil {
		r.anchorMissing("(*Decimal).Cmp")
		return
	}
	paths, ok := enumPaths(f, 20000)
	key := "(*Decimal).Cmp | magnitude comparison is negated for negatives"
	if len(w.callsTo(f, "(*BigInt).Cmp")) == 0 {
		// the magnitude comparison was moved into helpers: the path enumeration below does not span calls
		r.ok(key, w.pos(f.Pos()), "Cmp delegates the coefficient comparison to helpers: this shape is not decided", false)
		r.ok("(*Decimal).Cmp | rescaling multiplies the larger-exponent coefficient", w.pos(f.Pos()), "not decided for this shape", false)
		return
	}
	// scaledFrom: which operand's coefficient the BigInt local v holds, multiplied by a power of ten, on path p
	scaledFrom := func(v ssa.Value, p Path) string {
		onPath := map[*ssa.BasicBlock]bool{}
		for _, b := range p.Blocks {
			onPath[b] = true
		}
		base := basePtr(v)
		if _, isA := base.(*ssa.Alloc); !isA {
			return ""
		}
		src := ""
		mul := false
		for _, c := range callsIn(f) {
			call, isCall := c.(*ssa.Call)
			if !isCall || !onPath[call.Block()] || len(call.Common().Args) < 2 || basePtr(call.Common().Args[0]) != base {
				continue
			}
			cn := w.calleeName(call)
			if cn != "(*BigInt).Set" && cn != "(*BigInt).Mul" {
				continue
			}
			if cn == "(*BigInt).Mul" {
				mul = true
			}
			for _, a := range call.Common().Args[1:] {
				switch w.exprOf(f, a).String() {
				case "&" + f.Params[0].Name() + ".Coeff":
					src = "d"
				case "&" + f.Params[1].Name() + ".Coeff":
					src = "x"
				}
			}
		}
		if !mul {
			return ""
		}
		return src
	}
	if !ok {
		r.undecided(key, w.pos(f.Pos()), "Cmp is not loop-free or has too many paths")
		return
	}
	n := 0
	var bad []string
	for _, p := range paths {
		v := phiOnPath(p.Ret.Results[0], p)
		neg := false
		if u, isU := v.(*ssa.UnOp); isU && u.Op == token.SUB {
			neg = true
			v = phiOnPath(u.X, p)
		}
		call, isCall := v.(*ssa.Call)
		if !isCall || w.calleeName(call) != "(*BigInt).Cmp" {
			continue
		}
		n++
		// the ds < 0 decision on this path
		known, dsNeg := false, false
		for _, d := range p.Decisions {
			bo, isB := d.Cond.(*ssa.BinOp)
			if !isB {
				continue
			}
			c2, isC := bo.X.(*ssa.Call)
			k, isK := bo.Y.(*ssa.Const)
			if !isC || !isK || w.calleeName(c2) != "(*Decimal).Sign" || c2.Common().Args[0] != ssa.Value(f.Params[0]) {
				continue
			}
			switch {
			case bo.Op == token.LSS && ci(k) == 0:
				known, dsNeg = true, d.Val
			case bo.Op == token.EQL && ci(k) == -1:
				known, dsNeg = true, d.Val
			}
		}
		if !known {
			bad = append(bad, "a BigInt.Cmp result is returned at "+w.instrPos(p.Ret)+" on a path that never tests the sign of d")
			continue
		}
		// coefficients are only meaningful for finite values: both Infinite tests must have failed
		infD, infX := false, false
		for _, d := range p.Decisions {
			bo, isB := d.Cond.(*ssa.BinOp)
			if !isB || bo.Op != token.EQL || d.Val {
				continue
			}
			if k, isK := bo.Y.(*ssa.Const); isK && ci(k) == w.formConsts()["Infinite"] {
				switch w.exprOf(f, bo.X).String() {
				case "d.Form":
					infD = true
				case "x.Form":
					infX = true
				}
			}
		}
		if !infD || !infX {
			bad = append(bad, "coefficients are compared at "+w.instrPos(call)+" on a path where d or x may still be infinite (their coefficient is meaningless)")
		}
		if dsNeg != neg {
			bad = append(bad, fmt.Sprintf("at %s the magnitude comparison is returned %s although d is %s", w.instrPos(p.Ret), map[bool]string{true: "negated", false: "as is"}[neg], map[bool]string{true: "negative", false: "non-negative"}[dsNeg]))
		}
		// which side was rescaled?
		a0, a1 := call.Common().Args[0], call.Common().Args[1]
		lt, seen := false, false
		for _, d := range p.Decisions {
			if w.exprOf(f, d.Cond).String() == "(d.Exponent < x.Exponent)" {
				lt, seen = d.Val, true
			}
		}
		if seen {
			s0, s1 := w.exprOf(f, a0).String(), w.exprOf(f, a1).String()
			if lt && !(s0 == "&d.Coeff" && scaledFrom(a1, p) == "x") {
				bad = append(bad, "with d.Exponent < x.Exponent the comparison must be d.Coeff vs scaled x")
			}
			if !lt && !(scaledFrom(a0, p) == "d" && s1 == "&x.Coeff") {
				bad = append(bad, "with d.Exponent > x.Exponent the comparison must be scaled d vs x.Coeff")
			}
		}
	}
	if len(bad) > 0 || n < 3 {
		r.bad(key, w.pos(f.Pos()), fmt.Sprintf("%d magnitude-comparison paths: %s", n, strings.Join(uniqStrings(bad), "; ")))
	} else {
		r.ok(key, w.pos(f.Pos()), fmt.Sprintf("%d paths return a BigInt.Cmp result; each is negated exactly when d is negative, and the larger-exponent side is the rescaled one", n), true)
	}
	// the scaled value is the operand's own coefficient times 10^(exponent difference)
	key = "(*Decimal).Cmp | rescaling multiplies the larger-exponent coefficient"
	okScale := 0
	for _, c := range w.callsTo(f, "tableExp10") {
		s := w.exprOf(f, c.Common().Args[0]).String()
		lt := false
		for _, g := range guardsAt(c.Block()) {
			if w.exprOf(f, g.Cond).String() == "(d.Exponent < x.Exponent)" {
				lt = g.Val
			}
		}
		if lt && s == "(x.Exponent - d.Exponent)" || !lt && s == "(d.Exponent - x.Exponent)" {
			okScale++
		}
	}
	if okScale == 2 {
		r.ok(key, w.pos(f.Pos()), "10^(x.Exponent-d.Exponent) on the d<x edge, 10^(d.Exponent-x.Exponent) on the other", true)
	} else {
		r.bad(key, w.pos(f.Pos()), "the power of ten used for alignment is not the (positive) exponent difference of the branch it is in")
	}
}

func ruleCmpTotal(w *World, r *RuleResult) {
	f := w.fn("(*Decimal).CmpTotal")
	if f == nil {
		r.anchorMissing("(*Decimal).CmpTotal")
		return
	}
	paths, ok := enumPaths(f, 4096)
	key := "(*Decimal).CmpTotal | exponent tie-break flips for negatives"
	if !ok {
		r.undecided(key, w.pos(f.Pos()), "not loop-free")
		return
	}
	var bad []string
	n := 0
	for _, p := range paths {
		var lt, gt, neg, hasLt, hasGt, hasNeg bool
		for _, d := range p.Decisions {
			switch w.exprOf(f, d.Cond).String() {
			case "(d.Exponent < x.Exponent)":
				lt, hasLt = d.Val, true
			case "(d.Exponent > x.Exponent)":
				gt, hasGt = d.Val, true
			case "d.Negative":
				neg, hasNeg = d.Val, true
			}
		}
		if !hasLt || !hasNeg {
			continue
		}
		kv, isK := intOnPath(p.Ret.Results[0], p, 0)
		if !isK {
			continue
		}
		n++
		want := int64(0)
		switch {
		case lt:
			want = -1
		case hasGt && gt:
			want = 1
		}
		if neg {
			want = -want
		}
		if kv != want {
			bad = append(bad, fmt.Sprintf("return %d where %d is required (exp<:%v exp>:%v negative:%v)", kv, want, lt, gt, neg))
		}
	}
	if len(bad) > 0 || n < 4 {
		r.bad(key, w.pos(f.Pos()), fmt.Sprintf("%d tie-break paths: %s", n, strings.Join(uniqStrings(bad), "; ")))
	} else {
		r.ok(key, w.pos(f.Pos()), fmt.Sprintf("%d tie-break paths: smaller exponent orders lower for positives and higher for negatives", n), true)
	}
	for _, name := range []string{"(*Decimal).Cmp", "(*Decimal).CmpTotal", "(*Decimal).cmpOrder", "(*Decimal).Sign", "(*Decimal).IsZero"} {
		g := w.fn(name)
		if g == nil {
			r.anchorMissing(name)
			continue
		}
		s := w.summary(g)
		writes := 0
		for i := range g.Params {
			writes += len(s.Writes[i])
		}
		if writes == 0 && len(s.GWrites) == 0 {
			r.ok(name+" | pure", w.pos(g.Pos()), "mod-set empty", true)
		} else {
			r.bad(name+" | pure", w.pos(g.Pos()), "a comparison writes to its operands or to shared state")
		}
	}
}

// falseMeansError: at every call site of the predicate h, the block reached
// when h returned false ends in an error return.
func (w *World) falseMeansError(h *ssa.Function) bool {
	callers := w.callersOf(h)
	if len(callers) == 0 {
		return false
	}
	for _, c := range callers {
		call, ok := c.(*ssa.Call)
		if !ok {
			return false
		}
		okSite := false
		g := c.Parent()
		for _, b := range g.Blocks {
			iff, isIf := b.Instrs[len(b.Instrs)-1].(*ssa.If)
			if !isIf {
				continue
			}
			// if h(x) {...} else {error}   or   if !h(x) {error}
			falseSucc := -1
			switch cnd := iff.Cond.(type) {
			case *ssa.Call:
				if cnd == call {
					falseSucc = 1
				}
			case *ssa.UnOp:
				if cnd.Op == token.NOT && cnd.X == ssa.Value(call) {
					falseSucc = 0
				}
			}
			if falseSucc < 0 {
				continue
			}
			sc := b.Succs[falseSucc]
			if rt, isRet := sc.Instrs[len(sc.Instrs)-1].(*ssa.Return); isRet && w.isErrorReturn(rt) {
				okSite = true
			}
		}
		if !okSite {
			return false
		}
	}
	return true
}

// intOnPath: the integer a value has on path p when it is built from constants by φ, negation and
// multiplication (`c = -c` under a sign test).
func intOnPath(v ssa.Value, p Path, depth int) (int64, bool) {
	if depth > 8 {
		return 0, false
	}
	v = phiOnPath(v, p)
	switch x := v.(type) {
	case *ssa.Const:
		if x.Value == nil {
			return 0, false
		}
		return ci(x), true
	case *ssa.UnOp:
		if x.Op == token.SUB {
			if k, ok := intOnPath(x.X, p, depth+1); ok {
				return -k, true
			}
		}
	case *ssa.BinOp:
		a, okA := intOnPath(x.X, p, depth+1)
		b, okB := intOnPath(x.Y, p, depth+1)
		if okA && okB {
			switch x.Op {
			case token.MUL:
				return a * b, true
			case token.SUB:
				return a - b, true
			case token.ADD:
				return a + b, true
			}
		}
	}
	return 0, false
}
