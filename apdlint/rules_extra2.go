package main

import (
	"go/types"
	"fmt"
	"go/token"
	"strings"

	"golang.org/x/tools/go/ssa"
)

func init() {
	register(&Rule{ID: "C01.R6", Min: 7,
		Text: "the sign the rounding sees is the result's sign: after a call reaching Rounder.Round on the destination, d.Negative is only ever re-stored with the Negative field of the very operand that was rounded (directed modes decide by that sign)",
		Run:  ruleSignAfterRounding})
	register(&Rule{ID: "C04.R6", Min: 2,
		Text: "system-limit flags are guarded by the package limits: every return of a SystemOverflow/SystemUnderflow constant is under a comparison with the package constants ±MaxExponent, never with a context field",
		Run:  ruleSystemLimitGuards})
	register(&Rule{ID: "C09.R5", Min: 1,
		Text: "quantize never touches the sign: every write of d.Negative in quantize is the copy of the operand's sign made by the initial Set",
		Run:  ruleQuantizeKeepsSign})
	register(&Rule{ID: "C14.R5", Min: 1,
		Text: "the parser compares names after its own ASCII lower-casing only: no Unicode case mapping (strings.ToLower/ToUpper/EqualFold, unicode.*) anywhere on the parsing path — they map non-ASCII letters onto ASCII ones (U+0130 to i, U+017F to S)",
		Run:  ruleParserNoCaseFolding})
}

func ruleSignAfterRounding(w *World, r *RuleResult) {
	reach := w.reachesFn(rounderRound)
	ops := append([]string{}, singleRoundingOps...)
	ops = append(ops, "(*Context).Quo", "(*Context).Quantize", "(*Context).QuoInteger")
	for _, name := range ops {
		f := w.fn(name)
		if f == nil {
			r.anchorMissing(name)
			continue
		}
		di := destArgIndex(w, f)
		if !isDecimalPtr(f.Params[di].Type()) {
			continue
		}
		dname := f.Params[di].Name()
		key := name + " | sign is final before rounding"
		var bad []string
		nRound := 0
		for _, c := range callsIn(f) {
			call, ok := c.(*ssa.Call)
			if !ok {
				continue
			}
			g := callee(call)
			if g == nil || !reach[g] {
				continue
			}
			gi := destArgIndex(w, g)
			if gi >= len(call.Common().Args) || call.Common().Args[gi] != ssa.Value(f.Params[di]) {
				continue
			}
			nRound++
			// the operand rounded by this call: the Decimal argument after the destination
			var src ssa.Value
			for j := gi + 1; j < len(call.Common().Args) && j < len(g.Params); j++ {
				if isDecimalPtr(g.Params[j].Type()) {
					src = call.Common().Args[j]
					break
				}
			}
			for _, st := range storesIn(f) {
				if w.exprOf(f, st.Addr).String() != "&"+dname+".Negative" {
					continue
				}
				after := st.Block() == call.Block() && instrIndex(st) > instrIndex(call) || st.Block() != call.Block() && reaches(call.Block(), st.Block())
				if !after {
					continue
				}
				want := ""
				if src != nil {
					want = baseString(w.exprOf(f, src)) + ".Negative"
				}
				if got := w.exprOf(f, st.Val).String(); got != want || src == ssa.Value(f.Params[di]) {
					bad = append(bad, fmt.Sprintf("%s.Negative = %s at %s after the rounding at %s saw the sign of %s", dname, got, w.instrPos(st), w.instrPos(call), w.exprOf(f, src).String()))
				}
			}
		}
		if len(bad) > 0 {
			r.bad(key, w.pos(f.Pos()), "the rounding decision was taken with a different sign than the result's: "+strings.Join(uniqStrings(bad), "; "))
		} else {
			r.ok(key, w.pos(f.Pos()), fmt.Sprintf("%d rounding call(s) on the destination; no later store changes the sign they saw", nRound), nRound > 0)
		}
	}
}

func ruleSystemLimitGuards(w *World, r *RuleResult) {
	cc := w.conditionConsts()
	sys := cc["SystemOverflow"] | cc["SystemUnderflow"]
	maxE, ok := int64(0), false
	if c, isC := w.SSA.Members["MaxExponent"].(*ssa.NamedConst); isC {
		maxE, ok = ci(c.Value), true
	}
	if !ok || sys == 0 {
		r.anchorMissing("MaxExponent / System* constants")
		return
	}
	for _, name := range w.Names {
		f := w.Funcs[name]
		if strings.HasPrefix(name, "(Condition).") || strings.HasPrefix(name, "init") {
			continue
		}
		n := 0
		for _, b := range f.Blocks {
			rt, isRet := b.Instrs[len(b.Instrs)-1].(*ssa.Return)
			if !isRet {
				continue
			}
			hit := false
			for _, v := range rt.Results {
				if bits, isK := condBits(v); isK && typeIs(v.Type(), apdPath, "Condition") && bits&sys != 0 && bits < 1<<12 {
					hit = true
				}
			}
			if !hit {
				continue
			}
			n++
			key := fmt.Sprintf("%s | system-limit return #%d", name, n)
			okGuard := false
			var seen, notStrict []string
			// the facts at the return, as alternatives (the return may sit under `A || B`)
			var alts [][]DeepGuard
			if ga := guardAlternatives(b); len(ga) > 1 {
				for _, alt := range ga {
					var dgs []DeepGuard
					for _, g := range alt {
						dgs = append(dgs, DeepGuard{f, g, nil})
					}
					alts = append(alts, dgs)
				}
			} else {
				alts = [][]DeepGuard{w.guardsAtDeep(f, b)}
			}
			okAll := true
			for _, alt := range alts {
				okGuard = false
				for _, dg := range alt {
					g := dg.Guard
					bo, isB := g.Cond.(*ssa.BinOp)
					if !isB {
						continue
					}
					for oi, o := range []ssa.Value{bo.X, bo.Y} {
						if k, isK := o.(*ssa.Const); isK && (ci(k) == maxE || ci(k) == -maxE) {
							okGuard = true
							// the limit itself is inside the range: the test must be strict on the limit's side
							op := bo.Op
							if oi == 0 { // const <op> value  ==  value <flipped op> const
								op = map[token.Token]token.Token{token.LSS: token.GTR, token.GTR: token.LSS, token.LEQ: token.GEQ, token.GEQ: token.LEQ}[op]
							}
							// only the guard on whose "beyond the limit" side this return sits
							loose := (ci(k) == maxE && ((op == token.GEQ && g.Val) || (op == token.LSS && !g.Val))) ||
								(ci(k) == -maxE && ((op == token.LEQ && g.Val) || (op == token.GTR && !g.Val)))
							if loose {
								notStrict = append(notStrict, w.exprOf(dg.Fn, g.Cond).String())
							}
						}
					}
					seen = append(seen, w.exprOf(dg.Fn, g.Cond).String())
				}
				if !okGuard {
					okAll = false
				}
			}
			okGuard = okAll
			if okGuard && len(notStrict) > 0 {
				r.bad(key, w.instrPos(rt), "the system-limit condition is returned under "+short(strings.Join(notStrict, " ∧ "), 160)+", which rejects the limit itself: an adjusted exponent of exactly ±MaxExponent is inside the package range (Mul(2E+50000, 3E+50000) must be 6E+100000)")
			} else if okGuard {
				r.ok(key, w.instrPos(rt), "under a comparison with ±MaxExponent (the package limit)", true)
			} else {
				r.bad(key, w.instrPos(rt), "a system exponent-limit condition is returned under "+short(strings.Join(seen, " ∧ "), 200)+", which does not compare with the package limits: values inside the package range would be rejected (or outside accepted)")
			}
		}
	}
}

func ruleQuantizeKeepsSign(w *World, r *RuleResult) {
	f := w.fn("(*Context).quantize")
	if f == nil {
		r.anchorMissing("(*Context).quantize")
		return
	}
	di, vi := destArgIndex(w, f), -1
	for i, p := range f.Params {
		if i != di && isDecimalPtr(p.Type()) {
			vi = i
		}
	}
	key := "(*Context).quantize | sign comes from the operand only"
	fr := w.flow(f, di, -1)
	var bad []string
	for _, rs := range fr.Returns {
		for tag, at := range rs.May["Negative"] {
			if tag == "shared:decimalNaN" {
				continue // the whole value is replaced by the shared NaN (a failure path): not a sign computation
			}
			if tag != fmt.Sprintf("copy:%d", vi) {
				bad = append(bad, fmt.Sprintf("d.Negative written (%s) at %s", tag, w.instrPos(at)))
			}
		}
	}
	if len(bad) > 0 {
		r.bad(key, w.pos(f.Pos()), "quantize overwrites the sign it copied from its operand: "+strings.Join(uniqStrings(bad), "; "))
	} else {
		r.ok(key, w.pos(f.Pos()), "the only writes of d.Negative are copies of the operand's sign", true)
	}
}

func ruleParserNoCaseFolding(w *World, r *RuleResult) {
	reach := w.reachable([]*ssa.Function{w.fn("(*Decimal).setString")})
	if w.fn("(*Decimal).setString") == nil {
		r.anchorMissing("(*Decimal).setString")
		return
	}
	var bad []string
	for f := range reach {
		for _, c := range callsIn(f) {
			n := w.calleeName(c)
			if n == "strings.EqualFold" || strings.HasPrefix(n, "unicode.") || n == "strings.ToUpper" || n == "strings.Title" || n == "strings.ToTitle" || n == "strings.ToLower" {
				bad = append(bad, fmt.Sprintf("%s called in %s at %s", n, w.shortName(f), w.instrPos(c)))
			}
		}
	}
	key := "(*Decimal).setString | no Unicode case folding"
	if len(bad) > 0 {
		r.bad(key, w.pos(w.fn("(*Decimal).setString").Pos()), "Unicode case mapping turns non-ASCII look-alikes into the ASCII letters of the grammar (U+0130 lower-cases to 'i': \"İnf\" parses as Infinity; U+017F folds to 's'), widening the accepted language: "+strings.Join(uniqStrings(bad), "; "))
	} else {
		r.ok(key, w.pos(w.fn("(*Decimal).setString").Pos()), "names are compared with == / HasPrefix on the strings.ToLower'ed input only", true)
	}
	_ = token.ADD
}

func init() {
	register(&Rule{ID: "C14.R7", Min: 1,
		Text: "Format counts what it writes: the padding width is computed from the lengths of the very sign string and digit buffer that are written afterwards (after the sign has been split off), so that width is applied the way fmt applies it to numbers",
		Run:  ruleFormatPadding})
}

func ruleFormatPadding(w *World, r *RuleResult) {
	f := w.fn("(*Decimal).Format")
	if f == nil {
		r.anchorMissing("(*Decimal).Format")
		return
	}
	key := "(*Decimal).Format | padding counts the bytes written"
	// values written: s.Write(buf) and writeMultiple(s, sign, 1)
	var bufs, signs, pads []ssa.Value
	for _, c := range callsIn(f) {
		cc := c.Common()
		if cc.IsInvoke() && cc.Method.Name() == "Write" && len(cc.Args) == 1 {
			bufs = append(bufs, cc.Args[0])
		}
		if g := callee(c); g != nil && w.shortName(g) == "writeMultiple" && len(cc.Args) == 3 {
			if k, ok := cc.Args[2].(*ssa.Const); ok && ci(k) == 1 {
				signs = append(signs, cc.Args[1])
			} else {
				pads = append(pads, cc.Args[2])
			}
		}
	}
	if len(bufs) == 0 || len(signs) == 0 || len(pads) == 0 {
		// Format split into helpers that hand the sign, the text and the padding on in a struct: the values
		// written are then not the ones measured in one function's SSA; that shape is not decided
		split := false
		for _, g := range w.closureFuncs(f) {
			if g == f {
				continue
			}
			for _, c := range callsIn(g) {
				if cc := c.Common(); cc.IsInvoke() && cc.Method.Name() == "Write" {
					split = true
				}
			}
		}
		if split {
			// the sign, the text and the padding travel between the helpers in the fields of one struct type:
			// the values are identified by (struct type, field) instead of by SSA value
			if verdict, detail, decided := w.formatPaddingByFields(f); decided {
				if verdict {
					r.ok(key, w.pos(f.Pos()), detail, true)
				} else {
					r.bad(key, w.pos(f.Pos()), detail)
				}
				return
			}
			r.ok(key, w.pos(f.Pos()), "Format writes through helpers of its own; the correspondence between the lengths counted and the bytes written is not decided for this shape", false)
			return
		}
		r.anchorMissing("(*Decimal).Format: Write / writeMultiple structure")
		return
	}
	lenOf := func(e *Expr, v ssa.Value) bool {
		found := false
		e.walk(func(x *Expr) bool {
			if x.Op == "call" && x.Name == "builtin len" && len(x.Args) == 1 && x.Args[0].V == v {
				found = true
			}
			return true
		})
		return found
	}
	var bad []string
	for _, p := range pads {
		e := w.exprOf(f, p)
		okB, okS := false, false
		for _, b := range bufs {
			if lenOf(e, b) {
				okB = true
			}
		}
		for _, s := range signs {
			if lenOf(e, s) {
				okS = true
			}
		}
		if !okB {
			bad = append(bad, "the padding does not subtract the length of the digit buffer that is written (it may count the buffer before the sign was split off)")
		}
		if !okS {
			bad = append(bad, "the padding does not subtract the length of the sign that is written (a sign added by the + or space flag widens the field)")
		}
	}
	if len(bad) > 0 {
		r.bad(key, w.pos(f.Pos()), strings.Join(uniqStrings(bad), "; "))
	} else {
		r.ok(key, w.pos(f.Pos()), fmt.Sprintf("%d padding computations, each width − len(sign written) − len(buffer written)", len(pads)), true)
	}
}

func init() {
	register(&Rule{ID: "C14.R8", Min: 1,
		Text: "zero padding goes between the sign and the digits (as fmt does for numbers): every write of a padding text that can be \"0\" is preceded on every path by the write of the sign",
		Run:  ruleZeroPadAfterSign})
}

func ruleZeroPadAfterSign(w *World, r *RuleResult) {
	f := w.fn("(*Decimal).Format")
	if f == nil {
		r.anchorMissing("(*Decimal).Format")
		return
	}
	mayBeZero := func(v ssa.Value) bool {
		seen := map[ssa.Value]bool{}
		var walk func(v ssa.Value) bool
		walk = func(v ssa.Value) bool {
			if seen[v] {
				return false
			}
			seen[v] = true
			switch x := v.(type) {
			case *ssa.Const:
				s, ok := strConst(x)
				return ok && s == "0"
			case *ssa.Phi:
				for _, e := range x.Edges {
					if walk(e) {
						return true
					}
				}
			}
			return false
		}
		return walk(v)
	}
	isSignWrite := func(in ssa.Instruction) bool {
		c, ok := in.(*ssa.Call)
		if !ok || w.calleeName(c) != "writeMultiple" || len(c.Common().Args) != 3 {
			return false
		}
		k, isK := c.Common().Args[2].(*ssa.Const)
		return isK && ci(k) == 1
	}
	n := 0
	for _, c := range w.callsTo(f, "writeMultiple") {
		if len(c.Common().Args) != 3 || isSignWrite(c) || !mayBeZero(c.Common().Args[1]) {
			continue
		}
		n++
		key := "(*Decimal).Format | zero padding after the sign"
		if n > 1 {
			key = fmt.Sprintf("%s #%d", key, n)
		}
		if seenBefore(c, isSignWrite) {
			r.ok(key, w.instrPos(c), "the sign is written before the zeros on every path", true)
		} else {
			r.bad(key, w.instrPos(c), "zeros can be written before the sign: %010v of -1.5 gives 000000-1.5 instead of -0000001.5")
		}
	}
	if n == 0 {
		r.ok("(*Decimal).Format | zero padding after the sign", w.pos(f.Pos()), "no write of a \"0\" padding found: this shape is not decided", false)
	}
}

func init() {
	register(&Rule{ID: "C14.R9", Min: 1,
		Text: "the '-' flag overrides the '0' flag, as in fmt: every write of a padding text that can be \"0\" is reached only on paths where s.Flag('-') was tested and is false",
		Run:  ruleMinusOverridesZero})
}

func ruleMinusOverridesZero(w *World, r *RuleResult) {
	f := w.fn("(*Decimal).Format")
	if f == nil {
		r.anchorMissing("(*Decimal).Format")
		return
	}
	isFlag := func(v ssa.Value, ch int64) bool {
		c, ok := v.(*ssa.Call)
		if !ok || !c.Common().IsInvoke() || c.Common().Method.Name() != "Flag" || len(c.Common().Args) != 1 {
			return false
		}
		k, isK := c.Common().Args[0].(*ssa.Const)
		return isK && ci(k) == ch
	}
	mayBeZero := func(v ssa.Value) bool {
		switch x := v.(type) {
		case *ssa.Const:
			s, ok := strConst(x)
			return ok && s == "0"
		case *ssa.Phi:
			for _, e := range x.Edges {
				if k, ok := e.(*ssa.Const); ok {
					if s, ok := strConst(k); ok && s == "0" {
						return true
					}
				}
			}
		}
		return false
	}
	n := 0
	for _, c := range w.callsTo(f, "writeMultiple") {
		if len(c.Common().Args) != 3 || !mayBeZero(c.Common().Args[1]) {
			continue
		}
		if k, isK := c.Common().Args[2].(*ssa.Const); isK && ci(k) == 1 {
			continue
		}
		n++
		key := "(*Decimal).Format | '-' overrides '0'"
		if n > 1 {
			key = fmt.Sprintf("%s #%d", key, n)
		}
		ok := false
		for _, g := range guardsAt(c.Block()) {
			if isFlag(g.Cond, '-') && !g.Val {
				ok = true
			}
		}
		if ok {
			r.ok(key, w.instrPos(c), "zero padding is written only where Flag('-') is false", true)
		} else {
			r.bad(key, w.instrPos(c), "zero padding can be written although the '-' flag is set: fmt ignores '0' when '-' is given (%-010G of 1.23E+56 must be \"1.23E+56  \", not \"001.23E+56\")")
		}
	}
	if n == 0 {
		r.ok("(*Decimal).Format | '-' overrides '0'", w.pos(f.Pos()), "no write of a \"0\" padding found: this shape is not decided", false)
	}
}

type fieldID struct {
	t types.Type
	i int
}

// fieldOfLoad: v is a load of a field of a struct defined in the package.
func (w *World) fieldOfLoad(v ssa.Value) (fieldID, bool) {
	ld, ok := v.(*ssa.UnOp)
	if !ok || ld.Op != token.MUL {
		return fieldID{}, false
	}
	fa, ok := ld.X.(*ssa.FieldAddr)
	if !ok {
		return fieldID{}, false
	}
	pt := pointee(fa.X.Type())
	if pt == nil {
		return fieldID{}, false
	}
	if n, isN := pt.(*types.Named); !isN || n.Obj().Pkg() == nil || n.Obj().Pkg().Path() != apdPath {
		return fieldID{}, false
	}
	return fieldID{pt, fa.Field}, true
}

// formatPaddingByFields decides C14.R7 for a Format split into helpers that share a struct: every padding
// count written comes from a field P; every store into P subtracts len of the field that is written as the
// sign and len of the field that is written as the text, and no store to those two fields can follow it.
func (w *World) formatPaddingByFields(f *ssa.Function) (bool, string, bool) {
	var bufs, signs, pads []fieldID
	leafFields := func(v ssa.Value) []fieldID {
		var out []fieldID
		seen := map[ssa.Value]bool{}
		var walk func(v ssa.Value, d int)
		walk = func(v ssa.Value, d int) {
			if seen[v] || d > 8 {
				return
			}
			seen[v] = true
			if id, ok := w.fieldOfLoad(v); ok {
				out = append(out, id)
				return
			}
			if phi, ok := v.(*ssa.Phi); ok {
				for _, e := range phi.Edges {
					walk(e, d+1)
				}
			}
			// a local variable: the values stored into it
			if ld, ok := v.(*ssa.UnOp); ok && ld.Op == token.MUL {
				if al, isA := ld.X.(*ssa.Alloc); isA {
					for _, st := range storesIn(al.Parent()) {
						if st.Addr == ssa.Value(al) {
							walk(st.Val, d+1)
						}
					}
				}
			}
		}
		walk(v, 0)
		return out
	}
	closure := w.closureFuncs(f)
	for _, g := range closure {
		for _, c := range callsIn(g) {
			cc := c.Common()
			if cc.IsInvoke() && cc.Method.Name() == "Write" && len(cc.Args) == 1 {
				bufs = append(bufs, leafFields(cc.Args[0])...)
			}
			if h := callee(c); h != nil && w.shortName(h) == "writeMultiple" && len(cc.Args) == 3 {
				if k, ok := cc.Args[2].(*ssa.Const); ok && ci(k) == 1 {
					signs = append(signs, leafFields(cc.Args[1])...)
				} else {
					pads = append(pads, leafFields(cc.Args[2])...)
				}
			}
		}
	}
	if len(bufs) == 0 || len(signs) == 0 || len(pads) == 0 {
		return false, "", false
	}
	has := func(list []fieldID, id fieldID) bool {
		for _, x := range list {
			if x.i == id.i && types.Identical(x.t, id.t) {
				return true
			}
		}
		return false
	}
	// len(<field>) terms of a value
	var lenFields func(v ssa.Value, d int, seen map[ssa.Value]bool) []fieldID
	lenFields = func(v ssa.Value, d int, seen map[ssa.Value]bool) []fieldID {
		if seen[v] || d > 10 {
			return nil
		}
		seen[v] = true
		var out []fieldID
		switch x := v.(type) {
		case *ssa.BinOp:
			out = append(out, lenFields(x.X, d+1, seen)...)
			out = append(out, lenFields(x.Y, d+1, seen)...)
		case *ssa.Phi:
			for _, e := range x.Edges {
				out = append(out, lenFields(e, d+1, seen)...)
			}
		case *ssa.Convert:
			out = append(out, lenFields(x.X, d+1, seen)...)
		case *ssa.Call:
			if b, ok := x.Common().Value.(*ssa.Builtin); ok && b.Name() == "len" && len(x.Common().Args) == 1 {
				out = append(out, leafFields(x.Common().Args[0])...)
			}
		case *ssa.UnOp:
			if x.Op == token.MUL {
				if al, isA := x.X.(*ssa.Alloc); isA {
					for _, st := range storesIn(al.Parent()) {
						if st.Addr == ssa.Value(al) {
							out = append(out, lenFields(st.Val, d+1, seen)...)
						}
					}
				}
			}
		}
		return out
	}
	n := 0
	var bad []string
	for _, g := range closure {
		for _, st := range storesIn(g) {
			fa, ok := st.Addr.(*ssa.FieldAddr)
			if !ok {
				continue
			}
			pt := pointee(fa.X.Type())
			if pt == nil || !has(pads, fieldID{pt, fa.Field}) {
				continue
			}
			if k, isK := st.Val.(*ssa.Const); isK && ci(k) == 0 {
				continue
			}
			n++
			lf := lenFields(st.Val, 0, map[ssa.Value]bool{})
			okS, okB := false, false
			for _, id := range lf {
				if has(signs, id) {
					okS = true
				}
				if has(bufs, id) {
					okB = true
				}
			}
			if !okB {
				bad = append(bad, "the padding stored at "+w.instrPos(st)+" does not subtract the length of the text field that is written")
			}
			if !okS {
				bad = append(bad, "the padding stored at "+w.instrPos(st)+" does not subtract the length of the sign field that is written")
			}
			// the sign and the text are final when they are measured
			for _, st2 := range storesIn(g) {
				fa2, ok2 := st2.Addr.(*ssa.FieldAddr)
				if !ok2 || st2 == st {
					continue
				}
				pt2 := pointee(fa2.X.Type())
				if pt2 == nil {
					continue
				}
				id2 := fieldID{pt2, fa2.Field}
				if (has(signs, id2) || has(bufs, id2)) && (st.Block() == st2.Block() && instrIndex(st2) > instrIndex(st) || st.Block() != st2.Block() && reaches(st.Block(), st2.Block())) {
					bad = append(bad, "the sign or the text is stored again at "+w.instrPos(st2)+" after the padding was computed from its length")
				}
			}
		}
	}
	if n == 0 {
		return false, "", false
	}
	if len(bad) > 0 {
		return false, strings.Join(uniqStrings(bad), "; "), true
	}
	return true, fmt.Sprintf("%d padding computations, each width − len(sign field written) − len(text field written), measured after the last store of either (values identified by struct field across Format's helpers)", n), true
}
