package main

import (
	"go/constant"
	"go/token"
	"strings"

	"golang.org/x/tools/go/ssa"
)

// A4/A5 helpers: must-pass-through, path enumeration, loops, use-reachability.

// callsIn returns all call instructions of f, in block order.
func callsIn(f *ssa.Function) []ssa.CallInstruction {
	var out []ssa.CallInstruction
	for _, b := range f.Blocks {
		for _, in := range b.Instrs {
			if c, ok := in.(ssa.CallInstruction); ok {
				out = append(out, c)
			}
		}
	}
	return out
}

// callsTo returns the calls in f whose callee has the given name
// (short name for in-package callees, full name for externals).
func (w *World) callsTo(f *ssa.Function, name string) []*ssa.Call {
	var out []*ssa.Call
	for _, c := range callsIn(f) {
		if cc, ok := c.(*ssa.Call); ok && w.calleeName(cc) == name {
			out = append(out, cc)
		}
	}
	return out
}

// allCallsTo returns every call in the package to the named callee.
func (w *World) allCallsTo(name string) []*ssa.Call {
	var out []*ssa.Call
	for _, n := range w.Names {
		out = append(out, w.callsTo(w.Funcs[n], name)...)
	}
	return out
}

// instrIndex returns the index of in within its block.
func instrIndex(in ssa.Instruction) int {
	for i, x := range in.Block().Instrs {
		if x == in {
			return i
		}
	}
	return -1
}

// mustPassFrom reports whether every path from just after instruction `from`
// to any Return of the function passes an instruction satisfying ev. Paths
// that end in a Return satisfying exempt (may be nil) are ignored. It returns
// false together with an offending Return otherwise.
func mustPassFrom(from ssa.Instruction, ev func(ssa.Instruction) bool, exempt func(*ssa.Return) bool) (bool, *ssa.Return) {
	b := from.Block()
	start := instrIndex(from) + 1
	return mustPassBlock(b, start, ev, exempt, map[*ssa.BasicBlock]bool{})
}

// mustPassEdge: same, starting at the beginning of block b.
func mustPassEdge(b *ssa.BasicBlock, ev func(ssa.Instruction) bool, exempt func(*ssa.Return) bool) (bool, *ssa.Return) {
	return mustPassBlock(b, 0, ev, exempt, map[*ssa.BasicBlock]bool{})
}

func mustPassBlock(b *ssa.BasicBlock, start int, ev func(ssa.Instruction) bool, exempt func(*ssa.Return) bool, seen map[*ssa.BasicBlock]bool) (bool, *ssa.Return) {
	for i := start; i < len(b.Instrs); i++ {
		in := b.Instrs[i]
		if ev(in) {
			return true, nil
		}
		if r, ok := in.(*ssa.Return); ok {
			if exempt != nil && exempt(r) {
				return true, nil
			}
			return false, r
		}
	}
	if start == 0 {
		if seen[b] {
			return true, nil // a cycle without event: decided by the other exits of the loop
		}
		seen[b] = true
	}
	for _, s := range b.Succs {
		if ok, r := mustPassBlock(s, 0, ev, exempt, seen); !ok {
			return false, r
		}
	}
	return true, nil
}

// seenBefore reports whether on every path from the function entry to
// instruction `at` an instruction satisfying ev occurs (forward must
// analysis).
func seenBefore(at ssa.Instruction, ev func(ssa.Instruction) bool) bool {
	f := at.Parent()
	n := len(f.Blocks)
	in := make([]int, n) // -1 unknown, 0 not seen on some path, 1 seen on all paths
	out := make([]int, n)
	for i := range in {
		in[i], out[i] = -1, -1
	}
	in[0] = 0
	changed := true
	res := false
	for iter := 0; changed && iter < 4*n+8; iter++ {
		changed = false
		for _, b := range f.Blocks {
			if b.Index != 0 {
				v := -1
				for _, p := range b.Preds {
					if out[p.Index] == -1 {
						continue
					}
					if v == -1 || out[p.Index] < v {
						v = out[p.Index]
					}
				}
				if v != in[b.Index] {
					in[b.Index] = v
					changed = true
				}
			}
			if in[b.Index] == -1 {
				continue
			}
			cur := in[b.Index]
			for _, x := range b.Instrs {
				if x == at {
					res = cur == 1
				}
				if ev(x) {
					cur = 1
				}
			}
			if cur != out[b.Index] {
				out[b.Index] = cur
				changed = true
			}
		}
	}
	return res
}

// reaches reports whether block `to` is reachable from block `from` (following
// successor edges; from reaches itself only through a cycle unless same is set).
func reaches(from, to *ssa.BasicBlock) bool {
	seen := map[*ssa.BasicBlock]bool{}
	var dfs func(b *ssa.BasicBlock) bool
	dfs = func(b *ssa.BasicBlock) bool {
		if b == to {
			return true
		}
		if seen[b] {
			return false
		}
		seen[b] = true
		for _, s := range b.Succs {
			if dfs(s) {
				return true
			}
		}
		return false
	}
	for _, s := range from.Succs {
		if dfs(s) {
			return true
		}
	}
	return false
}

// ---------------------------------------------------------------------------

// Path is one acyclic entry-to-return path with the branch decisions taken.
type Path struct {
	Blocks    []*ssa.BasicBlock
	Decisions []Guard
	Ret       *ssa.Return
}

// enumPaths enumerates all entry-to-return paths of a loop-free function.
// ok is false when the function has a cycle or more than limit paths.
func enumPaths(f *ssa.Function, limit int) (paths []Path, ok bool) {
	ok = true
	onStack := map[*ssa.BasicBlock]bool{}
	var cur Path
	// env: boolean values known on the current path (branch decisions taken, φs of booleans whose incoming
	// value is known, negations); a branch whose condition is known is followed on that side only
	// src: for the φs met on the current path, the value that came in (so that a branch on the φ
	// is also a decision about that value: `bad := a || b; if !bad` decides b on the path through b)
	src := map[ssa.Value]ssa.Value{}
	// resolve: the constant a value is known to be on the current path (a φ whose incoming value is one)
	resolve := func(v ssa.Value) *ssa.Const {
		for hop := 0; hop < 6; hop++ {
			if k, isK := v.(*ssa.Const); isK {
				return k
			}
			in, had := src[v]
			if !had {
				return nil
			}
			v = in
		}
		return nil
	}
	var val func(env map[ssa.Value]bool, v ssa.Value, d int) (bool, bool)
	val = func(env map[ssa.Value]bool, v ssa.Value, d int) (bool, bool) {
		if d > 6 {
			return false, false
		}
		if b, known := env[v]; known {
			return b, true
		}
		switch x := v.(type) {
		case *ssa.BinOp:
			// a comparison of two values that are constants on this path (a variable set to a literal in
			// each case of a switch and tested afterwards)
			if x.Op == token.EQL || x.Op == token.NEQ {
				a, b := resolve(x.X), resolve(x.Y)
				if a != nil && b != nil && a.Value != nil && b.Value != nil {
					if _, isPhiX := x.X.(*ssa.Phi); isPhiX || func() bool { _, p := x.Y.(*ssa.Phi); return p }() {
						eq := constant.Compare(a.Value, token.EQL, b.Value)
						return eq == (x.Op == token.EQL), true
					}
				}
			}
		case *ssa.Const:
			if x.Value != nil && (x.Value.String() == "true" || x.Value.String() == "false") {
				return x.Value.String() == "true", true
			}
		case *ssa.UnOp:
			if x.Op.String() == "!" {
				if b, known := val(env, x.X, d+1); known {
					return !b, true
				}
			}
		}
		return false, false
	}
	var walk func(b, prev *ssa.BasicBlock, env map[ssa.Value]bool)
	walk = func(b, prev *ssa.BasicBlock, env map[ssa.Value]bool) {
		if !ok {
			return
		}
		if onStack[b] {
			ok = false
			return
		}
		onStack[b] = true
		cur.Blocks = append(cur.Blocks, b)
		defer func() {
			onStack[b] = false
			cur.Blocks = cur.Blocks[:len(cur.Blocks)-1]
		}()
		// boolean φs whose incoming value on this edge is known
		if prev != nil {
			pi := -1
			for i, p := range b.Preds {
				if p == prev {
					pi = i
				}
			}
			for _, in := range b.Instrs {
				phi, isPhi := in.(*ssa.Phi)
				if !isPhi {
					break
				}
				if pi >= 0 && pi < len(phi.Edges) {
					if bv, known := val(env, phi.Edges[pi], 0); known {
						env = withVal(env, phi, bv)
					}
					if old, had := src[phi]; had {
						defer func(p *ssa.Phi, o ssa.Value) { src[p] = o }(phi, old)
					} else {
						defer func(p *ssa.Phi) { delete(src, p) }(phi)
					}
					src[phi] = phi.Edges[pi]
				}
			}
		}
		last := b.Instrs[len(b.Instrs)-1]
		switch t := last.(type) {
		case *ssa.Return:
			p := Path{Blocks: append([]*ssa.BasicBlock(nil), cur.Blocks...), Decisions: append([]Guard(nil), cur.Decisions...), Ret: t}
			paths = append(paths, p)
			if len(paths) > limit {
				ok = false
			}
		case *ssa.If:
			known, kv := false, false
			if bv, k := val(env, t.Cond, 0); k {
				known, kv = true, bv
			}
			for i, s := range b.Succs {
				if known && kv != (i == 0) {
					continue // contradicts what the path already knows
				}
				nDec := len(cur.Decisions)
				cur.Decisions = append(cur.Decisions, Guard{Cond: t.Cond, Val: i == 0, At: t})
				e2 := withVal(env, t.Cond, i == 0)
				// what the branch says about the values the condition was made of
				cv, bv := t.Cond, i == 0
				for hop := 0; hop < 6; hop++ {
					if u, isU := cv.(*ssa.UnOp); isU && u.Op.String() == "!" {
						cv, bv = u.X, !bv
					} else if in, had := src[cv]; had {
						if _, isConst := in.(*ssa.Const); isConst {
							break
						}
						cv = in
					} else {
						break
					}
					e2 = withVal(e2, cv, bv)
					cur.Decisions = append(cur.Decisions, Guard{Cond: cv, Val: bv, At: t})
				}
				walk(s, b, e2)
				cur.Decisions = cur.Decisions[:nDec]
			}
		case *ssa.Panic:
			// path ends without a return: ignored
		default:
			for _, s := range b.Succs {
				walk(s, b, env)
			}
		}
	}
	if len(f.Blocks) > 0 {
		walk(f.Blocks[0], nil, map[ssa.Value]bool{})
	}
	return paths, ok
}

func withVal(env map[ssa.Value]bool, v ssa.Value, b bool) map[ssa.Value]bool {
	out := make(map[ssa.Value]bool, len(env)+1)
	for k, x := range env {
		out[k] = x
	}
	out[v] = b
	return out
}

// phiOnPath resolves a value on a path: phis are replaced by the incoming
// value of the predecessor actually taken.
func phiOnPath(v ssa.Value, p Path) ssa.Value {
	for depth := 0; depth < 16; depth++ {
		phi, ok := v.(*ssa.Phi)
		if !ok {
			return v
		}
		// find phi's block in path and its predecessor on the path
		found := false
		for i := len(p.Blocks) - 1; i > 0; i-- {
			if p.Blocks[i] == phi.Block() {
				pred := p.Blocks[i-1]
				for k, pb := range phi.Block().Preds {
					if pb == pred {
						v = phi.Edges[k]
						found = true
						break
					}
				}
				break
			}
		}
		if !found {
			return v
		}
	}
	return v
}

// ---------------------------------------------------------------------------

// condBits returns the value of a Condition-typed constant.
func condBits(v ssa.Value) (uint64, bool) {
	k, ok := v.(*ssa.Const)
	if !ok || k.Value == nil {
		if ok && k.Value == nil {
			return 0, true
		}
		return 0, false
	}
	n, exact := constant.Uint64Val(constant.ToInt(k.Value))
	return n, exact
}

// conditionConsts returns name -> bit value of the declared Condition constants.
func (w *World) conditionConsts() map[string]uint64 {
	out := map[string]uint64{}
	for n, m := range w.SSA.Members {
		if c, ok := m.(*ssa.NamedConst); ok && typeIs(c.Type(), apdPath, "Condition") {
			if v, ok := constant.Uint64Val(constant.ToInt(c.Value.Value)); ok && v != 0 && v&(v-1) == 0 {
				out[n] = v // single-bit constants are the flags; unions (DefaultTraps) are not
			}
		}
	}
	return out
}

// conditionUnions returns the declared Condition constants that are not single bits.
func (w *World) conditionUnions() map[string]uint64 {
	out := map[string]uint64{}
	for n, m := range w.SSA.Members {
		if c, ok := m.(*ssa.NamedConst); ok && typeIs(c.Type(), apdPath, "Condition") {
			if v, ok := constant.Uint64Val(constant.ToInt(c.Value.Value)); ok && (v == 0 || v&(v-1) != 0) {
				out[n] = v
			}
		}
	}
	return out
}

// flowsTo reports whether value v can flow (through operators, phis,
// conversions, extracts, stores to locals that are loaded again, and calls
// listed in through) into an operand satisfying sink.
func flowsTo(v ssa.Value, sink func(user ssa.Instruction, operand ssa.Value) bool, through func(c ssa.CallInstruction) bool) bool {
	seen := map[ssa.Value]bool{}
	var visit func(x ssa.Value) bool
	visit = func(x ssa.Value) bool {
		if seen[x] {
			return false
		}
		seen[x] = true
		refs := x.Referrers()
		if refs == nil {
			return false
		}
		for _, u := range *refs {
			if sink(u, x) {
				return true
			}
			switch t := u.(type) {
			case *ssa.BinOp, *ssa.UnOp, *ssa.Phi, *ssa.Convert, *ssa.ChangeType, *ssa.Extract, *ssa.MakeInterface:
				if visit(t.(ssa.Value)) {
					return true
				}
			case *ssa.Store:
				if t.Val == x {
					// follow loads of the same address
					if ar := t.Addr.Referrers(); ar != nil {
						for _, au := range *ar {
							if ld, ok := au.(*ssa.UnOp); ok && ld.Op == token.MUL {
								if visit(ld) {
									return true
								}
							}
						}
					}
					// field of a local/param struct (e.g. ed.Flags): follow loads of the same field address expression
					if fa, ok := t.Addr.(*ssa.FieldAddr); ok {
						for _, b := range t.Parent().Blocks {
							for _, in := range b.Instrs {
								if ld, ok := in.(*ssa.UnOp); ok && ld.Op == token.MUL {
									if fb, ok := ld.X.(*ssa.FieldAddr); ok && fb.Field == fa.Field && fb.X == fa.X {
										if visit(ld) {
											return true
										}
									}
								}
							}
						}
					}
				}
			case ssa.CallInstruction:
				if through != nil && through(t) {
					if val := t.Value(); val != nil && visit(val) {
						return true
					}
				}
			}
		}
		return false
	}
	return visit(v)
}

// isGoErrorCall reports whether the call converts flags to an error
// ((*Context).goError or (Condition).GoError).
func (w *World) isGoErrorCall(c ssa.CallInstruction) bool {
	n := w.calleeName(c)
	return n == "(*Context).goError" || n == "(Condition).GoError"
}

func hasPrefixAny(s string, ps ...string) bool {
	for _, p := range ps {
		if strings.HasPrefix(s, p) {
			return true
		}
	}
	return false
}

// loopsOf returns the natural loops of f as header -> set of blocks.
func loopsOf(f *ssa.Function) map[*ssa.BasicBlock]map[*ssa.BasicBlock]bool {
	loops := map[*ssa.BasicBlock]map[*ssa.BasicBlock]bool{}
	for _, b := range f.Blocks {
		for _, s := range b.Succs {
			if s.Dominates(b) { // back edge b -> s
				body := loops[s]
				if body == nil {
					body = map[*ssa.BasicBlock]bool{s: true}
					loops[s] = body
				}
				var stack []*ssa.BasicBlock
				if !body[b] {
					body[b] = true
					stack = append(stack, b)
				}
				for len(stack) > 0 {
					x := stack[len(stack)-1]
					stack = stack[:len(stack)-1]
					for _, p := range x.Preds {
						if !body[p] {
							body[p] = true
							stack = append(stack, p)
						}
					}
				}
			}
		}
	}
	return loops
}

// ci returns the integer value of a constant, or a value no rule compares
// with when the constant is not an integer.
func ci(k *ssa.Const) int64 {
	if k == nil || k.Value == nil {
		if k != nil && k.Value == nil {
			return 0
		}
		return -1 << 62
	}
	if k.Value.Kind() != constant.Int {
		return -1 << 62
	}
	v, ok := constant.Int64Val(k.Value)
	if !ok {
		return -1 << 62
	}
	return v
}

// privateClosure returns f together with the unexported functions that are
// reachable from f and called only from inside the set: the helpers a
// refactoring may have split f into.
func (w *World) privateClosure(f *ssa.Function) map[*ssa.Function]bool {
	set := map[*ssa.Function]bool{f: true}
	changed := true
	for changed {
		changed = false
		for g := range w.reachable([]*ssa.Function{f}) {
			if set[g] || (g.Object() != nil && g.Object().Exported()) {
				continue
			}
			callers := w.callersOf(g)
			if len(callers) == 0 {
				continue
			}
			all := true
			for _, c := range callers {
				if !set[c.Parent()] {
					all = false
				}
			}
			if all {
				set[g] = true
				changed = true
			}
		}
	}
	return set
}

// closureFuncs returns the closure as a name-sorted slice.
func (w *World) closureFuncs(f *ssa.Function) []*ssa.Function {
	set := w.privateClosure(f)
	var out []*ssa.Function
	for _, n := range w.Names {
		if g := w.Funcs[n]; set[g] {
			out = append(out, g)
		}
	}
	return out
}

// parserFuncs: (*Decimal).setString and the helpers it may have been split into.
func (w *World) parserFuncs() []*ssa.Function {
	f := w.fn("(*Decimal).setString")
	if f == nil {
		return nil
	}
	return w.closureFuncs(f)
}

// recvFieldStore: st stores into field `field` of a *Decimal parameter of f.
func (w *World) recvFieldStore(f *ssa.Function, st *ssa.Store, field string) bool {
	fa, ok := st.Addr.(*ssa.FieldAddr)
	if !ok {
		return false
	}
	pr, isP := fa.X.(*ssa.Parameter)
	if !isP || !isDecimalPtr(pr.Type()) {
		return false
	}
	return w.exprOf(f, st.Addr).Name == field
}

// ownerIn: the key of `keys` whose function is f or has f in its private
// closure (f is a helper that function was split into); "" if none. Exception
// tables are keyed by the function they were reasoned for; a helper extracted
// from it inherits the entry.
func (w *World) ownerIn(f *ssa.Function, keys []string) string {
	name := w.shortName(f)
	for _, k := range keys {
		if k == name {
			return k
		}
	}
	if f.Object() != nil && f.Object().Exported() {
		return ""
	}
	for _, k := range keys {
		if g := w.fn(k); g != nil && w.privateClosure(g)[f] {
			return k
		}
	}
	// a helper shared by several of the keyed functions (and called from
	// nowhere else) inherits the entry of the first that reaches it
	var roots []*ssa.Function
	for _, k := range keys {
		if g := w.fn(k); g != nil {
			roots = append(roots, g)
		}
	}
	if len(roots) > 1 && w.privateClosureOf(roots)[f] {
		for _, k := range keys {
			if g := w.fn(k); g != nil && w.reachable([]*ssa.Function{g})[f] {
				return k
			}
		}
	}
	return ""
}

// privateClosureOf: the roots together with the unexported functions reachable
// from them that are called only from inside the set.
func (w *World) privateClosureOf(roots []*ssa.Function) map[*ssa.Function]bool {
	set := map[*ssa.Function]bool{}
	for _, f := range roots {
		set[f] = true
	}
	reach := w.reachable(roots)
	changed := true
	for changed {
		changed = false
		for g := range reach {
			if set[g] || (g.Object() != nil && g.Object().Exported()) {
				continue
			}
			callers := w.callersOf(g)
			if len(callers) == 0 {
				continue
			}
			all := true
			for _, c := range callers {
				if !set[c.Parent()] {
					all = false
				}
			}
			if all {
				set[g] = true
				changed = true
			}
		}
	}
	return set
}

// addressTaken: f is used as a value somewhere in the package (method value, function value, closure
// binding) — its callers are then not all visible as static calls.
func (w *World) addressTaken(f *ssa.Function) bool {
	for _, g := range w.Funcs {
		for _, b := range g.Blocks {
			for _, in := range b.Instrs {
				var ops [16]*ssa.Value
				for _, op := range in.Operands(ops[:0]) {
					if op == nil || *op == nil {
						continue
					}
					if fn, isF := (*op).(*ssa.Function); isF && fn == f {
						if c, isC := in.(ssa.CallInstruction); isC && c.Common().Value == ssa.Value(f) && !c.Common().IsInvoke() {
							// the callee position of a static call
							used := false
							for _, a := range c.Common().Args {
								if a == ssa.Value(f) {
									used = true
								}
							}
							if !used {
								continue
							}
						}
						return true
					}
				}
			}
		}
	}
	return false
}
