package main

import (
	"fmt"
	"strings"

	"golang.org/x/tools/go/ssa"
)

const shouldAddOne = "(Rounder).ShouldAddOne"

func init() {
	register(&Rule{ID: "C01.R1", Min: 2,
		Text: "ORIGIN: the neg argument of every Rounder.ShouldAddOne call originates in the Negative field of a parameter-rooted Decimal (the sign of the number being rounded); a constant, a never-assigned local field or a coefficient sign test does not count",
		Run:  ruleNegOrigin})
	register(&Rule{ID: "C01.R2", Min: 3,
		Text: "the whole discarded part is used: in every function that both divides with remainder and decides a rounding, the remainder is what the half argument of ShouldAddOne is compared from, and every path on which the remainder is non-zero raises Inexact or feeds the remainder into the coefficient",
		Run:  ruleRemainderUsed})
}

// paramDecimalNegativeLeaf reports whether leaf names the Negative field of a
// Decimal reached from a parameter (x.Negative, d.Negative).
func negLeaves(f *ssa.Function, e *Expr) (good []string, other []string) {
	e.walk(func(x *Expr) bool {
		switch x.Op {
		case "field":
			if x.Name == "Negative" && len(x.Args) == 1 && x.Args[0].Op == "param" {
				good = append(good, x.String())
			} else {
				other = append(other, x.String())
			}
			return false
		case "const":
			other = append(other, "const:"+x.Name)
		case "call":
			other = append(other, "call:"+x.Name)
		case "param":
			other = append(other, "param:"+x.Name)
		}
		return true
	})
	return
}

func ruleNegOrigin(w *World, r *RuleResult) {
	if !r.need(w, shouldAddOne) {
		return
	}
	for _, c := range w.allCallsTo(shouldAddOne) {
		f := c.Parent()
		key := fmt.Sprintf("%s | ShouldAddOne neg", w.shortName(f))
		// several call sites in one function get an ordinal by the half argument's shape
		e := w.exprOf(f, c.Common().Args[2])
		good, other := negLeaves(f, e)
		// the sign may be handed to an unexported helper as a plain bool: judge it at the helper's call sites
		if len(good) == 0 && (f.Object() == nil || !f.Object().Exported()) {
			if pr, isP := c.Common().Args[2].(*ssa.Parameter); isP {
				idx := -1
				for i, q := range f.Params {
					if q == pr {
						idx = i
					}
				}
				callers := w.callersOf(f)
				all := idx >= 0 && len(callers) > 0
				var via []string
				for _, cs := range callers {
					if cs.Common().IsInvoke() || idx >= len(cs.Common().Args) {
						all = false
						continue
					}
					g2, _ := negLeaves(cs.Parent(), w.exprOf(cs.Parent(), cs.Common().Args[idx]))
					if len(g2) == 0 {
						all = false
					}
					via = append(via, g2...)
				}
				if all {
					good = via
				}
			}
		}
		if n := countKey(r, key); n > 0 {
			key = fmt.Sprintf("%s #%d", key, n+1)
		}
		if len(good) > 0 {
			r.ok(key, w.instrPos(c), "neg = "+short(e.String(), 200)+"  (sign leaves: "+strings.Join(uniqStrings(good), ",")+")", true)
		} else {
			r.bad(key, w.instrPos(c), "neg = "+short(e.String(), 300)+" does not derive from the Negative field of the value being rounded (leaves: "+strings.Join(uniqStrings(other), ",")+"); directed rounding modes would ignore the sign")
		}
	}
}

func countKey(r *RuleResult, prefix string) int {
	n := 0
	for _, o := range r.Obs {
		if o.Key == prefix || strings.HasPrefix(o.Key, prefix+" #") {
			n++
		}
	}
	return n
}

// remainderAllocs finds, in f, the local objects that receive the remainder of
// a truncating division: the r argument of (*BigInt).QuoRem and the frac
// argument of (*Decimal).Modf.
func (w *World) remainderAllocs(f *ssa.Function) map[ssa.Value]*ssa.Call {
	out := map[ssa.Value]*ssa.Call{}
	for _, c := range w.callsTo(f, "(*BigInt).QuoRem") {
		out[basePtr(c.Common().Args[3])] = c
	}
	for _, c := range w.callsTo(f, "(*Decimal).Modf") {
		a := c.Common().Args[2]
		if !isNilConst(a) {
			out[basePtr(a)] = c
		}
	}
	return out
}

// derivedFrom reports whether pointer value v is one of the remainder objects,
// or a local that is assigned from one by a call (discard.Coeff.Set(&m),
// frac.Abs(&frac), rem.Mul(&rem, two)).
func (w *World) derivedFromRemainder(f *ssa.Function, v ssa.Value, rems map[ssa.Value]*ssa.Call, depth int) bool {
	b := basePtr(v)
	if _, ok := rems[b]; ok {
		return true
	}
	if depth > 4 {
		return false
	}
	for _, c := range callsIn(f) {
		cc := c.Common()
		g := cc.StaticCallee()
		if g == nil || !w.inPkg(g) {
			continue
		}
		sum := w.summary(g)
		writesB := false
		for i, a := range cc.Args {
			if pointerLike(a.Type()) && basePtr(a) == b && i < len(sum.Writes) && len(sum.Writes[i]) > 0 {
				writesB = true
			}
		}
		if !writesB {
			continue
		}
		for i, a := range cc.Args {
			if pointerLike(a.Type()) && i < len(sum.Reads) && len(sum.Reads[i]) > 0 && len(sum.Writes[i]) == 0 && basePtr(a) != b {
				if w.derivedFromRemainder(f, a, rems, depth+1) {
					return true
				}
			}
		}
	}
	return false
}

func ruleRemainderUsed(w *World, r *RuleResult) {
	cc := w.conditionConsts()
	inexact := cc["Inexact"]
	if inexact == 0 {
		r.anchorMissing("const Inexact")
		return
	}
	for _, name := range w.Names {
		f := w.Funcs[name]
		rems := w.remainderAllocs(f)
		sites := w.callsTo(f, shouldAddOne)
		if len(rems) == 0 || len(sites) == 0 {
			continue
		}
		// (b) half derives from the remainder
		for i, c := range sites {
			key := fmt.Sprintf("%s | ShouldAddOne half", name)
			if i > 0 {
				key = fmt.Sprintf("%s #%d", key, i+1)
			}
			half := c.Common().Args[3]
			e := w.exprOf(f, half)
			okHalf := false
			e.walk(func(x *Expr) bool {
				if x.Op == "call" && (x.Name == "(*Decimal).Cmp" || x.Name == "(*BigInt).Cmp" || x.Name == "(*BigInt).CmpAbs") {
					if call, ok := x.V.(*ssa.Call); ok {
						for _, a := range call.Common().Args {
							if w.derivedFromRemainder(f, a, rems, 0) {
								okHalf = true
							}
						}
					}
				}
				return true
			})
			if okHalf {
				r.ok(key, w.instrPos(c), "half = "+short(e.String(), 160)+" compares a value derived from the division remainder", true)
			} else {
				r.bad(key, w.instrPos(c), "half = "+short(e.String(), 300)+" is not a comparison of the division remainder; the rounding decision would not use the discarded part")
			}
		}
		// (c) non-zero remainder => Inexact (or sticky write into the coefficient)
		for rem, div := range rems {
			key := fmt.Sprintf("%s | nonzero remainder of %s raises Inexact", name, w.calleeName(div))
			var tests []*ssa.If
			for _, b := range f.Blocks {
				iff, ok := b.Instrs[len(b.Instrs)-1].(*ssa.If)
				if !ok {
					continue
				}
				e := w.exprOf(f, iff.Cond)
				isTest := false
				e.walk(func(x *Expr) bool {
					if x.Op == "call" && (x.Name == "(*BigInt).Sign" || x.Name == "(*Decimal).IsZero" || x.Name == "(*Decimal).Sign") {
						if call, ok := x.V.(*ssa.Call); ok && w.derivedFromRemainder(f, call.Common().Args[0], map[ssa.Value]*ssa.Call{rem: div}, 0) {
							isTest = true
						}
					}
					return true
				})
				if isTest {
					tests = append(tests, iff)
				}
			}
			if len(tests) == 0 {
				r.bad(key, w.instrPos(div), "the remainder is never tested for zero: a non-zero remainder cannot raise Inexact")
				continue
			}
			for _, iff := range tests {
				nz := nonZeroEdge(w, f, iff)
				if nz < 0 {
					r.undecided(key, w.instrPos(iff), "cannot tell which edge of the remainder test is the non-zero one")
					continue
				}
				start := iff.Block().Succs[nz]
				p := w.newProv(f, nil)
				ev := func(in ssa.Instruction) bool {
					if bo, ok := in.(*ssa.BinOp); ok && bo.Op.String() == "|" {
						for _, o := range []ssa.Value{bo.X, bo.Y} {
							if v, ok := condBits(o); ok && typeIs(o.Type(), apdPath, "Condition") && v&inexact != 0 {
								return true
							}
						}
					}
					// `res = Inexact | Rounded` as a plain assignment: the constant arrives at the merge point as a φ edge
					switch in.(type) {
					case *ssa.Jump, *ssa.If:
						b := in.Block()
						for _, s := range b.Succs {
							for _, y := range s.Instrs {
								phi, isPhi := y.(*ssa.Phi)
								if !isPhi {
									break
								}
								for i, e := range phi.Edges {
									if s.Preds[i] == b {
										if v, ok := condBits(e); ok && typeIs(e.Type(), apdPath, "Condition") && v&inexact != 0 && v < 1<<12 {
											return true
										}
									}
								}
							}
						}
					}
					// sticky: an arithmetic write into the destination coefficient
					if c, ok := in.(*ssa.Call); ok {
						n := w.calleeName(c)
						if n == "(*BigInt).Add" || n == "(*BigInt).Mul" {
							for _, l := range p.roots(c.Common().Args[0]) {
								if l.Root.Kind == RParam && l.Field == "Coeff" {
									// only counts when on the remainder-non-zero side and not itself under a ShouldAddOne guard
									for _, g := range guardsAt(c.Block()) {
										if call, ok := g.Cond.(*ssa.Call); ok && w.calleeName(call) == shouldAddOne {
											return false
										}
									}
									return true
								}
							}
						}
					}
					return false
				}
				ok, ret := mustPassEdge(start, ev, func(rt *ssa.Return) bool { return w.isErrorReturn(rt) })
				if ok {
					r.ok(key, w.instrPos(iff), "every path from the remainder≠0 edge to a return or-s Inexact into the flags or folds the remainder into the coefficient", true)
				} else {
					r.bad(key, w.instrPos(iff), fmt.Sprintf("a path from the remainder≠0 edge reaches the return at %s without raising Inexact and without using the remainder: the remainder is lost", w.instrPos(ret)))
				}
			}
		}
	}
}

// nonZeroEdge returns the successor index (0 true / 1 false) of iff on which
// the tested value is known to be non-zero, or -1.
func nonZeroEdge(w *World, f *ssa.Function, iff *ssa.If) int {
	cond := iff.Cond
	neg := false
	for {
		if u, ok := cond.(*ssa.UnOp); ok && u.Op.String() == "!" {
			neg = !neg
			cond = u.X
			continue
		}
		break
	}
	res := -1
	switch x := cond.(type) {
	case *ssa.BinOp:
		// Sign() != 0  / Sign() == 0
		if k, ok := x.Y.(*ssa.Const); ok && ci(k) == 0 {
			switch x.Op.String() {
			case "!=":
				res = 0
			case "==":
				res = 1
			}
		}
	case *ssa.Call:
		if w.calleeName(x) == "(*Decimal).IsZero" {
			res = 1
		}
	}
	if res >= 0 && neg {
		res = 1 - res
	}
	return res
}
