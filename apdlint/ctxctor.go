package main

import (
	"golang.org/x/tools/go/ssa"
)

// ctorInfo describes a freshly made *Context: a call of (*Context).WithPrecision
// or of a helper of the package that wraps it (c.withHalfEven(p) = WithPrecision(p)
// plus Rounding = RoundHalfEven). Values are expressed in terms of the calling
// function.
type ctorInfo struct {
	Call   *ssa.Call
	Alloc  *ssa.Alloc        // set instead of Call for a composite literal &Context{…}
	Src    ssa.Value         // the context that is copied (caller's parameter, &BaseContext, …)
	Prec   ssa.Value         // the new Precision, nil if unknown
	Consts map[string]string // fields the constructor stores a constant into (rendered as exprOf does)
}

// ctxCtor recognises v (or its base pointer) as a context constructor call.
func (w *World) ctxCtor(v ssa.Value) *ctorInfo {
	return w.ctxCtorDepth(v, 0)
}

func (w *World) ctxCtorDepth(v ssa.Value, depth int) *ctorInfo {
	if v == nil || depth > 3 {
		return nil
	}
	if al, isAlloc := basePtr(v).(*ssa.Alloc); isAlloc {
		return w.ctxLiteral(al)
	}
	c, ok := basePtr(v).(*ssa.Call)
	if !ok {
		return nil
	}
	g := callee(c)
	if g == nil {
		return nil
	}
	if w.calleeName(c) == "(*Context).WithPrecision" {
		return &ctorInfo{Call: c, Src: c.Common().Args[0], Prec: c.Common().Args[1], Consts: map[string]string{}}
	}
	if !w.inPkg(g) || g.Signature.Results().Len() != 1 || !isContextPtr(g.Signature.Results().At(0).Type()) {
		return nil
	}
	// every return of g delivers the same inner constructor value
	var inner *ctorInfo
	var rbase ssa.Value
	for _, b := range g.Blocks {
		rt, isRet := b.Instrs[len(b.Instrs)-1].(*ssa.Return)
		if !isRet {
			continue
		}
		base := basePtr(rt.Results[0])
		if rbase != nil && base != rbase {
			return nil
		}
		rbase = base
	}
	inner = w.ctxCtorDepth(rbase, depth+1)
	if inner == nil {
		return nil
	}
	mapBack := func(x ssa.Value) ssa.Value {
		if x == nil {
			return nil
		}
		if pr, isP := x.(*ssa.Parameter); isP {
			for i, q := range g.Params {
				if q == pr && i < len(c.Common().Args) {
					return c.Common().Args[i]
				}
			}
			return nil
		}
		if _, isG := x.(*ssa.Global); isG {
			return x
		}
		if _, isK := x.(*ssa.Const); isK {
			return x
		}
		return nil
	}
	out := &ctorInfo{Call: c, Src: mapBack(basePtr(inner.Src)), Prec: mapBack(inner.Prec), Consts: map[string]string{}}
	if out.Src == nil {
		return nil
	}
	for k, val := range inner.Consts {
		out.Consts[k] = val
	}
	for _, st := range storesIn(g) {
		fa, isFA := st.Addr.(*ssa.FieldAddr)
		if !isFA || basePtr(fa.X) != rbase {
			continue
		}
		field := w.exprOf(g, st.Addr).Name
		if _, isK := st.Val.(*ssa.Const); isK {
			out.Consts[field] = w.exprOf(g, st.Val).String()
		} else if field == "Precision" {
			out.Prec = mapBack(st.Val)
		} else {
			delete(out.Consts, field)
			out.Consts[field] = "" // stored, value not a constant
		}
	}
	return out
}

// ctxLiteral: al is a Context built by a composite literal whose exponent limits and traps are copied from
// one context S (MaxExponent: S.MaxExponent, MinExponent: S.MinExponent, Traps: S.Traps): a copy of S with
// its own Precision and, possibly, Rounding — what WithPrecision plus field stores would have made.
func (w *World) ctxLiteral(al *ssa.Alloc) *ctorInfo {
	if al == nil || !isContextPtr(al.Type()) {
		return nil
	}
	f := al.Parent()
	out := &ctorInfo{Alloc: al, Consts: map[string]string{}}
	srcs := map[string]ssa.Value{}
	var whole ssa.Value
	started := false
	for _, in := range al.Block().Instrs {
		if in == ssa.Instruction(al) {
			started = true
			continue
		}
		if !started {
			continue
		}
		st, ok := in.(*ssa.Store)
		if !ok {
			continue
		}
		// nc := *S (or nc := BaseContext): every field is copied from S
		if st.Addr == ssa.Value(al) {
			if ld, isLd := st.Val.(*ssa.UnOp); isLd && ld.Op.String() == "*" {
				whole = basePtr(ld.X)
				out.Prec = nil
			}
			// nc := helper(…): a helper of the package that returns a Context by value, itself a copy of a
			// context with some fields set (internalContext(p), c.halfEvenCopy())
			if call, isCall := st.Val.(*ssa.Call); isCall {
				if inner, src, prec := w.ctxValueCtor(call); inner != nil {
					whole = src
					out.Prec = prec
					for k, v := range inner.Consts {
						out.Consts[k] = v
					}
				}
			}
			continue
		}
		fa, isFA := st.Addr.(*ssa.FieldAddr)
		if !isFA || fa.X != ssa.Value(al) {
			continue
		}
		field := w.exprOf(f, st.Addr).Name
		if field == "Precision" {
			out.Prec = st.Val
			continue
		}
		if _, isK := st.Val.(*ssa.Const); isK {
			out.Consts[field] = w.exprOf(f, st.Val).String()
			continue
		}
		if ld, isLd := st.Val.(*ssa.UnOp); isLd && ld.Op.String() == "*" {
			if sfa, isS := ld.X.(*ssa.FieldAddr); isS && w.exprOf(f, ld.X).Name == field {
				srcs[field] = basePtr(sfa.X)
				continue
			}
		}
		out.Consts[field] = "" // stored, value neither a constant nor the same field of another context
	}
	var src ssa.Value
	for _, fld := range []string{"MaxExponent", "MinExponent", "Traps"} {
		sv, ok := srcs[fld]
		if !ok && whole != nil {
			if _, stored := out.Consts[fld]; !stored || fld == "Traps" {
				sv, ok = whole, true // copied with the whole value (a cleared Traps field is looked at by the rules that care)
			}
		}
		if !ok || (src != nil && sv != src) {
			return nil
		}
		src = sv
	}
	out.Src = src
	return out
}

// ctorCalls lists the context constructor calls in f.
func (w *World) ctorCalls(f *ssa.Function) []*ctorInfo {
	var out []*ctorInfo
	for _, b := range f.Blocks {
		for _, in := range b.Instrs {
			if al, ok := in.(*ssa.Alloc); ok {
				if ci := w.ctxLiteral(al); ci != nil {
					out = append(out, ci)
				}
			}
		}
	}
	for _, c := range callsIn(f) {
		call, ok := c.(*ssa.Call)
		if !ok {
			continue
		}
		if ci := w.ctxCtor(call); ci != nil && ci.Call == call {
			out = append(out, ci)
		}
	}
	return out
}

// isFromParam / isFromBase: where the copied context comes from.
func (ci *ctorInfo) fromParam() (*ssa.Parameter, bool) {
	p, ok := basePtr(ci.Src).(*ssa.Parameter)
	return p, ok
}

func (ci *ctorInfo) fromBaseContext() bool {
	g, ok := basePtr(ci.Src).(*ssa.Global)
	return ok && g.Name() == "BaseContext"
}

// ctxValueCtor: call is a call of an in-package function that returns a Context by value, every return of
// which loads one local that is a whole copy of a context (a parameter or a package-level one) with fields
// set. Returns the inner description and, in the caller's terms, the copied context and the precision.
func (w *World) ctxValueCtor(call *ssa.Call) (*ctorInfo, ssa.Value, ssa.Value) {
	g := callee(call)
	if g == nil || !w.inPkg(g) || len(g.Blocks) == 0 || g.Signature.Results().Len() != 1 {
		return nil, nil, nil
	}
	if !typeIs(g.Signature.Results().At(0).Type(), apdPath, "Context") || isPointer(g.Signature.Results().At(0).Type()) {
		return nil, nil, nil
	}
	var local *ssa.Alloc
	for _, b := range g.Blocks {
		rt, isRet := b.Instrs[len(b.Instrs)-1].(*ssa.Return)
		if !isRet {
			continue
		}
		ld, isLd := rt.Results[0].(*ssa.UnOp)
		if !isLd || ld.Op.String() != "*" {
			return nil, nil, nil
		}
		al, isAl := ld.X.(*ssa.Alloc)
		if !isAl || local != nil && al != local {
			return nil, nil, nil
		}
		local = al
	}
	if local == nil {
		return nil, nil, nil
	}
	inner := w.ctxLiteral(local)
	if inner == nil || inner.Src == nil {
		return nil, nil, nil
	}
	mapBack := func(x ssa.Value) ssa.Value {
		switch y := x.(type) {
		case nil:
			return nil
		case *ssa.Parameter:
			for i, q := range g.Params {
				if q == y && i < len(call.Common().Args) {
					return call.Common().Args[i]
				}
			}
		case *ssa.Global, *ssa.Const:
			return x
		}
		return nil
	}
	src := mapBack(basePtr(inner.Src))
	if src == nil {
		return nil, nil, nil
	}
	return inner, basePtr(src), mapBack(inner.Prec)
}
