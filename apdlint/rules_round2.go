package main

import (
	"fmt"
	"go/constant"
	"go/token"
	"sort"
	"strings"

	"golang.org/x/tools/go/ssa"
)

func init() {
	register(&Rule{ID: "C20.R1", Min: 6,
		Text: "exhaustive dispatch: the declared Rounder constants, the keys of `roundings` and the cases of ShouldAddOne are the same set; each case calls a distinct decision function; the default case calls the RoundHalfUp function",
		Run:  ruleRounderDispatch})
	register(&Rule{ID: "C20.R2", Min: 4,
		Text: "decision tables: each rounding decision function, evaluated over the finite domain neg∈{T,F} × half∈{<0,=0,>0} (its parameters are only ever compared), has exactly the truth table of its mode: down F; up T; half_up half≥0; half_down half>0; half_even half>0 or (half=0 and odd); floor neg; ceiling ¬neg; 05up depends on the result digit only",
		Run:  ruleDecisionTables})
	register(&Rule{ID: "C09.R1", Min: 7,
		Text: "every site that raises Inexact because digits were dropped lies on a path through a ShouldAddOne decision (directly or via Rounder.Round); exceptions: overflow to infinity, and the transcendental functions whose result is inexact by definition",
		Run:  ruleInexactThroughDecision})
}

// ---- C20.R1 ----------------------------------------------------------------

func (w *World) rounderConsts() map[string]string { // name -> string value
	out := map[string]string{}
	for n, m := range w.SSA.Members {
		if c, ok := m.(*ssa.NamedConst); ok && typeIs(c.Type(), apdPath, "Rounder") && c.Value.Value.Kind() == constant.String {
			out[n] = constant.StringVal(c.Value.Value)
		}
	}
	return out
}

// dispatchTable returns, for ShouldAddOne, case string -> decision callee, and
// the default callee.
func (w *World) dispatchTable(r *RuleResult) (map[string]string, string, bool) {
	f := w.fn(shouldAddOne)
	if f == nil {
		r.anchorMissing(shouldAddOne)
		return nil, "", false
	}
	paths, ok := enumPaths(f, 4096)
	if !ok {
		r.undecided(shouldAddOne+" | dispatch", w.pos(f.Pos()), "ShouldAddOne is not loop-free; cannot enumerate its cases")
		return nil, "", false
	}
	table := map[string]string{}
	def := ""
	for _, p := range paths {
		if len(p.Ret.Results) != 1 {
			continue
		}
		rv := phiOnPath(p.Ret.Results[0], p)
		call, ok := rv.(*ssa.Call)
		cal := "<not a call>"
		if ok {
			cal = w.calleeName(call)
		}
		matched := ""
		for _, d := range p.Decisions {
			bo, ok := d.Cond.(*ssa.BinOp)
			if !ok || bo.Op != token.EQL {
				continue
			}
			var k *ssa.Const
			if c, ok := bo.Y.(*ssa.Const); ok {
				k = c
			} else if c, ok := bo.X.(*ssa.Const); ok {
				k = c
			}
			if k == nil || k.Value == nil || k.Value.Kind() != constant.String {
				continue
			}
			if d.Val {
				matched = constant.StringVal(k.Value)
			}
		}
		if matched == "" {
			def = cal
		} else {
			if old, dup := table[matched]; dup && old != cal {
				table[matched] = old + "|" + cal
			} else {
				table[matched] = cal
			}
		}
	}
	return table, def, true
}

func ruleRounderDispatch(w *World, r *RuleResult) {
	consts := w.rounderConsts()
	if len(consts) == 0 {
		r.anchorMissing("Rounder constants")
		return
	}
	table, def, ok := w.dispatchTable(r)
	if !ok {
		return
	}
	f := w.fn(shouldAddOne)
	// keys of roundings (built by the package initialiser)
	keys := map[string]bool{}
	for _, n := range w.Names {
		if !strings.HasPrefix(n, "init") {
			continue
		}
		for _, b := range w.Funcs[n].Blocks {
			for _, in := range b.Instrs {
				if mu, ok := in.(*ssa.MapUpdate); ok {
					if ld, ok := mu.Map.(*ssa.UnOp); ok {
						if g, ok := ld.X.(*ssa.Global); ok && g.Name() == "roundings" {
							if k, ok := mu.Key.(*ssa.Const); ok && k.Value != nil {
								keys[constant.StringVal(k.Value)] = true
							}
						}
					} else if mm, ok := mu.Map.(*ssa.MakeMap); ok {
						_ = mm
						if k, ok := mu.Key.(*ssa.Const); ok && k.Value != nil && typeIs(k.Type(), apdPath, "Rounder") {
							keys[constant.StringVal(k.Value)] = true
						}
					}
				}
			}
		}
	}
	callees := map[string]string{}
	for _, name := range sortedKeys(consts) {
		val := consts[name]
		key := "Rounder " + name
		cal, has := table[val]
		switch {
		case !has:
			r.bad(key, w.pos(f.Pos()), fmt.Sprintf("no case for %q in ShouldAddOne: the mode silently behaves like the default", val))
		case strings.Contains(cal, "|") || !strings.HasPrefix(cal, "round"):
			r.bad(key, w.pos(f.Pos()), "case does not call exactly one decision function: "+cal)
		case callees[cal] != "":
			r.bad(key, w.pos(f.Pos()), fmt.Sprintf("case calls %s, which is also the decision function of %s", cal, callees[cal]))
		case !keys[val]:
			r.bad(key, w.pos(f.Pos()), fmt.Sprintf("%q is not a key of the roundings set", val))
		default:
			callees[cal] = name
			r.ok(key, w.pos(f.Pos()), fmt.Sprintf("%q -> %s, listed in roundings", val, cal), true)
		}
	}
	for k := range table {
		found := false
		for _, v := range consts {
			if v == k {
				found = true
			}
		}
		if !found {
			r.bad("ShouldAddOne case "+k, w.pos(f.Pos()), "case string is not a declared Rounder constant")
		}
	}
	for k := range keys {
		if _, ok := table[k]; !ok {
			r.bad("roundings key "+k, w.pos(f.Pos()), "key of roundings has no case in ShouldAddOne")
		}
	}
	if hu, ok := consts["RoundHalfUp"]; ok && def == table[hu] {
		r.ok("ShouldAddOne default", w.pos(f.Pos()), "default case calls "+def+" like RoundHalfUp", true)
	} else {
		r.bad("ShouldAddOne default", w.pos(f.Pos()), fmt.Sprintf("default case calls %s, RoundHalfUp calls %s", def, table[consts["RoundHalfUp"]]))
	}
	r.ok("Rounder constant/key/case sets", w.pos(f.Pos()), fmt.Sprintf("%d constants, %d roundings keys, %d cases", len(consts), len(keys), len(table)), false)
}

// ---- C20.R2 ----------------------------------------------------------------

type tri int

const (
	tF tri = iota
	tT
	tU // unknown / opaque
)

type absEnv struct {
	neg    bool
	half   int64
	params map[string]bool // names of neg/half parameters found
}

// evalInt evaluates an int-typed value over the abstract environment.
func evalInt(v ssa.Value, env *absEnv, f *ssa.Function) (int64, bool) {
	switch x := v.(type) {
	case *ssa.Const:
		if x.Value != nil && x.Value.Kind() == constant.Int {
			n, ok := constant.Int64Val(x.Value)
			return n, ok
		}
	case *ssa.Parameter:
		if x.Name() == "half" {
			return env.half, true
		}
	case *ssa.UnOp:
		if x.Op == token.SUB {
			n, ok := evalInt(x.X, env, f)
			return -n, ok
		}
	}
	return 0, false
}

func evalBool(v ssa.Value, env *absEnv, f *ssa.Function, p Path) tri {
	v = phiOnPath(v, p)
	switch x := v.(type) {
	case *ssa.Const:
		if x.Value != nil && x.Value.Kind() == constant.Bool {
			if constant.BoolVal(x.Value) {
				return tT
			}
			return tF
		}
	case *ssa.Parameter:
		if x.Name() == "neg" {
			if env.neg {
				return tT
			}
			return tF
		}
	case *ssa.UnOp:
		if x.Op == token.NOT {
			switch evalBool(x.X, env, f, p) {
			case tT:
				return tF
			case tF:
				return tT
			}
			return tU
		}
	case *ssa.BinOp:
		a, okA := evalInt(x.X, env, f)
		b, okB := evalInt(x.Y, env, f)
		if okA && okB {
			var res bool
			switch x.Op {
			case token.EQL:
				res = a == b
			case token.NEQ:
				res = a != b
			case token.LSS:
				res = a < b
			case token.LEQ:
				res = a <= b
			case token.GTR:
				res = a > b
			case token.GEQ:
				res = a >= b
			default:
				return tU
			}
			if res {
				return tT
			}
			return tF
		}
		if x.Op == token.EQL || x.Op == token.NEQ {
			l, rr := evalBool(x.X, env, f, p), evalBool(x.Y, env, f, p)
			if l != tU && rr != tU && x.X.Type().String() == "bool" {
				eq := l == rr
				if x.Op == token.NEQ {
					eq = !eq
				}
				if eq {
					return tT
				}
				return tF
			}
		}
	}
	return tU
}

// decisionTable evaluates function f for all 6 inputs: returns for each input
// the set of possible results as a string "T", "F" or "TF".
func (w *World) decisionTable(f *ssa.Function) (map[string]string, error) {
	paths, ok := enumPaths(f, 4096)
	if !ok {
		return nil, fmt.Errorf("not loop-free")
	}
	out := map[string]string{}
	for _, neg := range []bool{false, true} {
		for _, half := range []int64{-1, 0, 1} {
			env := &absEnv{neg: neg, half: half}
			res := map[tri]bool{}
			for _, p := range paths {
				feasible := true
				for _, d := range p.Decisions {
					v := evalBool(d.Cond, env, f, p)
					if v == tU {
						continue
					}
					if (v == tT) != d.Val {
						feasible = false
						break
					}
				}
				if !feasible || len(p.Ret.Results) != 1 {
					continue
				}
				res[evalBool(p.Ret.Results[0], env, f, p)] = true
			}
			s := ""
			if res[tT] || res[tU] {
				s += "T"
			}
			if res[tF] || res[tU] {
				s += "F"
			}
			out[fmt.Sprintf("neg=%v,half=%+d", neg, half)] = s
		}
	}
	return out, nil
}

// expectedTables: mode constant name -> expected truth table.
func expectedDecision(mode string, neg bool, half int64) string {
	b := func(x bool) string {
		if x {
			return "T"
		}
		return "F"
	}
	switch mode {
	case "RoundDown":
		return "F"
	case "RoundUp":
		return "T"
	case "RoundHalfUp":
		return b(half >= 0)
	case "RoundHalfDown":
		return b(half > 0)
	case "RoundHalfEven":
		if half == 0 {
			return "TF"
		}
		return b(half > 0)
	case "RoundFloor":
		return b(neg)
	case "RoundCeiling":
		return b(!neg)
	case "Round05Up":
		return "TF"
	}
	return "?"
}

func ruleDecisionTables(w *World, r *RuleResult) {
	consts := w.rounderConsts()
	table, _, ok := w.dispatchTable(r)
	if !ok {
		return
	}
	for _, mode := range sortedKeys(consts) {
		cal := table[consts[mode]]
		key := "decision function of " + mode
		g := w.fn(cal)
		if g == nil {
			r.bad(key, "?", "no single in-package decision function ("+cal+")")
			continue
		}
		if expectedDecision(mode, false, 0) == "?" {
			r.undecided(key, w.pos(g.Pos()), "rounding mode unknown to the checker: its table must be added")
			continue
		}
		tab, err := w.decisionTable(g)
		if err != nil {
			r.undecided(key, w.pos(g.Pos()), "cannot evaluate "+cal+": "+err.Error())
			continue
		}
		var diffs []string
		for _, neg := range []bool{false, true} {
			for _, half := range []int64{-1, 0, 1} {
				k := fmt.Sprintf("neg=%v,half=%+d", neg, half)
				want := expectedDecision(mode, neg, half)
				if tab[k] != want {
					diffs = append(diffs, fmt.Sprintf("%s: returns %s, mode requires %s", k, tab[k], want))
				}
			}
		}
		// dependence of opaque parts: 05up and the half_even tie may depend on
		// `result` only; nothing may depend on anything but the three parameters
		deps := w.paramDeps(g)
		if mode == "Round05Up" && (deps["neg"] || deps["half"]) {
			diffs = append(diffs, "05up must depend on the result digit only, but reads neg/half")
		}
		if len(diffs) > 0 {
			sort.Strings(diffs)
			r.bad(key, w.pos(g.Pos()), cal+": "+strings.Join(diffs, "; "))
		} else {
			var cells []string
			for _, k := range sortedKeys(tab) {
				cells = append(cells, k+"→"+tab[k])
			}
			r.ok(key, w.pos(g.Pos()), cal+": "+strings.Join(cells, " "), true)
		}
	}
}

// paramDeps: which parameters (by name) any branch condition or return value
// of f depends on.
func (w *World) paramDeps(f *ssa.Function) map[string]bool {
	deps := map[string]bool{}
	note := func(v ssa.Value) {
		for l := range w.exprOf(f, v).leaves() {
			if strings.HasPrefix(l, "param:") {
				deps[strings.TrimPrefix(l, "param:")] = true
			}
		}
	}
	for _, b := range f.Blocks {
		for _, in := range b.Instrs {
			switch x := in.(type) {
			case *ssa.If:
				note(x.Cond)
			case *ssa.Return:
				for _, v := range x.Results {
					note(v)
				}
			}
		}
	}
	return deps
}

// ---- C09.R1 ----------------------------------------------------------------

var inexactByDefinition = map[string]string{
	"(*Context).Exp":   "series result: inexact by definition (Hull-Abrham)",
	"(*Context).Ln":    "iteration result: inexact by definition",
	"(*Context).Log10": "derived from Ln: inexact by definition",
	"(*Context).Pow":   "fractional power via Ln/Exp: inexact by definition",
}

// decisionReaching: functions from which a ShouldAddOne call is reachable.
func (w *World) reachesFn(target string) map[*ssa.Function]bool {
	t := w.fn(target)
	out := map[*ssa.Function]bool{}
	if t == nil {
		return out
	}
	out[t] = true
	changed := true
	for changed {
		changed = false
		for _, n := range w.Names {
			f := w.Funcs[n]
			if out[f] {
				continue
			}
			for _, c := range callsIn(f) {
				if g := callee(c); g != nil && out[g] {
					out[f] = true
					changed = true
					break
				}
			}
		}
	}
	return out
}

func ruleInexactThroughDecision(w *World, r *RuleResult) {
	cc := w.conditionConsts()
	inexact, overflow := cc["Inexact"], cc["Overflow"]
	if inexact == 0 || overflow == 0 || !r.need(w, shouldAddOne) {
		r.anchorMissing("Condition constants")
		return
	}
	reach := w.reachesFn(shouldAddOne)
	isDecision := func(in ssa.Instruction) bool {
		if c, ok := in.(ssa.CallInstruction); ok {
			if g := callee(c); g != nil && reach[g] {
				return true
			}
		}
		return false
	}
	for _, name := range w.Names {
		f := w.Funcs[name]
		if name == "(Condition).String" || strings.HasPrefix(name, "(Condition).") {
			continue
		}
		n := 0
		for _, b := range f.Blocks {
			for _, in := range b.Instrs {
				var ops []ssa.Value
				var sites []ssa.Instruction
				switch x := in.(type) {
				case *ssa.BinOp:
					if x.Op == token.OR {
						ops, sites = []ssa.Value{x.X, x.Y}, []ssa.Instruction{x, x}
					}
				case *ssa.Phi:
					for i, e := range x.Edges {
						pb := b.Preds[i]
						ops = append(ops, e)
						sites = append(sites, pb.Instrs[len(pb.Instrs)-1])
					}
				case *ssa.Return:
					for _, v := range x.Results {
						ops = append(ops, v)
						sites = append(sites, x)
					}
				case ssa.CallInstruction:
					for _, v := range x.Common().Args {
						ops = append(ops, v)
						sites = append(sites, x)
					}
				}
				for i, o := range ops {
					if !typeIs(o.Type(), apdPath, "Condition") {
						continue
					}
					bits, ok := condBits(o)
					if !ok || bits&inexact == 0 {
						continue
					}
					n++
					key := fmt.Sprintf("%s | raises Inexact", name)
					if n > 1 {
						key = fmt.Sprintf("%s #%d", key, n)
					}
					site := sites[i]
					switch {
					case bits&overflow != 0:
						r.ok(key, w.instrPos(site), "overflow to infinity: Inexact by definition, no rounding decision involved", false)
					case w.inexactByDef(f) != "":
						r.ok(key, w.instrPos(site), "tabled: "+w.inexactByDef(f), false)
					default:
						before := seenBefore(site, isDecision)
						after, _ := mustPassFrom(site, isDecision, func(rt *ssa.Return) bool { return w.isErrorReturn(rt) })
						if _, isRet := site.(*ssa.Return); isRet {
							after = false
						}
						if before || after {
							r.ok(key, w.instrPos(site), "digits dropped here are subject to a ShouldAddOne decision on every path", true)
						} else {
							r.bad(key, w.instrPos(site), "Inexact is raised on a path that never consults the rounding mode (no ShouldAddOne / Rounder.Round before or after): the result is truncated whatever the mode")
						}
					}
				}
			}
		}
	}
}

// inexactByDef: the table entry of f, or of the tabled function f is a private helper of.
func (w *World) inexactByDef(f *ssa.Function) string {
	var keys []string
	for k := range inexactByDefinition {
		keys = append(keys, k)
	}
	sort.Strings(keys)
	if k := w.ownerIn(f, keys); k != "" {
		return inexactByDefinition[k]
	}
	return ""
}
