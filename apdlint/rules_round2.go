package main

import (
	"go/types"
	"fmt"
	"go/constant"
	"go/token"
	"sort"
	"strings"

	"golang.org/x/tools/go/ssa"
)

func init() {
	register(&Rule{ID: "C20.R1", Min: 6,
		Text: "exhaustive dispatch: the declared Rounder constants, the keys of `roundings` and the cases of ShouldAddOne are the same set; each case calls a distinct decision function; the default case calls the RoundHalfUp function",
		Run:  ruleRounderDispatch})
	register(&Rule{ID: "C20.R2", Min: 4,
		Text: "decision tables: each rounding decision function, evaluated over the finite domain neg∈{T,F} × half∈{<0,=0,>0} (its parameters are only ever compared), has exactly the truth table of its mode: down F; up T; half_up half≥0; half_down half>0; half_even half>0 or (half=0 and odd); floor neg; ceiling ¬neg; 05up depends on the result digit only",
		Run:  ruleDecisionTables})
	register(&Rule{ID: "C09.R1", Min: 7,
		Text: "every site that raises Inexact because digits were dropped lies on a path through a ShouldAddOne decision (directly or via Rounder.Round); exceptions: overflow to infinity, and the transcendental functions whose result is inexact by definition",
		Run:  ruleInexactThroughDecision})
}

// ---- C20.R1 ----------------------------------------------------------------

func (w *World) rounderConsts() map[string]string { // name -> string value
	out := map[string]string{}
	for n, m := range w.SSA.Members {
		if c, ok := m.(*ssa.NamedConst); ok && typeIs(c.Type(), apdPath, "Rounder") && c.Value.Value.Kind() == constant.String {
			out[n] = constant.StringVal(c.Value.Value)
		}
	}
	return out
}

// dispatchTable returns, for ShouldAddOne, case string -> decision callee, and
// the default callee.
func (w *World) dispatchTable(r *RuleResult) (map[string]string, string, bool) {
	f := w.fn(shouldAddOne)
	if f == nil {
		r.anchorMissing(shouldAddOne)
		return nil, "", false
	}
	paths, ok := enumPaths(f, 4096)
	if !ok {
		r.undecided(shouldAddOne+" | dispatch", w.pos(f.Pos()), "ShouldAddOne is not loop-free; cannot enumerate its cases")
		return nil, "", false
	}
	table := map[string]string{}
	def := ""
	for _, p := range paths {
		if len(p.Ret.Results) != 1 {
			continue
		}
		rv := phiOnPath(p.Ret.Results[0], p)
		call, ok := rv.(*ssa.Call)
		cal := "<not a call>"
		if ok {
			cal = w.calleeName(call)
		}
		matched := ""
		for _, d := range p.Decisions {
			bo, ok := d.Cond.(*ssa.BinOp)
			if !ok || bo.Op != token.EQL {
				continue
			}
			var k *ssa.Const
			if c, ok := bo.Y.(*ssa.Const); ok {
				k = c
			} else if c, ok := bo.X.(*ssa.Const); ok {
				k = c
			}
			if k == nil || k.Value == nil || k.Value.Kind() != constant.String {
				continue
			}
			if d.Val {
				matched = constant.StringVal(k.Value)
			}
		}
		if matched == "" {
			def = cal
		} else {
			if old, dup := table[matched]; dup && old != cal {
				table[matched] = old + "|" + cal
			} else {
				table[matched] = cal
			}
		}
	}
	return table, def, true
}

func ruleRounderDispatch(w *World, r *RuleResult) {
	consts := w.rounderConsts()
	if len(consts) == 0 {
		r.anchorMissing("Rounder constants")
		return
	}
	table, def, ok := w.dispatchTable(r)
	if !ok {
		return
	}
	f := w.fn(shouldAddOne)
	topPaths, okTop := enumPaths(f, 4096)
	// keys of roundings (built by the package initialiser)
	keys := map[string]bool{}
	for _, n := range w.Names {
		if !strings.HasPrefix(n, "init") {
			continue
		}
		for _, b := range w.Funcs[n].Blocks {
			for _, in := range b.Instrs {
				if mu, ok := in.(*ssa.MapUpdate); ok {
					if ld, ok := mu.Map.(*ssa.UnOp); ok {
						if g, ok := ld.X.(*ssa.Global); ok && g.Name() == "roundings" {
							if k, ok := mu.Key.(*ssa.Const); ok && k.Value != nil {
								keys[constant.StringVal(k.Value)] = true
							}
						}
					} else if mm, ok := mu.Map.(*ssa.MakeMap); ok {
						_ = mm
						if k, ok := mu.Key.(*ssa.Const); ok && k.Value != nil && typeIs(k.Type(), apdPath, "Rounder") {
							keys[constant.StringVal(k.Value)] = true
						}
					}
				}
			}
		}
	}
	callees := map[string]string{}
	for _, name := range sortedKeys(consts) {
		val := consts[name]
		key := "Rounder " + name
		cal, has := table[val]
		// the mode's own truth table, from ShouldAddOne evaluated as a whole (C20.R2 reports the cells)
		wholeOK := false
		if okTop && expectedDecision(name, false, 0) != "?" {
			wholeOK = true
			for _, neg := range []bool{false, true} {
				for _, half := range []int64{-1, 0, 1} {
					if w.modeDecision(f, topPaths, val, neg, half) != expectedDecision(name, neg, half) {
						wholeOK = false
					}
				}
			}
		}
		switch {
		case !has && wholeOK && keys[val]:
			r.ok(key, w.pos(f.Pos()), fmt.Sprintf("%q has no case of its own: it shares the default arm, whose decision has exactly this mode's table", val), true)
		case !has:
			r.bad(key, w.pos(f.Pos()), fmt.Sprintf("no case for %q in ShouldAddOne: the mode silently behaves like the default", val))
		case cal == "<not a call>" && wholeOK && keys[val]:
			r.ok(key, w.pos(f.Pos()), fmt.Sprintf("%q: the decision is computed in the case itself and has exactly this mode's table; listed in roundings", val), true)
		case strings.Contains(cal, "|") || !strings.HasPrefix(cal, "round"):
			r.bad(key, w.pos(f.Pos()), "case does not call exactly one decision function: "+cal)
		case callees[cal] != "":
			r.bad(key, w.pos(f.Pos()), fmt.Sprintf("case calls %s, which is also the decision function of %s", cal, callees[cal]))
		case !keys[val]:
			r.bad(key, w.pos(f.Pos()), fmt.Sprintf("%q is not a key of the roundings set", val))
		default:
			callees[cal] = name
			r.ok(key, w.pos(f.Pos()), fmt.Sprintf("%q -> %s, listed in roundings", val, cal), true)
		}
	}
	for k := range table {
		found := false
		for _, v := range consts {
			if v == k {
				found = true
			}
		}
		if !found {
			r.bad("ShouldAddOne case "+k, w.pos(f.Pos()), "case string is not a declared Rounder constant")
		}
	}
	sharesDefault := map[string]bool{}
	for name, val := range consts {
		if _, has := table[val]; !has && okTop {
			all := expectedDecision(name, false, 0) != "?"
			for _, neg := range []bool{false, true} {
				for _, half := range []int64{-1, 0, 1} {
					if all && w.modeDecision(f, topPaths, val, neg, half) != expectedDecision(name, neg, half) {
						all = false
					}
				}
			}
			if all {
				sharesDefault[val] = true
			}
		}
	}
	for k := range keys {
		if _, ok := table[k]; !ok && !sharesDefault[k] {
			r.bad("roundings key "+k, w.pos(f.Pos()), "key of roundings has no case in ShouldAddOne")
		}
	}
	// the default arm decides like RoundHalfUp: same callee, or — when computed in place — the half-up table
	// for a mode string that is none of the constants
	defHalfUp := false
	if okTop {
		defHalfUp = true
		for _, neg := range []bool{false, true} {
			for _, half := range []int64{-1, 0, 1} {
				if w.modeDecision(f, topPaths, "\x00no such mode", neg, half) != expectedDecision("RoundHalfUp", neg, half) {
					defHalfUp = false
				}
			}
		}
	}
	if hu, ok := consts["RoundHalfUp"]; ok && def == table[hu] && def != "<not a call>" {
		r.ok("ShouldAddOne default", w.pos(f.Pos()), "default case calls "+def+" like RoundHalfUp", true)
	} else if defHalfUp {
		r.ok("ShouldAddOne default", w.pos(f.Pos()), "the default arm has RoundHalfUp's table (evaluated for a mode string that is no constant)", true)
	} else {
		r.bad("ShouldAddOne default", w.pos(f.Pos()), fmt.Sprintf("default case calls %s, RoundHalfUp calls %s", def, table[consts["RoundHalfUp"]]))
	}
	r.ok("Rounder constant/key/case sets", w.pos(f.Pos()), fmt.Sprintf("%d constants, %d roundings keys, %d cases", len(consts), len(keys), len(table)), false)
}

// ---- C20.R2 ----------------------------------------------------------------

type tri int

const (
	tF tri = iota
	tT
	tU // unknown / opaque
)

type absEnv struct {
	neg    bool
	half   int64
	params map[string]bool // names of neg/half parameters found
	// bind: values of the parameters of a callee evaluated with the caller's arguments (by position, so
	// that a swapped or negated argument is seen); nil at top level, where neg/half are found by name
	bind map[*ssa.Parameter]absVal
}

type absVal struct {
	known bool
	b     tri
	n     int64
	isInt bool
}

// evalInt evaluates an int-typed value over the abstract environment.
func evalInt(v ssa.Value, env *absEnv, f *ssa.Function) (int64, bool) {
	switch x := v.(type) {
	case *ssa.Const:
		if x.Value != nil && x.Value.Kind() == constant.Int {
			n, ok := constant.Int64Val(x.Value)
			return n, ok
		}
	case *ssa.Parameter:
		if env.bind != nil {
			if bv, ok := env.bind[x]; ok {
				return bv.n, bv.known && bv.isInt
			}
			return 0, false
		}
		// the int parameter of a decision function is the half comparison, whatever it is called
		if bt, ok := x.Type().Underlying().(*types.Basic); ok && bt.Kind() == types.Int {
			return env.half, true
		}
	case *ssa.UnOp:
		if x.Op == token.SUB {
			n, ok := evalInt(x.X, env, f)
			return -n, ok
		}
	}
	return 0, false
}

func evalBool(v ssa.Value, env *absEnv, f *ssa.Function, p Path) tri {
	v = phiOnPath(v, p)
	switch x := v.(type) {
	case *ssa.Const:
		if x.Value != nil && x.Value.Kind() == constant.Bool {
			if constant.BoolVal(x.Value) {
				return tT
			}
			return tF
		}
	case *ssa.Parameter:
		if env.bind != nil {
			if bv, ok := env.bind[x]; ok && bv.known && !bv.isInt {
				return bv.b
			}
			return tU
		}
		// the bool parameter of a decision function is the sign, whatever it is called
		if bt, ok := x.Type().Underlying().(*types.Basic); ok && bt.Kind() == types.Bool {
			if env.neg {
				return tT
			}
			return tF
		}
	case *ssa.UnOp:
		if x.Op == token.NOT {
			switch evalBool(x.X, env, f, p) {
			case tT:
				return tF
			case tF:
				return tT
			}
			return tU
		}
	case *ssa.BinOp:
		a, okA := evalInt(x.X, env, f)
		b, okB := evalInt(x.Y, env, f)
		if okA && okB {
			var res bool
			switch x.Op {
			case token.EQL:
				res = a == b
			case token.NEQ:
				res = a != b
			case token.LSS:
				res = a < b
			case token.LEQ:
				res = a <= b
			case token.GTR:
				res = a > b
			case token.GEQ:
				res = a >= b
			default:
				return tU
			}
			if res {
				return tT
			}
			return tF
		}
		if x.Op == token.EQL || x.Op == token.NEQ {
			l, rr := evalBool(x.X, env, f, p), evalBool(x.Y, env, f, p)
			if l != tU && rr != tU && x.X.Type().String() == "bool" {
				eq := l == rr
				if x.Op == token.NEQ {
					eq = !eq
				}
				if eq {
					return tT
				}
				return tF
			}
		}
	}
	return tU
}

// decisionTable evaluates function f for all 6 inputs: returns for each input
// the set of possible results as a string "T", "F" or "TF".
func (w *World) decisionTable(f *ssa.Function) (map[string]string, error) {
	paths, ok := enumPaths(f, 4096)
	if !ok {
		return nil, fmt.Errorf("not loop-free")
	}
	out := map[string]string{}
	for _, neg := range []bool{false, true} {
		for _, half := range []int64{-1, 0, 1} {
			env := &absEnv{neg: neg, half: half}
			res := map[tri]bool{}
			for _, p := range paths {
				feasible := true
				for _, d := range p.Decisions {
					v := evalBool(d.Cond, env, f, p)
					if v == tU {
						continue
					}
					if (v == tT) != d.Val {
						feasible = false
						break
					}
				}
				if !feasible || len(p.Ret.Results) != 1 {
					continue
				}
				res[evalBool(p.Ret.Results[0], env, f, p)] = true
			}
			s := ""
			if res[tT] || res[tU] {
				s += "T"
			}
			if res[tF] || res[tU] {
				s += "F"
			}
			out[fmt.Sprintf("neg=%v,half=%+d", neg, half)] = s
		}
	}
	return out, nil
}

// expectedTables: mode constant name -> expected truth table.
func expectedDecision(mode string, neg bool, half int64) string {
	b := func(x bool) string {
		if x {
			return "T"
		}
		return "F"
	}
	switch mode {
	case "RoundDown":
		return "F"
	case "RoundUp":
		return "T"
	case "RoundHalfUp":
		return b(half >= 0)
	case "RoundHalfDown":
		return b(half > 0)
	case "RoundHalfEven":
		if half == 0 {
			return "TF"
		}
		return b(half > 0)
	case "RoundFloor":
		return b(neg)
	case "RoundCeiling":
		return b(!neg)
	case "Round05Up":
		return "TF"
	}
	return "?"
}

func ruleDecisionTables(w *World, r *RuleResult) {
	consts := w.rounderConsts()
	table, _, ok := w.dispatchTable(r)
	if !ok {
		return
	}
	top := w.fn(shouldAddOne)
	topPaths, okTop := enumPaths(top, 4096)
	for _, mode := range sortedKeys(consts) {
		cal := table[consts[mode]]
		key := "decision function of " + mode
		g := w.fn(cal)
		if g == nil {
			// the decision is computed in ShouldAddOne's own case (or the mode shares the default arm):
			// ShouldAddOne is evaluated for this mode as a whole
			if !okTop || expectedDecision(mode, false, 0) == "?" {
				r.bad(key, "?", "no single in-package decision function ("+cal+")")
				continue
			}
			var diffs, cells []string
			for _, neg := range []bool{false, true} {
				for _, half := range []int64{-1, 0, 1} {
					got := w.modeDecision(top, topPaths, consts[mode], neg, half)
					want := expectedDecision(mode, neg, half)
					k := fmt.Sprintf("neg=%v,half=%+d", neg, half)
					cells = append(cells, k+"→"+got)
					if got != want {
						diffs = append(diffs, fmt.Sprintf("%s: returns %s, mode requires %s", k, got, want))
					}
				}
			}
			if len(diffs) > 0 {
				sort.Strings(diffs)
				r.bad(key, w.pos(top.Pos()), "ShouldAddOne evaluated for "+mode+": "+strings.Join(diffs, "; "))
			} else {
				r.ok(key, w.pos(top.Pos()), "ShouldAddOne evaluated for "+mode+" (decision computed in its own case): "+strings.Join(cells, " "), true)
			}
			continue
		}
		if expectedDecision(mode, false, 0) == "?" {
			r.undecided(key, w.pos(g.Pos()), "rounding mode unknown to the checker: its table must be added")
			continue
		}
		tab, err := w.decisionTable(g)
		if err != nil {
			r.undecided(key, w.pos(g.Pos()), "cannot evaluate "+cal+": "+err.Error())
			continue
		}
		// … and ShouldAddOne as a whole for this mode, with the arguments its case really passes
		if okTop {
			for _, neg := range []bool{false, true} {
				for _, half := range []int64{-1, 0, 1} {
					k := fmt.Sprintf("neg=%v,half=%+d", neg, half)
					if got := w.modeDecision(top, topPaths, consts[mode], neg, half); got != expectedDecision(mode, neg, half) {
						tab[k] = got + " (through ShouldAddOne's call)"
					}
				}
			}
		}
		var diffs []string
		for _, neg := range []bool{false, true} {
			for _, half := range []int64{-1, 0, 1} {
				k := fmt.Sprintf("neg=%v,half=%+d", neg, half)
				want := expectedDecision(mode, neg, half)
				if tab[k] != want {
					diffs = append(diffs, fmt.Sprintf("%s: returns %s, mode requires %s", k, tab[k], want))
				}
			}
		}
		// dependence of opaque parts: 05up and the half_even tie may depend on
		// `result` only; nothing may depend on anything but the three parameters
		deps := w.paramDeps(g)
		readsSignOrHalf := false
		for _, prm := range g.Params {
			if bt, ok := prm.Type().Underlying().(*types.Basic); ok && (bt.Kind() == types.Bool || bt.Kind() == types.Int) && deps[prm.Name()] {
				readsSignOrHalf = true
			}
		}
		if mode == "Round05Up" && readsSignOrHalf {
			diffs = append(diffs, "05up must depend on the result digit only, but reads neg/half")
		}
		if len(diffs) > 0 {
			sort.Strings(diffs)
			r.bad(key, w.pos(g.Pos()), cal+": "+strings.Join(diffs, "; "))
		} else {
			var cells []string
			for _, k := range sortedKeys(tab) {
				cells = append(cells, k+"→"+tab[k])
			}
			r.ok(key, w.pos(g.Pos()), cal+": "+strings.Join(cells, " "), true)
		}
	}
}

// paramDeps: which parameters (by name) any branch condition or return value
// of f depends on.
func (w *World) paramDeps(f *ssa.Function) map[string]bool {
	deps := map[string]bool{}
	note := func(v ssa.Value) {
		for l := range w.exprOf(f, v).leaves() {
			if strings.HasPrefix(l, "param:") {
				deps[strings.TrimPrefix(l, "param:")] = true
			}
		}
	}
	for _, b := range f.Blocks {
		for _, in := range b.Instrs {
			switch x := in.(type) {
			case *ssa.If:
				note(x.Cond)
			case *ssa.Return:
				for _, v := range x.Results {
					note(v)
				}
			}
		}
	}
	return deps
}

// ---- C09.R1 ----------------------------------------------------------------

var inexactByDefinition = map[string]string{
	"(*Context).Exp":   "series result: inexact by definition (Hull-Abrham)",
	"(*Context).Ln":    "iteration result: inexact by definition",
	"(*Context).Log10": "derived from Ln: inexact by definition",
	"(*Context).Pow":   "fractional power via Ln/Exp: inexact by definition",
}

// decisionReaching: functions from which a ShouldAddOne call is reachable.
func (w *World) reachesFn(target string) map[*ssa.Function]bool {
	t := w.fn(target)
	out := map[*ssa.Function]bool{}
	if t == nil {
		return out
	}
	out[t] = true
	changed := true
	for changed {
		changed = false
		for _, n := range w.Names {
			f := w.Funcs[n]
			if out[f] {
				continue
			}
			for _, c := range callsIn(f) {
				if g := callee(c); g != nil && out[g] {
					out[f] = true
					changed = true
					break
				}
			}
		}
	}
	return out
}

func ruleInexactThroughDecision(w *World, r *RuleResult) {
	cc := w.conditionConsts()
	inexact, overflow := cc["Inexact"], cc["Overflow"]
	if inexact == 0 || overflow == 0 || !r.need(w, shouldAddOne) {
		r.anchorMissing("Condition constants")
		return
	}
	reach := w.reachesFn(shouldAddOne)
	isDecision := func(in ssa.Instruction) bool {
		if c, ok := in.(ssa.CallInstruction); ok {
			if g := callee(c); g != nil && reach[g] {
				return true
			}
		}
		return false
	}
	for _, name := range w.Names {
		f := w.Funcs[name]
		if name == "(Condition).String" || strings.HasPrefix(name, "(Condition).") {
			continue
		}
		n := 0
		for _, b := range f.Blocks {
			for _, in := range b.Instrs {
				var ops []ssa.Value
				var sites []ssa.Instruction
				switch x := in.(type) {
				case *ssa.BinOp:
					if x.Op == token.OR {
						ops, sites = []ssa.Value{x.X, x.Y}, []ssa.Instruction{x, x}
					}
				case *ssa.Phi:
					for i, e := range x.Edges {
						pb := b.Preds[i]
						ops = append(ops, e)
						sites = append(sites, pb.Instrs[len(pb.Instrs)-1])
					}
				case *ssa.Return:
					for _, v := range x.Results {
						ops = append(ops, v)
						sites = append(sites, x)
					}
				case ssa.CallInstruction:
					for ai, v := range x.Common().Args {
						// a flag set handed to a parameter that the callee only ever uses as a mask (res &^ ignored)
						// names flags to remove, it raises nothing
						if g := callee(x); g != nil && w.inPkg(g) && ai < len(g.Params) && paramOnlyMasks(g.Params[ai]) {
							continue
						}
						ops = append(ops, v)
						sites = append(sites, x)
					}
				}
				for i, o := range ops {
					if !typeIs(o.Type(), apdPath, "Condition") {
						continue
					}
					bits, ok := condBits(o)
					if !ok || bits&inexact == 0 {
						continue
					}
					n++
					key := fmt.Sprintf("%s | raises Inexact", name)
					if n > 1 {
						key = fmt.Sprintf("%s #%d", key, n)
					}
					site := sites[i]
					switch {
					case bits&overflow != 0:
						r.ok(key, w.instrPos(site), "overflow to infinity: Inexact by definition, no rounding decision involved", false)
					case orChainHasBits(in, overflow, 0):
						r.ok(key, w.instrPos(site), "or-ed onto a value that already carries Overflow (the bits of an overflow added one by one): Inexact by definition, no rounding decision involved", false)
					case w.inexactByDef(f) != "":
						r.ok(key, w.instrPos(site), "tabled: "+w.inexactByDef(f), false)
					default:
						before := seenBefore(site, isDecision)
						after, _ := mustPassFrom(site, isDecision, func(rt *ssa.Return) bool { return w.isErrorReturn(rt) })
						if _, isRet := site.(*ssa.Return); isRet {
							after = false
						}
						if before || after {
							r.ok(key, w.instrPos(site), "digits dropped here are subject to a ShouldAddOne decision on every path", true)
						} else {
							r.bad(key, w.instrPos(site), "Inexact is raised on a path that never consults the rounding mode (no ShouldAddOne / Rounder.Round before or after): the result is truncated whatever the mode")
						}
					}
				}
			}
		}
	}
}

// inexactByDef: the table entry of f, or of the tabled function f is a private helper of.
func (w *World) inexactByDef(f *ssa.Function) string {
	var keys []string
	for k := range inexactByDefinition {
		keys = append(keys, k)
	}
	sort.Strings(keys)
	if k := w.ownerIn(f, keys); k != "" {
		return inexactByDefinition[k]
	}
	return ""
}

// orChainHasBits: in is `v | K` and v (through further `| K'` steps) had a constant with one of the bits
// or-ed into it already.
func orChainHasBits(in ssa.Instruction, bits uint64, depth int) bool {
	bo, ok := in.(*ssa.BinOp)
	if !ok || bo.Op != token.OR || depth > 6 {
		return false
	}
	for _, o := range []ssa.Value{bo.X, bo.Y} {
		if v, isK := condBits(o); isK {
			if depth > 0 && v&bits != 0 && v < 1<<12 {
				return true
			}
			continue
		}
		if inner, isB := o.(*ssa.BinOp); isB && orChainHasBits(inner, bits, depth+1) {
			return true
		}
	}
	return false
}

// paramOnlyMasks: every use of the Condition parameter is as the right operand of &^, or complemented and
// then and-ed: the parameter is a set of flags to clear.
func paramOnlyMasks(p *ssa.Parameter) bool {
	refs := p.Referrers()
	if refs == nil || !typeIs(p.Type(), apdPath, "Condition") || isPointer(p.Type()) {
		return false
	}
	n := 0
	for _, u := range *refs {
		switch x := u.(type) {
		case *ssa.DebugRef:
		case *ssa.BinOp:
			if x.Op != token.AND_NOT || x.Y != ssa.Value(p) {
				return false
			}
			n++
		case *ssa.UnOp:
			if x.Op != token.XOR || x.Referrers() == nil {
				return false
			}
			for _, uu := range *x.Referrers() {
				if bo, ok := uu.(*ssa.BinOp); !ok || bo.Op != token.AND {
					if _, isDbg := uu.(*ssa.DebugRef); !isDbg {
						return false
					}
				}
			}
			n++
		default:
			return false
		}
	}
	return n > 0
}

// modeDecision evaluates ShouldAddOne itself for the rounding mode whose constant is m and one cell of
// the finite domain: the comparisons of the receiver with the mode strings are decided by m, the decision
// may be computed in the case itself or by a decision function the case calls (evaluated with the
// arguments of that very call). The result is "T", "F" or "TF" (depends on the result digit).
func (w *World) modeDecision(f *ssa.Function, paths []Path, m string, neg bool, half int64) string {
	env := &absEnv{neg: neg, half: half}
	res := map[tri]bool{}
	for _, p := range paths {
		feasible := true
		for _, d := range p.Decisions {
			v := tU
			if bo, ok := d.Cond.(*ssa.BinOp); ok && (bo.Op == token.EQL || bo.Op == token.NEQ) {
				var k *ssa.Const
				var other ssa.Value
				if c, isK := bo.Y.(*ssa.Const); isK {
					k, other = c, bo.X
				} else if c, isK := bo.X.(*ssa.Const); isK {
					k, other = c, bo.Y
				}
				if k != nil && k.Value != nil && k.Value.Kind() == constant.String && len(f.Params) > 0 && other == ssa.Value(f.Params[0]) {
					eq := constant.StringVal(k.Value) == m
					if bo.Op == token.NEQ {
						eq = !eq
					}
					v = tF
					if eq {
						v = tT
					}
				}
			}
			if v == tU {
				v = evalBool(d.Cond, env, f, p)
			}
			if v == tU {
				continue
			}
			if (v == tT) != d.Val {
				feasible = false
				break
			}
		}
		if !feasible || len(p.Ret.Results) != 1 {
			continue
		}
		rv := phiOnPath(p.Ret.Results[0], p)
		if call, isCall := rv.(*ssa.Call); isCall {
			if g := callee(call); g != nil && w.inPkg(g) && len(g.Blocks) > 0 {
				for t := range w.evalDecisionCallee(g, call, env, f, p, 0) {
					res[t] = true
				}
				continue
			}
		}
		res[evalBool(rv, env, f, p)] = true
	}
	out := ""
	if res[tT] || res[tU] {
		out += "T"
	}
	if res[tF] || res[tU] {
		out += "F"
	}
	return out
}

func (w *World) evalDecisionCallee(g *ssa.Function, call *ssa.Call, env *absEnv, f *ssa.Function, p Path, depth int) map[tri]bool {
	out := map[tri]bool{}
	if depth > 2 {
		out[tU] = true
		return out
	}
	paths, ok := enumPaths(g, 4096)
	if !ok {
		out[tU] = true
		return out
	}
	bind := map[*ssa.Parameter]absVal{}
	for i, prm := range g.Params {
		if i >= len(call.Common().Args) {
			continue
		}
		a := call.Common().Args[i]
		bt, isB := prm.Type().Underlying().(*types.Basic)
		if !isB {
			continue
		}
		switch {
		case bt.Kind() == types.Bool:
			if t := evalBool(a, env, f, p); t != tU {
				bind[prm] = absVal{known: true, b: t}
			}
		case bt.Info()&types.IsInteger != 0:
			if n, okN := evalInt(phiOnPath(a, p), env, f); okN {
				bind[prm] = absVal{known: true, n: n, isInt: true}
			}
		}
	}
	env2 := &absEnv{bind: bind}
	for _, gp := range paths {
		feasible := true
		for _, d := range gp.Decisions {
			v := evalBool(d.Cond, env2, g, gp)
			if v == tU {
				continue
			}
			if (v == tT) != d.Val {
				feasible = false
				break
			}
		}
		if !feasible || len(gp.Ret.Results) != 1 {
			continue
		}
		rv := phiOnPath(gp.Ret.Results[0], gp)
		if c2, isCall := rv.(*ssa.Call); isCall {
			if h := callee(c2); h != nil && w.inPkg(h) && len(h.Blocks) > 0 {
				for t := range w.evalDecisionCallee(h, c2, env2, g, gp, depth+1) {
					out[t] = true
				}
				continue
			}
		}
		out[evalBool(rv, env2, g, gp)] = true
	}
	return out
}
