package main

import (
	"fmt"
	"go/constant"
	"go/token"
	"go/types"
	"sort"
	"strings"

	"golang.org/x/tools/go/ssa"
)

// Flow-sensitive field analysis of one pointer parameter ("track") of one
// function, optionally under the assumption that it is the same object as
// another parameter ("alias").
//
// It computes, with callee results composed bottom-up:
//   - UERead: fields of *track read before this call has assigned them
//     (WRITE-ONLY-UNTIL),
//   - per return: the fields definitely / possibly assigned (DEF-ASSIGN),
//   - Hazards: reads through the alias parameter of a field already
//     overwritten through track (RAW under aliasing).
//
// Branches decided by the assumptions (track != nil, track == alias) are
// pruned, which is how the repo's own guards (`if d == x`, `if z == x { z =
// new(Decimal) }`, `if integ != nil`) are honoured.

type flowKey struct {
	fn    *ssa.Function
	track int
	alias int
}

type fieldTags map[string]map[string]ssa.Instruction // field -> tag -> first writing instruction

type fstate struct {
	must map[string]bool
	may  fieldTags
	// via[v][f]: field f has definitely been written through pointer value v
	// (whatever v points to): a later read through the same v is not a read of
	// an unassigned field.
	via map[ssa.Value]map[string]bool
}

func newState() *fstate {
	return &fstate{must: map[string]bool{}, may: fieldTags{}, via: map[ssa.Value]map[string]bool{}}
}

func (s *fstate) clone() *fstate {
	n := newState()
	for k, v := range s.must {
		if v {
			n.must[k] = true
		}
	}
	for f, tags := range s.may {
		n.may[f] = map[string]ssa.Instruction{}
		for t, in := range tags {
			n.may[f][t] = in
		}
	}
	for v, fs := range s.via {
		n.via[v] = map[string]bool{}
		for f := range fs {
			n.via[v][f] = true
		}
	}
	return n
}

func (s *fstate) setVia(v ssa.Value, f string) {
	if v == nil {
		return
	}
	if s.via[v] == nil {
		s.via[v] = map[string]bool{}
	}
	s.via[v][f] = true
}

func (s *fstate) addMay(field, tag string, in ssa.Instruction) {
	if s.may[field] == nil {
		s.may[field] = map[string]ssa.Instruction{}
	}
	if _, ok := s.may[field][tag]; !ok {
		s.may[field][tag] = in
	}
}

// join merges o into s (must: intersection, may: union); reports change.
func (s *fstate) join(o *fstate) bool {
	changed := false
	for k := range s.must {
		if !o.must[k] {
			delete(s.must, k)
			changed = true
		}
	}
	for f, tags := range o.may {
		for t, in := range tags {
			if s.may[f] == nil || s.may[f][t] == nil {
				if _, ok := s.may[f][t]; !ok {
					s.addMay(f, t, in)
					changed = true
				}
			}
		}
	}
	for v, fs := range s.via {
		for f := range fs {
			if !o.via[v][f] {
				delete(fs, f)
				changed = true
			}
		}
	}
	return changed
}

func (s *fstate) equal(o *fstate) bool {
	if len(s.must) != len(o.must) {
		return false
	}
	for k := range s.must {
		if !o.must[k] {
			return false
		}
	}
	if len(s.may) != len(o.may) {
		return false
	}
	for f, tags := range s.may {
		if len(tags) != len(o.may[f]) {
			return false
		}
		for t := range tags {
			if _, ok := o.may[f][t]; !ok {
				return false
			}
		}
	}
	return true
}

type ReturnState struct {
	In      *ssa.Return
	Must    map[string]bool
	May     fieldTags
	IsError bool
	Bool0   int // 1 = result 0 is constant true, 0 = constant false, -1 = not a constant bool
}

type Hazard struct {
	Field   string
	Read    Effect
	WriteAt ssa.Instruction
	Tag     string
}

type FlowResult struct {
	Key     flowKey
	Fields  []string
	UERead  map[string][]Effect
	Returns []ReturnState
	Hazards []Hazard
	// Summaries over non-error returns
	Split                 bool
	MustAll, MustT, MustF map[string]bool
	MayAll, MayT, MayF    map[string]map[string]bool // field -> tag set (tags in callee frame)
	AnyNonErrorReturn     bool
	WritesAnything        bool
	size                  int
}

// flow returns the memoised result; the global fixpoint is driven by
// computeFlows.
func (w *World) flow(f *ssa.Function, track, alias int) *FlowResult {
	k := flowKey{f, track, alias}
	if r, ok := w.flowMem[k]; ok {
		return r
	}
	// optimistic start for recursion: must = everything, may = nothing
	r := &FlowResult{Key: k, UERead: map[string][]Effect{}, MustAll: map[string]bool{}, MustT: map[string]bool{}, MustF: map[string]bool{},
		MayAll: map[string]map[string]bool{}, MayT: map[string]map[string]bool{}, MayF: map[string]map[string]bool{}}
	r.Fields = w.fieldUniverse(f.Params[track].Type())
	for _, fl := range r.Fields {
		r.MustAll[fl], r.MustT[fl], r.MustF[fl] = true, true, true
	}
	w.flowMem[k] = r
	nr := w.computeFlow(k)
	w.flowMem[k] = nr
	// iterate locally until stable (handles self/mutual recursion conservatively)
	for i := 0; i < 10; i++ {
		nr2 := w.computeFlow(k)
		same := nr2.size == nr.size
		nr = nr2
		w.flowMem[k] = nr
		if same {
			break
		}
	}
	return nr
}

// fieldUniverse lists the abstract fields of the object a pointer parameter
// points to. BigInt (and non-struct) objects are a single abstract field.
func (w *World) fieldUniverse(t types.Type) []string {
	pt := pointee(t)
	if pt == nil {
		return []string{allFields}
	}
	if typeIs(pt, apdPath, "BigInt") {
		return []string{allFields}
	}
	st, ok := pt.Underlying().(*types.Struct)
	if !ok {
		return []string{allFields}
	}
	var out []string
	for i := 0; i < st.NumFields(); i++ {
		out = append(out, st.Field(i).Name())
	}
	return out
}

func expand(universe []string, field string) []string {
	if field == "" || field == allFields {
		return universe
	}
	for _, u := range universe {
		if u == field {
			return []string{field}
		}
	}
	if len(universe) == 1 && universe[0] == allFields {
		return universe
	}
	return []string{field}
}

// ---------------------------------------------------------------------------

type flowCtx struct {
	w      *World
	k      flowKey
	f      *ssa.Function
	prov   *provCtx
	univ   []string
	dead   map[*ssa.BasicBlock]bool
	deadE  map[[2]int]bool // (block index, succ position)
	res    *FlowResult
	ueSeen map[string]bool
	hzSeen map[string]bool
}

// decideCond evaluates a branch condition under the assumptions; returns
// (value, known).
func (c *flowCtx) decideCond(v ssa.Value) (bool, bool) {
	switch b := v.(type) {
	case *ssa.BinOp:
		if b.Op != token.EQL && b.Op != token.NEQ {
			return false, false
		}
		eq, known := c.decideEq(b.X, b.Y)
		if !known {
			return false, false
		}
		if b.Op == token.NEQ {
			eq = !eq
		}
		return eq, true
	case *ssa.UnOp:
		if b.Op == token.NOT {
			x, known := c.decideCond(b.X)
			return !x, known
		}
	}
	return false, false
}

func (c *flowCtx) paramIdx(v ssa.Value) int {
	p, ok := v.(*ssa.Parameter)
	if !ok {
		return -1
	}
	for i, q := range c.f.Params {
		if q == p {
			return i
		}
	}
	return -1
}

func isNilConst(v ssa.Value) bool {
	k, ok := v.(*ssa.Const)
	return ok && k.IsNil()
}

func (c *flowCtx) decideEq(x, y ssa.Value) (bool, bool) {
	xi, yi := c.paramIdx(x), c.paramIdx(y)
	isAssumed := func(i int) bool { return i >= 0 && (i == c.k.track || i == c.k.alias) }
	if isNilConst(y) && isAssumed(xi) {
		return false, true
	}
	if isNilConst(x) && isAssumed(yi) {
		return false, true
	}
	if c.k.alias >= 0 && xi >= 0 && yi >= 0 && xi != yi && isAssumed(xi) && isAssumed(yi) {
		return true, true
	}
	// In the BigInt wrappers the alias helpers' results are already resolved under the convention that,
	// apart from the pair under analysis, the *BigInt parameters are different objects (provCtx
	// distinctParams); the same test written out (`if y != z { yi = y.inner(&tmp) }`) is decided the same way.
	if xi >= 0 && yi >= 0 && xi != yi && !(isAssumed(xi) && isAssumed(yi)) && c.bigIntWrapper() &&
		isBigIntPtr(c.f.Params[xi].Type()) && isBigIntPtr(c.f.Params[yi].Type()) {
		return false, true
	}
	return false, false
}

// bigIntWrapper: the analysed function is a method of BigInt.
func (c *flowCtx) bigIntWrapper() bool {
	recv := c.f.Signature.Recv()
	return recv != nil && c.w.apdTypeName(recv.Type()) == "BigInt"
}

func (c *flowCtx) computeDead() {
	c.dead = map[*ssa.BasicBlock]bool{}
	c.deadE = map[[2]int]bool{}
	reach := map[*ssa.BasicBlock]bool{}
	var visit func(b *ssa.BasicBlock)
	visit = func(b *ssa.BasicBlock) {
		if reach[b] {
			return
		}
		reach[b] = true
		if len(b.Instrs) > 0 {
			if iff, ok := b.Instrs[len(b.Instrs)-1].(*ssa.If); ok {
				if val, known := c.decideCond(iff.Cond); known {
					if val {
						c.deadE[[2]int{b.Index, 1}] = true
						visit(b.Succs[0])
					} else {
						c.deadE[[2]int{b.Index, 0}] = true
						visit(b.Succs[1])
					}
					return
				}
			}
		}
		for _, s := range b.Succs {
			visit(s)
		}
	}
	if len(c.f.Blocks) > 0 {
		visit(c.f.Blocks[0])
	}
	for _, b := range c.f.Blocks {
		if !reach[b] {
			c.dead[b] = true
		}
	}
}

func (c *flowCtx) edgeDead(from *ssa.BasicBlock, succPos int) bool {
	return c.dead[from] || c.deadE[[2]int{from.Index, succPos}]
}

func (w *World) computeFlow(k flowKey) *FlowResult {
	f := k.fn
	c := &flowCtx{w: w, k: k, f: f, ueSeen: map[string]bool{}, hzSeen: map[string]bool{}}
	c.univ = w.fieldUniverse(f.Params[k.track].Type())
	c.computeDead()
	c.prov = w.newProv(f, c.dead)
	c.prov.distinctParams, c.prov.sameA, c.prov.sameB = true, k.track, k.alias
	c.prov.deadEdgeFn = func(from, to *ssa.BasicBlock) bool {
		for i, s := range from.Succs {
			if s == to && !c.edgeDead(from, i) {
				return false
			}
		}
		return true
	}
	res := &FlowResult{Key: k, Fields: c.univ, UERead: map[string][]Effect{}}
	c.res = res

	n := len(f.Blocks)
	in := make([]*fstate, n)
	outs := make([][]*fstate, n) // per successor position
	work := []int{0}
	in[0] = newState()
	inWork := map[int]bool{0: true}
	iter := 0
	for len(work) > 0 {
		iter++
		if iter > 20000 {
			break
		}
		bi := work[0]
		work = work[1:]
		inWork[bi] = false
		b := f.Blocks[bi]
		if c.dead[b] || in[bi] == nil {
			continue
		}
		newOuts := c.transfer(b, in[bi].clone(), false)
		outs[bi] = newOuts
		for si, s := range b.Succs {
			if c.edgeDead(b, si) {
				continue
			}
			o := newOuts[si]
			// jump threading: a block that only merges booleans and branches on one of them is passed
			// through along the edge its incoming value selects (`bad := t1; if !bad { …; bad = t2 }; if bad`)
			s = threadTarget(b, s)
			if in[s.Index] == nil {
				in[s.Index] = o.clone()
				if !inWork[s.Index] {
					work = append(work, s.Index)
					inWork[s.Index] = true
				}
			} else if in[s.Index].join(o) {
				if !inWork[s.Index] {
					work = append(work, s.Index)
					inWork[s.Index] = true
				}
			}
		}
	}
	// final recording pass with stable in-states
	for _, b := range f.Blocks {
		if c.dead[b] || in[b.Index] == nil {
			continue
		}
		// a block that only merges values and returns (`return err` after a switch whose arms assign err):
		// one return state per incoming edge, so that an arm that wrote the destination completely is not
		// mixed with an arm that did not touch it
		if rt, ok := pureMergeReturn(b); ok && len(b.Preds) > 1 {
			for pi, p := range b.Preds {
				if c.dead[p] || outs[p.Index] == nil {
					continue
				}
				for si, sc := range p.Succs {
					if sc != b || c.edgeDead(p, si) || si >= len(outs[p.Index]) || outs[p.Index][si] == nil {
						continue
					}
					c.recordReturnVia(rt, outs[p.Index][si].clone(), pi)
				}
			}
			continue
		}
		c.transfer(b, in[b.Index].clone(), true)
	}
	c.summarise()
	if w.shortName(f) == "(*BigInt).updateInner" && k.track == 0 {
		// trusted base: updateInner(src) makes the receiver a copy of src
		for _, m := range []map[string]map[string]bool{res.MayAll, res.MayT, res.MayF} {
			for f := range m {
				m[f] = map[string]bool{"copy:1": true}
			}
		}
	}
	return res
}

// transfer pushes state through block b and returns one out-state per
// successor. When record is set, UE reads, hazards and return states are
// recorded.
func (c *flowCtx) transfer(b *ssa.BasicBlock, st *fstate, record bool) []*fstate {
	// split: while non-nil, st is the state if splitVal is true and stF if false
	var stF *fstate
	var splitVal ssa.Value
	apply := func(fn func(s *fstate)) {
		fn(st)
		if stF != nil {
			fn(stF)
		}
	}
	unsplit := func() {
		if stF != nil {
			st.join(stF)
			stF = nil
			splitVal = nil
		}
	}
	for _, in := range b.Instrs {
		switch x := in.(type) {
		case *ssa.Return:
			unsplit()
			if record {
				c.recordReturn(x, st)
			}
		case ssa.CallInstruction:
			if g := callee(x); g != nil && c.w.inPkg(g) {
				sT, sF, cond := c.applyCall(x, g, st, stF, record)
				if cond {
					// a fresh split on this call's result #0
					st, stF = sT, sF
					splitVal = x.Value()
				} else {
					st = sT
					stF = sF
				}
				continue
			}
			effs := c.w.instrEffects(c.prov, in, nil)
			apply(func(s *fstate) { c.applyEffects(effs, s, record) })
		default:
			effs := c.w.instrEffects(c.prov, in, nil)
			if len(effs) > 0 {
				apply(func(s *fstate) { c.applyEffects(effs, s, record) })
			}
		}
	}
	outs := make([]*fstate, len(b.Succs))
	if len(b.Succs) == 2 {
		iff := b.Instrs[len(b.Instrs)-1].(*ssa.If)
		if stF != nil {
			if pol, ok := splitCond(iff.Cond, splitVal); ok {
				if pol {
					outs[0], outs[1] = st, stF
				} else {
					outs[0], outs[1] = stF, st
				}
				return c.refineEdges(b, iff, outs)
			}
			unsplit()
		}
		outs[0], outs[1] = st, st.clone()
		return c.refineEdges(b, iff, outs)
	}
	unsplit()
	for i := range outs {
		outs[i] = st
	}
	return outs
}

// splitCond reports whether cond is result #0 of the call v (pol=true) or its
// negation (pol=false).
func splitCond(cond ssa.Value, call ssa.Value) (bool, bool) {
	if call == nil {
		return false, false
	}
	switch x := cond.(type) {
	case *ssa.Extract:
		if x.Tuple == call && x.Index == 0 {
			return true, true
		}
	case *ssa.UnOp:
		if x.Op == token.NOT {
			p, ok := splitCond(x.X, call)
			return !p, ok
		}
	}
	if cond == call {
		return true, true
	}
	return false, false
}

// refineEdges applies the "alias-equality edge" refinement: on the edge where
// track == some other pointer parameter p is known, *track already holds p's
// value, i.e. every field counts as assigned (as a copy of p).
func (c *flowCtx) refineEdges(b *ssa.BasicBlock, iff *ssa.If, outs []*fstate) []*fstate {
	bo, ok := iff.Cond.(*ssa.BinOp)
	if !ok || (bo.Op != token.EQL && bo.Op != token.NEQ) {
		return outs
	}
	xi, yi := c.paramIdx(bo.X), c.paramIdx(bo.Y)
	other := -1
	if xi == c.k.track && yi >= 0 {
		other = yi
	} else if yi == c.k.track && xi >= 0 {
		other = xi
	}
	if other < 0 || other == c.k.track || other == c.k.alias {
		return outs
	}
	if !types.Identical(c.f.Params[other].Type(), c.f.Params[c.k.track].Type()) {
		return outs
	}
	eqEdge := 0
	if bo.Op == token.NEQ {
		eqEdge = 1
	}
	s := outs[eqEdge].clone()
	for _, fl := range c.univ {
		s.must[fl] = true
	}
	outs[eqEdge] = s
	return outs
}

func (c *flowCtx) isTrack(r Root) bool { return r.Kind == RParam && r.Param == c.k.track }
func (c *flowCtx) isAlias(r Root) bool {
	return c.k.alias >= 0 && r.Kind == RParam && r.Param == c.k.alias
}

// applyEffects handles direct loads/stores and external calls.
func (c *flowCtx) applyEffects(effs []Effect, s *fstate, record bool) {
	// count strong writes: an address with exactly one possible target
	nW := map[ssa.Instruction]int{}
	for _, e := range effs {
		if e.Write {
			nW[e.In]++
		}
	}
	for _, e := range effs {
		if e.Write {
			continue
		}
		c.applyRead(e, s, record)
	}
	for _, e := range effs {
		if !e.Write {
			continue
		}
		if !c.isTrack(e.Loc.Root) {
			continue
		}
		strong := c.strongWrite(e, effs)
		tag := "opaque"
		if e.CopySrc != nil {
			if pi := c.paramIdx(e.CopySrc); pi >= 0 {
				tag = fmt.Sprintf("copy:%d", pi)
			} else {
				tag = c.valueTag(e.CopySrc)
			}
		}
		if e.CopyOf != nil && c.isTrack(e.CopyOf.Root) {
			// copy of itself: identity
			if strong {
				for _, fl := range expand(c.univ, e.Loc.Field) {
					s.must[fl] = true
				}
			}
			continue
		}
		for _, fl := range expand(c.univ, e.Loc.Field) {
			s.addMay(fl, tag, e.In)
			if strong {
				s.must[fl] = true
			}
		}
	}
	// writes through a pointer value, whatever it points to
	for _, e := range effs {
		if e.Write && e.Ptr != nil && e.Via == "" || e.Write && e.Ptr != nil && strings.HasPrefix(e.Via, "(*math/big.Int).") {
			for _, fl := range expand(c.univ, e.Loc.Field) {
				s.setVia(e.Ptr, fl)
			}
		}
	}
}

func (c *flowCtx) valueTag(v ssa.Value) string {
	// a copy of one of the package's shared values (decimalNaN, decimalInfinity, …) keeps its name: the
	// tag survives composition into callers
	if u, ok := v.(*ssa.UnOp); ok && u.Op == token.MUL {
		if g, ok := u.X.(*ssa.Global); ok && g.Pkg == c.w.SSA {
			return "shared:" + g.Name()
		}
	}
	return fmt.Sprintf("copyv:%p", v)
}

// strongWrite: the write effect e is the only possible target of its address
// operand (no other write effect of the same instruction has a different root).
func (c *flowCtx) strongWrite(e Effect, effs []Effect) bool {
	for _, o := range effs {
		if o.Write && o.In == e.In && o.Via == e.Via && o.Arg == e.Arg && o.Loc.Root.key() != e.Loc.Root.key() {
			// another possible target for (possibly) the same pointer: weak.
			// Distinct arguments of one call may legitimately have distinct
			// roots; to stay sound we only call a write strong when every
			// write effect of the instruction targets the tracked root.
			return false
		}
	}
	return true
}

func (c *flowCtx) applyRead(e Effect, s *fstate, record bool) {
	if c.isTrack(e.Loc.Root) {
		if e.Storage {
			return
		}
		for _, fl := range expand(c.univ, e.Loc.Field) {
			if s.must[fl] || (e.Ptr != nil && s.via[e.Ptr][fl]) {
				continue
			}
			if record {
				key := fl + "@" + c.w.instrPos(e.In) + e.Via
				if !c.ueSeen[key] {
					c.ueSeen[key] = true
					c.res.UERead[fl] = append(c.res.UERead[fl], e)
				}
			}
		}
		return
	}
	if c.isAlias(e.Loc.Root) {
		for _, fl := range expand(c.univ, e.Loc.Field) {
			for tag, at := range s.may[fl] {
				if tag == fmt.Sprintf("copy:%d", c.k.alias) {
					continue
				}
				if e.Ptr != nil && tag == c.valueTag(e.Ptr) {
					continue // the value read is the very one that was copied
				}
				if e.Ptr != nil && s.via[e.Ptr][fl] {
					continue // read back through the very pointer the result was written through
				}
				if record {
					key := fl + "@" + c.w.instrPos(e.In) + e.Via + tag
					if !c.hzSeen[key] {
						c.hzSeen[key] = true
						c.res.Hazards = append(c.res.Hazards, Hazard{Field: fl, Read: e, WriteAt: at, Tag: tag})
					}
				}
			}
		}
	}
}

// applyCall composes an in-package call. It returns (stateTrue, stateFalse,
// freshSplit). When freshSplit is false the two returned states correspond to
// the incoming (st, stF) pair.
func (c *flowCtx) applyCall(call ssa.CallInstruction, g *ssa.Function, st, stF *fstate, record bool) (*fstate, *fstate, bool) {
	w := c.w
	args := call.Common().Args
	sum := w.summary(g)
	gname := w.shortName(g)
	type trackedArg struct {
		param int
		loc   Loc
		sole  bool
		ptr   ssa.Value
	}
	var tracked []trackedArg
	var reads []Effect
	// 1. reads. For locations of the tracked root only the callee's
	//    upward-exposed reads count; for everything else the summary's read set.
	for i := range g.Params {
		if i >= len(args) || !pointerLike(args[i].Type()) {
			continue
		}
		locs := c.prov.roots(args[i])
		ptr := basePtr(args[i])
		hasTrack := false
		for _, l := range locs {
			if c.isTrack(l.Root) {
				hasTrack = true
				tracked = append(tracked, trackedArg{i, l, len(locs) == 1, ptr})
			}
		}
		for _, fld := range sortedKeys(sum.Reads[i]) {
			for _, l := range locs {
				if c.isTrack(l.Root) {
					continue
				}
				reads = append(reads, Effect{Loc: applyField(l, fld), In: call, Via: gname, Arg: i, Ptr: ptr, Storage: sum.StorageOnly[i][fld]})
			}
		}
		if !hasTrack {
			continue
		}
		var ue []string
		if isPointer(g.Params[i].Type()) {
			if w.storageParam(g, i) {
				continue
			}
			ue = sortedUE(w.flow(g, i, -1).UERead)
		} else {
			ue = sortedKeys(sum.Reads[i])
		}
		for _, fld := range ue {
			for _, l := range locs {
				if c.isTrack(l.Root) {
					reads = append(reads, Effect{Loc: applyField(l, fld), In: call, Via: gname, Arg: i, Ptr: ptr})
				}
			}
		}
	}
	doReads := func(s *fstate) {
		for _, e := range reads {
			c.applyRead(e, s, record)
		}
	}
	doReads(st)
	if stF != nil {
		doReads(stF)
	}
	if len(tracked) == 0 {
		return st, stF, false
	}
	// 2. writes to the tracked root: from the callee's flow result.
	soleTracked := len(tracked) == 1
	split := false
	type wr struct {
		ta trackedArg
		cr *FlowResult
	}
	var wrs []wr
	for _, ta := range tracked {
		if !isPointer(g.Params[ta.param].Type()) {
			continue
		}
		cr := w.flow(g, ta.param, -1)
		wrs = append(wrs, wr{ta, cr})
		if cr.Split && soleTracked {
			split = true
		}
	}
	applyW := func(s *fstate, which int) { // which: 0 all, 1 true, 2 false
		for _, x := range wrs {
			must, may := x.cr.MustAll, x.cr.MayAll
			if which == 1 {
				must, may = x.cr.MustT, x.cr.MayT
			} else if which == 2 {
				must, may = x.cr.MustF, x.cr.MayF
			}
			for fld, tags := range may {
				for tag := range tags {
					ctag := c.translateTag(tag, args)
					if ctag == "self" {
						continue
					}
					for _, fl := range expand(c.univ, applyField(x.ta.loc, fld).Field) {
						s.addMay(fl, ctag, call)
					}
				}
			}
			if !x.cr.AnyNonErrorReturn {
				continue
			}
			for fld, ok := range must {
				if !ok {
					continue
				}
				for _, fl := range expand(c.univ, applyField(x.ta.loc, fld).Field) {
					if x.ta.sole {
						s.must[fl] = true
					}
					s.setVia(x.ta.ptr, fl)
				}
			}
		}
	}
	if split {
		if stF != nil {
			st.join(stF)
		}
		sT := st
		sF := st.clone()
		applyW(sT, 1)
		applyW(sF, 2)
		return sT, sF, true
	}
	applyW(st, 0)
	if stF != nil {
		applyW(stF, 0)
	}
	return st, stF, false
}

// storageParam: parameter i of g is a *BigInt that g itself assigns; its
// reads of that parameter are storage reads (inner/updateInner re-using the
// inline array), not value reads — the wrapper discipline is checked by C16.R1.
func (w *World) storageParam(g *ssa.Function, i int) bool {
	if !typeIs(g.Params[i].Type(), apdPath, "BigInt") {
		return false
	}
	recv := g.Signature.Recv()
	if recv == nil || !typeIs(recv.Type(), apdPath, "BigInt") {
		return false
	}
	s := w.summary(g)
	return len(s.Writes[i]) > 0
}

func sortedUE(m map[string][]Effect) []string {
	var out []string
	for k, v := range m {
		if len(v) > 0 {
			out = append(out, k)
		}
	}
	sort.Strings(out)
	return out
}

// translateTag maps a callee-frame tag ("opaque", "copy:<callee param>") to
// the caller frame.
func (c *flowCtx) translateTag(tag string, args []ssa.Value) string {
	var j int
	if n, _ := fmt.Sscanf(tag, "copy:%d", &j); n == 1 && strings.HasPrefix(tag, "copy:") {
		if j < len(args) {
			locs := c.prov.roots(args[j])
			if len(locs) == 1 && c.isTrack(locs[0].Root) {
				return "self"
			}
			src := basePtr(args[j])
			if pi := c.paramIdx(src); pi >= 0 {
				return fmt.Sprintf("copy:%d", pi)
			}
			return c.valueTag(src)
		}
		return "opaque"
	}
	if strings.HasPrefix(tag, "copyv:") {
		return "opaque"
	}
	return tag
}

// pureMergeReturn: b consists of φs (and debug refs) followed by a return.
func pureMergeReturn(b *ssa.BasicBlock) (*ssa.Return, bool) {
	for _, in := range b.Instrs {
		switch x := in.(type) {
		case *ssa.Phi, *ssa.DebugRef:
		case *ssa.Return:
			return x, true
		default:
			return nil, false
		}
	}
	return nil, false
}

// recordReturnVia records the return state for the edge from predecessor #pi
// of the return's (pure merge) block: φ results are resolved along that edge.
func (c *flowCtx) recordReturnVia(r *ssa.Return, s *fstate, pi int) {
	resolve := func(v ssa.Value) ssa.Value {
		if phi, ok := v.(*ssa.Phi); ok && phi.Block() == r.Block() && pi < len(phi.Edges) {
			return phi.Edges[pi]
		}
		return v
	}
	rs := ReturnState{In: r, Must: map[string]bool{}, May: fieldTags{}, Bool0: -1}
	for k, v := range s.must {
		if v {
			rs.Must[k] = true
		}
	}
	for f, tags := range s.may {
		rs.May[f] = map[string]ssa.Instruction{}
		for t, in := range tags {
			rs.May[f][t] = in
		}
	}
	pred := r.Block().Preds[pi]
	for _, v := range r.Results {
		rv := resolve(v)
		if types.Identical(rv.Type(), types.Universe.Lookup("error").Type()) && c.w.definitelyNonNil(rv, pred) {
			rs.IsError = true
		}
		if typeIs(rv.Type(), apdPath, "Condition") {
			if k, ok := rv.(*ssa.Const); ok && k.Value != nil {
				if n, ok := constant.Uint64Val(k.Value); ok && n&3 != 0 {
					rs.IsError = true
				}
			}
		}
	}
	if len(r.Results) > 0 {
		if k, ok := resolve(r.Results[0]).(*ssa.Const); ok && k.Value != nil && k.Value.Kind() == constant.Bool {
			if constant.BoolVal(k.Value) {
				rs.Bool0 = 1
			} else {
				rs.Bool0 = 0
			}
		}
	}
	c.res.Returns = append(c.res.Returns, rs)
}

func (c *flowCtx) recordReturn(r *ssa.Return, s *fstate) {
	rs := ReturnState{In: r, Must: map[string]bool{}, May: fieldTags{}, Bool0: -1}
	for k, v := range s.must {
		if v {
			rs.Must[k] = true
		}
	}
	for f, tags := range s.may {
		rs.May[f] = map[string]ssa.Instruction{}
		for t, in := range tags {
			rs.May[f][t] = in
		}
	}
	rs.IsError = c.w.isErrorReturn(r)
	if len(r.Results) > 0 {
		if k, ok := r.Results[0].(*ssa.Const); ok && k.Value != nil && k.Value.Kind() == constant.Bool {
			if constant.BoolVal(k.Value) {
				rs.Bool0 = 1
			} else {
				rs.Bool0 = 0
			}
		} else if ex, ok := r.Results[0].(*ssa.Extract); ok && ex.Index == 0 {
			// `return c.helper(d)`: the helper's own first result, when it is the same constant on all its returns
			if call, ok := ex.Tuple.(*ssa.Call); ok {
				if g := call.Common().StaticCallee(); g != nil {
					rs.Bool0 = constBool0(g, 0)
				}
			}
		}
	}
	c.res.Returns = append(c.res.Returns, rs)
}

// isErrorReturn: the return delivers a definitely non-nil error, or a
// Condition constant carrying a System* flag (which GoError always turns into
// an error — decided by C03.R1/R3).
func (w *World) isErrorReturn(r *ssa.Return) bool {
	if w.underSystemTest(r.Block(), 0) {
		// reached only where a Condition was found to carry a System* flag, which goError always turns
		// into an error (C03.R1)
		for _, v := range r.Results {
			if types.Identical(v.Type(), types.Universe.Lookup("error").Type()) {
				return true
			}
		}
		// a helper that returns the very Condition it found the System* flag in: its caller's goError
		// turns that into the error
		for _, tv := range w.systemTestedValues(r.Block(), 0) {
			for _, v := range r.Results {
				if v == tv {
					return true
				}
			}
		}
	}
	// return c.goError(<literal with a System* flag>): always an error (C03.R1)
	for _, v := range r.Results {
		if ex, ok := v.(*ssa.Extract); ok {
			if gc, isC := ex.Tuple.(*ssa.Call); isC && w.isGoErrorCall(gc) {
				for _, a := range gc.Common().Args {
					if k, isK := a.(*ssa.Const); isK && k.Value != nil && typeIs(a.Type(), apdPath, "Condition") {
						if n, okN := constant.Uint64Val(k.Value); okN && n&3 != 0 {
							return true
						}
					}
				}
			}
		}
	}
	for _, v := range r.Results {
		if typeIs(v.Type(), apdPath, "Condition") {
			if k, ok := v.(*ssa.Const); ok && k.Value != nil {
				if n, ok := constant.Uint64Val(k.Value); ok && n&3 != 0 {
					return true
				}
			}
			// the outcome of a classifying helper (0, or a constant with a System* flag), returned under
			// the test that it is not 0
			if ks, ok := w.constResultsOf(v); ok {
				allSys := true
				for _, k := range ks {
					if k != 0 && k&3 == 0 {
						allSys = false
					}
				}
				nonZero := false
				for _, g := range guardsAt(r.Block()) {
					if bo, isB := g.Cond.(*ssa.BinOp); isB && (bo.X == v || bo.Y == v) {
						other := bo.Y
						if bo.Y == v {
							other = bo.X
						}
						if k, isK := other.(*ssa.Const); isK && k.Value != nil && ci(k) == 0 {
							if (bo.Op == token.NEQ && g.Val) || (bo.Op == token.EQL && !g.Val) {
								nonZero = true
							}
						}
					}
				}
				if allSys && nonZero {
					return true
				}
			}
		}
		if types.Identical(v.Type(), types.Universe.Lookup("error").Type()) {
			// an error exit helper: the error is the caller's, non-nil at every call site
			if pr, isP := v.(*ssa.Parameter); isP {
				h := r.Parent()
				if (h.Object() == nil || !h.Object().Exported()) && !w.addressTaken(h) && w.nonNilDepth < 3 {
					idx := -1
					for i, q := range h.Params {
						if q == pr {
							idx = i
						}
					}
					sites := w.allCallsTo(w.shortName(h))
					all := idx >= 0 && len(sites) > 0
					w.nonNilDepth++
					for _, sc := range sites {
						if idx >= len(sc.Common().Args) || !w.definitelyNonNil(sc.Common().Args[idx], sc.Block()) {
							all = false
						}
					}
					w.nonNilDepth--
					if all {
						return true
					}
				}
			}
			if w.definitelyNonNil(v, r.Block()) {
				return true
			}
		}
	}
	return false
}

// definitelyNonNil: v is the result of errors.New/fmt.Errorf, or the block is
// dominated by the true edge of v != nil.
func (w *World) definitelyNonNil(v ssa.Value, b *ssa.BasicBlock) bool {
	switch x := v.(type) {
	case *ssa.Call:
		if f := x.Common().StaticCallee(); f != nil {
			n := f.String()
			if n == "errors.New" || n == "fmt.Errorf" {
				return true
			}
			// a helper of the package that only ever builds an error (errNotConverged(z) error)
			if w.inPkg(f) && f.Signature.Results().Len() == 1 && len(f.Blocks) > 0 && w.nonNilDepth < 3 {
				w.nonNilDepth++
				all := true
				for _, hb := range f.Blocks {
					if rt, isRet := hb.Instrs[len(hb.Instrs)-1].(*ssa.Return); isRet {
						if !w.definitelyNonNil(rt.Results[0], hb) {
							all = false
						}
					}
				}
				w.nonNilDepth--
				if all {
					return true
				}
			}
		}
	case *ssa.Extract:
		// the error result of an unexported helper that hands an error of its caller back unchanged (or
		// builds one): non-nil when the argument is
		if hc, isC := x.Tuple.(*ssa.Call); isC && w.nonNilDepth < 3 {
			if h := hc.Common().StaticCallee(); h != nil && w.inPkg(h) && len(h.Blocks) > 0 && (h.Object() == nil || !h.Object().Exported()) {
				w.nonNilDepth++
				all, n := true, 0
				for _, hb := range h.Blocks {
					rt, isRet := hb.Instrs[len(hb.Instrs)-1].(*ssa.Return)
					if !isRet || x.Index >= len(rt.Results) {
						continue
					}
					n++
					rv := rt.Results[x.Index]
					if pr, isP := rv.(*ssa.Parameter); isP {
						ok := false
						for i, q := range h.Params {
							if q == pr && i < len(hc.Common().Args) && w.definitelyNonNil(hc.Common().Args[i], b) {
								ok = true
							}
						}
						if !ok {
							all = false
						}
					} else if !w.definitelyNonNil(rv, hb) {
						all = false
					}
				}
				w.nonNilDepth--
				if all && n > 0 {
					return true
				}
			}
		}
	case *ssa.MakeInterface:
		return true
	case *ssa.Phi:
		all := len(x.Edges) > 0
		for i, e := range x.Edges {
			if !w.definitelyNonNil(e, x.Block().Preds[i]) {
				all = false
			}
		}
		if all {
			return true
		}
	}
	for _, g := range guardsAt(b) {
		if bo, ok := g.Cond.(*ssa.BinOp); ok {
			if (bo.X == v && isNilConst(bo.Y)) || (bo.Y == v && isNilConst(bo.X)) {
				if (bo.Op == token.NEQ && g.Val) || (bo.Op == token.EQL && !g.Val) {
					return true
				}
			}
		}
	}
	return false
}

func (c *flowCtx) summarise() {
	r := c.res
	r.MustAll, r.MustT, r.MustF = map[string]bool{}, map[string]bool{}, map[string]bool{}
	r.MayAll, r.MayT, r.MayF = map[string]map[string]bool{}, map[string]map[string]bool{}, map[string]map[string]bool{}
	first := map[int]bool{0: true, 1: true, 2: true}
	meet := func(dst map[string]bool, which int, must map[string]bool) {
		if first[which] {
			for k := range must {
				dst[k] = true
			}
			first[which] = false
			return
		}
		for k := range dst {
			if !must[k] {
				delete(dst, k)
			}
		}
	}
	union := func(dst map[string]map[string]bool, may fieldTags) {
		for f, tags := range may {
			if dst[f] == nil {
				dst[f] = map[string]bool{}
			}
			for t := range tags {
				if strings.HasPrefix(t, "copyv:") {
					t = "opaque" // function-local value identity does not survive the call boundary
				}
				dst[f][t] = true
			}
		}
	}
	r.Split = true
	nonErr := 0
	for _, rs := range r.Returns {
		union(r.MayAll, rs.May)
		if rs.Bool0 == 1 {
			union(r.MayT, rs.May)
		} else if rs.Bool0 == 0 {
			union(r.MayF, rs.May)
		}
		if len(rs.May) > 0 {
			r.WritesAnything = true
		}
		if rs.IsError {
			continue
		}
		nonErr++
		meet(r.MustAll, 0, rs.Must)
		switch rs.Bool0 {
		case 1:
			meet(r.MustT, 1, rs.Must)
		case 0:
			meet(r.MustF, 2, rs.Must)
		default:
			r.Split = false
		}
	}
	r.AnyNonErrorReturn = nonErr > 0
	if nonErr == 0 {
		r.Split = false
	}
	if r.Split {
		// only useful when the two classes differ
		if first[1] || first[2] {
			// one class absent among non-error returns: still fine (absent class = all fields)
			if first[1] {
				for _, fl := range r.Fields {
					r.MustT[fl] = true
				}
			}
			if first[2] {
				for _, fl := range r.Fields {
					r.MustF[fl] = true
				}
			}
		}
	}
	sz := len(r.Hazards)
	for _, v := range r.UERead {
		sz += len(v)
	}
	for _, m := range []map[string]bool{r.MustAll, r.MustT, r.MustF} {
		sz += len(m) * 7
	}
	for _, m := range []map[string]map[string]bool{r.MayAll, r.MayT, r.MayF} {
		for _, t := range m {
			sz += len(t) * 13
		}
	}
	if r.Split {
		sz += 1000003
	}
	r.size = sz
}

// constBool0: 1/0 when every return of g delivers the constant true/false as its first result
// (through tail calls, to a small depth), else -1.
func constBool0(g *ssa.Function, depth int) int {
	if depth > 3 || len(g.Blocks) == 0 {
		return -1
	}
	val := -2
	for _, b := range g.Blocks {
		rt, ok := b.Instrs[len(b.Instrs)-1].(*ssa.Return)
		if !ok {
			continue
		}
		if len(rt.Results) == 0 {
			return -1
		}
		v := -1
		switch x := rt.Results[0].(type) {
		case *ssa.Const:
			if x.Value != nil && x.Value.Kind() == constant.Bool {
				v = 0
				if constant.BoolVal(x.Value) {
					v = 1
				}
			}
		case *ssa.Extract:
			if call, ok := x.Tuple.(*ssa.Call); ok && x.Index == 0 {
				if h := call.Common().StaticCallee(); h != nil {
					v = constBool0(h, depth+1)
				}
			}
		}
		if v < 0 || (val != -2 && val != v) {
			return -1
		}
		val = v
	}
	if val == -2 {
		return -1
	}
	return val
}

// underSystemTest: every edge into b is the true edge of a test
// cond.SystemOverflow() / cond.SystemUnderflow() (the arms of an || chain
// included).
func (w *World) underSystemTest(b *ssa.BasicBlock, depth int) bool {
	if len(b.Preds) == 0 || depth > 4 {
		return false
	}
	for _, p := range b.Preds {
		last := p.Instrs[len(p.Instrs)-1]
		switch t := last.(type) {
		case *ssa.If:
			if w.systemMaskTestEdge(t.Cond, p.Succs[0] == b) {
				continue
			}
			_, _, tms, ok := w.systemTest(t.Cond)
			if !ok || (p.Succs[0] == b) != tms || p.Succs[0] == p.Succs[1] {
				return false
			}
		case *ssa.Jump:
			if !w.underSystemTest(p, depth+1) {
				return false
			}
		default:
			return false
		}
	}
	return true
}

// systemMaskTestEdge: cond is x&K != 0 (taken on its true edge) or x&K == 0 (on its false edge) with K a
// non-empty subset of SystemOverflow|SystemUnderflow: the edge is entered only with a System* flag set.
func (w *World) systemMaskTestEdge(cond ssa.Value, trueEdge bool) bool {
	bo, ok := cond.(*ssa.BinOp)
	if !ok || (bo.Op != token.NEQ && bo.Op != token.EQL) {
		return false
	}
	if (bo.Op == token.NEQ) != trueEdge {
		return false
	}
	cc := w.conditionConsts()
	sys := cc["SystemOverflow"] | cc["SystemUnderflow"]
	for _, pair := range [][2]ssa.Value{{bo.X, bo.Y}, {bo.Y, bo.X}} {
		and, ok := pair[0].(*ssa.BinOp)
		zero, ok2 := pair[1].(*ssa.Const)
		if !ok || !ok2 || and.Op != token.AND || zero.Value == nil || ci(zero) != 0 {
			continue
		}
		for _, q := range []ssa.Value{and.X, and.Y} {
			if k, ok := q.(*ssa.Const); ok && k.Value != nil && typeIs(k.Type(), apdPath, "Condition") {
				if bits := uint64(ci(k)); bits != 0 && bits&^sys == 0 {
					return true
				}
			}
		}
	}
	return false
}

// systemTestedValues: the Condition values whose System* test guards block b (see underSystemTest).
func (w *World) systemTestedValues(b *ssa.BasicBlock, depth int) []ssa.Value {
	var out []ssa.Value
	if depth > 4 {
		return nil
	}
	for _, p := range b.Preds {
		switch t := p.Instrs[len(p.Instrs)-1].(type) {
		case *ssa.If:
			if tv, _, tms, ok := w.systemTest(t.Cond); ok && (p.Succs[0] == b) == tms {
				out = append(out, tv)
			}
		case *ssa.Jump:
			out = append(out, w.systemTestedValues(p, depth+1)...)
		}
	}
	return out
}

// threadTarget: following the edge from -> to, the block that is really reached when `to` (and the blocks
// after it) consist only of boolean φs, negations and a branch on a value that is known on this path: a
// constant, a φ whose incoming value on this edge is known, or a value settled by a branch the path has
// taken. Returns `to` itself when nothing is known.
func threadTarget(from, to *ssa.BasicBlock) *ssa.BasicBlock {
	env := map[ssa.Value]bool{}
	for _, g := range rawEdgeConds(from, to) {
		env[g.Cond] = g.Val
	}
	prev := from
	for hop := 0; hop < 6; hop++ {
		if len(to.Succs) != 2 || to.Succs[0] == to.Succs[1] {
			return to
		}
		pi := -1
		for i, p := range to.Preds {
			if p == prev {
				pi = i
			}
		}
		if pi < 0 {
			return to
		}
		var val func(v ssa.Value, d int) (bool, bool)
		val = func(v ssa.Value, d int) (bool, bool) {
			if d > 6 {
				return false, false
			}
			if b, ok := env[v]; ok {
				return b, true
			}
			switch x := v.(type) {
			case *ssa.Const:
				if x.Value != nil && (x.Value.String() == "true" || x.Value.String() == "false") {
					return x.Value.String() == "true", true
				}
			case *ssa.UnOp:
				if x.Op.String() == "!" {
					if b, ok := val(x.X, d+1); ok {
						return !b, true
					}
				}
			}
			return false, false
		}
		// the block may only hold φs, negations and the branch
		var iff *ssa.If
		for _, in := range to.Instrs {
			switch x := in.(type) {
			case *ssa.Phi:
				if b, ok := val(x.Edges[pi], 0); ok {
					env[x] = b
				}
			case *ssa.UnOp:
				if x.Op.String() != "!" {
					return to
				}
			case *ssa.DebugRef:
			case *ssa.If:
				iff = x
			default:
				return to
			}
		}
		if iff == nil {
			return to
		}
		b, ok := val(iff.Cond, 0)
		if !ok {
			return to
		}
		next := to.Succs[1]
		if b {
			next = to.Succs[0]
		}
		env[iff.Cond] = b
		prev, to = to, next
	}
	return to
}

// systemTest recognises a test of the System* bits of a Condition, in any of its spellings: the methods
// SystemOverflow()/SystemUnderflow(), a mask test x&K != 0 / == 0 with K within SystemOverflow|SystemUnderflow,
// a negation, or an unexported predicate of the package whose single parameter (or receiver) is a Condition and
// whose result is such a test of it (or the `||` of two). It returns the Condition value tested, the bits
// (1 overflow, 2 underflow), and whether a true outcome means "one of these bits is set" (a false outcome then
// means that all of them are clear).
func (w *World) systemTest(cond ssa.Value) (ssa.Value, int, bool, bool) {
	return w.systemTestDepth(cond, 0)
}

func (w *World) systemTestDepth(cond ssa.Value, depth int) (ssa.Value, int, bool, bool) {
	if depth > 4 {
		return nil, 0, false, false
	}
	switch c := cond.(type) {
	case *ssa.UnOp:
		if c.Op.String() == "!" {
			if v, bits, tms, ok := w.systemTestDepth(c.X, depth+1); ok {
				return v, bits, !tms, true
			}
		}
	case *ssa.Call:
		if len(c.Common().Args) == 0 {
			return nil, 0, false, false
		}
		switch w.calleeName(c) {
		case "(Condition).SystemOverflow":
			return c.Common().Args[0], 1, true, true
		case "(Condition).SystemUnderflow":
			return c.Common().Args[0], 2, true, true
		}
		h := callee(c)
		if h == nil || !w.inPkg(h) || len(h.Params) != 1 || len(c.Common().Args) != 1 || !typeIs(h.Params[0].Type(), apdPath, "Condition") ||
			h.Signature.Results().Len() != 1 || h.Signature.Results().At(0).Type().String() != "bool" || len(h.Blocks) == 0 {
			return nil, 0, false, false
		}
		// every return of h is a system test of its parameter (true = set), or the constant of a short-circuit
		bits := 0
		for _, b := range h.Blocks {
			rt, isRet := b.Instrs[len(b.Instrs)-1].(*ssa.Return)
			if !isRet {
				continue
			}
			got, ok := w.predicateBits(h, rt.Results[0], depth+1)
			if !ok {
				return nil, 0, false, false
			}
			bits |= got
		}
		if bits == 0 {
			return nil, 0, false, false
		}
		return c.Common().Args[0], bits, true, true
	case *ssa.BinOp:
		if c.Op != token.NEQ && c.Op != token.EQL {
			return nil, 0, false, false
		}
		cc := w.conditionConsts()
		so, su := cc["SystemOverflow"], cc["SystemUnderflow"]
		for _, pair := range [][2]ssa.Value{{c.X, c.Y}, {c.Y, c.X}} {
			and, ok := pair[0].(*ssa.BinOp)
			zero, ok2 := pair[1].(*ssa.Const)
			if !ok || !ok2 || and.Op != token.AND || zero.Value == nil || ci(zero) != 0 {
				continue
			}
			for _, q := range [][2]ssa.Value{{and.X, and.Y}, {and.Y, and.X}} {
				kb, isK := condBits(q[1])
				if !isK || kb == 0 || kb&^(so|su) != 0 {
					continue
				}
				bits := 0
				if kb&so != 0 {
					bits |= 1
				}
				if kb&su != 0 {
					bits |= 2
				}
				return q[0], bits, c.Op == token.NEQ, true
			}
		}
	}
	return nil, 0, false, false
}

// predicateBits: v, a boolean computed inside predicate h, is true exactly when some of the returned System
// bits of h's parameter are set: a system test of the parameter, or a `||` (φ of true and tests) of such.
func (w *World) predicateBits(h *ssa.Function, v ssa.Value, depth int) (int, bool) {
	if depth > 6 {
		return 0, false
	}
	if phi, ok := v.(*ssa.Phi); ok {
		bits := 0
		for i, e := range phi.Edges {
			if k, isK := e.(*ssa.Const); isK && k.Value != nil {
				if k.Value.String() != "true" {
					return 0, false
				}
				// a `true` edge of a || comes from a block whose own test was true
				pred := phi.Block().Preds[i]
				iff, isIf := pred.Instrs[len(pred.Instrs)-1].(*ssa.If)
				if !isIf || pred.Succs[0] != phi.Block() {
					return 0, false
				}
				got, ok := w.predicateBits(h, iff.Cond, depth+1)
				if !ok {
					return 0, false
				}
				bits |= got
				continue
			}
			got, ok := w.predicateBits(h, e, depth+1)
			if !ok {
				return 0, false
			}
			bits |= got
		}
		return bits, bits != 0
	}
	tv, bits, tms, ok := w.systemTestDepth(v, depth+1)
	if !ok || !tms || tv != ssa.Value(h.Params[0]) {
		return 0, false
	}
	return bits, true
}
