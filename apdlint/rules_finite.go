package main

import (
	"fmt"
	"go/token"

	"golang.org/x/tools/go/ssa"
)

func init() {
	register(&Rule{ID: "C08.R7", Min: 2,
		Text: "digits and exponent are only interpreted for finite values: every call of setExponent (which derives Overflow/Subnormal/Inexact from Coeff and Exponent) is reached only with a receiver known to be finite — its Form was stored Finite on every path, it is a copy of a finite package constant, or it is a copy of an operand whose Form == Finite test dominates the call; an infinity's leftover Coeff/Exponent is never reported as a condition",
		Run:  ruleNumericOnlyFinite})
}

func ruleNumericOnlyFinite(w *World, r *RuleResult) {
	finite, okF := w.formConsts()["Finite"]
	if !okF {
		r.anchorMissing("Form constants")
		return
	}
	calls := w.allCallsTo("(*Decimal).setExponent")
	if len(calls) == 0 {
		r.anchorMissing("(*Decimal).setExponent call sites")
		return
	}
	formOf := func(v ssa.Value) (ssa.Value, bool) {
		ld, ok := v.(*ssa.UnOp)
		if !ok || ld.Op != token.MUL {
			return nil, false
		}
		fa, ok := ld.X.(*ssa.FieldAddr)
		if !ok || !typeIs(fa.X.Type(), apdPath, "Decimal") {
			return nil, false
		}
		if w.exprOf(ld.Parent(), ld.X).Name != "Form" {
			return nil, false
		}
		return basePtr(fa.X), true
	}
	finiteGuard := func(b *ssa.BasicBlock, obj ssa.Value) bool {
		for _, g := range guardsAt(b) {
			bo, ok := g.Cond.(*ssa.BinOp)
			if !ok {
				continue
			}
			k, isK := bo.Y.(*ssa.Const)
			base, isForm := formOf(bo.X)
			if !isK || !isForm || base != obj || ci(k) != finite {
				continue
			}
			if (bo.Op == token.EQL && g.Val) || (bo.Op == token.NEQ && !g.Val) {
				return true
			}
		}
		return false
	}
	// finiteAt: obj (a *Decimal base pointer in c's function) is known to be finite when c is reached
	var finiteAt func(c *ssa.Call, recv ssa.Value, depth int) (bool, string)
	finiteAt = func(c *ssa.Call, recv ssa.Value, depth int) (bool, string) {
		f := c.Parent()
		// (a) Form = Finite stored on every path
		stored := seenBefore(c, func(in ssa.Instruction) bool {
			st, ok := in.(*ssa.Store)
			if !ok {
				return false
			}
			fa, ok := st.Addr.(*ssa.FieldAddr)
			if !ok || basePtr(fa.X) != recv || w.exprOf(f, st.Addr).Name != "Form" {
				return false
			}
			k, isK := st.Val.(*ssa.Const)
			return isK && ci(k) == finite
		})
		if stored {
			return true, "Form = Finite is stored on every path to the call"
		}
		// (b) a dominating Form == Finite test of the receiver itself
		if finiteGuard(c.Block(), recv) {
			return true, "dominated by a Form == Finite test of the receiver"
		}
		// (c) the receiver is a copy (Set) of a finite constant or of an operand tested finite
		why := ""
		copied := seenBefore(c, func(in ssa.Instruction) bool {
			// recv.Form = src.Form with src tested finite
			if st, ok := in.(*ssa.Store); ok {
				if fa, ok := st.Addr.(*ssa.FieldAddr); ok && basePtr(fa.X) == recv && w.exprOf(f, st.Addr).Name == "Form" {
					if src, isForm := formOf(st.Val); isForm && finiteGuard(c.Block(), src) {
						why = "its Form is copied from " + w.exprOf(f, src).String() + ", whose Form == Finite test dominates the call"
						return true
					}
				}
				return false
			}
			sc, ok := in.(*ssa.Call)
			if !ok || w.calleeName(sc) != "(*Decimal).Set" || basePtr(sc.Common().Args[0]) != recv {
				return false
			}
			src := sc.Common().Args[1]
			for _, l := range w.newProv(f, nil).roots(src) {
				if l.Root.Kind == RGlobalObj && l.Root.Name != "decimalNaN" && l.Root.Name != "decimalInfinity" {
					why = "a copy of the finite package constant " + l.Root.Name
					return true
				}
			}
			if finiteGuard(c.Block(), basePtr(src)) {
				why = "a copy of " + w.exprOf(f, src).String() + ", whose Form == Finite test dominates the call"
				return true
			}
			return false
		})
		if copied {
			return true, why
		}
		// (d) the value is handed in by the callers of an unexported helper: judged at every call site
		if pr, isP := recv.(*ssa.Parameter); isP && depth < 3 && (f.Object() == nil || !f.Object().Exported()) {
			idx := -1
			for i, q := range f.Params {
				if q == pr {
					idx = i
				}
			}
			sites := w.allCallsTo(w.shortName(f))
			if idx >= 0 && len(sites) > 0 && !w.addressTaken(f) {
				all := true
				for _, s := range sites {
					if idx >= len(s.Common().Args) {
						all = false
						break
					}
					if ok, _ := finiteAt(s, basePtr(s.Common().Args[idx]), depth+1); !ok {
						all = false
						break
					}
				}
				if all {
					return true, fmt.Sprintf("the value is a parameter of the unexported %s, finite at each of its %d call sites", w.shortName(f), len(sites))
				}
			}
		}
		return false, ""
	}
	for _, c := range calls {
		f := c.Parent()
		key := fmt.Sprintf("%s | setExponent on a finite value", w.shortName(f))
		if n := countKey(r, key); n > 0 {
			key = fmt.Sprintf("%s #%d", key, n+1)
		}
		if ok, why := finiteAt(c, basePtr(c.Common().Args[0]), 0); ok {
			r.ok(key, w.instrPos(c), why, true)
			continue
		}
		r.bad(key, w.instrPos(c), "setExponent can be reached with a non-finite receiver (no Form = Finite store, finite-constant copy or dominating Form == Finite test): the Coeff/Exponent an infinity happens to carry (e.g. those of the overflowed result it came from) would be range-checked and rounded again, raising Overflow/Inexact/Subnormal for an exact special operand")
	}
}

func init() {
	register(&Rule{ID: "C09.R6", Min: 1,
		Text: "quantize rounds an intermediate value (exponent −diff, adjusted exponent as low as −1), not the result: the context it hands to Rounder.Round is a private copy whose MinExponent is the package limit, so that the caller's MinExponent (which may be 0) can never make that intermediate value subnormal",
		Run:  ruleQuantizeIntermediateContext})
}

func ruleQuantizeIntermediateContext(w *World, r *RuleResult) {
	f := w.fn("(*Context).quantize")
	if f == nil {
		r.anchorMissing("(*Context).quantize")
		return
	}
	minE, ok := int64(0), false
	if c, isC := w.SSA.Members["MinExponent"].(*ssa.NamedConst); isC {
		minE, ok = ci(c.Value), true
	}
	if !ok {
		r.anchorMissing("MinExponent constant")
		return
	}
	// the caller's own context must not round here at all: quantize's contract is the requested exponent,
	// the digit limit is Quantize's business (RoundToIntegral* have none)
	scope := w.closureFuncs(f)
	// ... and neither may the integral variants or the helpers between them and quantize
	inScope := map[*ssa.Function]bool{}
	for _, g := range scope {
		inScope[g] = true
	}
	for _, n := range []string{"(*Context).RoundToIntegralValue", "(*Context).RoundToIntegralExact"} {
		top := w.fn(n)
		if top == nil {
			continue
		}
		for g := range w.reachable([]*ssa.Function{top}) {
			if inScope[g] || !w.inPkg(g) || !w.reachesFn("(*Context).quantize")[g] {
				continue
			}
			if g != top && g.Object() != nil && g.Object().Exported() {
				continue
			}
			inScope[g] = true
			scope = append(scope, g)
		}
	}
	for _, g := range scope {
		for _, c := range callsIn(g) {
			cn := w.calleeName(c)
			if cn != "(*Context).round" && cn != "(*Context).Round" {
				continue
			}
			if pr, isP := basePtr(c.Common().Args[0]).(*ssa.Parameter); isP && isContextPtr(pr.Type()) {
				r.bad(w.shortName(g)+" | no rounding under the caller's precision", w.instrPos(c), "the integral value is rounded with the caller's own context: the caller's Precision is imposed on RoundToIntegralValue/Exact, which have no digit limit (RoundToIntegralExact(1234567.8) at Precision 5 gives 1.2346E+6)")
			}
		}
	}
	calls := w.callsTo(f, rounderRound)
	if len(calls) == 0 {
		// the digit-dropping is done some other way: nothing to say
		r.ok("(*Context).quantize | intermediate rounding context", w.pos(f.Pos()), "quantize does not call Rounder.Round: this shape is not decided", false)
		return
	}
	for i, c := range calls {
		key := "(*Context).quantize | intermediate rounding context"
		if i > 0 {
			key = fmt.Sprintf("%s #%d", key, i+1)
		}
		var ctx ssa.Value
		for _, a := range c.Common().Args {
			if isContextPtr(a.Type()) {
				ctx = a
			}
		}
		if ctx == nil {
			r.undecided(key, w.instrPos(c), "no *Context argument found")
			continue
		}
		base := basePtr(ctx)
		_, isAlloc := base.(*ssa.Alloc)
		minFromCtor := false
		if ci := w.ctxCtor(base); ci != nil {
			isAlloc = true // a constructor returns a fresh copy
			if v, ok := ci.Consts["MinExponent"]; ok && v == fmt.Sprint(minE) {
				minFromCtor = true
			}
		}
		if !isAlloc {
			r.bad(key, w.instrPos(c), "the intermediate value is rounded under the caller's own context ("+w.exprOf(f, ctx).String()+"): its exponent limits apply to a value that is not the result")
			continue
		}
		stored := seenBefore(c, func(in ssa.Instruction) bool {
			st, ok := in.(*ssa.Store)
			if !ok {
				return false
			}
			fa, ok := st.Addr.(*ssa.FieldAddr)
			if !ok || basePtr(fa.X) != base || w.exprOf(f, st.Addr).Name != "MinExponent" {
				return false
			}
			k, isK := st.Val.(*ssa.Const)
			return isK && ci(k) == minE
		})
		if stored || minFromCtor {
			r.ok(key, w.instrPos(c), "private context copy with MinExponent = package limit on every path", true)
		} else {
			r.bad(key, w.instrPos(c), "the private context keeps the caller's MinExponent: with MinExponent = 0 a value whose digits all lie just below the quantum (0.7 → exponent 0) is treated as subnormal, rounded at Etiny = 1 and comes back ten times too large, with Underflow")
		}
	}
}

func init() {
	register(&Rule{ID: "C12.R4", Min: 1,
		Text: "Exp's argument reduction is exact: the operand x is only handed to exact Decimal methods (Set, Abs, Neg, Cmp, Sign, …), never as an operand to a rounding Context/ErrDecimal operation — x/10^t is later raised to the power 10^t, which multiplies any digits lost here by 10^t",
		Run:  ruleExpReductionExact})
}

func ruleExpReductionExact(w *World, r *RuleResult) {
	f := w.fn("(*Context).Exp")
	if f == nil {
		r.anchorMissing("(*Context).Exp")
		return
	}
	key := "(*Context).Exp | operand reaches the series unrounded"
	xi := -1
	for i, p := range f.Params {
		if i != destArgIndex(w, f) && isDecimalPtr(p.Type()) {
			xi = i
		}
	}
	if xi < 0 {
		r.anchorMissing("(*Context).Exp operand parameter")
		return
	}
	var bad []string
	n := 0
	// scan(g, x): how g uses its value x (the operand, or the operand handed on to an unexported helper)
	var scan func(g *ssa.Function, x ssa.Value, depth int)
	scan = func(g *ssa.Function, x ssa.Value, depth int) {
		for _, c := range callsIn(g) {
			h := callee(c)
			if h == nil || !w.inPkg(h) {
				continue
			}
			argIdx := -1
			for j, a := range c.Common().Args {
				if a == x && (h.Signature.Recv() == nil || j > 0 || !isContextPtr(a.Type())) {
					argIdx = j
				}
			}
			if argIdx < 0 {
				continue
			}
			recv := h.Signature.Recv()
			rt := ""
			if recv != nil {
				rt = w.apdTypeName(recv.Type())
			}
			if argIdx == destArgIndex(w, h) && (rt == "Context" || rt == "ErrDecimal") {
				continue // x is the destination of that call, not an operand
			}
			n++
			if h.Name() == "shouldSetAsNaN" || h.Name() == "setAsNaN" {
				continue // NaN handling, no arithmetic
			}
			if (h.Object() == nil || !h.Object().Exported()) && depth < 3 && argIdx < len(h.Params) {
				scan(h, h.Params[argIdx], depth+1) // a helper of this operation: look inside
				continue
			}
			if rt != "Context" && rt != "ErrDecimal" {
				continue // exact Decimal methods
			}
			// a context whose precision is computed from x's own digit count loses nothing
			prec := false
			for l := range w.valueAndControlLeaves(g, c.Common().Args[0]) {
				if l == "call:(*Decimal).NumDigits" {
					prec = true
				}
			}
			if prec {
				continue
			}
			bad = append(bad, fmt.Sprintf("%s at %s rounds the operand itself to the working precision", w.calleeName(c), w.instrPos(c)))
		}
	}
	scan(f, f.Params[xi], 0)
	if len(bad) > 0 {
		r.bad(key, w.pos(f.Pos()), "digits of x beyond the working precision are dropped before the result is raised to the power 10^t (Exp(100.123456789) at precision 5 returned 3.0308E+43 for 3.0413E+43): "+joinStrings(bad))
	} else {
		r.ok(key, w.pos(f.Pos()), fmt.Sprintf("x is an operand of %d calls, all of them exact Decimal methods", n), n > 0)
	}
}

func joinStrings(s []string) string {
	out := ""
	for i, x := range uniqStrings(s) {
		if i > 0 {
			out += "; "
		}
		out += x
	}
	return out
}

func init() {
	register(&Rule{ID: "C17.R3", Min: 0,
		Text: "no silent truncation to a machine word: outside BigInt's own methods every (*BigInt).Uint64()/Int64() call is dominated by the fit test of the same value (IsUint64/IsInt64 true, an innerAsUint64 ok, or for Decimal.Int64 the pair of comparisons with decimalMaxInt64/decimalMinInt64 on the owning Decimal)",
		Run:  ruleNarrowingGuarded})
}

func ruleNarrowingGuarded(w *World, r *RuleResult) {
	for _, fn := range []string{"(*BigInt).Uint64", "(*BigInt).Int64"} {
		if w.fn(fn) == nil {
			r.anchorMissing(fn)
			continue
		}
		fit := "(*BigInt).IsUint64"
		if fn == "(*BigInt).Int64" {
			fit = "(*BigInt).IsInt64"
		}
		for _, c := range w.allCallsTo(fn) {
			f := c.Parent()
			if rc := f.Signature.Recv(); rc != nil && w.apdTypeName(rc.Type()) == "BigInt" {
				continue // BigInt's own methods handle both representations themselves (C16)
			}
			key := fmt.Sprintf("%s | %s is guarded by a fit test", w.shortName(f), fn)
			if n := countKey(r, key); n > 0 {
				key = fmt.Sprintf("%s #%d", key, n+1)
			}
			obj := basePtr(c.Common().Args[0])
			ok, why := false, ""
			hiOK, loOK := false, false
			// the value may be a copy (Set) of the one that was tested
			objs := map[ssa.Value]bool{obj: true}
			for _, sc := range callsIn(f) {
				call, isCall := sc.(*ssa.Call)
				if !isCall || len(call.Common().Args) != 2 {
					continue
				}
				if n := w.calleeName(call); (n == "(*Decimal).Set" || n == "(*BigInt).Set") && basePtr(call.Common().Args[0]) == obj && call.Block().Dominates(c.Block()) {
					objs[basePtr(call.Common().Args[1])] = true
				}
			}
			for _, g := range guardsAt(c.Block()) {
				// IsUint64()/IsInt64() true
				if gc, isCall := g.Cond.(*ssa.Call); isCall && g.Val && w.calleeName(gc) == fit && objs[basePtr(gc.Common().Args[0])] {
					ok, why = true, "under "+fit+"() of the same value"
				}
				// ok result of innerAsUint64
				if ex, isEx := g.Cond.(*ssa.Extract); isEx && g.Val {
					if gc, isCall := ex.Tuple.(*ssa.Call); isCall && w.calleeName(gc) == "(*BigInt).innerAsUint64" && objs[basePtr(gc.Common().Args[0])] {
						ok, why = true, "under innerAsUint64's ok"
					}
				}
				// Decimal-level bounds: owner.Cmp(decimalMaxInt64) > 0 false, owner.Cmp(decimalMinInt64) < 0 false
				if bo, isB := g.Cond.(*ssa.BinOp); isB && !g.Val {
					cc, isCall := bo.X.(*ssa.Call)
					k, isK := bo.Y.(*ssa.Const)
					if !isCall || !isK || ci(k) != 0 || w.calleeName(cc) != "(*Decimal).Cmp" || basePtr(cc.Common().Args[0]) != obj {
						continue
					}
					for _, l := range w.newProv(f, nil).roots(cc.Common().Args[1]) {
						if l.Root.Kind == RGlobalObj && l.Root.Name == "decimalMaxInt64" && bo.Op == token.GTR {
							hiOK = true
						}
						if l.Root.Kind == RGlobalObj && l.Root.Name == "decimalMinInt64" && bo.Op == token.LSS {
							loOK = true
						}
					}
				}
			}
			if fn == "(*BigInt).Int64" && hiOK && loOK {
				ok, why = true, "after the value was compared with decimalMaxInt64 and decimalMinInt64"
			}
			// the value belongs to a parameter of an unexported helper: tested by every caller
			if pr, isP := obj.(*ssa.Parameter); !ok && isP && (f.Object() == nil || !f.Object().Exported()) && !w.addressTaken(f) {
				idx := -1
				for i, q := range f.Params {
					if q == pr {
						idx = i
					}
				}
				sites := w.allCallsTo(w.shortName(f))
				all := idx >= 0 && len(sites) > 0
				for _, sc := range sites {
					found := false
					if idx < len(sc.Common().Args) {
						for _, g := range guardsAt(sc.Block()) {
							if gc, isCall := g.Cond.(*ssa.Call); isCall && g.Val && w.calleeName(gc) == fit && basePtr(gc.Common().Args[0]) == basePtr(sc.Common().Args[idx]) {
								found = true
							}
						}
					}
					if !found {
						all = false
					}
				}
				if all {
					ok, why = true, fmt.Sprintf("the value is a parameter of the unexported %s, under %s() of the argument at each of its %d call sites", w.shortName(f), fit, len(sites))
				}
			}
			if ok {
				r.ok(key, w.instrPos(c), why, true)
			} else {
				r.bad(key, w.instrPos(c), fmt.Sprintf("%s of %s is taken without a dominating fit test: for a value that does not fit, the low machine word is used silently (not the value, not even its last decimal digits)", fn, w.exprOf(f, c.Common().Args[0]).String()))
			}
		}
	}
}

func init() {
	register(&Rule{ID: "C03.R6", Min: 20,
		Text: "the trap filter consults the caller's trap set: the receiver of every goError call in a Context method is the method's own context, or a WithPrecision copy of it whose Traps field is never stored to (a derived working context with edited traps must not decide which conditions become errors)",
		Run:  ruleTrapFilterUsesCallerTraps})
}

func ruleTrapFilterUsesCallerTraps(w *World, r *RuleResult) {
	if w.fn("(*Context).goError") == nil {
		r.anchorMissing("(*Context).goError")
		return
	}
	// the trap filter and its proxies: unexported Context methods that apply
	// the filter of the context they are called on (finish(c, res), roundRoot)
	filters := map[*ssa.Function]bool{w.fn("(*Context).goError"): true}
	for grew := true; grew; {
		grew = false
		for _, nm := range w.Names {
			g := w.Funcs[nm]
			if filters[g] || g.Object() == nil || g.Object().Exported() || len(g.Params) == 0 || g.Signature.Recv() == nil || w.apdTypeName(g.Signature.Recv().Type()) != "Context" {
				continue
			}
			for _, ci := range callsIn(g) {
				if call, ok := ci.(*ssa.Call); ok && filters[callee(call)] && len(call.Common().Args) > 0 && call.Common().Args[0] == ssa.Value(g.Params[0]) {
					filters[g] = true
					grew = true
				}
			}
		}
	}
	var sites []*ssa.Call
	for _, nm := range w.Names {
		for _, ci := range callsIn(w.Funcs[nm]) {
			if call, ok := ci.(*ssa.Call); ok && filters[callee(call)] {
				sites = append(sites, call)
			}
		}
	}
	for _, c := range sites {
		f := c.Parent()
		rc := f.Signature.Recv()
		if rc == nil || w.apdTypeName(rc.Type()) != "Context" {
			continue
		}
		key := fmt.Sprintf("%s | goError on the caller's traps", w.shortName(f))
		if callee(c) != w.fn("(*Context).goError") {
			key = fmt.Sprintf("%s | %s on the caller's traps", w.shortName(f), callee(c).Name())
		}
		if n := countKey(r, key); n > 0 {
			key = fmt.Sprintf("%s #%d", key, n+1)
		}
		base := basePtr(c.Common().Args[0])
		if base == ssa.Value(f.Params[0]) {
			r.ok(key, w.instrPos(c), "receiver is the method's own context", false)
			continue
		}
		ci := w.ctxCtor(base)
		okSrc := false
		if ci != nil {
			if pr, isP := ci.fromParam(); isP && pr == f.Params[0] {
				okSrc = true
			}
		}
		if !okSrc {
			r.bad(key, w.instrPos(c), "flags are turned into an error against the traps of "+w.exprOf(f, c.Common().Args[0]).String()+", which is not the caller's context or a copy of it")
			continue
		}
		var stores []string
		if _, edited := ci.Consts["Traps"]; edited {
			if ci.Call != nil {
				stores = append(stores, w.instrPos(ci.Call)+" (inside the constructor)")
			} else {
				stores = append(stores, w.instrPos(ci.Alloc)+" (in the literal)")
			}
		}
		for _, st := range storesIn(f) {
			if fa, ok := st.Addr.(*ssa.FieldAddr); ok && basePtr(fa.X) == base && w.exprOf(f, st.Addr).Name == "Traps" {
				// the literal's own `Traps: c.Traps` is the copy, not an edit
				if ld, isLd := st.Val.(*ssa.UnOp); isLd && ld.Op.String() == "*" {
					if sfa, isS := ld.X.(*ssa.FieldAddr); isS && w.exprOf(f, ld.X).Name == "Traps" && basePtr(sfa.X) == basePtr(ci.Src) {
						continue
					}
				}
				stores = append(stores, w.instrPos(st))
			}
		}
		if len(stores) > 0 {
			r.bad(key, w.instrPos(c), "flags are turned into an error against a working copy of the context whose Traps were edited at "+joinStrings(stores)+": conditions trapped by the caller can be returned with a nil error")
		} else {
			r.ok(key, w.instrPos(c), "receiver is an unedited WithPrecision copy of the caller's context (same Traps)", true)
		}
	}
}

func init() {
	register(&Rule{ID: "C18.R5", Min: 1,
		Text: "no exported function hands out a pointer into a value's internal storage: every *math/big.Int result of an exported function is a fresh allocation (new/&local), never the receiver's _inner pointer or the view returned by inner()",
		Run:  ruleNoInternalPointerEscapes})
}

func ruleNoInternalPointerEscapes(w *World, r *RuleResult) {
	n := 0
	for _, name := range w.Names {
		f := w.Funcs[name]
		if f.Object() == nil || !f.Object().Exported() {
			continue
		}
		if rc := f.Signature.Recv(); rc != nil {
			// methods of unexported types are not API
			if tn := w.apdTypeName(rc.Type()); tn != "" && !token.IsExported(tn) {
				continue
			}
		}
		res := f.Signature.Results()
		for i := 0; i < res.Len(); i++ {
			if !isPointer(res.At(i).Type()) || !typeIs(res.At(i).Type(), "math/big", "Int") {
				continue
			}
			n++
			key := fmt.Sprintf("%s | result #%d is a private copy", name, i)
			p := w.newProv(f, nil)
			var bad []string
			for _, b := range f.Blocks {
				rt, ok := b.Instrs[len(b.Instrs)-1].(*ssa.Return)
				if !ok || i >= len(rt.Results) {
					continue
				}
				for _, l := range p.roots(rt.Results[i]) {
					switch l.Root.Kind {
					case RFresh, RNil:
					case RAlloc:
						// a heap allocation made here (new(big.Int)); a stack temporary handed to inner() is a view
						if a, isA := l.Root.Node.(*ssa.Alloc); isA && a.Heap && !w.allocPassedToInner(f, a) {
							continue
						}
						bad = append(bad, fmt.Sprintf("return at %s may deliver %s", w.instrPos(rt), l.Root.String()))
					default:
						bad = append(bad, fmt.Sprintf("return at %s may deliver %s", w.instrPos(rt), l.Root.String()))
					}
				}
			}
			if len(bad) > 0 {
				r.bad(key, w.pos(f.Pos()), "the caller receives a pointer into the value's own storage (mutating it changes the value behind the API; concurrent readers race): "+joinStrings(bad))
			} else {
				r.ok(key, w.pos(f.Pos()), "every return delivers a fresh allocation", true)
			}
		}
	}
	if n == 0 {
		r.ok("package | no exported function returns *big.Int", "", "nothing to check", false)
	}
}

// allocPassedToInner: the allocation is used as the scratch header of one of
// the inner* view helpers (it then points into the receiver's words).
func (w *World) allocPassedToInner(f *ssa.Function, a *ssa.Alloc) bool {
	for _, c := range callsIn(f) {
		n := w.calleeName(c)
		if n == "(*BigInt).inner" || n == "(*BigInt).innerOrNil" || n == "(*BigInt).innerOrAlias" || n == "(*BigInt).innerOrNilOrAlias" {
			for _, arg := range c.Common().Args[1:] {
				if basePtr(arg) == ssa.Value(a) {
					return true
				}
			}
		}
	}
	return false
}

func init() {
	register(&Rule{ID: "C15.R4", Min: 1,
		Text: "adjusted exponents are only compared for non-zero values: the comparison of NumDigits+Exponent of two decimals (NumDigits(0) is 1, so a zero would look like a 1) is reached only on paths whose Sign() tests exclude a zero on either side — in the function itself or, for an unexported helper, at every call site",
		Run:  ruleAdjustedExponentNeedsNonZero})
}

func ruleAdjustedExponentNeedsNonZero(w *World, r *RuleResult) {
	n := 0
	for _, name := range w.Names {
		f := w.Funcs[name]
		for _, b := range f.Blocks {
			for _, in := range b.Instrs {
				bo, ok := in.(*ssa.BinOp)
				if !ok || (bo.Op != token.LSS && bo.Op != token.GTR && bo.Op != token.LEQ && bo.Op != token.GEQ) {
					continue
				}
				dv, okD := w.adjustedExponentOf(f, bo.X)
				xv, okX := w.adjustedExponentOf(f, bo.Y)
				if !okD || !okX || dv == xv {
					continue
				}
				n++
				key := fmt.Sprintf("%s | adjusted-exponent comparison", name)
				if k := countKey(r, key); k > 0 {
					key = fmt.Sprintf("%s #%d", key, k+1)
				}
				ok2, why := w.nonZeroPairAt(f, b, dv, xv, 0)
				switch {
				case ok2:
					r.ok(key, w.instrPos(bo), why, true)
				case why == "undecided":
					r.undecided(key, w.instrPos(bo), "paths could not be enumerated")
				default:
					r.bad(key, w.instrPos(bo), "the adjusted exponents of "+w.exprOf(f, dv).String()+" and "+w.exprOf(f, xv).String()+" are compared although one of them may be zero ("+why+"): NumDigits(0) = 1 makes 0 compare like 1×10^exponent, so 0 vs 0.5 orders the wrong way")
				}
			}
		}
	}
	if n == 0 {
		r.ok("package | adjusted-exponent comparisons", "", "no comparison of NumDigits+Exponent found: not decided for this shape", false)
	}
}

// adjustedExponentOf: v = NumDigits(p) + conv(p.Exponent) (in either order);
// returns p.
func (w *World) adjustedExponentOf(f *ssa.Function, v ssa.Value) (ssa.Value, bool) {
	var recv ssa.Value
	hasExp := false
	e := w.exprOf(f, v)
	e.walk(func(x *Expr) bool {
		if x.Op == "call" && x.Name == "(*Decimal).NumDigits" && len(x.Args) == 1 && x.Args[0].V != nil {
			recv = basePtr(x.Args[0].V)
		}
		if x.Op == "field" && x.Name == "Exponent" {
			hasExp = true
		}
		return true
	})
	if recv == nil || !hasExp {
		return nil, false
	}
	return recv, true
}

// nonZeroPairAt: on every path from f's entry to block b, the decisions on
// Sign() of dv and xv (evaluated over {-1,0,1}²) leave no pair with a zero
// component. For unexported f with both values parameters, the question is
// otherwise asked at every call site.
func (w *World) nonZeroPairAt(f *ssa.Function, b *ssa.BasicBlock, dv, xv ssa.Value, depth int) (bool, string) {
	paths, ok := enumPaths(f, 50000)
	if !ok {
		return false, "undecided"
	}
	signOf := func(v ssa.Value) int { // 0: Sign(dv), 1: Sign(xv), -1: other
		c, isC := v.(*ssa.Call)
		if !isC || w.calleeName(c) != "(*Decimal).Sign" {
			return -1
		}
		switch basePtr(c.Common().Args[0]) {
		case dv:
			return 0
		case xv:
			return 1
		}
		return -1
	}
	type pair [2]int64
	union := map[pair]bool{}
	reached := false
	for _, p := range paths {
		idx := -1
		for i, pb := range p.Blocks {
			if pb == b {
				idx = i
				break
			}
		}
		if idx < 0 {
			continue
		}
		reached = true
		before := map[*ssa.BasicBlock]bool{}
		for _, pb := range p.Blocks[:idx] {
			before[pb] = true
		}
		for _, ds := range []int64{-1, 0, 1} {
			for _, xs := range []int64{-1, 0, 1} {
				feasible := true
				for _, d := range p.Decisions {
					if d.At == nil || !before[d.At.Block()] {
						continue
					}
					bo, isB := d.Cond.(*ssa.BinOp)
					if !isB {
						continue
					}
					val := func(v ssa.Value) (int64, bool) {
						if k, isK := v.(*ssa.Const); isK && k.Value != nil {
							return ci(k), true
						}
						switch signOf(v) {
						case 0:
							return ds, true
						case 1:
							return xs, true
						}
						return 0, false
					}
					l, okL := val(bo.X)
					rr, okR := val(bo.Y)
					if !okL || !okR {
						continue
					}
					var res bool
					switch bo.Op {
					case token.LSS:
						res = l < rr
					case token.GTR:
						res = l > rr
					case token.LEQ:
						res = l <= rr
					case token.GEQ:
						res = l >= rr
					case token.EQL:
						res = l == rr
					case token.NEQ:
						res = l != rr
					default:
						continue
					}
					if res != d.Val {
						feasible = false
						break
					}
				}
				if feasible {
					union[pair{ds, xs}] = true
				}
			}
		}
	}
	if !reached {
		return true, "the comparison is not reachable"
	}
	zero := false
	for pr := range union {
		if pr[0] == 0 || pr[1] == 0 {
			zero = true
		}
	}
	if !zero {
		return true, "the Sign() tests on every path to it leave only non-zero operands of equal sign"
	}
	// ask the callers
	pd, isPD := dv.(*ssa.Parameter)
	px, isPX := xv.(*ssa.Parameter)
	if !isPD || !isPX || depth > 3 || f.Object() == nil || f.Object().Exported() {
		return false, "no Sign() test excludes zero on some path"
	}
	di, xi := -1, -1
	for i, p := range f.Params {
		if p == pd {
			di = i
		}
		if p == px {
			xi = i
		}
	}
	callers := w.callersOf(f)
	if len(callers) == 0 || di < 0 || xi < 0 {
		return false, "no Sign() test excludes zero on some path"
	}
	for _, c := range callers {
		args := c.Common().Args
		if c.Common().IsInvoke() || len(args) != len(f.Params) {
			return false, "unresolved call site"
		}
		if ok, why := w.nonZeroPairAt(c.Parent(), c.Block(), basePtr(args[di]), basePtr(args[xi]), depth+1); !ok {
			if why == "undecided" {
				return false, why
			}
			return false, fmt.Sprintf("called from %s at %s where %s", w.shortName(c.Parent()), w.instrPos(c), why)
		}
	}
	return true, "every call site reaches it only with non-zero operands of equal sign"
}
