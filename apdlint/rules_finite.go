package main

import (
	"fmt"
	"go/token"

	"golang.org/x/tools/go/ssa"
)

func init() {
	register(&Rule{ID: "C08.R7", Min: 5,
		Text: "digits and exponent are only interpreted for finite values: every call of setExponent (which derives Overflow/Subnormal/Inexact from Coeff and Exponent) is reached only with a receiver known to be finite — its Form was stored Finite on every path, it is a copy of a finite package constant, or it is a copy of an operand whose Form == Finite test dominates the call; an infinity's leftover Coeff/Exponent is never reported as a condition",
		Run:  ruleNumericOnlyFinite})
}

func ruleNumericOnlyFinite(w *World, r *RuleResult) {
	finite, okF := w.formConsts()["Finite"]
	if !okF {
		r.anchorMissing("Form constants")
		return
	}
	calls := w.allCallsTo("(*Decimal).setExponent")
	if len(calls) == 0 {
		r.anchorMissing("(*Decimal).setExponent call sites")
		return
	}
	formOf := func(v ssa.Value) (ssa.Value, bool) {
		ld, ok := v.(*ssa.UnOp)
		if !ok || ld.Op != token.MUL {
			return nil, false
		}
		fa, ok := ld.X.(*ssa.FieldAddr)
		if !ok || !typeIs(fa.X.Type(), apdPath, "Decimal") {
			return nil, false
		}
		if w.exprOf(ld.Parent(), ld.X).Name != "Form" {
			return nil, false
		}
		return basePtr(fa.X), true
	}
	finiteGuard := func(b *ssa.BasicBlock, obj ssa.Value) bool {
		for _, g := range guardsAt(b) {
			bo, ok := g.Cond.(*ssa.BinOp)
			if !ok {
				continue
			}
			k, isK := bo.Y.(*ssa.Const)
			base, isForm := formOf(bo.X)
			if !isK || !isForm || base != obj || ci(k) != finite {
				continue
			}
			if (bo.Op == token.EQL && g.Val) || (bo.Op == token.NEQ && !g.Val) {
				return true
			}
		}
		return false
	}
	for _, c := range calls {
		f := c.Parent()
		key := fmt.Sprintf("%s | setExponent on a finite value", w.shortName(f))
		if n := countKey(r, key); n > 0 {
			key = fmt.Sprintf("%s #%d", key, n+1)
		}
		recv := basePtr(c.Common().Args[0])
		// (a) Form = Finite stored on every path
		stored := seenBefore(c, func(in ssa.Instruction) bool {
			st, ok := in.(*ssa.Store)
			if !ok {
				return false
			}
			fa, ok := st.Addr.(*ssa.FieldAddr)
			if !ok || basePtr(fa.X) != recv || w.exprOf(f, st.Addr).Name != "Form" {
				return false
			}
			k, isK := st.Val.(*ssa.Const)
			return isK && ci(k) == finite
		})
		if stored {
			r.ok(key, w.instrPos(c), "Form = Finite is stored on every path to the call", true)
			continue
		}
		// (b) a dominating Form == Finite test of the receiver itself
		if finiteGuard(c.Block(), recv) {
			r.ok(key, w.instrPos(c), "dominated by a Form == Finite test of the receiver", true)
			continue
		}
		// (c) the receiver is a copy (Set) of a finite constant or of an operand tested finite
		why := ""
		copied := seenBefore(c, func(in ssa.Instruction) bool {
			sc, ok := in.(*ssa.Call)
			if !ok || w.calleeName(sc) != "(*Decimal).Set" || basePtr(sc.Common().Args[0]) != recv {
				return false
			}
			src := sc.Common().Args[1]
			for _, l := range w.newProv(f, nil).roots(src) {
				if l.Root.Kind == RGlobalObj && l.Root.Name != "decimalNaN" && l.Root.Name != "decimalInfinity" {
					why = "a copy of the finite package constant " + l.Root.Name
					return true
				}
			}
			if finiteGuard(c.Block(), basePtr(src)) {
				why = "a copy of " + w.exprOf(f, src).String() + ", whose Form == Finite test dominates the call"
				return true
			}
			return false
		})
		if copied {
			r.ok(key, w.instrPos(c), why, true)
			continue
		}
		r.bad(key, w.instrPos(c), "setExponent can be reached with a non-finite receiver (no Form = Finite store, finite-constant copy or dominating Form == Finite test): the Coeff/Exponent an infinity happens to carry (e.g. those of the overflowed result it came from) would be range-checked and rounded again, raising Overflow/Inexact/Subnormal for an exact special operand")
	}
}

func init() {
	register(&Rule{ID: "C09.R6", Min: 1,
		Text: "quantize rounds an intermediate value (exponent −diff, adjusted exponent as low as −1), not the result: the context it hands to Rounder.Round is a private copy whose MinExponent is the package limit, so that the caller's MinExponent (which may be 0) can never make that intermediate value subnormal",
		Run:  ruleQuantizeIntermediateContext})
}

func ruleQuantizeIntermediateContext(w *World, r *RuleResult) {
	f := w.fn("(*Context).quantize")
	if f == nil {
		r.anchorMissing("(*Context).quantize")
		return
	}
	minE, ok := int64(0), false
	if c, isC := w.SSA.Members["MinExponent"].(*ssa.NamedConst); isC {
		minE, ok = ci(c.Value), true
	}
	if !ok {
		r.anchorMissing("MinExponent constant")
		return
	}
	calls := w.callsTo(f, rounderRound)
	if len(calls) == 0 {
		// the digit-dropping is done some other way: nothing to say
		r.ok("(*Context).quantize | intermediate rounding context", w.pos(f.Pos()), "quantize does not call Rounder.Round: this shape is not decided", false)
		return
	}
	for i, c := range calls {
		key := "(*Context).quantize | intermediate rounding context"
		if i > 0 {
			key = fmt.Sprintf("%s #%d", key, i+1)
		}
		var ctx ssa.Value
		for _, a := range c.Common().Args {
			if isContextPtr(a.Type()) {
				ctx = a
			}
		}
		if ctx == nil {
			r.undecided(key, w.instrPos(c), "no *Context argument found")
			continue
		}
		base := basePtr(ctx)
		_, isAlloc := base.(*ssa.Alloc)
		if fc, isCall := base.(*ssa.Call); isCall && w.calleeName(fc) == "(*Context).WithPrecision" {
			isAlloc = true // WithPrecision returns a fresh copy
		}
		if !isAlloc {
			r.bad(key, w.instrPos(c), "the intermediate value is rounded under the caller's own context ("+w.exprOf(f, ctx).String()+"): its exponent limits apply to a value that is not the result")
			continue
		}
		stored := seenBefore(c, func(in ssa.Instruction) bool {
			st, ok := in.(*ssa.Store)
			if !ok {
				return false
			}
			fa, ok := st.Addr.(*ssa.FieldAddr)
			if !ok || basePtr(fa.X) != base || w.exprOf(f, st.Addr).Name != "MinExponent" {
				return false
			}
			k, isK := st.Val.(*ssa.Const)
			return isK && ci(k) == minE
		})
		if stored {
			r.ok(key, w.instrPos(c), "private context copy with MinExponent = package limit on every path", true)
		} else {
			r.bad(key, w.instrPos(c), "the private context keeps the caller's MinExponent: with MinExponent = 0 a value whose digits all lie just below the quantum (0.7 → exponent 0) is treated as subnormal, rounded at Etiny = 1 and comes back ten times too large, with Underflow")
		}
	}
}

func init() {
	register(&Rule{ID: "C12.R4", Min: 1,
		Text: "Exp's argument reduction is exact: the operand x is only handed to exact Decimal methods (Set, Abs, Neg, Cmp, Sign, …), never as an operand to a rounding Context/ErrDecimal operation — x/10^t is later raised to the power 10^t, which multiplies any digits lost here by 10^t",
		Run:  ruleExpReductionExact})
}

func ruleExpReductionExact(w *World, r *RuleResult) {
	f := w.fn("(*Context).Exp")
	if f == nil {
		r.anchorMissing("(*Context).Exp")
		return
	}
	key := "(*Context).Exp | operand reaches the series unrounded"
	xi := -1
	for i, p := range f.Params {
		if i != destArgIndex(w, f) && isDecimalPtr(p.Type()) {
			xi = i
		}
	}
	if xi < 0 {
		r.anchorMissing("(*Context).Exp operand parameter")
		return
	}
	x := f.Params[xi]
	var bad []string
	n := 0
	for _, c := range callsIn(f) {
		g := callee(c)
		if g == nil || !w.inPkg(g) {
			continue
		}
		recv := g.Signature.Recv()
		if recv == nil {
			continue
		}
		rt := w.apdTypeName(recv.Type())
		isOperand := false
		for j, a := range c.Common().Args {
			if j > 0 && a == ssa.Value(x) && j != destArgIndex(w, g) {
				isOperand = true
			}
		}
		if !isOperand {
			continue
		}
		n++
		if rt != "Context" && rt != "ErrDecimal" {
			continue // exact Decimal methods
		}
		if g.Name() == "shouldSetAsNaN" || g.Name() == "setAsNaN" {
			continue // NaN handling, no arithmetic
		}
		// a context whose precision is computed from x's own digit count loses nothing
		prec := false
		for l := range w.valueAndControlLeaves(f, c.Common().Args[0]) {
			if l == "call:(*Decimal).NumDigits" {
				prec = true
			}
		}
		if prec {
			continue
		}
		bad = append(bad, fmt.Sprintf("%s at %s rounds the operand itself to the working precision", w.calleeName(c), w.instrPos(c)))
	}
	if len(bad) > 0 {
		r.bad(key, w.pos(f.Pos()), "digits of x beyond the working precision are dropped before the result is raised to the power 10^t (Exp(100.123456789) at precision 5 returned 3.0308E+43 for 3.0413E+43): "+joinStrings(bad))
	} else {
		r.ok(key, w.pos(f.Pos()), fmt.Sprintf("x is an operand of %d calls, all of them exact Decimal methods", n), n > 0)
	}
}

func joinStrings(s []string) string {
	out := ""
	for i, x := range uniqStrings(s) {
		if i > 0 {
			out += "; "
		}
		out += x
	}
	return out
}
