package main

import (
	"go/types"

	"golang.org/x/tools/go/ssa"
)

// Parameter roles (DESIGN §1). Derived from signatures by rule; exceptions are
// listed by name with a reason.

type Role int

const (
	RoleOther   Role = iota
	RoleDest         // written by the function: destination / out-parameter / scratch
	RoleOperand      // read-only input; may alias a destination or another operand
	RoleContext      // *Context: read-only configuration
)

func (r Role) String() string {
	return [...]string{"other", "dest", "operand", "context"}[r]
}

// Decimal methods that modify their receiver although they do not return it.
var decimalMutators = map[string]string{
	"setCoefficient": "sets Negative, Coeff, Form from an int64",
	"setString":      "parser: fills the receiver",
	"setExponent":    "in-out: rounds/clamps the receiver's exponent and coefficient",
	"Compose":        "decomposer interface: fills the receiver",
	"Scan":           "sql.Scanner: fills the receiver",
	"UnmarshalText":  "encoding.TextUnmarshaler: fills the receiver",
}

// BigInt methods that modify their receiver although they do not return it.
var bigIntMutators = map[string]string{
	"GobDecode":             "decoder: fills the receiver",
	"Scan":                  "fmt.Scanner: fills the receiver",
	"UnmarshalJSON":         "decoder: fills the receiver",
	"UnmarshalText":         "decoder: fills the receiver",
	"updateInner":           "write-back of the math/big view",
	"updateInnerFromUint64": "write-back of the uint64 fast path",
}

// Non-receiver parameters that are outputs.
var outParams = map[string]map[string]string{
	"(*BigInt).QuoRem":            {"r": "remainder out-parameter (as in math/big)"},
	"(*BigInt).DivMod":            {"m": "modulus out-parameter (as in math/big)"},
	"(*BigInt).GCD":               {"x": "cofactor out-parameter (as in math/big)", "y": "cofactor out-parameter (as in math/big)"},
	"(*BigInt).inner":             {"tmp": "scratch big.Int header"},
	"(*BigInt).innerOrNil":        {"tmp": "scratch big.Int header"},
	"(*BigInt).innerOrAlias":      {"tmp": "scratch big.Int header"},
	"(*BigInt).innerOrNilOrAlias": {"tmp": "scratch big.Int header"},
	"(*Decimal).Modf":             {"integ": "output", "frac": "output"},
	"(*Decimal).setBig":           {"b": "output"},
	"upscale":                     {"tmp": "scratch"},
	"tableExp10":                  {"tmp": "scratch"},
	"exp10":                       {"tmp": "scratch"},
	"setBigWithPow":               {"res": "output"},
	"roundAddOne":                 {"b": "in-out coefficient", "diff": "in-out exponent adjustment"},
}

// outParamPos: the same out-parameters by position (index into Params, receiver first), so that a renamed
// parameter keeps its role.
var outParamPos = map[string]map[int]bool{
	"(*BigInt).QuoRem":            {3: true},
	"(*BigInt).DivMod":            {3: true},
	"(*BigInt).GCD":               {1: true, 2: true},
	"(*BigInt).inner":             {1: true},
	"(*BigInt).innerOrNil":        {1: true},
	"(*BigInt).innerOrAlias":      {1: true},
	"(*BigInt).innerOrNilOrAlias": {1: true},
	"(*Decimal).Modf":             {1: true, 2: true},
	"(*Decimal).setBig":           {1: true},
	"upscale":                     {2: true},
	"tableExp10":                  {1: true},
	"exp10":                       {1: true},
	"setBigWithPow":               {0: true},
	"roundAddOne":                 {0: true, 1: true},
}

// Methods of Context / ErrDecimal whose first *Decimal parameter is NOT a
// destination.
var firstDecimalIsOperand = map[string]string{
	"(*Context).shouldSetAsNaN": "predicate over two operands",
	"(*Context).newLoop":        "arg is the operand kept for diagnostics",
	"(*ErrDecimal).Int64":       "wraps the read-only (*Decimal).Int64",
}

func isDecimalPtr(t types.Type) bool { return isPointer(t) && typeIs(t, apdPath, "Decimal") }
func isBigIntPtr(t types.Type) bool  { return isPointer(t) && typeIs(t, apdPath, "BigInt") }
func isContextPtr(t types.Type) bool { return isPointer(t) && typeIs(t, apdPath, "Context") }

// roles returns one role per parameter of f (receiver first).
func (w *World) roles(f *ssa.Function) []Role {
	name := w.shortName(f)
	out := make([]Role, len(f.Params))
	// Unexported helpers have no API convention to honour: a parameter they write is an output, one
	// they only read an operand. (A helper that wrongly writes something it is handed shows up at the
	// exported caller, whose roles are fixed by the API: the caller then hands an operand to a writer.)
	if (f.Object() == nil || !f.Object().Exported()) && outParams[name] == nil && firstDecimalIsOperand[name] == "" &&
		decimalMutators[f.Name()] == "" && bigIntMutators[f.Name()] == "" {
		if s, ok := w.sums[f]; ok {
			for i, p := range f.Params {
				t := p.Type()
				switch {
				case isContextPtr(t):
					out[i] = RoleContext
				case isDecimalPtr(t) || isBigIntPtr(t):
					if len(s.Writes[i]) > 0 {
						out[i] = RoleDest
					} else {
						out[i] = RoleOperand
					}
				}
			}
			return out
		}
	}
	recv := f.Signature.Recv()
	recvType := ""
	if recv != nil {
		recvType = w.apdTypeName(recv.Type())
	}
	firstDecimalSeen := false
	for i, p := range f.Params {
		t := p.Type()
		isRecv := recv != nil && i == 0
		switch {
		case isContextPtr(t):
			out[i] = RoleContext
		case outParams[name] != nil && (outParams[name][p.Name()] != "" || outParamPos[name][i]) && !isRecv:
			out[i] = RoleDest
		case isRecv && isDecimalPtr(t):
			if returnsRecvType(f) || decimalMutators[f.Name()] != "" {
				out[i] = RoleDest
			} else {
				out[i] = RoleOperand
			}
		case isRecv && isBigIntPtr(t):
			if returnsRecvType(f) || bigIntMutators[f.Name()] != "" {
				out[i] = RoleDest
			} else {
				out[i] = RoleOperand
			}
		case isDecimalPtr(t):
			readOnlyNew := false
			if s, ok := w.sums[f]; ok && !gdaOperations[f.Name()] && i < len(s.Writes) && len(s.Writes[i]) == 0 && f.Signature.Results().Len() > 0 {
				// a method added to the API that never writes its first Decimal (a predicate such as
				// IsSubnormal(x)): the destination convention does not apply to it
				if b, isB := f.Signature.Results().At(0).Type().Underlying().(*types.Basic); isB && b.Kind() == types.Bool {
					readOnlyNew = true
				}
			}
			if (recvType == "Context" || recvType == "ErrDecimal" || recvType == "Rounder") && !firstDecimalSeen && firstDecimalIsOperand[name] == "" && !readOnlyNew {
				out[i] = RoleDest
			} else {
				out[i] = RoleOperand
			}
			firstDecimalSeen = true
		case isBigIntPtr(t):
			out[i] = RoleOperand
		default:
			out[i] = RoleOther
		}
	}
	return out
}

func returnsRecvType(f *ssa.Function) bool {
	res := f.Signature.Results()
	if res.Len() == 0 {
		return false
	}
	return types.Identical(res.At(0).Type(), f.Signature.Recv().Type())
}

// destName: the name the destination parameter of f has in the source (the rules that render addresses as
// text compare with it instead of with the conventional "d").
func (w *World) destName(f *ssa.Function) string {
	di := destArgIndex(w, f)
	if di >= 0 && di < len(f.Params) {
		return f.Params[di].Name()
	}
	return "d"
}

// operandNames: the names of the Decimal operands of f, in order.
func (w *World) operandNames(f *ssa.Function) []string {
	di := destArgIndex(w, f)
	var out []string
	for i, p := range f.Params {
		if i != di && isDecimalPtr(p.Type()) {
			out = append(out, p.Name())
		}
	}
	return out
}
