package main

import (
	"fmt"
	"go/constant"
	"go/token"
	"go/types"
	"strings"

	"golang.org/x/tools/go/ssa"
)

func init() {
	register(&Rule{ID: "C08.R8", Min: 10,
		Text: "the numeric core of an operation is reached only with finite operands: every call that starts the arithmetic on the operands (upscale, integerPower, MakeErrDecimal) is dominated, for each *Decimal operand of the operation, by tests that leave only Form == Finite — the NaN prologue, an explicit Form test, or a *Specials helper that returns false only for finite operands (evaluated over the finite domain of Form)",
		Run:  ruleNumericCoreFinite})
}

// formsPossible evaluates the guards dominating block b over the finite domain
// of p's Form and returns the forms still possible (by constant value).
func (w *World) formsPossible(f *ssa.Function, b *ssa.BasicBlock, p ssa.Value, depth int) map[int64]bool {
	forms := w.formConsts()
	nanF, snanF := forms["NaN"], forms["NaNSignaling"]
	poss := map[int64]bool{}
	for _, v := range forms {
		poss[v] = true
	}
	isFormOf := func(v ssa.Value) bool {
		ld, ok := v.(*ssa.UnOp)
		if !ok || ld.Op != token.MUL {
			return false
		}
		fa, ok := ld.X.(*ssa.FieldAddr)
		return ok && basePtr(fa.X) == p && w.exprOf(f, ld.X).Name == "Form"
	}
	for _, g := range guardsAt(b) {
		switch c := g.Cond.(type) {
		case *ssa.BinOp:
			k, isK := c.Y.(*ssa.Const)
			if !isK || !isFormOf(c.X) || (c.Op != token.EQL && c.Op != token.NEQ) {
				continue
			}
			eq := (c.Op == token.EQL) == g.Val // true: Form == k holds
			for v := range poss {
				if (v == ci(k)) != eq {
					delete(poss, v)
				}
			}
		case *ssa.Call:
			if w.calleeName(c) == "(*Context).shouldSetAsNaN" && !g.Val {
				for _, a := range c.Common().Args[1:] {
					if basePtr(a) == p {
						delete(poss, nanF)
						delete(poss, snanF)
					}
				}
			}
		case *ssa.Extract:
			// set == false of a *Specials helper
			call, isCall := c.Tuple.(*ssa.Call)
			if !isCall || c.Index != 0 || g.Val || depth > 2 {
				continue
			}
			h := callee(call)
			if h == nil || !w.inPkg(h) {
				continue
			}
			for i, a := range call.Common().Args {
				if basePtr(a) != p || i >= len(h.Params) {
					continue
				}
				// forms possible at h's returns that deliver false as first result
				union := map[int64]bool{}
				seen := false
				for _, hb := range h.Blocks {
					rt, ok := hb.Instrs[len(hb.Instrs)-1].(*ssa.Return)
					if !ok || len(rt.Results) == 0 {
						continue
					}
					k, isK := rt.Results[0].(*ssa.Const)
					if isK && k.Value != nil && boolConst(k) {
						continue // returns true: the caller leaves
					}
					if ex, isEx := rt.Results[0].(*ssa.Extract); isEx && ex.Index == 0 {
						// `return c.helper(d)` whose first result is constantly true
						if hc, isCall := ex.Tuple.(*ssa.Call); isCall {
							if hh := hc.Common().StaticCallee(); hh != nil && constBool0(hh, 0) == 1 {
								continue
							}
						}
					}
					seen = true
					for v := range w.formsPossible(h, hb, h.Params[i], depth+1) {
						union[v] = true
					}
				}
				if seen {
					for v := range poss {
						if !union[v] {
							delete(poss, v)
						}
					}
				}
			}
		}
	}
	return poss
}

func ruleNumericCoreFinite(w *World, r *RuleResult) {
	finite := w.formConsts()["Finite"]
	anchors := map[string]bool{"upscale": true, "(*Context).integerPower": true, "MakeErrDecimal": true}
	names := map[int64]string{}
	for n, v := range w.formConsts() {
		names[v] = n
	}
	for _, name := range w.Names {
		f := w.Funcs[name]
		rc := f.Signature.Recv()
		if rc == nil || w.apdTypeName(rc.Type()) != "Context" {
			continue
		}
		if name == "(*Context).integerPower" {
			continue // its operand is the caller's (checked there)
		}
		di := destArgIndex(w, f)
		for _, c := range callsIn(f) {
			if !anchors[w.calleeName(c)] {
				continue
			}
			for i, p := range f.Params {
				if i == 0 || i == di || !isDecimalPtr(p.Type()) {
					continue
				}
				key := fmt.Sprintf("%s | operand %s is finite at %s", name, p.Name(), w.calleeName(c))
				if n := countKey(r, key); n > 0 {
					continue // one obligation per (operation, operand, anchor kind)
				}
				others := w.nonFiniteFormsAt(f, c.Block(), p, finite, names, 0)
				if len(others) == 0 {
					r.ok(key, w.instrPos(c), "the dominating tests leave only Form == Finite", true)
				} else {
					r.bad(key, w.instrPos(c), fmt.Sprintf("the arithmetic is started although %s may still be %v: its Coeff/Exponent would be used as if it were a number (e.g. Pow(1, Inf) computed Ln(1)·Inf and returned InvalidOperation with an error instead of 1)", p.Name(), others))
				}
			}
		}
	}
}

func init() {
	register(&Rule{ID: "C06.R8", Min: 1,
		Text: "an exponent-limit failure stops the operation: setExponent does not store the exponent when it returns a System* condition, so after a setExponent call no further rounding (a call reaching Rounder.Round or setExponent) is applied to the same destination unless the call's result was tested first — otherwise the destination's previous exponent is rounded and the returned flags depend on it",
		Run:  ruleSystemLimitStops})
}

func ruleSystemLimitStops(w *World, r *RuleResult) {
	calls := w.allCallsTo("(*Decimal).setExponent")
	if len(calls) == 0 {
		r.anchorMissing("(*Decimal).setExponent call sites")
		return
	}
	reach := w.reachesFn("(*Decimal).setExponent")
	for _, s := range calls {
		f := s.Parent()
		key := fmt.Sprintf("%s | setExponent result is tested before further rounding", w.shortName(f))
		if n := countKey(r, key); n > 0 {
			key = fmt.Sprintf("%s #%d", key, n+1)
		}
		recv := basePtr(s.Common().Args[0])
		var later []*ssa.Call
		for _, c := range callsIn(f) {
			call, ok := c.(*ssa.Call)
			if !ok || call == s {
				continue
			}
			g := callee(call)
			if g == nil || !(reach[g] || w.shortName(g) == "(*Decimal).setExponent") {
				continue
			}
			gi := destArgIndex(w, g)
			if gi >= len(call.Common().Args) || basePtr(call.Common().Args[gi]) != recv {
				continue
			}
			after := call.Block() == s.Block() && instrIndex(call) > instrIndex(s) || call.Block() != s.Block() && reaches(s.Block(), call.Block())
			if after {
				later = append(later, call)
			}
		}
		if len(later) == 0 {
			r.ok(key, w.instrPos(s), "no rounding of the destination follows this call", false)
			continue
		}
		var bad []string
		for _, l := range later {
			tested := false
			for _, g := range guardsAt(l.Block()) {
				derives := false
				w.exprOf(f, g.Cond).walk(func(x *Expr) bool {
					if x.V == ssa.Value(s) {
						derives = true
					}
					return true
				})
				if derives {
					tested = true
				}
			}
			if !tested {
				bad = append(bad, fmt.Sprintf("%s at %s", w.calleeName(l), w.instrPos(l)))
			}
		}
		if len(bad) == 0 {
			r.ok(key, w.instrPos(s), "the following rounding is reached only after the result was tested", true)
		} else {
			r.bad(key, w.instrPos(s), "when setExponent fails with a System* condition it has not stored the exponent, yet "+joinStrings(bad)+" still rounds the destination with whatever exponent it held before: the flags differ between a fresh, a reused and an aliased destination")
		}
	}
}

// nonFiniteFormsAt: the non-finite forms parameter p of f may still have at
// block b. For an unexported helper the answer is completed at its call
// sites: an argument that is a local of the caller is an internally computed
// value (not an operand of the API) and is not questioned; an argument that is
// the caller's own parameter is judged with the caller's dominating tests.
func (w *World) nonFiniteFormsAt(f *ssa.Function, b *ssa.BasicBlock, p *ssa.Parameter, finite int64, names map[int64]string, depth int) []string {
	var others []string
	for v := range w.formsPossible(f, b, p, 0) {
		if v != finite {
			others = append(others, names[v])
		}
	}
	if len(others) == 0 || depth > 3 || f.Object() == nil || f.Object().Exported() {
		return others
	}
	idx := -1
	for i, q := range f.Params {
		if q == p {
			idx = i
		}
	}
	callers := w.callersOf(f)
	if idx < 0 || len(callers) == 0 {
		return others
	}
	var out []string
	for _, c := range callers {
		args := c.Common().Args
		if c.Common().IsInvoke() || idx >= len(args) {
			return others
		}
		switch base := basePtr(args[idx]).(type) {
		case *ssa.Alloc:
			// a value the caller built itself
		case *ssa.Parameter:
			out = append(out, w.nonFiniteFormsAt(c.Parent(), c.Block(), base, finite, names, depth+1)...)
		default:
			// package constants and the like: not operands
		}
	}
	return uniqStrings(out)
}

func init() {
	register(&Rule{ID: "C06.R9", Min: 0,
		Text: "initialisation order: no package-level variable initialiser (they all run before the first init function) reaches code that reads a package-level variable which is only filled in by an init function — otherwise the value is computed from a zeroed table (the ln 10 tables were rounded with NumDigits reading an empty digitsLookupTable)",
		Run:  ruleInitOrder})
}

func ruleInitOrder(w *World, r *RuleResult) {
	synth := w.SSA.Func("init")
	if synth == nil {
		r.anchorMissing("package initialiser")
		return
	}
	// globals mentioned (directly) by each function, then transitively through static callees
	direct := map[*ssa.Function]map[*ssa.Global]bool{}
	for _, name := range w.Names {
		f := w.Funcs[name]
		m := map[*ssa.Global]bool{}
		for _, b := range f.Blocks {
			for _, in := range b.Instrs {
				for _, op := range in.Operands(nil) {
					if g, ok := (*op).(*ssa.Global); ok && g.Pkg == w.SSA {
						m[g] = true
					}
				}
			}
		}
		direct[f] = m
	}
	var touches func(f *ssa.Function, g *ssa.Global, seen map[*ssa.Function]bool) []string
	touches = func(f *ssa.Function, g *ssa.Global, seen map[*ssa.Function]bool) []string {
		if f == nil || seen[f] {
			return nil
		}
		seen[f] = true
		if direct[f][g] {
			return []string{w.shortName(f)}
		}
		for _, c := range callsIn(f) {
			if h := callee(c); h != nil && w.inPkg(h) {
				if p := touches(h, g, seen); p != nil {
					return append([]string{w.shortName(f)}, p...)
				}
			}
		}
		return nil
	}
	// walk the synthetic initialiser in order
	var order []ssa.Instruction
	for _, b := range synth.Blocks {
		order = append(order, b.Instrs...)
	}
	isInitFn := func(f *ssa.Function) bool {
		return f != nil && f.Pkg == w.SSA && f.Synthetic == "" && len(f.Name()) > 5 && f.Name()[:5] == "init#"
	}
	nInit, nObl := 0, 0
	for i, in := range order {
		c, ok := in.(ssa.CallInstruction)
		if !ok {
			continue
		}
		k := callee(c)
		if !isInitFn(k) {
			continue
		}
		nInit++
		// globals this init function fills (mentions by address and writes through)
		for g := range direct[k] {
			written := false
			for _, b := range k.Blocks {
				for _, x := range b.Instrs {
					switch y := x.(type) {
					case *ssa.Store:
						if basePtr(y.Addr) == ssa.Value(g) {
							written = true
						}
					case *ssa.Call:
						h := callee(y)
						for ai, a := range y.Common().Args {
							if basePtr(a) != ssa.Value(g) {
								continue
							}
							if h != nil && w.inPkg(h) {
								if s, ok := w.sums[h]; ok && ai < len(s.Writes) && len(s.Writes[ai]) > 0 {
									written = true
								}
							} else if ai == 0 {
								written = true
							}
						}
					}
				}
			}
			if !written {
				continue
			}
			nObl++
			key := fmt.Sprintf("%s | filled by %s, not used by an earlier initialiser", g.Name(), k.Name())
			var bad []string
			for _, prev := range order[:i] {
				pc, isCall := prev.(ssa.CallInstruction)
				if !isCall {
					continue
				}
				if path := touches(callee(pc), g, map[*ssa.Function]bool{}); path != nil {
					bad = append(bad, fmt.Sprintf("the initialiser calling %s at %s reaches %s", w.calleeName(pc), w.instrPos(pc), joinPath(path)))
				}
			}
			if len(bad) > 0 {
				r.bad(key, w.pos(k.Pos()), "variable initialisers run before every init function: "+joinStrings(bad)+", which reads "+g.Name()+" while it is still zero")
			} else {
				r.ok(key, w.pos(k.Pos()), "no variable initialiser reaches a reader of it", true)
			}
		}
	}
	if nObl == 0 {
		r.ok("package | init functions fill no package-level tables", "", fmt.Sprintf("%d init function(s); none fills a package-level variable that initialisers could read", nInit), false)
	}
}

func joinPath(p []string) string {
	out := ""
	for i, s := range p {
		if i > 0 {
			out += " → "
		}
		out += s
	}
	return out
}

func init() {
	register(&Rule{ID: "C19.R5", Min: 1,
		Text: "Reduce strips every trailing zero whatever their number: in Decimal.Reduce (and the helpers it may be split into) each loop that divides the big coefficient by a power of ten leaves only where the remainder of that division is non-zero — not after a fixed number of rounds",
		Run:  ruleReduceStripsAll})
}

func ruleReduceStripsAll(w *World, r *RuleResult) {
	top := w.fn("(*Decimal).Reduce")
	if top == nil {
		r.anchorMissing("(*Decimal).Reduce")
		return
	}
	n := 0
	for _, f := range w.closureFuncs(top) {
		for h, body := range loopsOf(f) {
			var rems []ssa.Value
			for b := range body {
				for _, in := range b.Instrs {
					if c, ok := in.(*ssa.Call); ok && w.calleeName(c) == "(*BigInt).QuoRem" && len(c.Common().Args) == 4 {
						rems = append(rems, basePtr(c.Common().Args[3]))
					}
				}
			}
			if len(rems) == 0 {
				continue
			}
			n++
			key := fmt.Sprintf("%s | big-coefficient stripping loop exits on a non-zero remainder", w.shortName(f))
			if k := countKey(r, key); k > 0 {
				key = fmt.Sprintf("%s #%d", key, k+1)
			}
			var bad []string
			exits := 0
			for b := range body {
				iff, ok := b.Instrs[len(b.Instrs)-1].(*ssa.If)
				if !ok {
					continue
				}
				leaves := false
				for _, s := range b.Succs {
					if !body[s] {
						leaves = true
					}
				}
				if !leaves {
					continue
				}
				exits++
				onRem := false
				if bo, isB := iff.Cond.(*ssa.BinOp); isB {
					if call, isC := bo.X.(*ssa.Call); isC && w.calleeName(call) == "(*BigInt).Sign" {
						for _, rm := range rems {
							if basePtr(call.Common().Args[0]) == rm {
								onRem = true
							}
						}
					}
				}
				if !onRem {
					bad = append(bad, fmt.Sprintf("exit on %s at %s", short(w.exprOf(f, iff.Cond).String(), 80), w.instrPos(iff)))
				}
			}
			if len(bad) > 0 || exits == 0 {
				r.bad(key, w.instrPos(h.Instrs[0]), "the loop can end although the last remainder was zero ("+joinStrings(bad)+"): a coefficient with more trailing zeros than the loop's bound keeps some of them, and the count returned is too small")
			} else {
				r.ok(key, w.instrPos(h.Instrs[0]), "the only exits test the QuoRem remainder", true)
			}
		}
	}
	if n == 0 {
		r.ok("(*Decimal).Reduce | big-coefficient stripping loop", w.pos(top.Pos()), "no QuoRem loop found: this shape is not decided", false)
	}
}

func init() {
	register(&Rule{ID: "C06.R10", Min: 2,
		Text: "a failed exponent check leaves no hybrid value: setExponent does not store the exponent when it returns a System* condition, so at each call either the receiver's Exponent was already defined by this invocation (a dominating whole-value write or Exponent store), or every path from the call to a return tests the result for both System flags and takes the no-failure edges, or overwrites the receiver with a whole value — otherwise the destination keeps the new coefficient with its previous exponent and depends on what it held before (and on aliasing)",
		Run:  ruleNoHybridAfterSystem})
}

var wholeValueWriters = map[string]bool{
	"(*Decimal).Set": true, "(*Decimal).setSlow": true, "(*Decimal).SetInt64": true, "(*Decimal).SetFinite": true,
	"(*Decimal).Abs": true, "(*Decimal).Neg": true,
}

func ruleNoHybridAfterSystem(w *World, r *RuleResult) {
	calls := w.allCallsTo("(*Decimal).setExponent")
	if len(calls) == 0 {
		r.anchorMissing("(*Decimal).setExponent call sites")
		return
	}
	var sysBoth uint64
	for _, n := range []string{"SystemOverflow", "SystemUnderflow"} {
		if c, ok := w.Pkg.Types.Scope().Lookup(n).(*types.Const); ok {
			if v, ok := constant.Uint64Val(c.Val()); ok {
				sysBoth |= v
			}
		}
	}
	for _, s := range calls {
		f := s.Parent()
		key := fmt.Sprintf("%s | a failed setExponent leaves no hybrid value", w.shortName(f))
		if n := countKey(r, key); n > 0 {
			key = fmt.Sprintf("%s #%d", key, n+1)
		}
		recv := basePtr(s.Common().Args[0])
		forms := w.formConsts()
		defines := func(x ssa.Instruction) bool {
			if w.definesExponent(f, x, recv) {
				return true
			}
			// the value is turned into a NaN: nothing finite is left to carry a wrong exponent (that the NaN
			// is then replaced by the plain one is C14.R11's business)
			if st, ok := x.(*ssa.Store); ok {
				if fa, isFA := st.Addr.(*ssa.FieldAddr); isFA && basePtr(fa.X) == recv && w.exprOf(f, st.Addr).Name == "Form" {
					if k, isK := st.Val.(*ssa.Const); isK && (ci(k) == forms["NaN"] || ci(k) == forms["NaNSignaling"]) {
						return true
					}
				}
			}
			// a helper that is handed the receiver and the call's result and overwrites the receiver with a
			// whole value on each of its System* branches
			if c, ok := x.(*ssa.Call); ok {
				if g := callee(c); g != nil && w.overwritesOnSystem(g) && len(c.Common().Args) > 0 && basePtr(c.Common().Args[0]) == recv {
					for _, a := range c.Common().Args[1:] {
						if typeIs(a.Type(), apdPath, "Condition") {
							ok2 := false
							w.exprOf(f, a).walk(func(e *Expr) bool {
								if e.V == ssa.Value(s) {
									ok2 = true
								}
								return true
							})
							if ok2 {
								return true
							}
						}
					}
				}
			}
			return false
		}
		// (a) defined before the call on every path: a defining instruction dominates the call (in the
		// function itself or, for an unexported helper working on its parameter, in every caller)
		before := w.exponentDefinedBefore(f, s, recv, 0)
		// … which only helps while the value is still that whole value: once the coefficient has been
		// replaced (a rounded coefficient stored into a copy of the operand), a failure leaves the new
		// coefficient with the unrounded exponent
		if before && w.coeffRewrittenBefore(f, s, recv) {
			before = false
		}
		if before {
			r.ok(key, w.instrPos(s), "the receiver's Exponent is defined by this invocation before the call (whole-value write or Exponent store dominating it): a failure leaves a value that depends on the operands only", true)
			continue
		}
		// (b) forward search: every path to a return proves "no System flag" or overwrites the receiver
		derives := func(v ssa.Value) bool {
			found := false
			w.exprOf(f, v).walk(func(x *Expr) bool {
				if x.V == ssa.Value(s) {
					found = true
				}
				return true
			})
			return found
		}
		type node struct {
			b    *ssa.BasicBlock
			mask int
		}
		seen := map[node]bool{}
		var badRet ssa.Instruction
		var visit func(b *ssa.BasicBlock, from int, mask int)
		visit = func(b *ssa.BasicBlock, from int, mask int) {
			if badRet != nil {
				return
			}
			for i := from; i < len(b.Instrs); i++ {
				x := b.Instrs[i]
				if defines(x) {
					return
				}
				switch y := x.(type) {
				case *ssa.Return:
					badRet = y
					return
				case *ssa.Panic:
					return
				case *ssa.If:
					bit, clearSucc := 0, -1
					if tv, bits, tms, ok := w.systemTest(y.Cond); ok && derives(tv) {
						bit = bits
						clearSucc = 1 // the false edge clears the bits when a true outcome means "set"
						if !tms {
							clearSucc = 0
						}
					}
					for si, succ := range b.Succs {
						m := mask
						if si == clearSucc {
							m |= bit
						}
						if m == 3 {
							continue // both flags known clear: the exponent was stored
						}
						if n := (node{succ, m}); !seen[n] {
							seen[n] = true
							visit(succ, 0, m)
						}
					}
					return
				}
			}
			for _, succ := range b.Succs {
				if n := (node{succ, mask}); !seen[n] {
					seen[n] = true
					visit(succ, 0, mask)
				}
			}
		}
		// only the System* flags the callee has a constant for can come back from it
		start := 3
		if g := callee(s); g != nil {
			for _, u := range w.condConstUses(g) {
				if u.bits < 1<<12 {
					start &^= int(u.bits & 3)
				}
			}
		}
		visit(s.Block(), instrIndex(s)+1, start)
		if badRet == nil {
			r.ok(key, w.instrPos(s), "every path from the call to a return either takes the edges on which both System flags are clear or overwrites the receiver with a whole value", true)
		} else {
			r.bad(key, w.instrPos(s), fmt.Sprintf("the receiver's coefficient/sign/form were written but its Exponent is not defined before this call, and the return at %s can be reached after a System* failure (exponent not stored) without the receiver being overwritten: the destination keeps the new coefficient with its previous exponent, so it differs between a fresh, a reused and an aliased destination", w.instrPos(badRet)))
		}
	}
}

// definesExponent: instruction x of f defines recv.Exponent (a store to the field, or a whole-value write).
func (w *World) definesExponent(f *ssa.Function, x ssa.Instruction, recv ssa.Value) bool {
	switch y := x.(type) {
	case *ssa.Store:
		if fa, ok := y.Addr.(*ssa.FieldAddr); ok && basePtr(fa.X) == recv && w.exprOf(f, y.Addr).Name == "Exponent" {
			return true
		}
	case *ssa.Call:
		if g := callee(y); g != nil && wholeValueWriters[w.shortName(g)] && len(y.Common().Args) > 0 && basePtr(y.Common().Args[0]) == recv {
			return true
		}
	}
	return false
}

func (w *World) exponentDefinedBefore(f *ssa.Function, at ssa.Instruction, recv ssa.Value, depth int) bool {
	for _, x := range at.Block().Instrs {
		if x == at {
			break
		}
		if w.definesExponent(f, x, recv) {
			return true
		}
	}
	for a := at.Block().Idom(); a != nil; a = a.Idom() {
		for _, x := range a.Instrs {
			if w.definesExponent(f, x, recv) {
				return true
			}
		}
	}
	p, ok := recv.(*ssa.Parameter)
	if !ok || depth > 3 || f.Object() == nil || f.Object().Exported() {
		return false
	}
	idx := -1
	for i, q := range f.Params {
		if q == p {
			idx = i
		}
	}
	callers := w.callersOf(f)
	if idx < 0 || len(callers) == 0 {
		return false
	}
	for _, c := range callers {
		args := c.Common().Args
		if c.Common().IsInvoke() || idx >= len(args) {
			return false
		}
		if !w.exponentDefinedBefore(c.Parent(), c, basePtr(args[idx]), depth+1) {
			return false
		}
	}
	return true
}

// overwritesOnSystem: g is a package function with a *Decimal receiver/first parameter d and a Condition
// parameter r such that both r.SystemOverflow() and r.SystemUnderflow() are tested and every path from the
// true edge of each test to a return defines d's Exponent (a store to the field or a whole-value write).
func (w *World) overwritesOnSystem(g *ssa.Function) bool {
	if g == nil || !w.inPkg(g) || len(g.Params) < 2 || !isDecimalPtr(g.Params[0].Type()) || len(g.Blocks) == 0 {
		return false
	}
	var cp *ssa.Parameter
	for _, p := range g.Params {
		if typeIs(p.Type(), apdPath, "Condition") && !isPointer(p.Type()) {
			cp = p
		}
	}
	if cp == nil {
		return false
	}
	d := ssa.Value(g.Params[0])
	seenBits := 0
	for _, b := range g.Blocks {
		iff, ok := b.Instrs[len(b.Instrs)-1].(*ssa.If)
		if !ok {
			continue
		}
		tv, sbits, tms, ok := w.systemTest(iff.Cond)
		if !ok {
			continue
		}
		derives := false
		w.exprOf(g, tv).walk(func(e *Expr) bool {
			if e.V == ssa.Value(cp) {
				derives = true
			}
			return true
		})
		if !derives {
			continue
		}
		setSucc := b.Succs[0]
		if !tms {
			setSucc = b.Succs[1]
		}
		// every path from the true successor to a return passes a whole-value write of d
		okAll := true
		visited := map[*ssa.BasicBlock]bool{}
		var visit func(bb *ssa.BasicBlock)
		visit = func(bb *ssa.BasicBlock) {
			if visited[bb] || !okAll {
				return
			}
			visited[bb] = true
			for _, x := range bb.Instrs {
				if w.definesExponent(g, x, d) {
					return
				}
				if _, isRet := x.(*ssa.Return); isRet {
					okAll = false
					return
				}
			}
			for _, s := range bb.Succs {
				visit(s)
			}
		}
		visit(setSucc)
		if okAll {
			seenBits |= sbits
		}
	}
	return seenBits == 3
}

// coeffRewrittenBefore: some path reaches the setExponent call `at` with the receiver's coefficient written
// separately (a store or a call writing recv.Coeff that is not a whole-value write) after the last
// whole-value write of the receiver.
func (w *World) coeffRewrittenBefore(f *ssa.Function, at *ssa.Call, recv ssa.Value) bool {
	rp, isParam := recv.(*ssa.Parameter)
	if !isParam {
		return false
	}
	ri := -1
	for i, q := range f.Params {
		if q == rp {
			ri = i
		}
	}
	p := w.newProv(f, nil)
	writesCoeff := func(in ssa.Instruction) bool {
		if c, ok := in.(*ssa.Call); ok {
			if g := callee(c); g != nil && wholeValueWriters[w.shortName(g)] && len(c.Common().Args) > 0 && basePtr(c.Common().Args[0]) == recv {
				return false
			}
			if c == at {
				return false
			}
		}
		for _, e := range w.instrEffects(p, in, nil) {
			if e.Write && e.Loc.Root.Kind == RParam && e.Loc.Root.Param == ri && (e.Loc.Field == "Coeff" || strings.HasPrefix(e.Loc.Field, "Coeff.")) {
				return true
			}
		}
		return false
	}
	// backwards from the call until a whole-value write
	found := false
	seen := map[*ssa.BasicBlock]bool{}
	var back func(b *ssa.BasicBlock, from int)
	back = func(b *ssa.BasicBlock, from int) {
		for i := from; i >= 0 && !found; i-- {
			in := b.Instrs[i]
			if w.definesExponent(f, in, recv) {
				if _, isStore := in.(*ssa.Store); !isStore {
					return // whole-value write: earlier history is irrelevant
				}
			}
			if writesCoeff(in) {
				found = true
				return
			}
		}
		for _, pb := range b.Preds {
			if !seen[pb] {
				seen[pb] = true
				back(pb, len(pb.Instrs)-1)
			}
		}
	}
	back(at.Block(), instrIndex(at)-1)
	return found
}
