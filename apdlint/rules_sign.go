package main

import (
	"fmt"
	"go/token"
	"os"
	"sort"
	"strings"

	"golang.org/x/tools/go/ssa"
)

// C07.R6 — sign abstract interpretation of coefficients.
//
// Abstract domain per big-integer object: NN (non-negative), NEG (negative),
// UNK. Inputs: the coefficient of every *Decimal parameter is NN (the
// well-formedness precondition of all properties), package constants and
// powers of ten are NN, fresh locals are zero. The analysis runs forward over
// SSA with branch refinement on Sign() tests and composes callees through a
// conditional summary ("outputs NN provided inputs NN"). Obligation: at every
// return of an exported function the coefficient of every Decimal it writes is
// NN.

func init() {
	register(&Rule{ID: "C07.R6", Min: 33,
		Text: "coefficients stay non-negative (sign abstract interpretation): assuming every operand's coefficient is non-negative, the coefficient of every Decimal written by an exported function is non-negative at every return — signed temporaries (setBig, Sub, SetInt64 of a variable) never reach a coefficient without Abs/Neg under the matching Sign() test",
		Run:  ruleCoeffSignAI})
}

type sgn int

const (
	sNN sgn = iota
	sNEG
	sUNK
)

func joinSgn(a, b sgn) sgn {
	if a == b {
		return a
	}
	return sUNK
}

type signState map[string]sgn // object key -> sign (absent = NN)

func (s signState) clone() signState {
	n := signState{}
	for k, v := range s {
		n[k] = v
	}
	return n
}

type signCtx struct {
	w     *World
	f     *ssa.Function
	prov  *provCtx
	why   map[string]string // object key -> instruction that made it non-NN
	bigNN bool              // bare *BigInt parameters are assumed non-negative on entry
}

// keysOf returns the abstract objects a *BigInt-like pointer may denote.
func (c *signCtx) keysOf(v ssa.Value) []string {
	var out []string
	for _, l := range c.prov.roots(v) {
		switch l.Root.Kind {
		case RNil:
			continue
		case RGlobal, RGlobalObj:
			out = append(out, "shared")
		case RDeref:
			if l.Root.shared() {
				out = append(out, "shared")
			} else {
				out = append(out, l.Root.key()+"/"+l.Field)
			}
		default:
			out = append(out, l.Root.key()+"/"+l.Field)
		}
	}
	sort.Strings(out)
	return out
}

func (c *signCtx) get(st signState, v ssa.Value) sgn {
	ks := c.keysOf(v)
	if len(ks) == 0 {
		return sUNK
	}
	res := sgn(-1)
	for _, k := range ks {
		s := sNN
		if k != "shared" {
			if x, ok := st[k]; ok {
				s = x
			} else if strings.HasPrefix(k, "param") {
				s = c.paramDefault(k)
			}
		}
		if res == -1 {
			res = s
		} else {
			res = joinSgn(res, s)
		}
	}
	return res
}

// paramDefault: the coefficient of a Decimal parameter is NN; a bare *BigInt
// parameter of an exported function may have any sign, of an internal helper
// it is NN when the helper is analysed under the "inputs NN" assumption.
func (c *signCtx) paramDefault(key string) sgn {
	var i int
	fmt.Sscanf(key, "param%d/", &i)
	if i < len(c.f.Params) && isBigIntPtr(c.f.Params[i].Type()) && !c.bigNN {
		return sUNK
	}
	return sNN
}

func (c *signCtx) set(st signState, v ssa.Value, s sgn, in ssa.Instruction) {
	ks := c.keysOf(v)
	strong := len(ks) == 1
	for _, k := range ks {
		if k == "shared" {
			continue
		}
		if strong {
			st[k] = s
		} else {
			old := sNN
			if x, ok := st[k]; ok {
				old = x
			}
			st[k] = joinSgn(old, s)
		}
		if st[k] != sNN && c.why != nil {
			if _, seen := c.why[k]; !seen {
				c.why[k] = fmt.Sprintf("%s at %s", c.w.calleeNameOf(in), c.w.instrPos(in))
			}
		}
	}
}

func (w *World) calleeNameOf(in ssa.Instruction) string {
	if c, ok := in.(ssa.CallInstruction); ok {
		return w.calleeName(c)
	}
	return "store"
}

// signSummary: for in-package function g, assuming all inputs NN, which
// pointer parameters may end non-NN at a return (by parameter index -> field).
type signSummary struct {
	bad       map[string]string // "param<i>/<field>" -> reason, assuming every input non-negative
	badBigUnk map[string]string // same, with bare *BigInt parameters of unknown sign
}

var signMemo = map[string]*signSummary{}

func (w *World) signSummaryOf(g *ssa.Function) *signSummary {
	k := fmt.Sprintf("%p/%s", w, w.shortName(g))
	if s, ok := signMemo[k]; ok {
		return s
	}
	signMemo[k] = &signSummary{bad: map[string]string{}, badBigUnk: map[string]string{}} // optimistic while in progress
	s := w.analyseSigns(g, true)
	s.badBigUnk = w.analyseSigns(g, false).bad
	signMemo[k] = s
	if os.Getenv("APDLINT_DEBUG") != "" && len(s.bad) > 0 {
		fmt.Fprintf(os.Stderr, "DBG sign summary %s: %v\n", w.shortName(g), s.bad)
	}
	return s
}

// analyseSigns runs the forward analysis on f. assumeInputsNN makes bare
// *BigInt parameters NN on entry (helper mode).
func (w *World) analyseSigns(f *ssa.Function, helper bool) *signSummary {
	c := &signCtx{w: w, f: f, prov: w.newProv(f, nil), why: map[string]string{}, bigNN: helper}
	n := len(f.Blocks)
	in := make([]signState, n)
	in[0] = signState{}
	if helper {
		for i, p := range f.Params {
			if isBigIntPtr(p.Type()) {
				in[0][fmt.Sprintf("param%d/", i)] = sNN
			}
		}
	}
	outEdge := func(b *ssa.BasicBlock, st signState) []signState {
		for _, x := range b.Instrs {
			c.transfer(st, x)
		}
		outs := make([]signState, len(b.Succs))
		for i := range outs {
			outs[i] = st
		}
		if iff, ok := b.Instrs[len(b.Instrs)-1].(*ssa.If); ok && len(b.Succs) == 2 {
			outs[0], outs[1] = st.clone(), st.clone()
			c.refine(iff.Cond, outs[0], outs[1])
		}
		return outs
	}
	work := []int{0}
	for iter := 0; len(work) > 0 && iter < 20000; iter++ {
		bi := work[0]
		work = work[1:]
		b := f.Blocks[bi]
		if in[bi] == nil {
			continue
		}
		outs := outEdge(b, in[bi].clone())
		for si, s := range b.Succs {
			o := outs[si]
			if in[s.Index] == nil {
				in[s.Index] = o.clone()
				work = append(work, s.Index)
				continue
			}
			changed := false
			for k, v := range o {
				old, ok := in[s.Index][k]
				if !ok {
					old = sNN
					if strings.HasPrefix(k, "param") {
						old = c.paramDefault(k)
					}
				}
				if j := joinSgn(old, v); j != old || !ok && v != sNN {
					in[s.Index][k] = j
					changed = true
				}
			}
			for k, old := range in[s.Index] {
				if _, ok := o[k]; !ok {
					def := sNN
					if strings.HasPrefix(k, "param") {
						def = c.paramDefault(k)
					}
					if j := joinSgn(old, def); j != old {
						in[s.Index][k] = j
						changed = true
					}
				}
			}
			if changed {
				work = append(work, s.Index)
			}
		}
	}
	sum := &signSummary{bad: map[string]string{}}
	for _, b := range f.Blocks {
		rt, ok := b.Instrs[len(b.Instrs)-1].(*ssa.Return)
		if !ok || in[b.Index] == nil || w.isErrorReturn(rt) {
			continue
		}
		st := in[b.Index].clone()
		for _, x := range b.Instrs {
			c.transfer(st, x)
		}
		for k, v := range st {
			if v != sNN && strings.HasPrefix(k, "param") {
				var i int
				fmt.Sscanf(k, "param%d/", &i)
				if i < len(f.Params) && isBigIntPtr(f.Params[i].Type()) && !helper && len(w.summary(f).Writes[i]) == 0 {
					continue // a caller-owned big integer of arbitrary sign that is only read
				}
				if _, seen := sum.bad[k]; !seen {
					sum.bad[k] = c.why[k]
				}
			}
		}
	}
	return sum
}

// refine applies Sign() tests: on the edge where x.Sign() is known negative
// the object is NEG, where known non-negative NN.
func (c *signCtx) refine(cond ssa.Value, onTrue, onFalse signState) {
	bo, ok := cond.(*ssa.BinOp)
	if !ok {
		return
	}
	call, ok := bo.X.(*ssa.Call)
	k, isK := bo.Y.(*ssa.Const)
	if !ok || !isK || c.w.calleeName(call) != "(*BigInt).Sign" {
		return
	}
	obj := call.Common().Args[0]
	v := ci(k)
	setBoth := func(t, f sgn, hasT, hasF bool) {
		if hasT {
			c.set(onTrue, obj, t, nil)
		}
		if hasF {
			c.set(onFalse, obj, f, nil)
		}
	}
	switch {
	case bo.Op == token.LSS && v == 0: // sign < 0
		setBoth(sNEG, sNN, true, true)
	case bo.Op == token.GEQ && v == 0:
		setBoth(sNN, sNEG, true, true)
	case bo.Op == token.EQL && v == -1:
		setBoth(sNEG, sNN, true, true)
	case bo.Op == token.NEQ && v == -1:
		setBoth(sNN, sNEG, true, true)
	case bo.Op == token.EQL && (v == 0 || v == 1):
		setBoth(sNN, 0, true, false)
	case bo.Op == token.GTR && v == 0, bo.Op == token.GEQ && v == 1:
		setBoth(sNN, 0, true, false)
	}
}

func (c *signCtx) transfer(st signState, x ssa.Instruction) {
	call, ok := x.(*ssa.Call)
	if !ok {
		if s, isStore := x.(*ssa.Store); isStore && typeOwnsBigInt(s.Val.Type(), 0) {
			// whole-struct store: copy the sign of the source coefficient when visible
			if ld, isLd := s.Val.(*ssa.UnOp); isLd && ld.Op == token.MUL {
				c.set(st, s.Addr, c.get(st, ld.X), x)
			}
		}
		return
	}
	w := c.w
	cn := w.calleeName(call)
	args := call.Common().Args
	g := callee(call)
	if strings.HasPrefix(cn, "(*BigInt).") && len(args) > 0 {
		m := strings.TrimPrefix(cn, "(*BigInt).")
		arg := func(i int) sgn {
			if i < len(args) {
				return c.get(st, args[i])
			}
			return sUNK
		}
		allNN := func(is ...int) sgn {
			for _, i := range is {
				if arg(i) != sNN {
					return sUNK
				}
			}
			return sNN
		}
		switch m {
		case "Set":
			c.set(st, args[0], arg(1), x)
		case "Abs", "SetUint64", "SetBytes", "SetBits":
			c.set(st, args[0], sNN, x)
		case "Neg":
			switch arg(1) {
			case sNEG:
				c.set(st, args[0], sNN, x)
			default:
				c.set(st, args[0], sUNK, x)
			}
		case "Add", "Mul", "Quo", "Rem", "Div", "Mod", "And", "Or", "Xor":
			c.set(st, args[0], allNN(1, 2), x)
		case "Exp":
			// x**y for y <= 0 is 1 in math/big: the sign is the base's
			c.set(st, args[0], arg(1), x)
		case "QuoRem", "DivMod":
			s := allNN(1, 2)
			c.set(st, args[0], s, x)
			c.set(st, args[3], s, x)
		case "Lsh", "Rsh", "Sqrt":
			c.set(st, args[0], arg(1), x)
		case "Sub":
			c.set(st, args[0], sUNK, x)
		case "SetInt64":
			if k, ok := args[1].(*ssa.Const); ok && ci(k) >= 0 {
				c.set(st, args[0], sNN, x)
			} else {
				c.set(st, args[0], sUNK, x)
			}
		case "SetString":
			// the parser rejects signs on the very string (C04.R5)
			c.set(st, args[0], sNN, x)
		case "Cmp", "CmpAbs", "Sign", "Bit", "BitLen", "IsUint64", "IsInt64", "Uint64", "Int64", "String", "Text", "Append", "Bytes", "FillBytes", "Bits", "inner", "isInline", "Size", "TrailingZeroBits":
		default:
			if g != nil && len(w.summary(g).Writes[0]) > 0 {
				c.set(st, args[0], sUNK, x)
			}
		}
		return
	}
	if g == nil || !w.inPkg(g) {
		return
	}
	switch cn {
	case "(*Decimal).setBig":
		// b := ±coefficient
		if c.get(st, args[0]) == sNN {
			// signed by d.Negative: unknown
		}
		c.set(st, args[1], sUNK, x)
		return
	}
	// generic in-package callee: conditional summary
	sum := w.signSummaryOf(g)
	decNN, bigNN := true, true
	s := w.summary(g)
	for i, a := range args {
		if !pointerLike(a.Type()) || i >= len(g.Params) {
			continue
		}
		t := g.Params[i].Type()
		if !(isDecimalPtr(t) || isBigIntPtr(t)) || len(s.Reads[i]) == 0 {
			continue
		}
		if isDecimalPtr(t) {
			// a destination's stale coefficient is an input only if the callee reads it before writing
			if c.getField(st, a, "Coeff") != sNN && len(w.flow(g, i, -1).UERead["Coeff"]) > 0 {
				decNN = false
			}
		} else if c.get(st, a) != sNN && !w.storageParam(g, i) && w.roles(g)[i] != RoleDest && !c.onlyNil(a) {
			bigNN = false
		}
	}
	bad := sum.bad
	if !bigNN {
		bad = sum.badBigUnk
	}
	for i, a := range args {
		if !pointerLike(a.Type()) || i >= len(g.Params) {
			continue
		}
		t := g.Params[i].Type()
		switch {
		case isDecimalPtr(t):
			if !(s.Writes[i]["Coeff"] || s.Writes[i][allFields]) {
				continue
			}
			res := sNN
			if !decNN || bad[fmt.Sprintf("param%d/Coeff", i)] != "" {
				res = sUNK
			}
			c.setField(st, a, "Coeff", res, x)
		case isBigIntPtr(t):
			if len(s.Writes[i]) == 0 {
				continue
			}
			res := sNN
			if !decNN || bad[fmt.Sprintf("param%d/", i)] != "" {
				res = sUNK
			}
			c.set(st, a, res, x)
		}
	}
}

// onlyNil: v is the nil pointer on every path (it denotes no integer whose sign could matter).
func (c *signCtx) onlyNil(v ssa.Value) bool {
	roots := c.prov.roots(v)
	if len(roots) == 0 {
		return false
	}
	for _, l := range roots {
		if l.Root.Kind != RNil {
			return false
		}
	}
	return true
}

// getField / setField address the Coeff of a Decimal pointer value.
func (c *signCtx) getField(st signState, dec ssa.Value, field string) sgn {
	res := sgn(-1)
	for _, l := range c.prov.roots(dec) {
		if l.Root.Kind == RNil {
			continue
		}
		s := sNN
		if !l.Root.shared() {
			k := l.Root.key() + "/" + field
			if x, ok := st[k]; ok {
				s = x
			}
		}
		if res == -1 {
			res = s
		} else {
			res = joinSgn(res, s)
		}
	}
	if res == -1 {
		return sNN // nil (optional operand): nothing to read
	}
	return res
}

func (c *signCtx) setField(st signState, dec ssa.Value, field string, s sgn, in ssa.Instruction) {
	locs := c.prov.roots(dec)
	n := 0
	for _, l := range locs {
		if l.Root.Kind != RNil && !l.Root.shared() {
			n++
		}
	}
	for _, l := range locs {
		if l.Root.Kind == RNil || l.Root.shared() {
			continue
		}
		k := l.Root.key() + "/" + field
		if n == 1 {
			st[k] = s
		} else {
			old := sNN
			if x, ok := st[k]; ok {
				old = x
			}
			st[k] = joinSgn(old, s)
		}
		if st[k] != sNN {
			if _, seen := c.why[k]; !seen {
				c.why[k] = fmt.Sprintf("%s at %s", c.w.calleeNameOf(in), c.w.instrPos(in))
			}
		}
	}
}

func ruleCoeffSignAI(w *World, r *RuleResult) {
	for _, f := range w.exportedAPI() {
		recv := f.Signature.Recv()
		if recv != nil && w.apdTypeName(recv.Type()) == "BigInt" {
			continue
		}
		hasDec := false
		s := w.summary(f)
		for i, p := range f.Params {
			if isDecimalPtr(p.Type()) && (s.Writes[i]["Coeff"] || s.Writes[i][allFields]) {
				hasDec = true
			}
		}
		if !hasDec {
			continue
		}
		name := w.shortName(f)
		key := name + " | coefficient sign"
		sum := w.analyseSigns(f, false)
		var bad []string
		for k, why := range sum.bad {
			var i int
			fmt.Sscanf(k, "param%d/", &i)
			if i < len(f.Params) && isDecimalPtr(f.Params[i].Type()) && strings.HasSuffix(k, "/Coeff") {
				bad = append(bad, fmt.Sprintf("%s.Coeff may be negative at a return (made possibly negative by %s)", f.Params[i].Name(), why))
			}
		}
		sort.Strings(bad)
		if len(bad) > 0 {
			r.bad(key, w.pos(f.Pos()), strings.Join(bad, "; "))
		} else {
			r.ok(key, w.pos(f.Pos()), "with non-negative operand coefficients, every written coefficient is non-negative at every result-delivering return", true)
		}
	}
}
