package main

import (
	"fmt"
	"go/token"
	"strings"

	"golang.org/x/tools/go/ssa"
)

func init() {
	register(&Rule{ID: "C17.R1", Min: 3,
		Text: "Int64 extracts the coefficient only under Form==Finite, a zero fractional part, and both range tests against decimalMaxInt64/decimalMinInt64 having failed; each failing edge returns an error; the bounds are built from math.MaxInt64/MinInt64",
		Run:  ruleInt64Guards})
	register(&Rule{ID: "C17.R2", Min: 1,
		Text: "Modf: both outputs take Negative and Form from the receiver, the integer part's exponent is the constant 0 and the fraction's is the receiver's, and nil outputs are skipped (alias safety and complete assignment are C05.R1/C06.R2)",
		Run:  ruleModfOrigins})
	register(&Rule{ID: "C18.R4", Min: 2,
		Text: "no other shared mutable state: the package starts no goroutine and uses no sync/atomic; constWithPrecision.vals is filled only by initialisation code; no function reachable from the API stores a pointer into package-level state",
		Run:  ruleNoSharedMutable})
	register(&Rule{ID: "C19.R3", Min: 1,
		Text: "Context.Reduce keeps the operand's sign: the d.Negative store derives from x.Negative alone",
		Run:  ruleReduceSign})
	register(&Rule{ID: "C19.R4", Min: 1,
		Text: "NumDigits is sign-symmetric: the positive arm compares with the table entry's border, the negative arm with its nborder, both return the entry's digits on the inside edge; the big path compares |b| (Abs on the negative edge) with 10^n; the table index is guarded by bl <= digitsTableSize",
		Run:  ruleNumDigitsSymmetry})
}

func ruleInt64Guards(w *World, r *RuleResult) {
	f := w.fn("(*Decimal).Int64")
	if f == nil {
		r.anchorMissing("(*Decimal).Int64")
		return
	}
	ext := w.callsTo(f, "(*BigInt).Int64")
	if len(ext) != 1 {
		r.bad("(*Decimal).Int64 | coefficient extraction", w.pos(f.Pos()), fmt.Sprintf("expected exactly one Coeff.Int64() extraction, found %d", len(ext)))
		return
	}
	fin := w.formConsts()["Finite"]
	// the integral and fractional parts are the two outputs of the Modf call, whatever the locals are called
	var integBase, fracBase ssa.Value
	for _, mc := range w.callsTo(f, "(*Decimal).Modf") {
		if a := mc.Common().Args; len(a) == 3 {
			integBase, fracBase = basePtr(a[1]), basePtr(a[2])
		}
	}
	recvName := f.Params[0].Name()
	type need struct {
		name string
		ok   func(g Guard) bool
	}
	cmpAgainst := func(g Guard, global string, op token.Token) bool {
		bo, ok := g.Cond.(*ssa.BinOp)
		if !ok || bo.Op != op || g.Val {
			return false
		}
		call, ok := bo.X.(*ssa.Call)
		k, isK := bo.Y.(*ssa.Const)
		if !ok || !isK || ci(k) != 0 || w.calleeName(call) != "(*Decimal).Cmp" {
			return false
		}
		return w.exprOf(f, call.Common().Args[1]).String() == global && (integBase != nil && basePtr(call.Common().Args[0]) == integBase || strings.Contains(w.exprOf(f, call.Common().Args[0]).String(), "integ"))
	}
	needs := []need{
		{"Form == Finite", func(g Guard) bool {
			bo, ok := g.Cond.(*ssa.BinOp)
			if !ok || w.exprOf(f, bo.X).String() != recvName+".Form" {
				return false
			}
			k, isK := bo.Y.(*ssa.Const)
			return isK && ci(k) == fin && ((bo.Op == token.NEQ && !g.Val) || (bo.Op == token.EQL && g.Val))
		}},
		{"fractional part is zero", func(g Guard) bool {
			cond, val := g.Cond, g.Val
			for {
				u, isU := cond.(*ssa.UnOp)
				if !isU || u.Op != token.NOT {
					break
				}
				cond, val = u.X, !val
			}
			if zc, isC := cond.(*ssa.Call); isC && val && w.calleeName(zc) == "(*Decimal).IsZero" && fracBase != nil && basePtr(zc.Common().Args[0]) == fracBase {
				return true
			}
			s := w.exprOf(f, g.Cond).String()
			return strings.HasPrefix(s, "(*Decimal).IsZero(&frac") && g.Val || strings.HasPrefix(s, "!(*Decimal).IsZero(&frac") && !g.Val
		}},
		{"not above MaxInt64", func(g Guard) bool { return cmpAgainst(g, "decimalMaxInt64", token.GTR) }},
		{"not below MinInt64", func(g Guard) bool { return cmpAgainst(g, "decimalMinInt64", token.LSS) }},
	}
	guards := guardsAt(ext[0].Block())
	for _, nd := range needs {
		key := "(*Decimal).Int64 | extraction only when " + nd.name
		found := false
		var at *ssa.If
		for _, g := range guards {
			if nd.ok(g) {
				found = true
				at = g.At
			}
		}
		if !found {
			r.bad(key, w.instrPos(ext[0]), "the int64 is extracted without this test: a wrapped or truncated value would be returned instead of an error")
			continue
		}
		// the failing edge returns an error
		errEdge := false
		for _, s := range at.Block().Succs {
			if !s.Dominates(ext[0].Block()) {
				if rt, ok := s.Instrs[len(s.Instrs)-1].(*ssa.Return); ok && w.isErrorReturn(rt) {
					errEdge = true
				}
			}
		}
		if errEdge {
			r.ok(key, w.instrPos(at), "dominating test; its failing edge returns an error", true)
		} else {
			r.bad(key, w.instrPos(at), "the failing edge of this test does not return an error")
		}
	}
	// bounds
	key := "decimalMaxInt64/decimalMinInt64 | built from the int64 limits"
	got := map[string]string{}
	for _, n := range w.Names {
		if !strings.HasPrefix(n, "init") {
			continue
		}
		for _, b := range w.Funcs[n].Blocks {
			for _, in := range b.Instrs {
				st, ok := in.(*ssa.Store)
				if !ok {
					continue
				}
				g, ok := st.Addr.(*ssa.Global)
				if !ok || (g.Name() != "decimalMaxInt64" && g.Name() != "decimalMinInt64") {
					continue
				}
				if c, ok := st.Val.(*ssa.Call); ok && w.calleeName(c) == "New" {
					got[g.Name()] = w.exprOf(w.Funcs[n], c.Common().Args[0]).String() + "e" + w.exprOf(w.Funcs[n], c.Common().Args[1]).String()
				}
			}
		}
	}
	if got["decimalMaxInt64"] == "9223372036854775807e0" && got["decimalMinInt64"] == "-9223372036854775808e0" {
		r.ok(key, "const.go", "New(MaxInt64, 0) / New(MinInt64, 0)", true)
	} else {
		r.bad(key, "const.go", fmt.Sprintf("bounds are %v", got))
	}
}

func ruleModfOrigins(w *World, r *RuleResult) {
	f := w.fn("(*Decimal).Modf")
	if f == nil {
		r.anchorMissing("(*Decimal).Modf")
		return
	}
	if len(f.Params) != 3 {
		r.anchorMissing("(*Decimal).Modf: receiver and two outputs")
		return
	}
	recvN, integN, fracN := f.Params[0].Name(), f.Params[1].Name(), f.Params[2].Name()
	for oi, out := range []string{"integ", "frac"} {
		i := oi + 1 // the outputs by position, whatever they are called
		key := "(*Decimal).Modf | " + out + " takes sign and form from the receiver"
		var bad []string
		n := map[string]int{}
		for _, b := range f.Blocks {
			for _, in := range b.Instrs {
				for _, fld := range []string{"Negative", "Form"} {
					for _, v := range w.storedFieldValues(f, in, f.Params[i], fld, 0) {
						n[fld]++
						if v != recvN+"."+fld {
							bad = append(bad, fmt.Sprintf("%s.%s = %s at %s", out, fld, v, w.instrPos(in)))
						}
					}
				}
			}
		}
		if len(bad) == 0 && n["Negative"] > 0 && n["Form"] > 0 {
			r.ok(key, w.pos(f.Pos()), fmt.Sprintf("every value stored into %s.Negative (%d sites) and %s.Form (%d sites), directly or through helpers, is the receiver's field", out, n["Negative"], out, n["Form"]), true)
		} else {
			r.bad(key, w.pos(f.Pos()), fmt.Sprintf("%s.Negative/Form are not always the receiver's: %s (stores found: %v)", out, strings.Join(uniqStrings(bad), "; "), n))
		}
	}
	// exponent of the two parts on the splitting path (the QuoRem block)
	key := "(*Decimal).Modf | exponents of the split parts"
	var bad []string
	for _, c := range w.callsTo(f, "(*BigInt).QuoRem") {
		for _, st := range storesIn(f) {
			a := w.exprOf(f, st.Addr).String()
			v := w.exprOf(f, st.Val).String()
			if a == "&"+fracN+".Exponent" && st.Block() == c.Block() && v != recvN+".Exponent" {
				bad = append(bad, "the fraction's exponent is "+v+", not the receiver's")
			}
		}
		// divisor is 10^(-exponent)
		if div, ok := c.Common().Args[2].(*ssa.Call); !ok || w.calleeName(div) != "tableExp10" || w.exprOf(f, div.Common().Args[0]).String() != "-"+recvN+".Exponent" {
			bad = append(bad, "the split divisor is not 10^(-d.Exponent)")
		}
		if w.exprOf(f, c.Common().Args[1]).String() != "&"+recvN+".Coeff" {
			bad = append(bad, "the value split is not the receiver's coefficient")
		}
	}
	for _, st := range storesIn(f) {
		if w.exprOf(f, st.Addr).String() == "&"+integN+".Exponent" && w.exprOf(f, st.Val).String() != "0" {
			bad = append(bad, "the integer part's exponent is stored as "+w.exprOf(f, st.Val).String())
		}
	}
	if len(bad) > 0 {
		r.bad(key, w.pos(f.Pos()), strings.Join(uniqStrings(bad), "; "))
	} else {
		r.ok(key, w.pos(f.Pos()), "integ.Exponent = 0; frac.Exponent = d.Exponent; Coeff split by 10^(-d.Exponent)", true)
	}
}

func storesIn(f *ssa.Function) []*ssa.Store {
	var out []*ssa.Store
	for _, b := range f.Blocks {
		for _, in := range b.Instrs {
			if st, ok := in.(*ssa.Store); ok {
				out = append(out, st)
			}
		}
	}
	return out
}

func ruleNoSharedMutable(w *World, r *RuleResult) {
	gos, imports := 0, []string{}
	for _, n := range w.Names {
		for _, b := range w.Funcs[n].Blocks {
			for _, in := range b.Instrs {
				if _, ok := in.(*ssa.Go); ok {
					gos++
				}
			}
		}
	}
	for _, imp := range w.Pkg.Types.Imports() {
		if p := imp.Path(); p == "sync" || p == "sync/atomic" {
			imports = append(imports, p)
		}
	}
	if gos == 0 {
		r.ok("package | starts no goroutine", "", "0 go statements", true)
	} else {
		r.bad("package | starts no goroutine", "", fmt.Sprintf("%d go statements: operations would share state with goroutines the caller cannot see", gos))
	}
	if len(imports) == 0 {
		r.ok("package | no sync/atomic", "", "the package relies on immutability, not on locks", true)
	} else {
		r.bad("package | no sync/atomic", "", "imports "+strings.Join(imports, ", ")+": shared mutable state was introduced; its discipline is not covered by these rules")
	}
	// vals filled only in init-only code
	reach := w.apiReachable()
	var writers []string
	for _, n := range w.Names {
		f := w.Funcs[n]
		for _, st := range storesIn(f) {
			if strings.HasSuffix(w.exprOf(f, st.Addr).String(), ".vals") && reach[f] {
				writers = append(writers, n+" at "+w.instrPos(st))
			}
		}
	}
	if len(writers) == 0 {
		r.ok("constWithPrecision.vals | filled by initialisation only", "const.go", "no API-reachable function stores into vals", true)
	} else {
		r.bad("constWithPrecision.vals | filled by initialisation only", "const.go", "memoisation of shared constants at run time: "+strings.Join(writers, "; "))
	}
	// no API-reachable function stores a pointer/value into a package-level variable (covers caches, last-used contexts …)
	var gw []string
	for _, n := range w.Names {
		f := w.Funcs[n]
		if !reach[f] {
			continue
		}
		for _, g := range sortedFieldSet(w.summary(f).GWrites) {
			gw = append(gw, n+" → "+g)
		}
	}
	if len(gw) == 0 {
		r.ok("package | no run-time write to package-level state", "", "summaries of all API-reachable functions have an empty global mod-set", true)
	} else {
		r.bad("package | no run-time write to package-level state", "", strings.Join(uniqStrings(gw), "; "))
	}
}

func ruleReduceSign(w *World, r *RuleResult) {
	f := w.fn("(*Context).Reduce")
	if f == nil {
		r.anchorMissing("(*Context).Reduce")
		return
	}
	key := "(*Context).Reduce | sign of the result"
	n := 0
	var bad []string
	for _, st := range storesIn(f) {
		if w.exprOf(f, st.Addr).String() != "&"+w.destName(f)+".Negative" {
			continue
		}
		n++
		if v := w.exprOf(f, st.Val).String(); v != "x.Negative" {
			bad = append(bad, "d.Negative = "+v)
		}
	}
	if n == 0 || len(bad) > 0 {
		r.bad(key, w.pos(f.Pos()), "the reduced value (a zero becomes 0E0 through SetInt64) must get the operand's sign back: "+strings.Join(bad, "; "))
	} else {
		r.ok(key, w.pos(f.Pos()), "d.Negative = x.Negative after the strip", true)
	}
}

func ruleNumDigitsSymmetry(w *World, r *RuleResult) {
	top := w.fn("NumDigits")
	if top == nil {
		r.anchorMissing("NumDigits")
		return
	}
	// NumDigits and the helpers it may be split into; in each, "b" is its *BigInt parameter
	type scope struct {
		f *ssa.Function
		b *ssa.Parameter
	}
	var scopes []scope
	for _, g := range w.closureFuncs(top) {
		for _, p := range g.Params {
			if isBigIntPtr(p.Type()) {
				scopes = append(scopes, scope{g, p})
				break
			}
		}
	}
	type arm struct {
		sign   int64
		border string
		op     token.Token
	}
	for _, a := range []arm{{1, "border", token.LSS}, {-1, "nborder", token.GTR}} {
		key := fmt.Sprintf("NumDigits | arm Sign()==%d compares with %s", a.sign, a.border)
		ok := false
		for _, sc := range scopes {
			f, bp := sc.f, sc.b
			for _, c := range w.callsTo(f, "(*BigInt).Cmp") {
				if c.Common().Args[0] != ssa.Value(bp) {
					continue
				}
				tgt := w.exprOf(f, c.Common().Args[1]).String()
				if !strings.HasSuffix(tgt, "."+a.border) {
					continue
				}
				// guard: the dominating tests on b.Sign() (and b.BitLen() != 0) leave exactly this sign
				poss := w.possibleSignsThroughCallers(f, c.Block(), bp)
				g := len(poss) == 1 && poss[0] == a.sign
				// inside edge returns the entry's digits: cmp <op> 0 true → return val.digits
				inside := false
				if refs := c.Referrers(); refs != nil {
					for _, u := range *refs {
						bo, isB := u.(*ssa.BinOp)
						if !isB || bo.Op != a.op {
							continue
						}
						if k, isK := bo.Y.(*ssa.Const); !isK || ci(k) != 0 {
							continue
						}
						// the comparison may be merged with the other arm's into one boolean first
						users := []ssa.Instruction{}
						if br := bo.Referrers(); br != nil {
							for _, x := range *br {
								users = append(users, x)
								if ph, isPhi := x.(*ssa.Phi); isPhi && ph.Referrers() != nil {
									users = append(users, *ph.Referrers()...)
								}
							}
						}
						{
							for _, x := range users {
								if iff, isIf := x.(*ssa.If); isIf {
									tb := iff.Block().Succs[0]
									if rt, isRet := tb.Instrs[len(tb.Instrs)-1].(*ssa.Return); isRet && strings.HasSuffix(w.exprOf(f, rt.Results[0]).String(), ".digits") {
										inside = true
									}
								}
							}
						}
					}
				}
				if g && inside {
					ok = true
				}
			}
		}
		f := top
		if ok {
			r.ok(key, w.pos(f.Pos()), "guarded by the sign test; the inside edge returns the entry's digits", true)
		} else {
			r.bad(key, w.pos(f.Pos()), "this arm does not compare b with the "+a.border+" of the table entry under its sign guard and return digits on the inside edge")
		}
	}
	// big path: |b| vs 10^n
	key := "NumDigits | big path compares the absolute value"
	ok := false
	for _, sc := range scopes {
		f, bp := sc.f, sc.b
		for _, c := range w.callsTo(f, "(*BigInt).Cmp") {
			phi, isPhi := c.Common().Args[0].(*ssa.Phi)
			if !isPhi {
				continue
			}
			absOK, selfOK := false, false
			for i, e := range phi.Edges {
				if e == ssa.Value(bp) {
					selfOK = true
					continue
				}
				// the other edge: the result of Abs(b) itself
				if ac, isCall := e.(*ssa.Call); isCall && w.calleeName(ac) == "(*BigInt).Abs" && len(ac.Common().Args) == 2 && ac.Common().Args[1] == ssa.Value(bp) {
					if _, isA := basePtr(ac.Common().Args[0]).(*ssa.Alloc); isA && ac.Block() == phi.Block().Preds[i] {
						absOK = true
					}
				}
				// the other edge: a local set by Abs(b) under Sign() < 0
				for _, ac := range w.callsTo(f, "(*BigInt).Abs") {
					if basePtr(ac.Common().Args[0]) == basePtr(e) && ac.Common().Args[1] == ssa.Value(bp) && ac.Block() == phi.Block().Preds[i] {
						absOK = true
					}
				}
			}
			if tc, isC := c.Common().Args[1].(*ssa.Call); isC && w.calleeName(tc) == "tableExp10" && absOK && selfOK {
				ok = true
			}
		}
		// equivalent forms: CmpAbs(b, 10^n) (10^n is positive), or an unconditional |b| copy
		for _, c := range w.callsTo(f, "(*BigInt).CmpAbs") {
			if tc, isC := c.Common().Args[1].(*ssa.Call); isC && w.calleeName(tc) == "tableExp10" && c.Common().Args[0] == ssa.Value(bp) {
				ok = true
			}
		}
		for _, c := range w.callsTo(f, "(*BigInt).Cmp") {
			tc, isC := c.Common().Args[1].(*ssa.Call)
			if !isC || w.calleeName(tc) != "tableExp10" {
				continue
			}
			for _, ac := range w.callsTo(f, "(*BigInt).Abs") {
				if _, isA := basePtr(c.Common().Args[0]).(*ssa.Alloc); isA && basePtr(ac.Common().Args[0]) == basePtr(c.Common().Args[0]) &&
					ac.Common().Args[1] == ssa.Value(bp) && ac.Block().Dominates(c.Block()) {
					ok = true
				}
			}
		}
	}
	f := top
	if ok {
		r.ok(key, w.pos(f.Pos()), "|b| (a = |b| on the negative edge and b otherwise, an unconditional Abs copy, or CmpAbs) is compared with tableExp10(n)", true)
	} else {
		r.bad(key, w.pos(f.Pos()), "the >128-bit path does not compare |b| with 10^n (negative values would be miscounted or crash)")
	}
}

// possibleSigns evaluates the dominating comparisons of v.Sign() with
// constants over the finite domain {-1, 0, +1}; a dominating
// v.BitLen() == 0 test that failed excludes 0.
func (w *World) possibleSigns(f *ssa.Function, b *ssa.BasicBlock, v ssa.Value) []int64 {
	ok := map[int64]bool{-1: true, 0: true, 1: true}
	for _, g := range guardsAt(b) {
		bo, isB := g.Cond.(*ssa.BinOp)
		if !isB {
			continue
		}
		call, isC := bo.X.(*ssa.Call)
		k, isK := bo.Y.(*ssa.Const)
		if !isC || !isK || len(call.Common().Args) == 0 || call.Common().Args[0] != v {
			// BitLen may have been stored in a local first: bl == 0
			if isK && ci(k) == 0 && (bo.Op == token.EQL && !g.Val || bo.Op == token.NEQ && g.Val) {
				if c2, ok2 := bo.X.(*ssa.Call); ok2 && w.calleeName(c2) == "(*BigInt).BitLen" && c2.Common().Args[0] == v {
					delete(ok, 0)
				}
			}
			continue
		}
		switch w.calleeName(call) {
		case "(*BigInt).BitLen":
			if ci(k) == 0 && (bo.Op == token.EQL && !g.Val || bo.Op == token.NEQ && g.Val) {
				delete(ok, 0)
			}
		case "(*BigInt).Sign":
			for _, sv := range []int64{-1, 0, 1} {
				var holds bool
				switch bo.Op {
				case token.EQL:
					holds = sv == ci(k)
				case token.NEQ:
					holds = sv != ci(k)
				case token.LSS:
					holds = sv < ci(k)
				case token.LEQ:
					holds = sv <= ci(k)
				case token.GTR:
					holds = sv > ci(k)
				case token.GEQ:
					holds = sv >= ci(k)
				default:
					continue
				}
				if holds != g.Val {
					delete(ok, sv)
				}
			}
		}
	}
	var out []int64
	for _, sv := range []int64{-1, 0, 1} {
		if ok[sv] {
			out = append(out, sv)
		}
	}
	return out
}

// possibleSignsThroughCallers: possibleSigns, and when v is a parameter of an unexported helper also what
// the tests at every call site leave of the argument's signs (a helper split off behind its caller's
// `bl == 0` test never sees zero).
func (w *World) possibleSignsThroughCallers(f *ssa.Function, b *ssa.BasicBlock, v ssa.Value) []int64 {
	own := w.possibleSigns(f, b, v)
	prm, isP := v.(*ssa.Parameter)
	if !isP || f.Object() == nil || f.Object().Exported() {
		return own
	}
	idx := -1
	for i, q := range f.Params {
		if q == prm {
			idx = i
		}
	}
	callers := w.callersOf(f)
	if idx < 0 || len(callers) == 0 {
		return own
	}
	fromCallers := map[int64]bool{}
	for _, c := range callers {
		if idx >= len(c.Common().Args) {
			return own
		}
		for _, sv := range w.possibleSigns(c.Parent(), c.Block(), c.Common().Args[idx]) {
			fromCallers[sv] = true
		}
	}
	var out []int64
	for _, sv := range own {
		if fromCallers[sv] {
			out = append(out, sv)
		}
	}
	return out
}
