package main

import (
	"fmt"
	"go/token"
	"go/types"
	"strings"

	"golang.org/x/tools/go/ssa"
)

// Rules added after the tenth mutation round.

func init() {
	register(&Rule{ID: "C17.R4", Min: 3,
		Text: "Int64 refuses a value for what it is, never for how it is spelled: an error return of Int64 that is decided by the Exponent field (a representation quantity: 0E+19 is the integer 0) is also under a test that the value is not zero, or under a numeric comparison (Decimal.Cmp) with an int64 bound",
		Run:  ruleInt64RefusalsByValue})
}

func ruleInt64RefusalsByValue(w *World, r *RuleResult) {
	top := w.fn("(*Decimal).Int64")
	if top == nil {
		r.anchorMissing("(*Decimal).Int64")
		return
	}
	errT := types.Universe.Lookup("error").Type()
	n := 0
	for _, f := range w.closureFuncs(top) {
		for _, b := range f.Blocks {
			rt, ok := b.Instrs[len(b.Instrs)-1].(*ssa.Return)
			if !ok {
				continue
			}
			// a return that delivers a definitely non-nil error
			isErr := false
			for _, v := range rt.Results {
				if !types.Identical(v.Type(), errT) {
					continue
				}
				if k, isK := v.(*ssa.Const); isK && k.Value == nil {
					continue
				}
				isErr = true
			}
			if !isErr {
				continue
			}
			n++
			var byExponent, byValue, all []string
			// the tests that decide this refusal: its guards less the ones the successful extraction shares with
			// it (tests that were passed on the way)
			passed := map[string]bool{}
			for _, ext := range w.callsTo(f, "(*BigInt).Int64") {
				for _, g := range guardsAt(ext.Block()) {
					passed[fmt.Sprintf("%p/%v", g.Cond, g.Val)] = true
				}
			}
			for _, g := range guardsAt(b) {
				if passed[fmt.Sprintf("%p/%v", g.Cond, g.Val)] {
					continue
				}
				cond := g.Cond
				for {
					u, isU := cond.(*ssa.UnOp)
					if !isU || u.Op != token.NOT {
						break
					}
					cond = u.X
				}
				s := w.exprOf(f, cond).String()
				usesExp := strings.Contains(s, ".Exponent") || mentionsField(cond, "Exponent", 0)
				all = append(all, short(s, 80))
				valueTest := false
				for _, nm := range []string{"(*Decimal).IsZero(", "(*Decimal).Sign(", "(*BigInt).Sign(", "(*BigInt).IsZero(", "(*Decimal).Cmp(", "(*BigInt).Cmp(", "(*BigInt).CmpAbs(", "(*BigInt).IsInt64(", "(*BigInt).IsUint64(", ".Form", "(*ErrDecimal).Err("} {
					if strings.Contains(s, nm) {
						valueTest = true
					}
				}
				if _, isErrCmp := cond.(*ssa.BinOp); isErrCmp && strings.Contains(s, "nil") {
					valueTest = true
				}
				switch {
				case valueTest:
					byValue = append(byValue, short(s, 80))
				case usesExp:
					byExponent = append(byExponent, short(s, 80))
				}
			}
			key := fmt.Sprintf("%s | refusal #%d", w.shortName(f), countKeyPrefix(r, w.shortName(f)+" | refusal")+1)
			switch {
			case len(byExponent) > 0 && len(byValue) == 0:
				r.bad(key, w.instrPos(rt), "this error is decided by the exponent alone ("+strings.Join(byExponent, "; ")+"): a zero with that exponent is the integer 0 and must convert (0E+19 → 0, nil); the refusal needs a non-zero test or a numeric comparison with the bound")
			case len(byExponent) > 0:
				r.ok(key, w.instrPos(rt), "decided by the exponent together with a test of the value ("+strings.Join(byValue, "; ")+")", true)
			default:
				r.ok(key, w.instrPos(rt), "not decided by the exponent: "+strings.Join(all, "; "), len(byValue) > 0)
			}
		}
	}
	if n == 0 {
		r.bad("(*Decimal).Int64 | refusals", w.pos(top.Pos()), "Int64 has no error return")
	}
}

func countKeyPrefix(r *RuleResult, prefix string) int {
	n := 0
	for _, o := range r.Obs {
		if strings.HasPrefix(o.Key, prefix) {
			n++
		}
	}
	return n
}

// mentionsField: the value is computed from a load of the named struct field (of any object).
func mentionsField(v ssa.Value, field string, depth int) bool {
	if depth > 6 {
		return false
	}
	switch x := v.(type) {
	case *ssa.UnOp:
		if x.Op == token.MUL {
			if fa, ok := x.X.(*ssa.FieldAddr); ok {
				if st, isS := pointee(fa.X.Type()).Underlying().(*types.Struct); isS && st.Field(fa.Field).Name() == field {
					return true
				}
			}
			return false
		}
		return mentionsField(x.X, field, depth+1)
	case *ssa.BinOp:
		return mentionsField(x.X, field, depth+1) || mentionsField(x.Y, field, depth+1)
	case *ssa.Convert:
		return mentionsField(x.X, field, depth+1)
	case *ssa.Phi:
		for _, e := range x.Edges {
			if mentionsField(e, field, depth+1) {
				return true
			}
		}
	}
	return false
}

func init() {
	register(&Rule{ID: "C09.R9", Min: 1,
		Text: "the intermediate value quantize rounds (exponent −diff; adjusted exponent = number of digits kept − 1) is not subject to the caller's MaxExponent either: the private context handed to Rounder.Round has MaxExponent = the package limit, so that a result that fits (Quantize(12.345678, −3) at Precision 9, MaxExponent 3 = 12.346, adjusted exponent 1) is not turned into an overflowed infinity, which Quantize reports as InvalidOperation",
		Run:  ruleQuantizeIntermediateMaxExponent})
}

func ruleQuantizeIntermediateMaxExponent(w *World, r *RuleResult) {
	f := w.fn("(*Context).quantize")
	if f == nil {
		r.anchorMissing("(*Context).quantize")
		return
	}
	maxE, ok := int64(0), false
	if c, isC := w.SSA.Members["MaxExponent"].(*ssa.NamedConst); isC {
		maxE, ok = ci(c.Value), true
	}
	if !ok {
		r.anchorMissing("MaxExponent constant")
		return
	}
	n := 0
	for _, g := range w.closureFuncs(f) {
		for _, c := range w.callsTo(g, rounderRound) {
			n++
			key := fmt.Sprintf("%s | intermediate rounding context: MaxExponent", w.shortName(g))
			if k := countKey(r, key); k > 0 {
				key = fmt.Sprintf("%s #%d", key, k+1)
			}
			var ctx ssa.Value
			for _, a := range c.Common().Args {
				if isContextPtr(a.Type()) {
					ctx = a
				}
			}
			if ctx == nil {
				r.undecided(key, w.instrPos(c), "no *Context argument found")
				continue
			}
			base := basePtr(ctx)
			fromCtor := false
			if ci := w.ctxCtor(base); ci != nil {
				if v, ok := ci.Consts["MaxExponent"]; ok && v == fmt.Sprint(maxE) {
					fromCtor = true
				}
			}
			stored := seenBefore(c, func(in ssa.Instruction) bool {
				st, ok := in.(*ssa.Store)
				if !ok {
					return false
				}
				fa, ok := st.Addr.(*ssa.FieldAddr)
				if !ok || basePtr(fa.X) != base || w.exprOf(g, st.Addr).Name != "MaxExponent" {
					return false
				}
				k, isK := st.Val.(*ssa.Const)
				return isK && ci(k) == maxE
			})
			if stored || fromCtor {
				r.ok(key, w.instrPos(c), "private context copy with MaxExponent = package limit on every path", true)
			} else {
				r.bad(key, w.instrPos(c), "the private context keeps the caller's MaxExponent: the intermediate value's adjusted exponent is the number of digits kept less one, which can exceed it although the result's does not — the rounding overflows to infinity and Quantize answers InvalidOperation for a result that fits (Quantize(12.345678, -3) at Precision 9, MaxExponent 3)")
			}
		}
	}
	if n == 0 {
		r.ok("(*Context).quantize | intermediate rounding context: MaxExponent", w.pos(f.Pos()), "quantize does not call Rounder.Round: this shape is not decided", false)
	}
}
