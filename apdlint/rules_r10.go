package main

import (
	"fmt"
	"go/token"
	"go/types"
	"strings"

	"golang.org/x/tools/go/ssa"
)

// Rules added after the tenth mutation round.

func init() {
	register(&Rule{ID: "C17.R4", Min: 3,
		Text: "Int64 refuses a value for what it is, never for how it is spelled: an error return of Int64 that is decided by the Exponent field (a representation quantity: 0E+19 is the integer 0) is also under a test that the value is not zero, or under a numeric comparison (Decimal.Cmp) with an int64 bound",
		Run:  ruleInt64RefusalsByValue})
}

func ruleInt64RefusalsByValue(w *World, r *RuleResult) {
	top := w.fn("(*Decimal).Int64")
	if top == nil {
		r.anchorMissing("(*Decimal).Int64")
		return
	}
	errT := types.Universe.Lookup("error").Type()
	n := 0
	for _, f := range w.closureFuncs(top) {
		for _, b := range f.Blocks {
			rt, ok := b.Instrs[len(b.Instrs)-1].(*ssa.Return)
			if !ok {
				continue
			}
			// a return that delivers a definitely non-nil error
			isErr := false
			for _, v := range rt.Results {
				if !types.Identical(v.Type(), errT) {
					continue
				}
				if k, isK := v.(*ssa.Const); isK && k.Value == nil {
					continue
				}
				isErr = true
			}
			if !isErr {
				continue
			}
			n++
			var byExponent, byValue, all []string
			// the tests that decide this refusal: its guards less the ones the successful extraction shares with
			// it (tests that were passed on the way)
			passed := map[string]bool{}
			for _, ext := range w.callsTo(f, "(*BigInt).Int64") {
				for _, g := range guardsAt(ext.Block()) {
					passed[fmt.Sprintf("%p/%v", g.Cond, g.Val)] = true
				}
			}
			for _, g := range guardsAt(b) {
				if passed[fmt.Sprintf("%p/%v", g.Cond, g.Val)] {
					continue
				}
				cond := g.Cond
				for {
					u, isU := cond.(*ssa.UnOp)
					if !isU || u.Op != token.NOT {
						break
					}
					cond = u.X
				}
				s := w.exprOf(f, cond).String()
				usesExp := strings.Contains(s, ".Exponent") || mentionsField(cond, "Exponent", 0)
				all = append(all, short(s, 80))
				valueTest := false
				for _, nm := range []string{"(*Decimal).IsZero(", "(*Decimal).Sign(", "(*BigInt).Sign(", "(*BigInt).IsZero(", "(*Decimal).Cmp(", "(*BigInt).Cmp(", "(*BigInt).CmpAbs(", "(*BigInt).IsInt64(", "(*BigInt).IsUint64(", ".Form", "(*ErrDecimal).Err("} {
					if strings.Contains(s, nm) {
						valueTest = true
					}
				}
				if _, isErrCmp := cond.(*ssa.BinOp); isErrCmp && strings.Contains(s, "nil") {
					valueTest = true
				}
				switch {
				case valueTest:
					byValue = append(byValue, short(s, 80))
				case usesExp:
					byExponent = append(byExponent, short(s, 80))
				}
			}
			key := fmt.Sprintf("%s | refusal #%d", w.shortName(f), countKeyPrefix(r, w.shortName(f)+" | refusal")+1)
			switch {
			case len(byExponent) > 0 && len(byValue) == 0:
				r.bad(key, w.instrPos(rt), "this error is decided by the exponent alone ("+strings.Join(byExponent, "; ")+"): a zero with that exponent is the integer 0 and must convert (0E+19 → 0, nil); the refusal needs a non-zero test or a numeric comparison with the bound")
			case len(byExponent) > 0:
				r.ok(key, w.instrPos(rt), "decided by the exponent together with a test of the value ("+strings.Join(byValue, "; ")+")", true)
			default:
				r.ok(key, w.instrPos(rt), "not decided by the exponent: "+strings.Join(all, "; "), len(byValue) > 0)
			}
		}
	}
	if n == 0 {
		r.bad("(*Decimal).Int64 | refusals", w.pos(top.Pos()), "Int64 has no error return")
	}
}

func countKeyPrefix(r *RuleResult, prefix string) int {
	n := 0
	for _, o := range r.Obs {
		if strings.HasPrefix(o.Key, prefix) {
			n++
		}
	}
	return n
}

// mentionsField: the value is computed from a load of the named struct field (of any object).
func mentionsField(v ssa.Value, field string, depth int) bool {
	if depth > 6 {
		return false
	}
	switch x := v.(type) {
	case *ssa.UnOp:
		if x.Op == token.MUL {
			if fa, ok := x.X.(*ssa.FieldAddr); ok {
				if st, isS := pointee(fa.X.Type()).Underlying().(*types.Struct); isS && st.Field(fa.Field).Name() == field {
					return true
				}
			}
			return false
		}
		return mentionsField(x.X, field, depth+1)
	case *ssa.BinOp:
		return mentionsField(x.X, field, depth+1) || mentionsField(x.Y, field, depth+1)
	case *ssa.Convert:
		return mentionsField(x.X, field, depth+1)
	case *ssa.Phi:
		for _, e := range x.Edges {
			if mentionsField(e, field, depth+1) {
				return true
			}
		}
	}
	return false
}

func init() {
	register(&Rule{ID: "C09.R9", Min: 1,
		Text: "the intermediate value quantize rounds (exponent −diff; adjusted exponent = number of digits kept − 1) is not subject to the caller's MaxExponent either: the private context handed to Rounder.Round has MaxExponent = the package limit, so that a result that fits (Quantize(12.345678, −3) at Precision 9, MaxExponent 3 = 12.346, adjusted exponent 1) is not turned into an overflowed infinity, which Quantize reports as InvalidOperation",
		Run:  ruleQuantizeIntermediateMaxExponent})
}

func ruleQuantizeIntermediateMaxExponent(w *World, r *RuleResult) {
	f := w.fn("(*Context).quantize")
	if f == nil {
		r.anchorMissing("(*Context).quantize")
		return
	}
	maxE, ok := int64(0), false
	if c, isC := w.SSA.Members["MaxExponent"].(*ssa.NamedConst); isC {
		maxE, ok = ci(c.Value), true
	}
	if !ok {
		r.anchorMissing("MaxExponent constant")
		return
	}
	n := 0
	for _, g := range w.closureFuncs(f) {
		for _, c := range w.callsTo(g, rounderRound) {
			n++
			key := fmt.Sprintf("%s | intermediate rounding context: MaxExponent", w.shortName(g))
			if k := countKey(r, key); k > 0 {
				key = fmt.Sprintf("%s #%d", key, k+1)
			}
			var ctx ssa.Value
			for _, a := range c.Common().Args {
				if isContextPtr(a.Type()) {
					ctx = a
				}
			}
			if ctx == nil {
				r.undecided(key, w.instrPos(c), "no *Context argument found")
				continue
			}
			base := basePtr(ctx)
			fromCtor := false
			if ci := w.ctxCtor(base); ci != nil {
				if v, ok := ci.Consts["MaxExponent"]; ok && v == fmt.Sprint(maxE) {
					fromCtor = true
				}
			}
			stored := seenBefore(c, func(in ssa.Instruction) bool {
				st, ok := in.(*ssa.Store)
				if !ok {
					return false
				}
				fa, ok := st.Addr.(*ssa.FieldAddr)
				if !ok || basePtr(fa.X) != base || w.exprOf(g, st.Addr).Name != "MaxExponent" {
					return false
				}
				k, isK := st.Val.(*ssa.Const)
				return isK && ci(k) == maxE
			})
			if stored || fromCtor {
				r.ok(key, w.instrPos(c), "private context copy with MaxExponent = package limit on every path", true)
			} else {
				r.bad(key, w.instrPos(c), "the private context keeps the caller's MaxExponent: the intermediate value's adjusted exponent is the number of digits kept less one, which can exceed it although the result's does not — the rounding overflows to infinity and Quantize answers InvalidOperation for a result that fits (Quantize(12.345678, -3) at Precision 9, MaxExponent 3)")
			}
		}
	}
	if n == 0 {
		r.ok("(*Context).quantize | intermediate rounding context: MaxExponent", w.pos(f.Pos()), "quantize does not call Rounder.Round: this shape is not decided", false)
	}
}

func init() {
	register(&Rule{ID: "C07.R10", Min: 1,
		Text: "an operand copied whole into the destination of a rounding operation is rounded to the precision, not just range-checked: from every d.Set(x)/d.Abs(x)/d.Neg(x) whose source is an operand that may be finite and non-zero, every path to a result-delivering return passes a call that reaches Rounder.Round with that destination (Rem(12345, Inf) at Precision 1 must be 1E+4; a setExponent call alone enforces the exponent range only)",
		Run:  ruleOperandCopiesAreRounded})
}

func ruleOperandCopiesAreRounded(w *World, r *RuleResult) {
	if !r.need(w, rounderRound) {
		return
	}
	roundReach := w.reachesFn(rounderRound)
	n := 0
	for _, name := range rangeOps {
		f := w.fn(name)
		if f == nil {
			continue
		}
		if ex := rangeExceptions[name]; ex != nil && ex["*"] != "" {
			continue
		}
		switch name {
		case "(*Context).RoundToIntegralExact", "(*Context).RoundToIntegralValue", "(*Context).Quantize":
			continue // no digit limit (C09), or the limit is a NaN condition of its own (C09.R3)
		}
		roles := w.roles(f)
		di := -1
		for i, p := range f.Params {
			if roles[i] == RoleDest && isDecimalPtr(p.Type()) {
				di = i
			}
		}
		if di < 0 {
			continue
		}
		p := w.newProv(f, nil)
		isDest := func(v ssa.Value) bool {
			for _, l := range p.roots(v) {
				if l.Root.Kind == RParam && l.Root.Param == di {
					return true
				}
			}
			return false
		}
		for _, c := range callsIn(f) {
			call, ok := c.(*ssa.Call)
			if !ok {
				continue
			}
			switch w.calleeName(call) {
			case "(*Decimal).Set", "(*Decimal).setSlow", "(*Decimal).Abs", "(*Decimal).Neg":
			default:
				continue
			}
			args := call.Common().Args
			if len(args) < 2 || !isDest(args[0]) {
				continue
			}
			// only copies of an operand of the operation (a parameter other than the destination)
			fromOperand := false
			for _, l := range p.roots(args[1]) {
				if l.Root.Kind == RParam && l.Root.Param != di && roles[l.Root.Param] == RoleOperand {
					fromOperand = true
				}
			}
			if !fromOperand || w.copySourceFits(f, call) {
				continue
			}
			n++
			key := fmt.Sprintf("%s | operand copy is rounded", name)
			if k := countKey(r, key); k > 0 {
				key = fmt.Sprintf("%s #%d", key, k+1)
			}
			ev := func(in ssa.Instruction) bool {
				u, isCall := in.(*ssa.Call)
				if !isCall {
					return false
				}
				g := callee(u)
				if g == nil || !w.inPkg(g) || !roundReach[g] {
					return false
				}
				for _, a := range u.Common().Args {
					if pointerLike(a.Type()) && isDest(a) {
						return true
					}
				}
				return false
			}
			ok2, ret := mustPassFrom(call, ev, func(rt *ssa.Return) bool { return w.isErrorReturn(rt) })
			if ok2 {
				r.ok(key, w.instrPos(call), "every path from the copy to a result-delivering return passes a call reaching Rounder.Round on the destination", true)
			} else {
				r.bad(key, w.instrPos(call), fmt.Sprintf("the operand copied here reaches the return at %s without a call reaching Rounder.Round on the destination: its digits are not limited to the precision (a setExponent call alone only checks the exponent range)", w.instrPos(ret)))
			}
		}
	}
	if n == 0 {
		r.ok("rounding operations | operand copies", "", "no rounding operation copies a possibly finite operand into its destination itself (they hand the operand to round/Rounder.Round): nothing to decide", false)
	}
}

func init() {
	register(&Rule{ID: "C11.R6", Min: 2,
		Text: "the exact location of the root is skipped only for Precision 0: on every path from the entry of Sqrt and Cbrt to the rounding that delivers the result, the candidate was compared exactly with the operand (cmpPower, directly or in a helper of theirs), or the path left a test of c.Precision against 0 on the zero side — a location that is also skipped by the operand's digit count rounds the Newton approximation itself, which is wrong next to midpoints (Sqrt(999999) at Precision 6 = 1000.00)",
		Run:  ruleRootLocationAlways})
}

func ruleRootLocationAlways(w *World, r *RuleResult) {
	cmp := w.fn("cmpPower")
	if cmp == nil {
		r.anchorMissing("cmpPower")
		return
	}
	reachCmp := w.reachesFn("cmpPower")
	for _, name := range []string{"(*Context).Sqrt", "(*Context).Cbrt"} {
		f := w.fn(name)
		if f == nil {
			r.anchorMissing(name)
			continue
		}
		roles := w.roles(f)
		di := -1
		for i, p := range f.Params {
			if roles[i] == RoleDest && isDecimalPtr(p.Type()) {
				di = i
			}
		}
		if di < 0 {
			r.anchorMissing(name + ": destination")
			continue
		}
		p := w.newProv(f, nil)
		isDest := func(v ssa.Value) bool {
			for _, l := range p.roots(v) {
				if l.Root.Kind == RParam && l.Root.Param == di {
					return true
				}
			}
			return false
		}
		// the delivering roundings: calls reaching Rounder.Round whose destination is d
		roundReach := w.reachesFn(rounderRound)
		var finals []*ssa.Call
		for _, c := range callsIn(f) {
			call, ok := c.(*ssa.Call)
			if !ok {
				continue
			}
			g := callee(call)
			if g == nil || !w.inPkg(g) || !roundReach[g] || reachCmp[g] {
				continue
			}
			if strings.HasSuffix(g.Name(), "Specials") {
				continue // the special-value prologue delivers operands that have no root to locate
			}
			gi := destArgIndex(w, g)
			if gi < 0 || gi >= len(call.Common().Args) || !isDest(call.Common().Args[gi]) {
				continue
			}
			finals = append(finals, call)
		}
		if len(finals) == 0 {
			r.ok(name+" | root located before the final rounding", w.pos(f.Pos()), "no rounding call on the destination in this function: this shape is not decided", false)
			continue
		}
		// forward must-analysis: located[b] = on every path to the start of b the root was located or Precision is 0
		n := len(f.Blocks)
		in := make([]int, n) // -1 unknown, 0 no, 1 yes
		for i := range in {
			in[i] = -1
		}
		in[0] = 0
		locates := func(x ssa.Instruction) bool {
			c, ok := x.(*ssa.Call)
			if !ok {
				return false
			}
			g := callee(c)
			return g != nil && (g == cmp || w.inPkg(g) && reachCmp[g] && g != f)
		}
		precZeroSide := func(from, to *ssa.BasicBlock) bool {
			iff, ok := from.Instrs[len(from.Instrs)-1].(*ssa.If)
			if !ok || from.Succs[0] == from.Succs[1] {
				return false
			}
			bo, ok := iff.Cond.(*ssa.BinOp)
			if !ok {
				return false
			}
			k, isK := bo.Y.(*ssa.Const)
			if !isK || k.Value == nil || ci(k) != 0 || !strings.HasSuffix(w.exprOf(f, bo.X).String(), ".Precision") {
				return false
			}
			ld, isLd := bo.X.(*ssa.UnOp)
			if !isLd || ld.Op != token.MUL {
				return false
			}
			if fa, isFA := ld.X.(*ssa.FieldAddr); !isFA {
				return false
			} else if _, isParam := fa.X.(*ssa.Parameter); !isParam {
				return false
			}
			trueIsZero := bo.Op == token.EQL || bo.Op == token.LEQ
			falseIsZero := bo.Op == token.NEQ || bo.Op == token.GTR
			return trueIsZero && to == from.Succs[0] || falseIsZero && to == from.Succs[1]
		}
		out := func(b *ssa.BasicBlock, st int, upTo ssa.Instruction) int {
			for _, x := range b.Instrs {
				if x == upTo {
					break
				}
				if locates(x) {
					st = 1
				}
			}
			return st
		}
		changed := true
		for iter := 0; changed && iter < 4*n+8; iter++ {
			changed = false
			for _, b := range f.Blocks {
				if b.Index != 0 {
					v := -1
					for _, pb := range b.Preds {
						if in[pb.Index] == -1 {
							continue
						}
						o := out(pb, in[pb.Index], nil)
						if precZeroSide(pb, b) {
							o = 1
						}
						if v == -1 || o < v {
							v = o
						}
					}
					if v != in[b.Index] {
						in[b.Index] = v
						changed = true
					}
				}
			}
		}
		for i, fc := range finals {
			key := name + " | root located before the final rounding"
			if i > 0 {
				key = fmt.Sprintf("%s #%d", key, i+1)
			}
			st := in[fc.Block().Index]
			if st >= 0 {
				st = out(fc.Block(), st, fc)
			}
			if st == 1 {
				r.ok(key, w.instrPos(fc), "every path to this rounding compared the candidate exactly with the operand, or is taken only with Precision 0", true)
			} else {
				r.bad(key, w.instrPos(fc), "a path reaches this rounding without the exact comparison of the candidate with the operand although Precision is not 0: on that path the Newton approximation itself is rounded (wrong next to midpoints and exactly representable roots)")
			}
		}
	}
}
