package main

import (
	"fmt"
	"sort"
	"strings"

	"golang.org/x/tools/go/ssa"
)

func debugDump(w *World, name string) {
	f := w.fn(name)
	if f == nil {
		fmt.Println("no such function; have:", strings.Join(w.Names, " "))
		return
	}
	s := w.summary(f)
	fmt.Printf("== %s  (manual=%v)\n", name, s.Manual)
	for i, p := range f.Params {
		fmt.Printf("  param %d %s %s: reads=%v writes=%v copyFrom=%v derefR=%v derefW=%v\n", i, p.Name(), p.Type(),
			sortedFieldSet(s.Reads[i]), sortedFieldSet(s.Writes[i]), s.CopyFrom[i], sortedFieldSet(s.DerefReads[i]), sortedFieldSet(s.DerefWrites[i]))
	}
	for i, r := range s.Returns {
		var ks []string
		for _, l := range r {
			ks = append(ks, l.key())
		}
		fmt.Printf("  result %d: %v\n", i, ks)
	}
	fmt.Printf("  greads=%v gwrites=%v unknown=%v\n", sortedFieldSet(s.GReads), sortedFieldSet(s.GWrites), s.UnknownPtr)
	for i, p := range f.Params {
		if !isPointer(p.Type()) {
			continue
		}
		fr := w.flow(f, i, -1)
		fmt.Printf("  flow track=%s: split=%v mustAll=%v mustT=%v mustF=%v ue=%v anyNonErr=%v\n", p.Name(), fr.Split, sortedFieldSet(fr.MustAll), sortedFieldSet(fr.MustT), sortedFieldSet(fr.MustF), sortedUE(fr.UERead), fr.AnyNonErrorReturn)
		for _, fl := range sortedUE(fr.UERead) {
			for _, e := range fr.UERead[fl] {
				fmt.Printf("     UE %s: %s\n", fl, w.effectString(e))
			}
		}
		for _, rs := range fr.Returns {
			fmt.Printf("     return@%s err=%v bool0=%d must=%v may=%v\n", w.instrPos(rs.In), rs.IsError, rs.Bool0, sortedFieldSet(rs.Must), mayString(rs.May))
		}
		for j, q := range f.Params {
			if j == i || !isPointer(q.Type()) || q.Type().String() != p.Type().String() {
				continue
			}
			fa := w.flow(f, i, j)
			fmt.Printf("  RAW dest=%s operand=%s: %d hazards\n", p.Name(), q.Name(), len(fa.Hazards))
			for _, h := range fa.Hazards {
				fmt.Printf("     hazard field %s: %s after write(%s) at %s\n", h.Field, w.effectString(h.Read), h.Tag, w.instrPos(h.WriteAt))
			}
		}
	}
}

func mayString(m fieldTags) string {
	var parts []string
	for f, tags := range m {
		var ts []string
		for t := range tags {
			ts = append(ts, t)
		}
		sort.Strings(ts)
		parts = append(parts, f+":"+strings.Join(ts, "+"))
	}
	sort.Strings(parts)
	return strings.Join(parts, " ")
}

var _ = ssa.NaiveForm

func runSelfTest(p *PropertyDef, variants, repo string) (int, int, []string) {
	return selfTest(p, variants, repo)
}
