package main

import (
	"fmt"
	"go/token"
	"strings"

	"golang.org/x/tools/go/ssa"
)

const rounderRound = "(Rounder).Round"

func init() {
	register(&Rule{ID: "C01.R3", Min: 15,
		Text: "single rounding: in the single-rounding operations no path contains two calls that reach Rounder.Round, every path that computes the destination coefficient arithmetically passes one before a result-delivering return, and Rounder.Round's subnormal early return cannot reach its own digit-discarding division",
		Run:  ruleSingleRounding})
	register(&Rule{ID: "C01.R4", Min: 1,
		Text: "Precision 0 means exact: in Rounder.Round the digit-discarding division is unreachable on the edge disableIfPrecisionZero ∧ c.Precision == 0, and only quantize passes disableIfPrecisionZero=false",
		Run:  rulePrecisionZero})
}

// singleRoundingOps: the operations of C01/C03 that round exactly once.
var singleRoundingOps = []string{
	"(*Context).add", "(*Context).Add", "(*Context).Sub", "(*Context).Mul", "(*Context).Abs", "(*Context).Neg",
	"(*Context).Rem", "(*Context).Reduce", "(*Context).SetString", "(*Context).Round",
	// Quantize is not listed: after quantize() has rounded to the requested exponent it calls round once more
	// under the guard NumDigits <= Precision, where no digit can be discarded (range check only); see C09.
}

// maxCallsOnPath computes, per return, the maximum number of calls satisfying
// ev on any path from entry (capped at 2; loops saturate).
func maxCallsOnPath(f *ssa.Function, ev func(ssa.Instruction) bool) map[*ssa.Return]int {
	n := len(f.Blocks)
	in := make([]int, n)
	for i := range in {
		in[i] = -1
	}
	in[0] = 0
	out := map[*ssa.Return]int{}
	changed := true
	for iter := 0; changed && iter < 8*n+16; iter++ {
		changed = false
		for _, b := range f.Blocks {
			if in[b.Index] < 0 {
				continue
			}
			cur := in[b.Index]
			for _, x := range b.Instrs {
				if ev(x) && cur < 2 {
					cur++
				}
				if r, ok := x.(*ssa.Return); ok {
					if cur > out[r] {
						out[r] = cur
					}
				}
			}
			for _, s := range b.Succs {
				if cur > in[s.Index] {
					in[s.Index] = cur
					changed = true
				}
			}
		}
	}
	return out
}

func ruleSingleRounding(w *World, r *RuleResult) {
	if !r.need(w, rounderRound) {
		return
	}
	reach := w.reachesFn(rounderRound)
	isRound := func(in ssa.Instruction) bool {
		if c, ok := in.(ssa.CallInstruction); ok {
			if g := callee(c); g != nil && reach[g] {
				return true
			}
		}
		return false
	}
	for _, name := range singleRoundingOps {
		f := w.fn(name)
		if f == nil {
			r.anchorMissing(name)
			continue
		}
		// (a) never two roundings on one path
		key := name + " | at most one rounding per path"
		worst, at := 0, (*ssa.Return)(nil)
		for rt, n := range maxCallsOnPath(f, isRound) {
			if n > worst {
				worst, at = n, rt
			}
		}
		if worst >= 2 {
			r.bad(key, w.instrPos(at), "a path to this return rounds twice (two calls reaching Rounder.Round): double rounding")
		} else {
			r.ok(key, w.pos(f.Pos()), fmt.Sprintf("max %d rounding call on any path", worst), true)
		}
		// (b) arithmetic coefficient writes are followed by a rounding
		p := w.newProv(f, nil)
		idx := 0
		for _, c := range callsIn(f) {
			cn := w.calleeName(c)
			if !hasPrefixAny(cn, "(*BigInt).Add", "(*BigInt).Sub", "(*BigInt).Mul", "(*BigInt).Quo", "(*BigInt).QuoRem", "(*BigInt).SetString") {
				continue
			}
			writesDest := false
			for i, a := range c.Common().Args {
				if i != 0 && !(cn == "(*BigInt).QuoRem" && i == 3) {
					continue
				}
				for _, l := range p.roots(a) {
					if l.Root.Kind == RParam && l.Field == "Coeff" && w.roles(f)[l.Root.Param] == RoleDest {
						writesDest = true
					}
				}
			}
			if !writesDest {
				continue
			}
			idx++
			k2 := fmt.Sprintf("%s | coefficient computed by %s is rounded", name, cn)
			if idx > 1 {
				k2 = fmt.Sprintf("%s #%d", k2, idx)
			}
			ev := func(in ssa.Instruction) bool {
				if isRound(in) {
					return true
				}
				// replaced by a shared special (NaN): nothing left to round
				if di := destArgIndex(w, f); di < len(f.Params) && w.nanWholeWrite(in, ssa.Value(f.Params[di])) {
					return true
				}
				if cc, ok := in.(*ssa.Call); ok && w.calleeName(cc) == "(*Decimal).Set" {
					for _, l := range p.roots(cc.Common().Args[1]) {
						if l.Root.shared() {
							return true
						}
					}
				}
				return false
			}
			ok, ret := mustPassFrom(c, ev, func(rt *ssa.Return) bool { return w.isErrorReturn(rt) })
			if ok {
				r.ok(k2, w.instrPos(c), "every path to a result-delivering return passes a call reaching Rounder.Round", true)
			} else {
				r.bad(k2, w.instrPos(c), fmt.Sprintf("the return at %s delivers the arithmetic coefficient without rounding it to the context", w.instrPos(ret)))
			}
		}
	}
	// (b') whatever writes the destination last (parser, copy of an operand, helper), a rounding follows
	for _, name := range singleRoundingOps {
		f := w.fn(name)
		if f == nil {
			continue
		}
		di := destArgIndex(w, f)
		if !isDecimalPtr(f.Params[di].Type()) {
			continue
		}
		key := name + " | every delivered value was rounded after its last write"
		exc := map[string]string{"(*Decimal).Reduce": "strip after rounding", "store Negative": "sign only"}
		probs := w.dirtyReturns(f, di, reach, exc)
		if len(probs) == 0 {
			r.ok(key, w.pos(f.Pos()), "after the last non-special write of the destination every path to a result-delivering return passes a call reaching Rounder.Round", true)
		} else {
			r.bad(key, w.pos(f.Pos()), strings.Join(uniqStrings(probs), "; "))
		}
	}
	// (c) subnormal early return inside Rounder.Round
	f := w.fn(rounderRound)
	key := rounderRound + " | subnormal path does not discard digits twice"
	var divBlocks []*ssa.BasicBlock
	for _, c := range w.digitDiscardSites(f) {
		divBlocks = append(divBlocks, c.Block())
	}
	if len(divBlocks) == 0 {
		r.anchorMissing(rounderRound + ": QuoRem")
		return
	}
	found := false
	for _, b := range f.Blocks {
		iff, ok := b.Instrs[len(b.Instrs)-1].(*ssa.If)
		if !ok {
			continue
		}
		lv := w.exprOf(f, iff.Cond).leaves()
		if !lv["c.MinExponent"] {
			continue
		}
		found = true
		sub := b.Succs[0] // adj < MinExponent
		if bo, ok := iff.Cond.(*ssa.BinOp); ok && (bo.Op == token.GEQ || bo.Op == token.GTR) {
			// written as MinExponent > adj / adj >= MinExponent: determine polarity by operand order
			if w.exprOf(f, bo.X).leaves()["c.MinExponent"] == (bo.Op == token.GEQ) {
				sub = b.Succs[1]
			}
		}
		bad := false
		for _, d := range divBlocks {
			if sub == d || reaches(sub, d) {
				bad = true
			}
		}
		if bad {
			r.bad(key, w.instrPos(iff), "after handing a subnormal value to setExponent (which rounds it) the digit-discarding division is still reachable: subnormal results are rounded twice")
		} else {
			r.ok(key, w.instrPos(iff), "the subnormal edge returns through setExponent and cannot reach the digit-discarding QuoRem", true)
		}
	}
	if !found {
		r.bad(key, w.pos(f.Pos()), "Rounder.Round has no branch on c.MinExponent: subnormal values are not diverted before the digit-discarding step (double rounding)")
	}
}

func rulePrecisionZero(w *World, r *RuleResult) {
	f := w.fn(rounderRound)
	if f == nil {
		r.anchorMissing(rounderRound)
		return
	}
	pi := paramIndex(f, "disableIfPrecisionZero")
	if pi < 0 {
		r.anchorMissing(rounderRound + " param disableIfPrecisionZero")
		return
	}
	divs := w.digitDiscardSites(f)
	key := rounderRound + " | Precision 0 disables digit discarding"
	okAll := len(divs) > 0
	for _, d := range divs {
		// the division block must be unreachable once both facts hold: find a block guarded by
		// disable==true and Precision==0 true whose region excludes d
		guardedOut := false
		for _, b := range f.Blocks {
			hasDis, hasPrec := false, false
			for _, g := range guardsAt(b) {
				e := w.exprOf(f, g.Cond)
				lv := e.leaves()
				if g.Val && lv["param:disableIfPrecisionZero"] && len(lv) == 1 {
					hasDis = true
				}
				if g.Val && lv["c.Precision"] && lv["const:0"] {
					if bo, ok := g.Cond.(*ssa.BinOp); ok && bo.Op == token.EQL {
						hasPrec = true
					}
				}
			}
			if hasDis && hasPrec && !reaches(b, d.Block()) && b != d.Block() {
				guardedOut = true
			}
		}
		// and the division itself must not be reachable with both facts true: it must be
		// dominated by the false edge of one of them, or not dominated by their true edges
		domT := false
		for _, g := range guardsAt(d.Block()) {
			lv := w.exprOf(f, g.Cond).leaves()
			if g.Val && lv["c.Precision"] && lv["const:0"] {
				if bo, ok := g.Cond.(*ssa.BinOp); ok && bo.Op == token.EQL {
					domT = true
				}
			}
		}
		if !guardedOut || domT {
			okAll = false
		}
	}
	if !okAll && len(divs) > 0 {
		// path form of the same statement (the two tests may be one short-circuit case of a switch, whose
		// false side is a disjunction no dominating guard expresses): no path through a division site takes
		// both the disable==true and the Precision==0 decision
		if paths, enumerable := enumPaths(f, 8192); enumerable {
			viol := false
			for _, p := range paths {
				through := false
				for _, b := range p.Blocks {
					for _, d := range divs {
						if b == d.Block() {
							through = true
						}
					}
				}
				if !through {
					continue
				}
				dis, prec, feasible := false, false, true
				for _, d := range p.Decisions {
					c := phiOnPath(d.Cond, p)
					val := d.Val
					for {
						u, isU := c.(*ssa.UnOp)
						if !isU || u.Op != token.NOT {
							break
						}
						c, val = u.X, !val
					}
					switch x := c.(type) {
					case *ssa.Const:
						if x.Value != nil && boolConst(x) != val {
							feasible = false
						}
					case *ssa.Parameter:
						if x == f.Params[pi] && val {
							dis = true
						}
					case *ssa.BinOp:
						lv := w.exprOf(f, x).leaves()
						if lv["c.Precision"] && lv["const:0"] && (x.Op == token.EQL && val || x.Op == token.NEQ && !val) {
							prec = true
						}
					}
				}
				if feasible && dis && prec {
					viol = true
				}
			}
			if !viol {
				okAll = true
			}
		}
	}
	if okAll {
		r.ok(key, w.pos(f.Pos()), "the edge disableIfPrecisionZero ∧ c.Precision==0 returns through setExponent only; no division is reachable from it", true)
	} else {
		r.bad(key, w.pos(f.Pos()), "with Precision 0 (rounding disabled) the digit-discarding division is still reachable: results would be cut to 0 digits")
	}
	// callers
	for _, c := range w.callersOf(f) {
		g := c.Parent()
		k2 := fmt.Sprintf("%s | disableIfPrecisionZero argument", w.shortName(g))
		e := w.exprOf(g, c.Common().Args[pi])
		vals, isConst := e.constValues()
		allTrue := isConst
		for _, v := range vals {
			if v != "true" {
				allTrue = false
			}
		}
		switch {
		case allTrue:
			r.ok(k2, w.instrPos(c), "passes true", false)
		case w.ownerIn(g, []string{"(*Context).quantize"}) != "":
			r.ok(k2, w.instrPos(c), "tabled: quantize rounds to a computed digit count that may legitimately be 0", true)
		default:
			r.bad(k2, w.instrPos(c), "passes "+e.String()+": with Precision 0 this caller would round to zero digits instead of returning the exact result")
		}
	}
	_ = strings.Join
}

// digitDiscardSites: the calls in f that divide the coefficient (QuoRem/Quo),
// or that hand the work to an unexported helper split off f which does.
func (w *World) digitDiscardSites(f *ssa.Function) []*ssa.Call {
	var out []*ssa.Call
	out = append(out, w.callsTo(f, "(*BigInt).QuoRem")...)
	out = append(out, w.callsTo(f, "(*BigInt).Quo")...)
	closure := w.privateClosure(f)
	for _, c := range callsIn(f) {
		call, ok := c.(*ssa.Call)
		if !ok {
			continue
		}
		g := callee(call)
		if g == nil || g == f || !closure[g] {
			continue
		}
		for h := range w.reachable([]*ssa.Function{g}) {
			if !closure[h] {
				continue
			}
			if len(w.callsTo(h, "(*BigInt).QuoRem")) > 0 || len(w.callsTo(h, "(*BigInt).Quo")) > 0 {
				out = append(out, call)
				break
			}
		}
	}
	return out
}
