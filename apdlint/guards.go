package main

import (
	"golang.org/x/tools/go/ssa"
)

// A6 — guard facts: branch conditions known on every path to a block.

type Guard struct {
	Cond ssa.Value
	Val  bool
	At   *ssa.If
}

// guardsAt returns the conditions established by dominating branches of b:
// for each dominator A ending in `if c`, if one successor S of A has A as its
// only predecessor and dominates b (or is b), c's value on that edge holds in b.
func guardsAt(b *ssa.BasicBlock) []Guard {
	var out []Guard
	for a := b.Idom(); a != nil; a = a.Idom() {
		if len(a.Instrs) == 0 {
			continue
		}
		iff, ok := a.Instrs[len(a.Instrs)-1].(*ssa.If)
		if !ok {
			continue
		}
		t, f := a.Succs[0], a.Succs[1]
		if t == f {
			continue
		}
		tOK := len(t.Preds) == 1 && t.Dominates(b)
		fOK := len(f.Preds) == 1 && f.Dominates(b)
		if tOK && !fOK {
			out = append(out, Guard{iff.Cond, true, iff})
		} else if fOK && !tOK {
			out = append(out, Guard{iff.Cond, false, iff})
		}
	}
	return out
}

// edgeGuards returns the guards known on the CFG edge from -> to.
func edgeGuards(from, to *ssa.BasicBlock) []Guard {
	out := guardsAt(from)
	if len(from.Instrs) > 0 {
		if iff, ok := from.Instrs[len(from.Instrs)-1].(*ssa.If); ok && from.Succs[0] != from.Succs[1] {
			if from.Succs[0] == to {
				out = append(out, Guard{iff.Cond, true, iff})
			} else if from.Succs[1] == to {
				out = append(out, Guard{iff.Cond, false, iff})
			}
		}
	}
	return out
}
