package main

import (
	"golang.org/x/tools/go/ssa"
)

// A6 — guard facts: branch conditions known on every path to a block.

type Guard struct {
	Cond ssa.Value
	Val  bool
	At   *ssa.If
}

// guardsAt returns the conditions established by dominating branches of b:
// for each dominator A ending in `if c`, if one successor S of A has A as its
// only predecessor and dominates b (or is b), c's value on that edge holds in b.
func guardsAt(b *ssa.BasicBlock) []Guard {
	var out []Guard
	for a := b.Idom(); a != nil; a = a.Idom() {
		if len(a.Instrs) == 0 {
			continue
		}
		iff, ok := a.Instrs[len(a.Instrs)-1].(*ssa.If)
		if !ok {
			continue
		}
		t, f := a.Succs[0], a.Succs[1]
		if t == f {
			continue
		}
		tOK := len(t.Preds) == 1 && t.Dominates(b)
		fOK := len(f.Preds) == 1 && f.Dominates(b)
		if tOK && !fOK {
			out = append(out, expandGuard(Guard{iff.Cond, true, iff}, 0)...)
		} else if fOK && !tOK {
			out = append(out, expandGuard(Guard{iff.Cond, false, iff}, 0)...)
		}
	}
	return out
}

// expandGuard decomposes short-circuit conditions that go/ssa materialises as
// a φ of booleans (`a && b` used as a value, e.g. a switch-true case):
// φ[false…, B] known true  ⇒ B is true (and so are the conditions on B's edge);
// φ[true…,  B] known false ⇒ B is false.
func expandGuard(g Guard, depth int) []Guard {
	out := []Guard{g}
	if depth > 4 {
		return out
	}
	switch c := g.Cond.(type) {
	case *ssa.UnOp:
		if c.Op.String() == "!" {
			out = append(out, expandGuard(Guard{c.X, !g.Val, g.At}, depth+1)...)
		}
	case *ssa.Phi:
		var nonConst []int
		allConst := true
		for i, e := range c.Edges {
			k, isK := e.(*ssa.Const)
			if !isK || k.Value == nil {
				nonConst = append(nonConst, i)
				continue
			}
			if (k.Value.String() == "true") == g.Val {
				allConst = false // a constant edge already yields the known value: nothing follows
			}
		}
		if allConst && len(nonConst) == 1 {
			i := nonConst[0]
			out = append(out, expandGuard(Guard{c.Edges[i], g.Val, g.At}, depth+1)...)
			// the φ's value came through that edge: its edge conditions hold too
			for _, eg := range edgeGuardsRaw(c.Block().Preds[i], c.Block()) {
				out = append(out, eg)
			}
		} else {
			// general case (a boolean accumulated over several tests: `bad := t1; if !bad { bad = t2 } …`):
			// an edge whose incoming value is known — a constant, or the very value its own branch
			// condition settles — and differs from the φ's known value was not taken; what holds on all
			// the remaining edges holds here
			sets := phiEdgeFacts(c, g, depth)
			if len(sets) > 0 && len(sets) < len(c.Edges) {
				for _, g0 := range sets[0] {
					common := true
					for _, s := range sets[1:] {
						found := false
						for _, g1 := range s {
							if g1.Cond == g0.Cond && g1.Val == g0.Val {
								found = true
							}
						}
						if !found {
							common = false
						}
					}
					if common {
						out = append(out, expandGuard(g0, depth+1)...)
					}
				}
			}
		}
	}
	return out
}

func edgeGuardsRaw(from, to *ssa.BasicBlock) []Guard {
	var out []Guard
	for a := from; a != nil; a = a.Idom() {
		if len(a.Instrs) == 0 {
			continue
		}
		iff, ok := a.Instrs[len(a.Instrs)-1].(*ssa.If)
		if !ok {
			continue
		}
		t, f := a.Succs[0], a.Succs[1]
		if t == f {
			continue
		}
		if a == from {
			continue
		}
		tOK := len(t.Preds) == 1 && t.Dominates(from)
		fOK := len(f.Preds) == 1 && f.Dominates(from)
		if tOK && !fOK {
			out = append(out, Guard{iff.Cond, true, iff})
		} else if fOK && !tOK {
			out = append(out, Guard{iff.Cond, false, iff})
		}
	}
	return out
}

// edgeGuards returns the guards known on the CFG edge from -> to.
func edgeGuards(from, to *ssa.BasicBlock) []Guard {
	out := guardsAt(from)
	if len(from.Instrs) > 0 {
		if iff, ok := from.Instrs[len(from.Instrs)-1].(*ssa.If); ok && from.Succs[0] != from.Succs[1] {
			if from.Succs[0] == to {
				out = append(out, expandGuard(Guard{iff.Cond, true, iff}, 0)...)
			} else if from.Succs[1] == to {
				out = append(out, expandGuard(Guard{iff.Cond, false, iff}, 0)...)
			}
		}
	}
	return out
}

// DeepGuard is a guard fact together with the function whose values it speaks about.
type DeepGuard struct {
	Fn *ssa.Function
	Guard
	Via *ssa.Call // the predicate call in the outer function through which the fact was obtained (nil: direct)
}

// guardsAtDeep: the guard facts of block b of f, plus — for every fact that is the outcome of an unexported
// boolean predicate helper h(...) — the facts that hold inside h on every return that delivers that outcome
// (constant true/false results only). The helper's facts speak about the helper's own values.
func (w *World) guardsAtDeep(f *ssa.Function, b *ssa.BasicBlock) []DeepGuard {
	var out []DeepGuard
	for _, g := range guardsAt(b) {
		out = append(out, DeepGuard{f, g, nil})
		cond, val := g.Cond, g.Val
		if u, ok := cond.(*ssa.UnOp); ok && u.Op.String() == "!" {
			cond, val = u.X, !val
		}
		call, ok := cond.(*ssa.Call)
		if !ok {
			continue
		}
		h := callee(call)
		if h == nil || !w.inPkg(h) || len(h.Blocks) == 0 || h.Signature.Results().Len() != 1 || h.Signature.Results().At(0).Type().String() != "bool" {
			continue
		}
		var sets [][]Guard
		okAll := true
		for _, hb := range h.Blocks {
			rt, isRet := hb.Instrs[len(hb.Instrs)-1].(*ssa.Return)
			if !isRet {
				continue
			}
			k, isK := rt.Results[0].(*ssa.Const)
			if !isK || k.Value == nil {
				// the outcome is computed (`return 'A' <= c && c <= 'Z'`): on this return it has the value
				// in question, which says something about the values it was computed from
				fs := append([]Guard{}, guardsAt(hb)...)
				fs = append(fs, expandGuard(Guard{rt.Results[0], val, nil}, 0)...)
				sets = append(sets, fs)
				continue
			}
			if (k.Value.String() == "true") != val {
				continue
			}
			sets = append(sets, guardsAt(hb))
		}
		if !okAll || len(sets) == 0 {
			continue
		}
		// facts common to all the returns with that outcome
		for _, g0 := range sets[0] {
			common := true
			for _, s := range sets[1:] {
				found := false
				for _, g1 := range s {
					if g1.Cond == g0.Cond && g1.Val == g0.Val {
						found = true
					}
				}
				if !found {
					common = false
				}
			}
			if common {
				out = append(out, DeepGuard{h, g0, call})
			}
		}
	}
	return out
}

// rawEdgeConds: the branch conditions known on the edge from -> to, unexpanded: those of from's dominators
// and from's own branch.
func rawEdgeConds(from, to *ssa.BasicBlock) []Guard {
	out := edgeGuardsRaw(from, to)
	if len(from.Instrs) > 0 {
		if iff, ok := from.Instrs[len(from.Instrs)-1].(*ssa.If); ok && from.Succs[0] != from.Succs[1] {
			if from.Succs[0] == to {
				out = append(out, Guard{iff.Cond, true, iff})
			} else if from.Succs[1] == to {
				out = append(out, Guard{iff.Cond, false, iff})
			}
		}
	}
	return out
}

// guardAlternatives: the guard facts of b as a disjunction. A block entered over several edges (the body of
// `if A || B`, a shared case of a switch) has no dominating test of its own; what holds there is what holds
// on one of its incoming edges. Each alternative is the fact list of one edge; a property of the facts at b
// holds if it holds in every alternative.
func guardAlternatives(b *ssa.BasicBlock) [][]Guard {
	if len(b.Preds) <= 1 {
		base := guardsAt(b)
		// a test of a short-circuit value (`if A || B` built as a φ of booleans): one alternative per way
		// the value can have come about
		for _, g := range base {
			phi, isPhi := g.Cond.(*ssa.Phi)
			if !isPhi {
				continue
			}
			sets := phiEdgeFacts(phi, g, 0)
			if len(sets) < 2 || len(sets) > 6 {
				continue
			}
			var out [][]Guard
			for _, fs := range sets {
				alt := append([]Guard{}, base...)
				for _, f := range fs {
					alt = append(alt, expandGuard(f, 1)...)
				}
				out = append(out, alt)
			}
			return out
		}
		return [][]Guard{base}
	}
	var out [][]Guard
	for _, p := range b.Preds {
		if p == b {
			continue
		}
		out = append(out, edgeGuards(p, b))
	}
	if len(out) == 0 {
		return [][]Guard{guardsAt(b)}
	}
	return out
}

// phiEdgeFacts: for a boolean φ known to have the value g.Val, the fact sets of the incoming edges over
// which that value can have arrived (edge conditions plus what the incoming value itself tells).
func phiEdgeFacts(c *ssa.Phi, g Guard, depth int) [][]Guard {
	var sets [][]Guard
	for i, e := range c.Edges {
		pred := c.Block().Preds[i]
		conds := rawEdgeConds(pred, c.Block())
		known, val := false, false
		if k, isK := e.(*ssa.Const); isK && k.Value != nil {
			known, val = true, k.Value.String() == "true"
		} else {
			for _, eg := range conds {
				if eg.Cond == e {
					known, val = true, eg.Val
				}
				if u, isU := eg.Cond.(*ssa.UnOp); isU && u.Op.String() == "!" && u.X == e {
					known, val = true, !eg.Val
				}
			}
		}
		if known && val != g.Val {
			continue
		}
		fs := append([]Guard{}, conds...)
		if !known {
			fs = append(fs, expandGuard(Guard{e, g.Val, g.At}, depth+1)...)
		}
		sets = append(sets, fs)
	}
	return sets
}

// sameCond: two branch conditions are the same test — the same value, or (go/ssa does no CSE) two binary
// operations with the same operator on the same values or equal constants.
func sameCond(a, b ssa.Value) bool {
	if a == b {
		return true
	}
	x, ok1 := a.(*ssa.BinOp)
	y, ok2 := b.(*ssa.BinOp)
	if !ok1 || !ok2 || x.Op != y.Op {
		return false
	}
	same := func(p, q ssa.Value) bool {
		if p == q {
			return true
		}
		k1, c1 := p.(*ssa.Const)
		k2, c2 := q.(*ssa.Const)
		return c1 && c2 && k1.Value != nil && k2.Value != nil && k1.Value.String() == k2.Value.String() && k1.Type().String() == k2.Type().String()
	}
	return same(x.X, y.X) && same(x.Y, y.Y)
}

// feasibleAlternatives drops the alternatives that contain a test together with its negation.
func feasibleAlternatives(alts [][]Guard) [][]Guard {
	var out [][]Guard
	for _, alt := range alts {
		ok := true
		for i := 0; i < len(alt) && ok; i++ {
			for j := i + 1; j < len(alt); j++ {
				if alt[i].Val != alt[j].Val && sameCond(alt[i].Cond, alt[j].Cond) {
					ok = false
					break
				}
			}
		}
		if ok {
			out = append(out, alt)
		}
	}
	return out
}

// guardAlternativesDeep: as guardAlternatives, but every short-circuit value among the dominating tests is
// split (the product of the ways each can have come about, capped).
func guardAlternativesDeep(b *ssa.BasicBlock) [][]Guard {
	base := guardsAt(b)
	alts := [][]Guard{base}
	for _, g := range base {
		phi, isPhi := g.Cond.(*ssa.Phi)
		if !isPhi {
			continue
		}
		sets := phiEdgeFacts(phi, g, 0)
		if len(sets) < 2 || len(sets)*len(alts) > 16 {
			continue
		}
		var next [][]Guard
		for _, alt := range alts {
			for _, fs := range sets {
				na := append([]Guard{}, alt...)
				for _, f := range fs {
					na = append(na, expandGuard(f, 1)...)
				}
				next = append(next, na)
			}
		}
		alts = next
	}
	return alts
}
