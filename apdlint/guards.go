package main

import (
	"golang.org/x/tools/go/ssa"
)

// A6 — guard facts: branch conditions known on every path to a block.

type Guard struct {
	Cond ssa.Value
	Val  bool
	At   *ssa.If
}

// guardsAt returns the conditions established by dominating branches of b:
// for each dominator A ending in `if c`, if one successor S of A has A as its
// only predecessor and dominates b (or is b), c's value on that edge holds in b.
func guardsAt(b *ssa.BasicBlock) []Guard {
	var out []Guard
	for a := b.Idom(); a != nil; a = a.Idom() {
		if len(a.Instrs) == 0 {
			continue
		}
		iff, ok := a.Instrs[len(a.Instrs)-1].(*ssa.If)
		if !ok {
			continue
		}
		t, f := a.Succs[0], a.Succs[1]
		if t == f {
			continue
		}
		tOK := len(t.Preds) == 1 && t.Dominates(b)
		fOK := len(f.Preds) == 1 && f.Dominates(b)
		if tOK && !fOK {
			out = append(out, expandGuard(Guard{iff.Cond, true, iff}, 0)...)
		} else if fOK && !tOK {
			out = append(out, expandGuard(Guard{iff.Cond, false, iff}, 0)...)
		}
	}
	return out
}

// expandGuard decomposes short-circuit conditions that go/ssa materialises as
// a φ of booleans (`a && b` used as a value, e.g. a switch-true case):
// φ[false…, B] known true  ⇒ B is true (and so are the conditions on B's edge);
// φ[true…,  B] known false ⇒ B is false.
func expandGuard(g Guard, depth int) []Guard {
	out := []Guard{g}
	if depth > 4 {
		return out
	}
	switch c := g.Cond.(type) {
	case *ssa.UnOp:
		if c.Op.String() == "!" {
			out = append(out, expandGuard(Guard{c.X, !g.Val, g.At}, depth+1)...)
		}
	case *ssa.Phi:
		var nonConst []int
		allConst := true
		for i, e := range c.Edges {
			k, isK := e.(*ssa.Const)
			if !isK || k.Value == nil {
				nonConst = append(nonConst, i)
				continue
			}
			if (k.Value.String() == "true") == g.Val {
				allConst = false // a constant edge already yields the known value: nothing follows
			}
		}
		if allConst && len(nonConst) == 1 {
			i := nonConst[0]
			out = append(out, expandGuard(Guard{c.Edges[i], g.Val, g.At}, depth+1)...)
			// the φ's value came through that edge: its edge conditions hold too
			for _, eg := range edgeGuardsRaw(c.Block().Preds[i], c.Block()) {
				out = append(out, eg)
			}
		}
	}
	return out
}

func edgeGuardsRaw(from, to *ssa.BasicBlock) []Guard {
	var out []Guard
	for a := from; a != nil; a = a.Idom() {
		if len(a.Instrs) == 0 {
			continue
		}
		iff, ok := a.Instrs[len(a.Instrs)-1].(*ssa.If)
		if !ok {
			continue
		}
		t, f := a.Succs[0], a.Succs[1]
		if t == f {
			continue
		}
		if a == from {
			continue
		}
		tOK := len(t.Preds) == 1 && t.Dominates(from)
		fOK := len(f.Preds) == 1 && f.Dominates(from)
		if tOK && !fOK {
			out = append(out, Guard{iff.Cond, true, iff})
		} else if fOK && !tOK {
			out = append(out, Guard{iff.Cond, false, iff})
		}
	}
	return out
}

// edgeGuards returns the guards known on the CFG edge from -> to.
func edgeGuards(from, to *ssa.BasicBlock) []Guard {
	out := guardsAt(from)
	if len(from.Instrs) > 0 {
		if iff, ok := from.Instrs[len(from.Instrs)-1].(*ssa.If); ok && from.Succs[0] != from.Succs[1] {
			if from.Succs[0] == to {
				out = append(out, expandGuard(Guard{iff.Cond, true, iff}, 0)...)
			} else if from.Succs[1] == to {
				out = append(out, expandGuard(Guard{iff.Cond, false, iff}, 0)...)
			}
		}
	}
	return out
}
