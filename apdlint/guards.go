package main

import (
	"golang.org/x/tools/go/ssa"
)

// A6 — guard facts: branch conditions known on every path to a block.

type Guard struct {
	Cond ssa.Value
	Val  bool
	At   *ssa.If
}

// guardsAt returns the conditions established by dominating branches of b:
// for each dominator A ending in `if c`, if one successor S of A has A as its
// only predecessor and dominates b (or is b), c's value on that edge holds in b.
func guardsAt(b *ssa.BasicBlock) []Guard {
	var out []Guard
	for a := b.Idom(); a != nil; a = a.Idom() {
		if len(a.Instrs) == 0 {
			continue
		}
		iff, ok := a.Instrs[len(a.Instrs)-1].(*ssa.If)
		if !ok {
			continue
		}
		t, f := a.Succs[0], a.Succs[1]
		if t == f {
			continue
		}
		tOK := len(t.Preds) == 1 && t.Dominates(b)
		fOK := len(f.Preds) == 1 && f.Dominates(b)
		if tOK && !fOK {
			out = append(out, expandGuard(Guard{iff.Cond, true, iff}, 0)...)
		} else if fOK && !tOK {
			out = append(out, expandGuard(Guard{iff.Cond, false, iff}, 0)...)
		}
	}
	return out
}

// expandGuard decomposes short-circuit conditions that go/ssa materialises as
// a φ of booleans (`a && b` used as a value, e.g. a switch-true case):
// φ[false…, B] known true  ⇒ B is true (and so are the conditions on B's edge);
// φ[true…,  B] known false ⇒ B is false.
func expandGuard(g Guard, depth int) []Guard {
	out := []Guard{g}
	if depth > 4 {
		return out
	}
	switch c := g.Cond.(type) {
	case *ssa.UnOp:
		if c.Op.String() == "!" {
			out = append(out, expandGuard(Guard{c.X, !g.Val, g.At}, depth+1)...)
		}
	case *ssa.Phi:
		var nonConst []int
		allConst := true
		for i, e := range c.Edges {
			k, isK := e.(*ssa.Const)
			if !isK || k.Value == nil {
				nonConst = append(nonConst, i)
				continue
			}
			if (k.Value.String() == "true") == g.Val {
				allConst = false // a constant edge already yields the known value: nothing follows
			}
		}
		if allConst && len(nonConst) == 1 {
			i := nonConst[0]
			out = append(out, expandGuard(Guard{c.Edges[i], g.Val, g.At}, depth+1)...)
			// the φ's value came through that edge: its edge conditions hold too
			for _, eg := range edgeGuardsRaw(c.Block().Preds[i], c.Block()) {
				out = append(out, eg)
			}
		} else {
			// general case (a boolean accumulated over several tests: `bad := t1; if !bad { bad = t2 } …`):
			// an edge whose incoming value is known — a constant, or the very value its own branch
			// condition settles — and differs from the φ's known value was not taken; what holds on all
			// the remaining edges holds here
			var sets [][]Guard
			for i, e := range c.Edges {
				pred := c.Block().Preds[i]
				conds := rawEdgeConds(pred, c.Block())
				known, val := false, false
				if k, isK := e.(*ssa.Const); isK && k.Value != nil {
					known, val = true, k.Value.String() == "true"
				} else {
					for _, eg := range conds {
						if eg.Cond == e {
							known, val = true, eg.Val
						}
						if u, isU := eg.Cond.(*ssa.UnOp); isU && u.Op.String() == "!" && u.X == e {
							known, val = true, !eg.Val
						}
					}
				}
				if known && val != g.Val {
					continue
				}
				fs := append([]Guard{}, conds...)
				if !known {
					fs = append(fs, expandGuard(Guard{e, g.Val, g.At}, depth+1)...)
				}
				sets = append(sets, fs)
			}
			if len(sets) > 0 && len(sets) < len(c.Edges) {
				for _, g0 := range sets[0] {
					common := true
					for _, s := range sets[1:] {
						found := false
						for _, g1 := range s {
							if g1.Cond == g0.Cond && g1.Val == g0.Val {
								found = true
							}
						}
						if !found {
							common = false
						}
					}
					if common {
						out = append(out, expandGuard(g0, depth+1)...)
					}
				}
			}
		}
	}
	return out
}

func edgeGuardsRaw(from, to *ssa.BasicBlock) []Guard {
	var out []Guard
	for a := from; a != nil; a = a.Idom() {
		if len(a.Instrs) == 0 {
			continue
		}
		iff, ok := a.Instrs[len(a.Instrs)-1].(*ssa.If)
		if !ok {
			continue
		}
		t, f := a.Succs[0], a.Succs[1]
		if t == f {
			continue
		}
		if a == from {
			continue
		}
		tOK := len(t.Preds) == 1 && t.Dominates(from)
		fOK := len(f.Preds) == 1 && f.Dominates(from)
		if tOK && !fOK {
			out = append(out, Guard{iff.Cond, true, iff})
		} else if fOK && !tOK {
			out = append(out, Guard{iff.Cond, false, iff})
		}
	}
	return out
}

// edgeGuards returns the guards known on the CFG edge from -> to.
func edgeGuards(from, to *ssa.BasicBlock) []Guard {
	out := guardsAt(from)
	if len(from.Instrs) > 0 {
		if iff, ok := from.Instrs[len(from.Instrs)-1].(*ssa.If); ok && from.Succs[0] != from.Succs[1] {
			if from.Succs[0] == to {
				out = append(out, expandGuard(Guard{iff.Cond, true, iff}, 0)...)
			} else if from.Succs[1] == to {
				out = append(out, expandGuard(Guard{iff.Cond, false, iff}, 0)...)
			}
		}
	}
	return out
}

// DeepGuard is a guard fact together with the function whose values it speaks about.
type DeepGuard struct {
	Fn *ssa.Function
	Guard
	Via *ssa.Call // the predicate call in the outer function through which the fact was obtained (nil: direct)
}

// guardsAtDeep: the guard facts of block b of f, plus — for every fact that is the outcome of an unexported
// boolean predicate helper h(...) — the facts that hold inside h on every return that delivers that outcome
// (constant true/false results only). The helper's facts speak about the helper's own values.
func (w *World) guardsAtDeep(f *ssa.Function, b *ssa.BasicBlock) []DeepGuard {
	var out []DeepGuard
	for _, g := range guardsAt(b) {
		out = append(out, DeepGuard{f, g, nil})
		cond, val := g.Cond, g.Val
		if u, ok := cond.(*ssa.UnOp); ok && u.Op.String() == "!" {
			cond, val = u.X, !val
		}
		call, ok := cond.(*ssa.Call)
		if !ok {
			continue
		}
		h := callee(call)
		if h == nil || !w.inPkg(h) || len(h.Blocks) == 0 || h.Signature.Results().Len() != 1 || h.Signature.Results().At(0).Type().String() != "bool" {
			continue
		}
		var sets [][]Guard
		okAll := true
		for _, hb := range h.Blocks {
			rt, isRet := hb.Instrs[len(hb.Instrs)-1].(*ssa.Return)
			if !isRet {
				continue
			}
			k, isK := rt.Results[0].(*ssa.Const)
			if !isK || k.Value == nil {
				// the outcome is computed (`return 'A' <= c && c <= 'Z'`): on this return it has the value
				// in question, which says something about the values it was computed from
				fs := append([]Guard{}, guardsAt(hb)...)
				fs = append(fs, expandGuard(Guard{rt.Results[0], val, nil}, 0)...)
				sets = append(sets, fs)
				continue
			}
			if (k.Value.String() == "true") != val {
				continue
			}
			sets = append(sets, guardsAt(hb))
		}
		if !okAll || len(sets) == 0 {
			continue
		}
		// facts common to all the returns with that outcome
		for _, g0 := range sets[0] {
			common := true
			for _, s := range sets[1:] {
				found := false
				for _, g1 := range s {
					if g1.Cond == g0.Cond && g1.Val == g0.Val {
						found = true
					}
				}
				if !found {
					common = false
				}
			}
			if common {
				out = append(out, DeepGuard{h, g0, call})
			}
		}
	}
	return out
}

// rawEdgeConds: the branch conditions known on the edge from -> to, unexpanded: those of from's dominators
// and from's own branch.
func rawEdgeConds(from, to *ssa.BasicBlock) []Guard {
	out := edgeGuardsRaw(from, to)
	if len(from.Instrs) > 0 {
		if iff, ok := from.Instrs[len(from.Instrs)-1].(*ssa.If); ok && from.Succs[0] != from.Succs[1] {
			if from.Succs[0] == to {
				out = append(out, Guard{iff.Cond, true, iff})
			} else if from.Succs[1] == to {
				out = append(out, Guard{iff.Cond, false, iff})
			}
		}
	}
	return out
}
