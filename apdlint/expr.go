package main

import (
	"fmt"
	"go/constant"
	"go/token"
	"go/types"
	"sort"
	"strings"

	"golang.org/x/tools/go/ssa"
)

// Symbolic description of SSA values (used by ORIGIN / GUARD rules). The
// description follows data flow through phis, field loads, conversions,
// operators and calls; it never looks at identifiers of locals or positions.

type Expr struct {
	Op   string // const param global alloc field addr load bin un call extract phi convert local cycle other
	Name string
	Args []*Expr
	V    ssa.Value
}

type exprCtx struct {
	w    *World
	fn   *ssa.Function
	busy map[ssa.Value]bool
}

func (w *World) exprOf(fn *ssa.Function, v ssa.Value) *Expr {
	c := &exprCtx{w: w, fn: fn, busy: map[ssa.Value]bool{}}
	return c.expr(v, 0)
}

func (c *exprCtx) expr(v ssa.Value, depth int) *Expr {
	if v == nil {
		return &Expr{Op: "other", Name: "nil-value"}
	}
	if depth > 40 {
		return &Expr{Op: "other", Name: "deep", V: v}
	}
	if c.busy[v] {
		return &Expr{Op: "cycle", V: v}
	}
	c.busy[v] = true
	defer delete(c.busy, v)
	d := depth + 1
	switch x := v.(type) {
	case *ssa.Const:
		return &Expr{Op: "const", Name: constString(x), V: v}
	case *ssa.Parameter:
		return &Expr{Op: "param", Name: x.Name(), V: v}
	case *ssa.Global:
		return &Expr{Op: "global", Name: x.Name(), V: v}
	case *ssa.Alloc:
		return &Expr{Op: "alloc", Name: x.Comment, V: v}
	case *ssa.FieldAddr:
		st := pointee(x.X.Type()).Underlying().(*types.Struct)
		return &Expr{Op: "addr", Name: st.Field(x.Field).Name(), Args: []*Expr{c.expr(x.X, d)}, V: v}
	case *ssa.IndexAddr:
		return &Expr{Op: "index", Args: []*Expr{c.expr(x.X, d), c.expr(x.Index, d)}, V: v}
	case *ssa.Index:
		return &Expr{Op: "index", Args: []*Expr{c.expr(x.X, d), c.expr(x.Index, d)}, V: v}
	case *ssa.Field:
		st := x.X.Type().Underlying().(*types.Struct)
		return &Expr{Op: "field", Name: st.Field(x.Field).Name(), Args: []*Expr{c.expr(x.X, d)}, V: v}
	case *ssa.UnOp:
		if x.Op == token.MUL {
			// load
			switch a := x.X.(type) {
			case *ssa.FieldAddr:
				st := pointee(a.X.Type()).Underlying().(*types.Struct)
				fname := st.Field(a.Field).Name()
				if al, ok := a.X.(*ssa.Alloc); ok {
					// field of a local struct: describe it by what is stored into it
					e := &Expr{Op: "localfield", Name: al.Comment + "." + fname, V: v}
					e.Args = c.localFieldSources(al, fname, d)
					if len(e.Args) == 0 {
						e.Args = []*Expr{{Op: "const", Name: "zero-value"}}
					}
					return e
				}
				return &Expr{Op: "field", Name: fname, Args: []*Expr{c.expr(a.X, d)}, V: v}
			case *ssa.Global:
				return &Expr{Op: "global", Name: a.Name(), V: v}
			case *ssa.Alloc:
				// address-taken local: the values stored into it
				e := &Expr{Op: "local", Name: a.Comment, V: v}
				for _, b := range c.fn.Blocks {
					for _, in := range b.Instrs {
						if st, ok := in.(*ssa.Store); ok && st.Addr == a {
							e.Args = append(e.Args, c.expr(st.Val, d))
						}
					}
				}
				return e
			}
			return &Expr{Op: "load", Args: []*Expr{c.expr(x.X, d)}, V: v}
		}
		return &Expr{Op: "un", Name: x.Op.String(), Args: []*Expr{c.expr(x.X, d)}, V: v}
	case *ssa.BinOp:
		return &Expr{Op: "bin", Name: x.Op.String(), Args: []*Expr{c.expr(x.X, d), c.expr(x.Y, d)}, V: v}
	case *ssa.Phi:
		e := &Expr{Op: "phi", V: v}
		for _, ed := range x.Edges {
			e.Args = append(e.Args, c.expr(ed, d))
		}
		return e
	case *ssa.Convert:
		return &Expr{Op: "convert", Name: types.TypeString(x.Type(), nil), Args: []*Expr{c.expr(x.X, d)}, V: v}
	case *ssa.ChangeType:
		return c.expr(x.X, d)
	case *ssa.MakeInterface:
		return c.expr(x.X, d)
	case *ssa.Extract:
		return &Expr{Op: "extract", Name: fmt.Sprint(x.Index), Args: []*Expr{c.expr(x.Tuple, d)}, V: v}
	case *ssa.Call:
		e := &Expr{Op: "call", Name: c.w.calleeName(x), V: v}
		cc := x.Common()
		if cc.IsInvoke() {
			e.Args = append(e.Args, c.expr(cc.Value, d))
		}
		for _, a := range cc.Args {
			e.Args = append(e.Args, c.expr(a, d))
		}
		// a pure in-package helper (no writes): its result depends on the fields it reads through
		// its pointer arguments — expose them, so that extracting `x.Negative != y.Negative` into a
		// helper does not hide the dependence
		if g := cc.StaticCallee(); g != nil && c.w.inPkg(g) && g.Signature.Recv() == nil {
			sum := c.w.summary(g)
			pure := len(sum.GWrites) == 0
			for i := range sum.Writes {
				if len(sum.Writes[i]) > 0 {
					pure = false
				}
			}
			if pure {
				for i, a := range cc.Args {
					if i >= len(sum.Reads) || !isPointer(a.Type()) {
						continue
					}
					for _, fld := range sortedKeys(sum.Reads[i]) {
						if fld == allFields {
							continue
						}
						e.Args = append(e.Args, &Expr{Op: "field", Name: fld, Args: []*Expr{c.expr(a, d)}})
					}
				}
			}
		}
		return e
	case *ssa.Slice:
		return &Expr{Op: "slice", Args: []*Expr{c.expr(x.X, d)}, V: v}
	}
	return &Expr{Op: "other", Name: fmt.Sprintf("%T", v), V: v}
}

// localFieldSources describes every value that may be stored into field
// `field` of the local struct al: direct stores, and writes by callees that
// receive a pointer to it (through the callee's copy summary when the callee
// copies the field from another argument).
func (c *exprCtx) localFieldSources(al *ssa.Alloc, field string, d int) []*Expr {
	var out []*Expr
	for _, b := range c.fn.Blocks {
		for _, in := range b.Instrs {
			switch x := in.(type) {
			case *ssa.Store:
				if fa, ok := x.Addr.(*ssa.FieldAddr); ok && fa.X == al {
					st := pointee(fa.X.Type()).Underlying().(*types.Struct)
					if st.Field(fa.Field).Name() == field {
						out = append(out, c.expr(x.Val, d))
					}
				} else if x.Addr == al {
					out = append(out, &Expr{Op: "field", Name: field, Args: []*Expr{c.expr(x.Val, d)}})
				}
			case ssa.CallInstruction:
				cc := x.Common()
				g := cc.StaticCallee()
				for i, a := range cc.Args {
					if !pointerLike(a.Type()) || basePtr(a) != al {
						continue
					}
					// does the argument point at the whole struct or at one field?
					argField := ""
					if fa, ok := a.(*ssa.FieldAddr); ok && fa.X == al {
						st := pointee(fa.X.Type()).Underlying().(*types.Struct)
						argField = st.Field(fa.Field).Name()
					}
					if argField != "" && argField != field {
						continue
					}
					if g == nil || !c.w.inPkg(g) {
						name := c.w.calleeName(x)
						if strings.HasPrefix(name, "(*math/big.Int).") && i != 0 {
							continue
						}
						if isPureExtern(name) {
							continue
						}
						out = append(out, &Expr{Op: "call", Name: name})
						continue
					}
					sum := c.w.summary(g)
					if i >= len(sum.Writes) {
						continue
					}
					wf := field
					if argField != "" {
						wf = allFields
					}
					if !sum.Writes[i][wf] && !sum.Writes[i][allFields] {
						if argField == "" || len(sum.Writes[i]) == 0 {
							continue
						}
					}
					j, ok := sum.CopyFrom[i][wf]
					if ok && j >= 0 && j < len(cc.Args) && argField == "" {
						src := cc.Args[j]
						if sal, ok := basePtr(src).(*ssa.Alloc); ok && sal != al {
							e := &Expr{Op: "localfield", Name: sal.Comment + "." + field}
							if d < 30 {
								e.Args = c.localFieldSources(sal, field, d+1)
							}
							if len(e.Args) == 0 {
								e.Args = []*Expr{{Op: "const", Name: "zero-value"}}
							}
							out = append(out, e)
						} else {
							out = append(out, &Expr{Op: "field", Name: field, Args: []*Expr{c.expr(src, d+1)}})
						}
						continue
					}
					// the callee's own stores into that field through this parameter, when it hands the pointer
					// to nobody else: the values it can leave there (a struct of bookkeeping passed between the
					// phases of an operation)
					if argField == "" && i < len(g.Params) && d < 30 {
						var vals []*Expr
						opaque := false
						for _, gb := range g.Blocks {
							for _, gin := range gb.Instrs {
								switch y := gin.(type) {
								case *ssa.Store:
									if fa, ok := y.Addr.(*ssa.FieldAddr); ok && fa.X == ssa.Value(g.Params[i]) {
										if st, isS := pointee(fa.X.Type()).Underlying().(*types.Struct); isS && st.Field(fa.Field).Name() == field {
											vals = append(vals, c.w.exprOf(g, y.Val))
										}
									} else if y.Addr == ssa.Value(g.Params[i]) {
										opaque = true
									}
								case ssa.CallInstruction:
									for _, ga := range y.Common().Args {
										if ga == ssa.Value(g.Params[i]) {
											opaque = true // handed on whole
										}
										if fa, ok := ga.(*ssa.FieldAddr); ok && fa.X == ssa.Value(g.Params[i]) {
											if st, isS := pointee(fa.X.Type()).Underlying().(*types.Struct); isS && st.Field(fa.Field).Name() == field {
												opaque = true // a pointer to the field itself is handed on
											}
										}
									}
								}
							}
						}
						if !opaque && len(vals) > 0 {
							out = append(out, vals...)
							continue
						}
					}
					out = append(out, &Expr{Op: "call", Name: c.w.shortName(g)})
				}
			}
		}
	}
	return out
}

func constString(k *ssa.Const) string {
	if k.Value == nil {
		if k.IsNil() {
			return "nil"
		}
		return "zero"
	}
	if k.Value.Kind() == constant.String {
		return constant.StringVal(k.Value)
	}
	return k.Value.ExactString()
}

func (e *Expr) String() string {
	switch e.Op {
	case "const":
		return e.Name
	case "param", "global":
		return e.Name
	case "alloc":
		return "&" + e.Name
	case "addr":
		return "&" + baseString(e.Args[0]) + "." + e.Name
	case "field":
		return baseString(e.Args[0]) + "." + e.Name
	case "load":
		return "*" + e.Args[0].String()
	case "bin":
		return "(" + e.Args[0].String() + " " + e.Name + " " + e.Args[1].String() + ")"
	case "un":
		return e.Name + e.Args[0].String()
	case "convert":
		return e.Args[0].String()
	case "extract":
		return e.Args[0].String() + "#" + e.Name
	case "index":
		return e.Args[0].String() + "[" + e.Args[1].String() + "]"
	case "slice":
		return e.Args[0].String() + "[:]"
	case "call":
		var as []string
		for _, a := range e.Args {
			as = append(as, a.String())
		}
		return e.Name + "(" + strings.Join(as, ", ") + ")"
	case "phi", "local", "localfield":
		var as []string
		for _, a := range e.Args {
			as = append(as, a.String())
		}
		sort.Strings(as)
		return e.Op + "{" + strings.Join(as, " | ") + "}"
	case "cycle":
		return "<loop>"
	}
	return "<" + e.Op + ":" + e.Name + ">"
}

func baseString(e *Expr) string {
	switch e.Op {
	case "alloc":
		return e.Name
	case "addr":
		return baseString(e.Args[0]) + "." + e.Name
	}
	return e.String()
}

// walk visits e and all sub-expressions.
func (e *Expr) walk(fn func(*Expr) bool) {
	if !fn(e) {
		return
	}
	for _, a := range e.Args {
		a.walk(fn)
	}
}

// leaves returns the set of leaf descriptions the value depends on:
// "x.Negative" (field of a parameter/local/global object), "param:n",
// "const:v", "global:g", "call:callee" (calls are inner nodes whose arguments
// are also visited, but the callee name is reported too).
func (e *Expr) leaves() map[string]bool {
	out := map[string]bool{}
	e.walk(func(x *Expr) bool {
		switch x.Op {
		case "const":
			out["const:"+x.Name] = true
		case "param":
			out["param:"+x.Name] = true
		case "global":
			out["global:"+x.Name] = true
		case "field":
			out[x.String()] = true
			return false
		case "call":
			out["call:"+x.Name] = true
		case "cycle":
			out["loop"] = true
		case "other":
			out["other:"+x.Name] = true
		}
		return true
	})
	return out
}

func (e *Expr) leafList() []string {
	return sortedKeys(e.leaves())
}

// isConst reports whether e is a compile-time constant (through phis of
// constants too) and returns the set of its possible values.
func (e *Expr) constValues() ([]string, bool) {
	switch e.Op {
	case "const":
		return []string{e.Name}, true
	case "phi", "local", "localfield":
		if len(e.Args) == 0 {
			return nil, false
		}
		var all []string
		for _, a := range e.Args {
			v, ok := a.constValues()
			if !ok {
				return nil, false
			}
			all = append(all, v...)
		}
		return all, true
	case "convert":
		return e.Args[0].constValues()
	}
	return nil, false
}

// hasCall reports whether the expression contains a call to the named callee.
func (e *Expr) hasCall(name string) bool {
	found := false
	e.walk(func(x *Expr) bool {
		if x.Op == "call" && x.Name == name {
			found = true
		}
		return !found
	})
	return found
}

// findCalls returns the call sub-expressions to the named callee.
func (e *Expr) findCalls(name string) []*Expr {
	var out []*Expr
	e.walk(func(x *Expr) bool {
		if x.Op == "call" && x.Name == name {
			out = append(out, x)
		}
		return true
	})
	return out
}
