package main

import (
	"fmt"
	"go/token"
	"strings"

	"golang.org/x/tools/go/ssa"
)

func init() {
	register(&Rule{ID: "C07.R1", Min: 13,
		Text: "range enforcement on every path: in each rounding operation, after the last write of the destination's coefficient or exponent that is not a whole-value copy or a small constant, every path to a result-delivering return passes a call reaching setExponent on that destination (directly or through Rounder.Round); tabled exceptions carry their invariant",
		Run:  ruleRangeEnforced})
	register(&Rule{ID: "C07.R2", Min: 3,
		Text: "a rounding increment is renormalised: every coefficient increment made under a ShouldAddOne guard goes through roundAddOne (which re-counts digits and shifts the carry into the exponent), except the tabled sites whose invariant excludes an extra digit",
		Run:  ruleIncrementRenormalised})
	register(&Rule{ID: "C07.R3", Min: 1,
		Text: "coefficients stay non-negative: every subtraction or signed input stored into a destination coefficient is followed by a sign test with Neg/Abs on the negative side",
		Run:  ruleCoeffSign})
	register(&Rule{ID: "C07.R4", Min: 1,
		Text: "Context.Reduce strips trailing zeros after rounding: no call reaching Rounder.Round is reachable after the strip, and one precedes it",
		Run:  ruleReduceOrder})
}

var rangeOps = []string{
	"(*Context).Add", "(*Context).Sub", "(*Context).Mul", "(*Context).Quo", "(*Context).Abs", "(*Context).Neg", "(*Context).Round",
	"(*Context).Rem", "(*Context).Reduce", "(*Context).Sqrt", "(*Context).Cbrt", "(*Context).Exp", "(*Context).Ln", "(*Context).Log10",
	"(*Context).Pow", "(*Context).Quantize", "(*Context).SetString", "(*Context).QuoInteger", "(*Context).RoundToIntegralExact",
	"(*Context).RoundToIntegralValue", "(*Context).add", "(*Context).quantize", "(*Context).integerPower",
}

// rangeExceptions: returns that deliver a value written after the last range
// check, with the invariant that makes it fit. Keyed by function; the value
// lists the writers that are accepted after the last check.
var rangeExceptions = map[string]map[string]string{
	"(*Context).Reduce":               {"(*Decimal).Reduce": "stripping trailing zeros after rounding keeps the adjusted exponent and only removes digits"},
	"(*Context).QuoInteger":           {"(*BigInt).Quo": "integer quotient: exponent is the constant 0 and NumDigits <= Precision is tested explicitly (else NaN)", "store Exponent": "constant 0"},
	"(*Context).Quantize":             {"(*Context).quantize": "followed by the NumDigits/MaxExponent guards and a Round"},
	"(*Context).quantize":             {"*": "quantize's contract is the requested exponent; range is enforced by its caller Quantize (C09.R3)"},
	"(*Context).RoundToIntegralExact": {"(*Context).toIntegral": "integral value of a well-formed operand: exponent 0, digits <= operand's adjusted exponent + 1"},
	"(*Context).RoundToIntegralValue": {"(*Context).toIntegral": "integral value of a well-formed operand: exponent 0"},
	"(*Context).Cbrt":                 {"store Negative": "sign only"},
	"(*Context).Pow":                  {"store Negative": "sign only"},
	"(*Context).add":                  {"store Negative": "sign only"},
	"(*Context).setAsNaN":             {"*": "copies a NaN operand (selected by its Form tests): nothing to round"},
	"(*Context).integerPower":         {"*": "intermediate: integerPower's result is rounded by its callers (Exp, Pow) — C07.R1 on those"},
}

func ruleRangeEnforced(w *World, r *RuleResult) {
	if !r.need(w, "(*Decimal).setExponent") {
		return
	}
	reach := w.reachesFn("(*Decimal).setExponent")
	for _, name := range rangeOps {
		f := w.fn(name)
		if f == nil {
			r.anchorMissing(name)
			continue
		}
		roles := w.roles(f)
		di := -1
		for i, p := range f.Params {
			if roles[i] == RoleDest && isDecimalPtr(p.Type()) {
				di = i
			}
		}
		if di < 0 {
			r.anchorMissing(name + ": Decimal destination")
			continue
		}
		key := name + " | every delivered value passed a range check"
		if ex := rangeExceptions[name]; ex != nil && ex["*"] != "" {
			r.ok(key, w.pos(f.Pos()), "tabled: "+ex["*"], false)
			continue
		}
		problems := w.dirtyReturns(f, di, reach, rangeExceptions[name])
		if len(problems) == 0 {
			r.ok(key, w.pos(f.Pos()), "after the last coefficient/exponent write every path to a result-delivering return passes setExponent (or the value is a whole copy / small constant)", true)
		} else {
			r.bad(key, w.pos(f.Pos()), strings.Join(uniqStrings(problems), "; "))
		}
	}
}

// dirtyReturns runs the forward analysis: dirty = a Coeff/Exponent write to
// the destination happened after the last setExponent-reaching call on it.
func (w *World) dirtyReturns(f *ssa.Function, di int, reach map[*ssa.Function]bool, exc map[string]string) []string {
	p := w.newProv(f, nil)
	n := len(f.Blocks)
	in := make([]int, n)
	why := make([]string, n)
	for i := range in {
		in[i] = -1
	}
	in[0] = 0
	isDest := func(v ssa.Value) bool {
		for _, l := range p.roots(v) {
			if l.Root.Kind == RParam && l.Root.Param == di {
				return true
			}
		}
		return false
	}
	constish := func(v ssa.Value) bool {
		e := w.exprOf(f, v)
		for l := range e.leaves() {
			if !(strings.HasPrefix(l, "const:") || l == "call:(*Context).etiny" || strings.HasPrefix(l, "c.") || l == "param:c") {
				return false
			}
		}
		return true
	}
	seReach := w.reachesFn("(*Decimal).setExponent")
	// precZeroEdge: the edge from→to is taken only with <context>.Precision == 0
	precZeroEdge := func(from, to *ssa.BasicBlock) bool {
		iff, ok := from.Instrs[len(from.Instrs)-1].(*ssa.If)
		if !ok || from.Succs[0] == from.Succs[1] {
			return false
		}
		bo, ok := iff.Cond.(*ssa.BinOp)
		if !ok || (bo.Op != token.EQL && bo.Op != token.NEQ) {
			return false
		}
		for _, pair := range [][2]ssa.Value{{bo.X, bo.Y}, {bo.Y, bo.X}} {
			ld, ok := pair[0].(*ssa.UnOp)
			k, ok2 := pair[1].(*ssa.Const)
			if !ok || !ok2 || k.Value == nil || ci(k) != 0 {
				continue
			}
			fa, ok := ld.X.(*ssa.FieldAddr)
			if !ok || w.exprOf(f, ld.X).Name != "Precision" {
				continue
			}
			if _, isParam := fa.X.(*ssa.Parameter); !isParam {
				continue
			}
			return (bo.Op == token.EQL && to == from.Succs[0]) || (bo.Op == token.NEQ && to == from.Succs[1])
		}
		return false
	}
	step := func(b *ssa.BasicBlock, st int, reason string, record func(rt *ssa.Return, reason string)) (int, string) {
		for _, x := range b.Instrs {
			switch y := x.(type) {
			case *ssa.Return:
				if st >= 1 && record != nil && !w.isErrorReturn(y) {
					record(y, reason)
				}
			case *ssa.Store:
				fa, ok := y.Addr.(*ssa.FieldAddr)
				if !ok || !isDest(fa.X) {
					continue
				}
				fn := w.exprOf(f, y.Addr).Name
				if fn == "Form" || fn == "Negative" {
					continue
				}
				if constish(y.Val) {
					continue
				}
				if exc["store "+fn] != "" {
					continue
				}
				st, reason = 2, fmt.Sprintf("%s stored at %s", fn, w.instrPos(x))
			case *ssa.Call:
				g := callee(y)
				args := y.Common().Args
				touches := false
				for _, a := range args {
					if pointerLike(a.Type()) && isDest(a) {
						touches = true
					}
				}
				if !touches {
					continue
				}
				cn := w.calleeName(y)
				if g != nil && w.inPkg(g) {
					sum := w.summary(g)
					// which arg positions carrying dest are written?
					written := false
					for i, a := range args {
						if i < len(sum.Writes) && pointerLike(a.Type()) && isDest(a) && len(sum.Writes[i]) > 0 {
							if sum.Writes[i]["Coeff"] || sum.Writes[i]["Exponent"] || sum.Writes[i][allFields] {
								written = true
							}
						}
					}
					if !written {
						continue
					}
					if reach[g] && isDest(args[destArgIndex(w, g)]) {
						st, reason = 0, ""
						continue
					}
					// range-checked (a call reaching setExponent) but not rounded to the precision: clean
					// only where the precision is known to be 0 (rounding disabled), see the edge rule below
					if seReach[g] && isDest(args[destArgIndex(w, g)]) {
						st, reason = 1, fmt.Sprintf("destination was range-checked by %s at %s but not rounded to the precision", cn, w.instrPos(x))
						continue
					}
					// a helper all of whose delivered values are themselves clean (special-value prologues)
					if gi := destArgIndex(w, g); isDecimalPtr(g.Params[gi].Type()) && isDest(args[gi]) && w.cleanWriter(g, gi, reach) {
						st, reason = 0, ""
						continue
					}
					switch cn {
					case "(*Decimal).Set", "(*Decimal).setSlow", "(*Decimal).Abs", "(*Decimal).Neg":
						// a whole-value copy fits the context only if the source is a shared special/small
						// constant, or an operand known (by a dominating guard) to be non-finite or zero
						if w.copySourceFits(f, y) {
							st, reason = 0, ""
						} else {
							st, reason = 2, fmt.Sprintf("value copied by %s at %s (an operand or local with possibly more than Precision digits)", cn, w.instrPos(x))
						}
						continue
					case "(*Decimal).SetInt64", "(*Decimal).SetFinite", "(*Decimal).setCoefficient":
						allConst := true
						for _, a := range args[1:] {
							if !constish(a) {
								allConst = false
							}
						}
						if allConst {
							st, reason = 0, ""
							continue
						}
					}
					if exc[cn] != "" {
						continue
					}
					st, reason = 2, fmt.Sprintf("destination written by %s at %s", cn, w.instrPos(x))
				} else if strings.HasPrefix(cn, "(*math/big.Int).") {
					st, reason = 2, fmt.Sprintf("destination coefficient written by %s at %s", cn, w.instrPos(x))
				}
			}
		}
		return st, reason
	}
	changed := true
	for iter := 0; changed && iter < 8*n+16; iter++ {
		changed = false
		for _, b := range f.Blocks {
			if in[b.Index] < 0 {
				continue
			}
			out, rs := step(b, in[b.Index], why[b.Index], nil)
			for _, s := range b.Succs {
				o := out
				if o == 1 && precZeroEdge(b, s) {
					o = 0 // Precision 0 disables rounding: the range check is all there is to apply
				}
				if o > in[s.Index] {
					in[s.Index] = o
					why[s.Index] = rs
					changed = true
				}
			}
		}
	}
	var problems []string
	for _, b := range f.Blocks {
		if in[b.Index] < 0 {
			continue
		}
		step(b, in[b.Index], why[b.Index], func(rt *ssa.Return, reason string) {
			problems = append(problems, fmt.Sprintf("the return at %s can deliver a value whose %s without a later setExponent range check", w.instrPos(rt), reason))
		})
	}
	return problems
}

// copySourceFits: d.Set(src)-style copy whose source needs no rounding.
func (w *World) copySourceFits(f *ssa.Function, c *ssa.Call) bool {
	src := c.Common().Args[1]
	p := w.newProv(f, nil)
	allShared := true
	for _, l := range p.roots(src) {
		if !l.Root.shared() {
			allShared = false
		}
	}
	if allShared {
		return true
	}
	// a local whose last writer, on every path, is a rounding call with that local as its destination
	// (under a context with the caller's limits — the contexts themselves are C07.R5's business)
	if al, isAlloc := basePtr(src).(*ssa.Alloc); isAlloc {
		ws := w.lastWritersAt(f, al, c)
		if len(ws) > 0 {
			all := true
			for _, t := range ws {
				if t != "(*Context).round" && t != "(Rounder).Round" && t != "(*Context).Round" {
					all = false
				}
			}
			if all {
				return true
			}
		}
	}
	sp, isParam := src.(*ssa.Parameter)
	if !isParam {
		return false
	}
	fin := w.formConsts()["Finite"]
	for _, g := range guardsAt(c.Block()) {
		cond := g.Cond
		val := g.Val
		if bo, ok := cond.(*ssa.BinOp); ok && (bo.Op == token.EQL || bo.Op == token.NEQ) {
			// <src>.Form ==/!= K
			if ld, ok := bo.X.(*ssa.UnOp); ok {
				if fa, ok := ld.X.(*ssa.FieldAddr); ok && fa.X == ssa.Value(sp) && w.exprOf(f, ld.X).Name == "Form" {
					if k, ok := bo.Y.(*ssa.Const); ok {
						eq := (bo.Op == token.EQL) == val
						if (eq && ci(k) != fin) || (!eq && ci(k) == fin) {
							return true // known non-finite
						}
					}
				}
			}
			// <src>.Sign() == 0
			if call, ok := bo.X.(*ssa.Call); ok && w.calleeName(call) == "(*Decimal).Sign" && call.Common().Args[0] == ssa.Value(sp) {
				if k, ok := bo.Y.(*ssa.Const); ok && ci(k) == 0 && (bo.Op == token.EQL) == val {
					return true // a zero
				}
			}
		}
		if call, ok := cond.(*ssa.Call); ok && val && w.calleeName(call) == "(*Decimal).IsZero" && call.Common().Args[0] == ssa.Value(sp) {
			return true
		}
	}
	return false
}

var cleanMemo = map[string]int{} // 0 unknown, 1 computing, 2 clean, 3 dirty

func (w *World) cleanWriter(g *ssa.Function, gi int, reach map[*ssa.Function]bool) bool {
	k := fmt.Sprintf("%p/%s/%d", w, w.shortName(g), gi)
	switch cleanMemo[k] {
	case 1, 3:
		return false
	case 2:
		return true
	}
	cleanMemo[k] = 1
	if w.shortName(g) == "(*Context).setAsNaN" {
		cleanMemo[k] = 2 // copies a NaN operand: nothing to range-check
		return true
	}
	ok := len(w.dirtyReturns(g, gi, reach, rangeExceptions[w.shortName(g)])) == 0
	if ok {
		cleanMemo[k] = 2
	} else {
		cleanMemo[k] = 3
	}
	return ok
}

// destArgIndex: position of the Decimal destination among g's parameters.
func destArgIndex(w *World, g *ssa.Function) int {
	roles := w.roles(g)
	for i, p := range g.Params {
		if roles[i] == RoleDest && isDecimalPtr(p.Type()) {
			return i
		}
	}
	return 0
}

// ---- R2 ---------------------------------------------------------------------

var incrementTable = map[string]string{
	"(*Decimal).setExponent": "subnormal branch: the truncated coefficient has fewer than Precision digits (adj < MinExponent), a carry yields at most Precision digits",
	"(*Context).quantize":    "all digits discarded: the result is the single digit 0 or 1",
}

func ruleIncrementRenormalised(w *World, r *RuleResult) {
	for _, name := range w.Names {
		f := w.Funcs[name]
		for _, b := range f.Blocks {
			guarded := false
			for _, g := range guardsAt(b) {
				if c, ok := g.Cond.(*ssa.Call); ok && g.Val && w.calleeName(c) == shouldAddOne {
					guarded = true
				}
			}
			if !guarded {
				continue
			}
			for _, in := range b.Instrs {
				c, ok := in.(*ssa.Call)
				if !ok {
					continue
				}
				cn := w.calleeName(c)
				g := callee(c)
				writesBig := false
				if g != nil && w.inPkg(g) {
					sum := w.summary(g)
					for i, p := range g.Params {
						if isBigIntPtr(p.Type()) && len(sum.Writes[i]) > 0 {
							writesBig = true
						}
					}
				}
				if !writesBig {
					continue
				}
				key := fmt.Sprintf("%s | increment under ShouldAddOne via %s", name, cn)
				switch {
				case cn == "roundAddOne":
					r.ok(key, w.instrPos(c), "roundAddOne re-counts the digits and moves a carry into the exponent", true)
				case w.ownerIn(f, []string{"(*Decimal).setExponent", "(*Context).quantize"}) != "":
					r.ok(key, w.instrPos(c), "tabled: "+incrementTable[w.ownerIn(f, []string{"(*Decimal).setExponent", "(*Context).quantize"})], false)
				default:
					r.bad(key, w.instrPos(c), "the coefficient is incremented directly after a rounding decision; an all-nines carry produces Precision+1 digits")
				}
			}
		}
	}
	// roundAddOne itself must renormalise
	if f := w.fn("roundAddOne"); f != nil {
		key := "roundAddOne | drops the carry digit"
		nd, quo := len(w.callsTo(f, "NumDigits")), len(w.callsTo(f, "(*BigInt).Quo"))
		stores := 0
		for _, b := range f.Blocks {
			for _, in := range b.Instrs {
				if st, ok := in.(*ssa.Store); ok && st.Addr == ssa.Value(f.Params[1]) {
					stores++
				}
			}
		}
		if nd >= 2 && quo >= 1 && stores >= 1 {
			r.ok(key, w.pos(f.Pos()), "digit count compared before/after; on growth the coefficient is divided by ten and *diff incremented", true)
		} else {
			r.bad(key, w.pos(f.Pos()), "roundAddOne no longer re-counts digits / divides by ten / bumps the exponent adjustment")
		}
	} else {
		r.anchorMissing("roundAddOne")
	}
}

// ---- R3 ---------------------------------------------------------------------

func ruleCoeffSign(w *World, r *RuleResult) {
	for _, name := range w.Names {
		f := w.Funcs[name]
		recv := f.Signature.Recv()
		if recv != nil && w.apdTypeName(recv.Type()) == "BigInt" {
			continue
		}
		p := w.newProv(f, nil)
		for _, c := range callsIn(f) {
			call, ok := c.(*ssa.Call)
			if !ok {
				continue
			}
			cn := w.calleeName(call)
			signed := cn == "(*BigInt).Sub" || cn == "(*BigInt).SetInt64" && !isNonNegConst(call.Common().Args[1]) || cn == "(*BigInt).Set" && name == "NewWithBigInt"
			if !signed {
				continue
			}
			// receiver is the Coeff of a Decimal (parameter or fresh result)
			isCoeff := false
			if fa, ok := call.Common().Args[0].(*ssa.FieldAddr); ok && typeIs(fa.X.Type(), apdPath, "Decimal") {
				isCoeff = true
			}
			_ = p
			if !isCoeff {
				continue
			}
			key := fmt.Sprintf("%s | %s into a coefficient is sign-normalised", name, cn)
			recvE := w.exprOf(f, call.Common().Args[0]).String()
			ok2, _ := mustPassFrom(call, func(in ssa.Instruction) bool {
				c2, ok := in.(*ssa.Call)
				if !ok {
					return false
				}
				n2 := w.calleeName(c2)
				if n2 == "(*BigInt).Abs" && w.exprOf(f, c2.Common().Args[0]).String() == recvE {
					return true
				}
				// a Sign() switch on the same coefficient: accept when a Neg/Abs exists on its negative side
				// (the test may be made on the pointer the writing call returned, which is its receiver)
				if n2 == "(*BigInt).Sign" && (w.exprOf(f, c2.Common().Args[0]).String() == recvE || c2.Common().Args[0] == ssa.Value(call)) {
					for _, c3 := range callsIn(f) {
						if k, ok := c3.(*ssa.Call); ok && (w.calleeName(k) == "(*BigInt).Neg" || w.calleeName(k) == "(*BigInt).Abs") && w.exprOf(f, k.Common().Args[0]).String() == recvE && c2.Block().Dominates(k.Block()) {
							return true
						}
					}
				}
				return false
			}, func(rt *ssa.Return) bool { return w.isErrorReturn(rt) })
			if ok2 {
				r.ok(key, w.instrPos(call), "followed on every path by Abs, or by a Sign() test with Neg/Abs on the negative side", true)
			} else {
				r.bad(key, w.instrPos(call), "a possibly negative value is stored into a Decimal coefficient without sign normalisation (coefficients must be non-negative)")
			}
		}
	}
}

func isNonNegConst(v ssa.Value) bool {
	k, ok := v.(*ssa.Const)
	return ok && k.Value != nil && ci(k) >= 0
}

// ---- R4 ---------------------------------------------------------------------

func ruleReduceOrder(w *World, r *RuleResult) {
	f := w.fn("(*Context).Reduce")
	if f == nil {
		r.anchorMissing("(*Context).Reduce")
		return
	}
	strips := w.callsTo(f, "(*Decimal).Reduce")
	if len(strips) == 0 {
		r.anchorMissing("(*Context).Reduce: call of (*Decimal).Reduce")
		return
	}
	// the strip of the result: a Reduce into a local scratch value (taken for its count only) is not one
	if len(f.Params) > 1 {
		var onD []*ssa.Call
		for _, s := range strips {
			if _, scratch := s.Common().Args[0].(*ssa.Alloc); !scratch {
				onD = append(onD, s)
			}
		}
		if len(onD) > 0 {
			strips = onD
		}
	}
	reach := w.reachesFn(rounderRound)
	isRound := func(in ssa.Instruction) bool {
		c, ok := in.(ssa.CallInstruction)
		if !ok {
			return false
		}
		g := callee(c)
		return g != nil && reach[g]
	}
	for _, s := range strips {
		after := false
		for _, c := range callsIn(f) {
			if isRound(c) && (c.Block() == s.Block() && instrIndex(c) > instrIndex(s) || c.Block() != s.Block() && reaches(s.Block(), c.Block())) {
				after = true
			}
		}
		if after {
			r.bad("(*Context).Reduce | no rounding after the strip", w.instrPos(s), "trailing zeros are stripped before rounding: a rounding carry (9.95 → 10) re-creates trailing zeros in the result")
		} else {
			r.ok("(*Context).Reduce | no rounding after the strip", w.instrPos(s), "no call reaching Rounder.Round is reachable after the strip", true)
		}
		if seenBefore(s, isRound) {
			r.ok("(*Context).Reduce | rounding precedes the strip", w.instrPos(s), "a call reaching Rounder.Round lies on every path to the strip", true)
		} else {
			r.bad("(*Context).Reduce | rounding precedes the strip", w.instrPos(s), "the value is stripped without having been rounded to the context first")
		}
	}
}
