package main

import (
	"fmt"
	"go/constant"
	"go/token"
	"go/types"
	"strings"

	"golang.org/x/tools/go/ssa"
)

func init() {
	register(&Rule{ID: "C04.R1", Min: 3,
		Text: "panic census: every explicit panic reachable from the exported API is one of the tabled, provably-unreachable ones (roundAddOne negative, Condition.String default, Decompose default); Condition.String has a case for every declared flag and Decompose for every Form",
		Run:  rulePanicCensus})
	register(&Rule{ID: "C04.R2", Min: 12,
		Text: "nil never reaches a dereferencing parameter: a pointer argument that may be nil (nil constant, φ with a nil edge, never-assigned local) is only passed to parameters the callee compares with nil before use",
		Run:  ruleNilArgs})
	register(&Rule{ID: "C04.R3", Min: 9,
		Text: "divisors are non-zero and table indices bounded: every big-integer division outside the BigInt wrappers divides by a power of ten from tableExp10/exp10, a non-zero package constant, or a value derived from an operand after that operand's IsZero test failed; every variable index into a package-level table is under an upper-bound guard",
		Run:  ruleDivisorsAndIndices})
}

var panicTable = map[string]string{
	"roundAddOne":          "argument is a quotient of non-negative coefficients (callers: Rounder.Round, Context.Quo)",
	"(Condition).String":   "default case: unreachable for the closed flag set (C02.R1) because every flag has a case",
	"(*Decimal).Decompose": "default case: Form outside the four declared values is ill-formed",
}

func rulePanicCensus(w *World, r *RuleResult) {
	reach := w.apiReachable()
	for _, name := range w.Names {
		f := w.Funcs[name]
		if !reach[f] {
			continue
		}
		n := 0
		for _, b := range f.Blocks {
			for _, in := range b.Instrs {
				if _, ok := in.(*ssa.Panic); ok {
					n++
					key := fmt.Sprintf("%s | panic", name)
					if n > 1 {
						key = fmt.Sprintf("%s #%d", key, n)
					}
					owner := w.ownerIn(f, []string{"roundAddOne", "(Condition).String", "(*Decimal).Decompose"})
					if why := panicTable[owner]; why != "" && n == 1 {
						r.ok(key, w.instrPos(in), "tabled: "+why, false)
					} else {
						r.bad(key, w.instrPos(in), "explicit panic reachable from the exported API; failures must be reported through the error or Condition result")
					}
				}
			}
		}
	}
	// exhaustiveness companions
	cc := w.conditionConsts()
	if f := w.fn("(Condition).String"); f != nil {
		seen := map[uint64]bool{}
		var sblocks []*ssa.BasicBlock
		for _, g := range w.closureFuncs(f) {
			sblocks = append(sblocks, g.Blocks...)
		}
		for _, b := range sblocks {
			for _, in := range b.Instrs {
				if bo, ok := in.(*ssa.BinOp); ok && bo.Op == token.EQL {
					for _, o := range []ssa.Value{bo.X, bo.Y} {
						if v, ok := condBits(o); ok && typeIs(o.Type(), apdPath, "Condition") {
							seen[v] = true
						}
					}
				}
			}
		}
		// table form: String ranges over a package-level table of (flag, name) entries that initialisation
		// fills with constants: every flag stored into that table has a name
		usedGlobals := map[*ssa.Global]bool{}
		for _, b := range sblocks {
			for _, in := range b.Instrs {
				for _, op := range in.Operands(nil) {
					if *op == nil {
						continue
					}
					if g, isG := (*op).(*ssa.Global); isG && g.Pkg == w.SSA {
						usedGlobals[g] = true
					}
				}
			}
		}
		for _, n := range w.Names {
			if !strings.HasPrefix(n, "init") {
				continue
			}
			initF := w.Funcs[n]
			// locals whose value is stored into one of the tables String uses
			tableLocals := map[ssa.Value]bool{}
			for _, st := range storesIn(initF) {
				if g, isG := st.Addr.(*ssa.Global); isG && usedGlobals[g] {
					if ld, isLd := st.Val.(*ssa.UnOp); isLd && ld.Op == token.MUL {
						tableLocals[basePtr(ld.X)] = true
					}
				}
			}
			for _, st := range storesIn(initF) {
				v, isK := condBits(st.Val)
				if !isK || !typeIs(st.Val.Type(), apdPath, "Condition") {
					continue
				}
				base := basePtr(st.Addr)
				if g, isG := base.(*ssa.Global); isG && usedGlobals[g] || tableLocals[base] {
					seen[v] = true
				}
			}
		}
		// flags cleared from the receiver up front (r &^= mask) never reach the switch
		var masked uint64
		for _, in := range f.Blocks[0].Instrs {
			if bo, ok := in.(*ssa.BinOp); ok && bo.Op == token.AND_NOT && bo.X == ssa.Value(f.Params[0]) {
				if v, ok := condBits(bo.Y); ok {
					masked |= v
				}
			}
		}
		var missing []string
		for _, n := range sortedKeys(cc) {
			if !seen[cc[n]] && masked&cc[n] == 0 {
				missing = append(missing, n)
			}
		}
		if len(missing) > 0 {
			r.bad("(Condition).String | case per flag", w.pos(f.Pos()), "no case for "+strings.Join(missing, ", ")+": String() panics when that flag is set")
		} else {
			r.ok("(Condition).String | case per flag", w.pos(f.Pos()), fmt.Sprintf("%d flags, each compared in the switch", len(cc)), true)
		}
	} else {
		r.anchorMissing("(Condition).String")
	}
	if f := w.fn("(*Decimal).Decompose"); f != nil {
		seen := map[int64]bool{}
		for _, b := range f.Blocks {
			for _, in := range b.Instrs {
				if bo, ok := in.(*ssa.BinOp); ok && bo.Op == token.EQL {
					for _, o := range []ssa.Value{bo.X, bo.Y} {
						if k, ok := o.(*ssa.Const); ok && typeIs(k.Type(), apdPath, "Form") {
							seen[ci(k)] = true
						}
					}
				}
			}
		}
		forms := w.formConsts()
		var missing []string
		for _, n := range sortedKeys(forms) {
			if !seen[forms[n]] {
				missing = append(missing, n)
			}
		}
		if len(missing) > 0 || len(forms) != 4 {
			r.bad("(*Decimal).Decompose | case per Form", w.pos(f.Pos()), "no case for "+strings.Join(missing, ", ")+": Decompose panics on a valid Decimal")
		} else {
			r.ok("(*Decimal).Decompose | case per Form", w.pos(f.Pos()), "4 forms, each has a case", true)
		}
	} else {
		r.anchorMissing("(*Decimal).Decompose")
	}
}

func (w *World) formConsts() map[string]int64 {
	out := map[string]int64{}
	for n, m := range w.SSA.Members {
		if c, ok := m.(*ssa.NamedConst); ok && typeIs(c.Type(), apdPath, "Form") {
			if v, ok := constant.Int64Val(c.Value.Value); ok {
				out[n] = v
			}
		}
	}
	return out
}

// ---- R2 ---------------------------------------------------------------------

// nilSafeParam: parameter i of f is never dereferenced unless a non-nil guard
// holds (directly, or by being passed on to nil-safe parameters only).
func (w *World) nilSafeParam(f *ssa.Function, i int, depth int) bool {
	return w.nilSafeParamWith(f, i, depth, nil)
}

// nilSafeParamWith: as nilSafeParam, for a call at which the parameters coNil
// are the constant nil as well: a use under a non-nil test of one of those is
// not reached by that call either (locateRoot(…, nil, nil): `if top != nil {
// … low … }`).
func (w *World) nilSafeParamWith(f *ssa.Function, i int, depth int, coNil []int) bool {
	if depth > 6 || i >= len(f.Params) {
		return false
	}
	p := f.Params[i]
	refs := p.Referrers()
	if refs == nil {
		return true
	}
	tested := []ssa.Value{p}
	for _, j := range coNil {
		if j < len(f.Params) {
			tested = append(tested, f.Params[j])
		}
	}
	guarded := func(b *ssa.BasicBlock) bool {
		for _, g := range guardsAt(b) {
			bo, ok := g.Cond.(*ssa.BinOp)
			if !ok {
				continue
			}
			for _, q := range tested {
				if bo.X == q && isNilConst(bo.Y) || bo.Y == q && isNilConst(bo.X) {
					if (bo.Op == token.NEQ && g.Val) || (bo.Op == token.EQL && !g.Val) {
						return true
					}
				}
			}
		}
		return false
	}
	for _, u := range *refs {
		switch x := u.(type) {
		case *ssa.BinOp:
			if (x.Op == token.EQL || x.Op == token.NEQ) && (isNilConst(x.X) || isNilConst(x.Y)) {
				continue
			}
			// pointer equality with another pointer is harmless
			if x.Op == token.EQL || x.Op == token.NEQ {
				continue
			}
		case *ssa.Phi, *ssa.Return, *ssa.MakeInterface, *ssa.Store:
			if st, ok := u.(*ssa.Store); ok && st.Addr == ssa.Value(p) {
				if !guarded(st.Block()) {
					return false
				}
			}
			continue
		case ssa.CallInstruction:
			if guarded(x.Block()) {
				continue
			}
			g := callee(x)
			ok := true
			for j, a := range x.Common().Args {
				if a != ssa.Value(p) {
					continue
				}
				if g == nil || !w.inPkg(g) {
					// external callee: math/big accepts nil only where documented (Exp m, GCD x y)
					n := w.calleeName(x)
					if !((n == "(*math/big.Int).Exp" && j == 3) || (n == "(*math/big.Int).GCD" && (j == 1 || j == 2)) || strings.HasPrefix(n, "fmt.")) {
						ok = false
					}
					continue
				}
				if !w.nilSafeParam(g, j, depth+1) {
					ok = false
				}
			}
			if !ok {
				return false
			}
			continue
		}
		// FieldAddr, load, index, ...: a dereference
		if in, ok := u.(ssa.Instruction); ok && guarded(in.Block()) {
			continue
		}
		return false
	}
	return true
}

func ruleNilArgs(w *World, r *RuleResult) {
	for _, name := range w.Names {
		f := w.Funcs[name]
		p := w.newProv(f, nil)
		for _, c := range callsIn(f) {
			g := callee(c)
			if g == nil || !w.inPkg(g) {
				continue
			}
			for j, a := range c.Common().Args {
				if !isPointer(a.Type()) || j >= len(g.Params) {
					continue
				}
				mayNil := false
				for _, l := range p.roots(a) {
					if l.Root.Kind == RNil {
						mayNil = true
					}
				}
				if !mayNil || w.nilExcludedAt(f, a, c) {
					continue
				}
				key := fmt.Sprintf("%s -> %s | possibly-nil argument %s", name, w.shortName(g), g.Params[j].Name())
				if n := countKey(r, key); n > 0 {
					key = fmt.Sprintf("%s #%d", key, n+1)
				}
				// a guard at the call site that excludes nil?
				var coNil []int
				for k, oa := range c.Common().Args {
					if k != j && isNilConst(oa) {
						coNil = append(coNil, k)
					}
				}
				if w.nilSafeParamWith(g, j, 0, coNil) {
					r.ok(key, w.instrPos(c), "callee tests this parameter (or another that is nil at this call as well) against nil before every use", true)
				} else {
					r.bad(key, w.instrPos(c), fmt.Sprintf("%s may be nil here (%s) and %s dereferences it unconditionally: nil pointer panic", w.exprOf(f, a).String(), "nil constant / nil φ-edge / never-assigned local", w.shortName(g)))
				}
			}
		}
	}
	if n, err := positiveExample("nilarg", func(pw *World) int {
		c := 0
		for _, nm := range pw.Names {
			f := pw.Funcs[nm]
			p := pw.newProv(f, nil)
			for _, call := range callsIn(f) {
				g := callee(call)
				if g == nil || !pw.inPkg(g) {
					continue
				}
				for j, a := range call.Common().Args {
					if !isPointer(a.Type()) {
						continue
					}
					for _, l := range p.roots(a) {
						if l.Root.Kind == RNil && !pw.nilSafeParam(g, j, 0) {
							c++
						}
					}
				}
			}
		}
		return c
	}); err != nil || n == 0 {
		r.undecided("positive example nilarg", "testdata", fmt.Sprintf("did not fire (n=%d, err=%v)", n, err))
	}
}

// nilExcludedAt: at call site c the argument value a cannot be nil because
// (i) a dominating guard says a != nil, or (ii) a is a result of a callee that
// returns nil in that position only together with a non-nil error, and the
// call site is dominated by that error having been found nil.
func (w *World) nilExcludedAt(f *ssa.Function, a ssa.Value, c ssa.CallInstruction) bool {
	return w.nilExcludedAtBlock(f, a, c.Block(), 0)
}

// nilExcludedAtBlock: a cannot be nil where block `at` is reached.
func (w *World) nilExcludedAtBlock(f *ssa.Function, a ssa.Value, at *ssa.BasicBlock, depth int) bool {
	if depth > 3 {
		return false
	}
	for _, g := range guardsAt(at) {
		if bo, ok := g.Cond.(*ssa.BinOp); ok && (bo.X == a && isNilConst(bo.Y) || bo.Y == a && isNilConst(bo.X)) {
			if (bo.Op == token.NEQ && g.Val) || (bo.Op == token.EQL && !g.Val) {
				return true
			}
		}
	}
	ex, ok := a.(*ssa.Extract)
	if !ok {
		return false
	}
	call, ok := ex.Tuple.(*ssa.Call)
	if !ok {
		return false
	}
	h := callee(call)
	if h == nil || !w.inPkg(h) {
		return false
	}
	nres := h.Signature.Results().Len()
	if nres < 2 || !isErrorType(h.Signature.Results().At(nres-1).Type()) {
		return false
	}
	// every return of h with nil at ex.Index is an error return (transitively for tail calls)
	for _, b := range h.Blocks {
		rt, ok := b.Instrs[len(b.Instrs)-1].(*ssa.Return)
		if !ok {
			continue
		}
		hp := w.newProv(h, nil)
		nilHere := false
		for _, l := range hp.roots(rt.Results[ex.Index]) {
			if l.Root.Kind == RNil {
				nilHere = true
			}
		}
		if nilHere && !w.isErrorReturn(rt) && !definitelyErr(rt) {
			// a wrapper that hands on the results of such a helper where it found the helper's error nil
			if w.nilExcludedAtBlock(h, rt.Results[ex.Index], b, depth+1) {
				continue
			}
			return false
		}
	}
	// the use is dominated by err == nil
	for _, g := range guardsAt(at) {
		bo, ok := g.Cond.(*ssa.BinOp)
		if !ok {
			continue
		}
		for _, side := range [][2]ssa.Value{{bo.X, bo.Y}, {bo.Y, bo.X}} {
			if e2, ok := side[0].(*ssa.Extract); ok && e2.Tuple == ex.Tuple && e2.Index == nres-1 && isNilConst(side[1]) {
				if (bo.Op == token.NEQ && !g.Val) || (bo.Op == token.EQL && g.Val) {
					return true
				}
			}
		}
	}
	return false
}

// ---- R3 ---------------------------------------------------------------------

var divisionMethods = map[string]int{ // method -> divisor argument index
	"(*BigInt).Quo": 2, "(*BigInt).QuoRem": 2, "(*BigInt).Rem": 2, "(*BigInt).Div": 2, "(*BigInt).Mod": 2, "(*BigInt).DivMod": 2,
}

// nonZeroBigConsts: package-level *BigInt constants and their NewBigInt argument.
func (w *World) bigConstValues() map[string]int64 {
	out := map[string]int64{}
	for _, n := range w.Names {
		if !strings.HasPrefix(n, "init") {
			continue
		}
		for _, b := range w.Funcs[n].Blocks {
			for _, in := range b.Instrs {
				st, ok := in.(*ssa.Store)
				if !ok {
					continue
				}
				g, ok := st.Addr.(*ssa.Global)
				if !ok {
					continue
				}
				if c, ok := st.Val.(*ssa.Call); ok && w.calleeName(c) == "NewBigInt" {
					if k, ok := c.Common().Args[0].(*ssa.Const); ok {
						out[g.Name()] = ci(k)
					}
				}
			}
		}
	}
	return out
}

func ruleDivisorsAndIndices(w *World, r *RuleResult) {
	reach := w.apiReachable()
	bigConsts := w.bigConstValues()
	// divisorOK: the divisor div of the division `at` in fn cannot be zero
	var divisorOK func(fn *ssa.Function, at *ssa.Call, div ssa.Value, depth int) (bool, string)
	divisorOK = func(fn *ssa.Function, at *ssa.Call, div ssa.Value, depth int) (bool, string) {
		okAll, why := true, ""
		for _, l := range w.newProv(fn, nil).roots(div) {
			switch {
			case l.Root.Kind == RNil:
				// nil-ness is C04.R2's business
			case (l.Root.Kind == RGlobal || l.Root.Kind == RGlobalObj) && l.Root.Name == "pow10LookupTable":
				why = "power of ten from the table"
			case l.Root.Kind == RGlobalObj && bigConsts[l.Root.Name] != 0:
				why = fmt.Sprintf("package constant %s = %d", l.Root.Name, bigConsts[l.Root.Name])
			case l.Root.Kind == RAlloc || l.Root.Kind == RParam && l.Field == "Coeff" || l.Root.Kind == RParam && isBigIntPtr(fn.Params[l.Root.Param].Type()):
				// a scratch value: fine when it is tableExp10's tmp (power of ten) …
				if w.isPow10Scratch(fn, div) {
					why = "power of ten computed into the scratch argument of tableExp10"
					continue
				}
				// … or derived from an operand whose zero test failed
				if who := w.zeroCheckedOperand(fn, at); who != "" {
					why = "derived from operand " + who + " after its IsZero test failed"
					continue
				}
				// … or the divisor parameter of an unexported helper, non-zero at each of its call sites
				if l.Root.Kind == RParam && l.Field == "" && depth < 2 && (fn.Object() == nil || !fn.Object().Exported()) && !w.addressTaken(fn) {
					sites := w.allCallsTo(w.shortName(fn))
					all := len(sites) > 0
					for _, sc := range sites {
						if l.Root.Param >= len(sc.Common().Args) {
							all = false
							break
						}
						if ok, _ := divisorOK(sc.Parent(), sc, sc.Common().Args[l.Root.Param], depth+1); !ok {
							all = false
						}
					}
					if all {
						why = fmt.Sprintf("the divisor is a parameter of the unexported %s, non-zero at each of its %d call sites", w.shortName(fn), len(sites))
						continue
					}
				}
				okAll = false
				why = "divisor " + w.exprOf(fn, div).String() + " is neither a power of ten, a non-zero constant, nor behind an IsZero test of the operand it derives from"
			default:
				okAll = false
				why = "divisor of unknown origin " + l.Root.String()
			}
		}
		return okAll, why
	}
	for _, name := range w.Names {
		f := w.Funcs[name]
		if !reach[f] {
			continue
		}
		recvBig := f.Signature.Recv() != nil && w.apdTypeName(f.Signature.Recv().Type()) == "BigInt"
		for _, c := range callsIn(f) {
			call, ok := c.(*ssa.Call)
			if !ok {
				continue
			}
			di, ok := divisionMethods[w.calleeName(call)]
			if !ok || recvBig {
				continue // wrappers mirror math/big's own division-by-zero panic (identical API, C16)
			}
			key := fmt.Sprintf("%s | divisor of %s", name, w.calleeName(call))
			if n := countKey(r, key); n > 0 {
				key = fmt.Sprintf("%s #%d", key, n+1)
			}
			div := call.Common().Args[di]
			okAll, why := divisorOK(f, call, div, 0)
			if okAll {
				r.ok(key, w.instrPos(call), why, true)
			} else {
				r.bad(key, w.instrPos(call), why+": division by zero would panic inside math/big")
			}
		}
		// table indices
		for _, b := range f.Blocks {
			for _, in := range b.Instrs {
				ia, ok := in.(*ssa.IndexAddr)
				if !ok {
					continue
				}
				g, ok := ia.X.(*ssa.Global)
				if !ok {
					continue
				}
				arr, ok := pointee(g.Type()).Underlying().(*types.Array)
				if !ok {
					continue
				}
				key := fmt.Sprintf("%s | index into %s", name, g.Name())
				if n := countKey(r, key); n > 0 {
					key = fmt.Sprintf("%s #%d", key, n+1)
				}
				if _, isConst := ia.Index.(*ssa.Const); isConst {
					r.ok(key, w.instrPos(in), "constant index", false)
					continue
				}
				if max, ok := upperBound(ia.Index, b); ok && max <= arr.Len()-1 {
					r.ok(key, w.instrPos(in), fmt.Sprintf("index ≤ %d by a dominating guard; table length %d", max, arr.Len()), true)
				} else {
					r.bad(key, w.instrPos(in), fmt.Sprintf("index %s into %s (length %d) has no dominating upper-bound guard: index out of range panic", w.exprOf(f, ia.Index).String(), g.Name(), arr.Len()))
				}
			}
		}
	}
}

// isPow10Scratch: the divisor value is the result of tableExp10/exp10.
func (w *World) isPow10Scratch(f *ssa.Function, v ssa.Value) bool {
	switch x := v.(type) {
	case *ssa.Call:
		n := w.calleeName(x)
		return n == "tableExp10" || n == "exp10"
	case *ssa.Extract:
		if c, ok := x.Tuple.(*ssa.Call); ok {
			return w.calleeName(c) == "exp10" && x.Index == 0
		}
	case *ssa.Phi:
		for _, e := range x.Edges {
			if !w.isPow10Scratch(f, e) {
				return false
			}
		}
		return len(x.Edges) > 0
	}
	return false
}

// zeroCheckedOperand: the call is only reachable after IsZero(<operand>) was
// found false — directly, or through a *Specials helper that returns false only
// after that test.
func (w *World) zeroCheckedOperand(f *ssa.Function, call *ssa.Call) string {
	facts := w.guardFacts(f, call.Block())
	for k := range facts {
		if strings.HasPrefix(k, "IsZero(") && strings.HasSuffix(k, ")=F") {
			return strings.TrimSuffix(strings.TrimPrefix(k, "IsZero("), ")=F")
		}
	}
	for _, g := range guardsAt(call.Block()) {
		ex, ok := g.Cond.(*ssa.Extract)
		if !ok || g.Val || ex.Index != 0 {
			continue
		}
		sc, ok := ex.Tuple.(*ssa.Call)
		if !ok {
			continue
		}
		h := callee(sc)
		if h == nil || !w.inPkg(h) {
			continue
		}
		// every `return false, …` of h must carry IsZero(p)=F for the same parameter p
		var who string
		all := true
		n := 0
		for _, b := range h.Blocks {
			rt, ok := b.Instrs[len(b.Instrs)-1].(*ssa.Return)
			if !ok || len(rt.Results) == 0 {
				continue
			}
			k, ok := rt.Results[0].(*ssa.Const)
			if !ok || k.Value == nil || k.Value.Kind() != constant.Bool || constant.BoolVal(k.Value) {
				continue
			}
			n++
			hf := w.guardFacts(h, b)
			found := ""
			for fk := range hf {
				if strings.HasPrefix(fk, "IsZero(") && strings.HasSuffix(fk, ")=F") {
					found = strings.TrimSuffix(strings.TrimPrefix(fk, "IsZero("), ")=F")
				}
			}
			if found == "" {
				all = false
			}
			who = found
		}
		if all && n > 0 && who != "" {
			// map the helper's parameter to the caller's argument name
			if pi := paramIndex(h, who); pi >= 0 && pi < len(sc.Common().Args) {
				return w.exprOf(f, sc.Common().Args[pi]).String() + " (via " + w.shortName(h) + ")"
			}
		}
	}
	return ""
}

// upperBound finds max(idx) from dominating guards for idx or idx = base + k.
func upperBound(idx ssa.Value, b *ssa.BasicBlock) (int64, bool) {
	base, add := idx, int64(0)
	if bo, ok := idx.(*ssa.BinOp); ok && bo.Op == token.ADD {
		if k, ok := bo.Y.(*ssa.Const); ok {
			base, add = bo.X, ci(k)
		}
	}
	base = stripWidening(base)
	best, found := int64(0), false
	for _, g := range guardsAt(b) {
		bo, ok := g.Cond.(*ssa.BinOp)
		if !ok {
			continue
		}
		k, isK := bo.Y.(*ssa.Const)
		if !isK || stripWidening(bo.X) != base {
			continue
		}
		var max int64
		okb := true
		switch {
		case bo.Op == token.LEQ && g.Val:
			max = ci(k)
		case bo.Op == token.LSS && g.Val:
			max = ci(k) - 1
		case bo.Op == token.GTR && !g.Val:
			max = ci(k)
		case bo.Op == token.GEQ && !g.Val:
			max = ci(k) - 1
		default:
			okb = false
		}
		if okb && (!found || max+add < best) {
			best, found = max+add, true
		}
	}
	return best, found
}

// stripWidening removes value-preserving integer conversions (byte → int, int32 → int64, …): a guard on
// int(v) bounds v.
func stripWidening(v ssa.Value) ssa.Value {
	for {
		cv, ok := v.(*ssa.Convert)
		if !ok {
			return v
		}
		from, okF := cv.X.Type().Underlying().(*types.Basic)
		to, okT := cv.Type().Underlying().(*types.Basic)
		if !okF || !okT || from.Info()&types.IsInteger == 0 || to.Info()&types.IsInteger == 0 {
			return v
		}
		size := func(b *types.Basic) int {
			switch b.Kind() {
			case types.Int8, types.Uint8:
				return 8
			case types.Int16, types.Uint16:
				return 16
			case types.Int32, types.Uint32:
				return 32
			case types.Int64, types.Uint64:
				return 64
			case types.Int, types.Uint, types.Uintptr:
				return 32 // the narrower of the two word sizes analysed
			}
			return 0
		}
		fs, ts := size(from), size(to)
		if to.Kind() == types.Int || to.Kind() == types.Uint {
			ts = 32
		}
		if from.Kind() == types.Int || from.Kind() == types.Uint {
			fs = 64 // the wider of the two word sizes
		}
		fromU, toU := from.Info()&types.IsUnsigned != 0, to.Info()&types.IsUnsigned != 0
		switch {
		case fs == 0 || ts == 0:
			return v
		case fromU == toU && fs <= ts, fromU && !toU && fs < ts:
			v = cv.X
		case from.Kind() == to.Kind():
			v = cv.X
		default:
			return v
		}
	}
}
