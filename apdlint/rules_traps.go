package main

import (
	"fmt"
	"go/token"
	"go/types"
	"strings"

	"golang.org/x/tools/go/ssa"
)

func init() {
	register(&Rule{ID: "C03.R1", Min: 1,
		Text: "flags→error: on every path of Condition.GoError the error is non-nil iff r&(SystemOverflow|SystemUnderflow) != 0 or r&traps != 0, and the Condition result is the receiver; Context.goError returns (flags, nil) only under flags == 0 and otherwise GoError(c.Traps)",
		Run:  ruleGoError})
	register(&Rule{ID: "C03.R2", Min: 12,
		Text: "ErrDecimal wrappers agree: each first tests e.Err() and returns untouched on the non-nil edge, calls exactly the Context method of the same name on e.Ctx with its own parameters in order, and hands both results to update; update accumulates Flags with |= and stores err",
		Run:  ruleErrDecimalWrappers})
	register(&Rule{ID: "C03.R3", Min: 90,
		Text: "every return of a single-rounding operation goes through the trap filter: (flags, error) pairs come from goError/GoError on those very flags, from a tail call of another operation, are (0, nil), or carry a definitely non-nil error",
		Run:  ruleReturnIdioms})
	register(&Rule{ID: "C03.R4", Min: 1,
		Text: "errors are compared with nil, never with each other (expected zero sites; the checker carries a positive example)",
		Run:  ruleErrorCompare})
	register(&Rule{ID: "C03.R5", Min: 3,
		Text: "composite functions surface wrapper errors: in every function using an ErrDecimal, each result-delivering return and each direct write of the caller's destination is preceded, after the last wrapper call on every path, by an ed.Err() test whose non-nil edge returns that error (or the function returns ed.Err() itself)",
		Run:  ruleSurfaceErrors})
}

// ---- R1 ---------------------------------------------------------------------

func ruleGoError(w *World, r *RuleResult) {
	f := w.fn("(Condition).GoError")
	if f == nil {
		r.anchorMissing("(Condition).GoError")
		return
	}
	cc := w.conditionConsts()
	sys := cc["SystemOverflow"] | cc["SystemUnderflow"]
	paths, ok := enumPaths(f, 256)
	if !ok {
		r.undecided("(Condition).GoError | iff", w.pos(f.Pos()), "not loop-free")
		return
	}
	classify := func(cond ssa.Value) string { // "sys", "traps" or ""
		if tv, bits, _, ok := w.systemTest(cond); ok && tv == ssa.Value(f.Params[0]) && bits == 3 {
			return "sys"
		}
		bo, ok := cond.(*ssa.BinOp)
		if !ok || (bo.Op != token.NEQ && bo.Op != token.EQL) {
			return ""
		}
		var and *ssa.BinOp
		if a, ok := bo.X.(*ssa.BinOp); ok && a.Op == token.AND {
			and = a
		}
		if k, ok := bo.Y.(*ssa.Const); !ok || and == nil || ci(k) != 0 {
			return ""
		}
		isR := func(v ssa.Value) bool { p, ok := v.(*ssa.Parameter); return ok && p == f.Params[0] }
		for _, pr := range [][2]ssa.Value{{and.X, and.Y}, {and.Y, and.X}} {
			if !isR(pr[0]) {
				continue
			}
			if v, ok := condBits(pr[1]); ok && v == sys {
				return "sys"
			}
			if p, ok := pr[1].(*ssa.Parameter); ok && len(f.Params) > 1 && p == f.Params[1] {
				return "traps"
			}
		}
		return ""
	}
	var bad []string
	for _, p := range paths {
		if len(p.Ret.Results) != 2 {
			bad = append(bad, "unexpected result arity")
			continue
		}
		if rv := phiOnPath(p.Ret.Results[0], p); rv != ssa.Value(f.Params[0]) {
			bad = append(bad, "the Condition result is not the receiver on the path returning at "+w.instrPos(p.Ret))
		}
		ev := phiOnPath(p.Ret.Results[1], p)
		isNil := isNilConst(ev)
		facts := map[string]bool{}
		sysClear := 0
		for _, d := range p.Decisions {
			c := classify(d.Cond)
			// one of the two system flags tested by itself (r.SystemOverflow() || r.SystemUnderflow()): set on
			// this path means a system flag is set; both found clear means none is
			if tv, bits, tms, okS := w.systemTest(d.Cond); c == "" && okS && tv == ssa.Value(f.Params[0]) && bits != 0 && bits&^3 == 0 {
				if d.Val == tms {
					facts["sys=true"] = true
				} else {
					sysClear |= bits
					if sysClear == 3 {
						facts["sys=false"] = true
					}
				}
				continue
			}
			// (r & traps).Any(), with Any verified to be `r != 0`
			if call, isC := d.Cond.(*ssa.Call); c == "" && isC && len(call.Common().Args) == 1 && w.isNonZeroPredicate(callee(call)) {
				if and, isA := call.Common().Args[0].(*ssa.BinOp); isA && and.Op == token.AND && len(f.Params) > 1 {
					x, y := and.X, and.Y
					if (x == ssa.Value(f.Params[0]) && y == ssa.Value(f.Params[1])) || (y == ssa.Value(f.Params[0]) && x == ssa.Value(f.Params[1])) {
						facts[fmt.Sprintf("traps=%v", d.Val)] = true
						continue
					}
				}
			}
			if c == "" {
				bad = append(bad, "unrecognised branch condition "+w.exprOf(f, d.Cond).String())
				continue
			}
			val := d.Val
			if _, _, tms, ok := w.systemTest(d.Cond); ok {
				if !tms {
					val = !val
				}
			} else if d.Cond.(*ssa.BinOp).Op == token.EQL {
				val = !val
			}
			facts[fmt.Sprintf("%s=%v", c, val)] = true
		}
		if isNil && !(facts["sys=false"] && facts["traps=false"]) {
			bad = append(bad, "a path returns a nil error although a system or trapped condition may be set (decisions: "+fmt.Sprint(sortedFieldSet(facts))+")")
		}
		if !isNil && !(facts["sys=true"] || facts["traps=true"]) {
			bad = append(bad, "a path returns an error although no system or trapped condition is set")
		}
	}
	if len(bad) > 0 {
		r.bad("(Condition).GoError | error iff system∨trapped", w.pos(f.Pos()), strings.Join(uniqStrings(bad), "; "))
	} else {
		r.ok("(Condition).GoError | error iff system∨trapped", w.pos(f.Pos()), fmt.Sprintf("%d paths enumerated; nil error exactly on r&sys==0 ∧ r&traps==0; Condition result is the receiver", len(paths)), true)
	}
	// Context.goError
	g := w.fn("(*Context).goError")
	if g == nil {
		r.anchorMissing("(*Context).goError")
		return
	}
	gp, ok := enumPaths(g, 64)
	key := "(*Context).goError | delegates to GoError(c.Traps)"
	if !ok {
		r.undecided(key, w.pos(g.Pos()), "not loop-free")
		return
	}
	bad = nil
	flagsP := g.Params[1]
	for _, p := range gp {
		c0 := phiOnPath(p.Ret.Results[0], p)
		e1 := phiOnPath(p.Ret.Results[1], p)
		if isNilConst(e1) {
			zero := false
			for _, d := range p.Decisions {
				if bo, ok := d.Cond.(*ssa.BinOp); ok && bo.X == ssa.Value(flagsP) {
					if k, ok := bo.Y.(*ssa.Const); ok && ci(k) == 0 && ((bo.Op == token.EQL && d.Val) || (bo.Op == token.NEQ && !d.Val)) {
						zero = true
					}
				}
			}
			// `!flags.Any()`, with Any verified to be `r != 0`
			for _, d := range p.Decisions {
				cond, val := d.Cond, d.Val
				for {
					u, isU := cond.(*ssa.UnOp)
					if !isU || u.Op != token.NOT {
						break
					}
					cond, val = u.X, !val
				}
				if call, isC := cond.(*ssa.Call); isC && !val && len(call.Common().Args) == 1 && call.Common().Args[0] == ssa.Value(flagsP) && w.isNonZeroPredicate(callee(call)) {
					zero = true
				}
			}
			// the zero flags may be returned as the parameter or as the literal 0
			isZeroLit := false
			if k, isK := c0.(*ssa.Const); isK {
				if v, okV := condBits(k); okV && v == 0 {
					isZeroLit = true
				}
			}
			if !zero || (c0 != ssa.Value(flagsP) && !isZeroLit) {
				bad = append(bad, "returns a nil error without the guard flags == 0")
			}
			continue
		}
		// must be both results of GoError(flags, c.Traps)
		ex0, ok0 := c0.(*ssa.Extract)
		ex1, ok1 := e1.(*ssa.Extract)
		if !ok0 || !ok1 || ex0.Tuple != ex1.Tuple || ex0.Index != 0 || ex1.Index != 1 {
			bad = append(bad, "non-zero flags are not returned through GoError")
			continue
		}
		call, ok := ex0.Tuple.(*ssa.Call)
		if !ok || w.calleeName(call) != "(Condition).GoError" || call.Common().Args[0] != ssa.Value(flagsP) || w.exprOf(g, call.Common().Args[1]).String() != "c.Traps" {
			bad = append(bad, "GoError is not called as flags.GoError(c.Traps)")
		}
	}
	if len(bad) > 0 {
		r.bad(key, w.pos(g.Pos()), strings.Join(uniqStrings(bad), "; "))
	} else {
		r.ok(key, w.pos(g.Pos()), "nil only under flags==0; otherwise flags.GoError(c.Traps)", true)
	}
	// Err(): returns e.err if set else goError(e.Flags) on e.Ctx
	if h := w.fn("(*ErrDecimal).Err"); h != nil {
		key := "(*ErrDecimal).Err | derives the error from accumulated Flags"
		okc := false
		for _, c := range w.callsTo(h, "(*Context).goError") {
			if w.exprOf(h, c.Common().Args[1]).String() == "e.Flags" && w.exprOf(h, c.Common().Args[0]).String() == "e.Ctx" {
				okc = true
			}
		}
		if okc {
			r.ok(key, w.pos(h.Pos()), "e.Ctx.goError(e.Flags)", true)
		} else {
			r.bad(key, w.pos(h.Pos()), "Err no longer converts the accumulated Flags with the context's traps")
		}
	} else {
		r.anchorMissing("(*ErrDecimal).Err")
	}
}

// ---- R2 ---------------------------------------------------------------------

var errDecimalNonWrappers = map[string]string{
	"Err":    "error accessor",
	"update": "accumulator",
	"Int64":  "wraps (*Decimal).Int64, not a Context method",
}

func ruleErrDecimalWrappers(w *World, r *RuleResult) {
	n := 0
	for _, name := range w.Names {
		f := w.Funcs[name]
		recv := f.Signature.Recv()
		if recv == nil || w.apdTypeName(recv.Type()) != "ErrDecimal" || errDecimalNonWrappers[f.Name()] != "" {
			continue
		}
		n++
		key := name + " | wrapper discipline"
		var bad []string
		// (i) entry: e.Err() != nil → return without effects
		b0 := f.Blocks[0]
		iff, _ := b0.Instrs[len(b0.Instrs)-1].(*ssa.If)
		okGuard := false
		if iff != nil {
			if bo, ok := iff.Cond.(*ssa.BinOp); ok && (bo.Op == token.NEQ || bo.Op == token.EQL) && isNilConst(bo.Y) {
				if c, ok := bo.X.(*ssa.Call); ok && w.calleeName(c) == "(*ErrDecimal).Err" && c.Common().Args[0] == ssa.Value(f.Params[0]) {
					okGuard = true
					// nothing else happens before the test
					for _, in := range b0.Instrs {
						switch in.(type) {
						case *ssa.Store:
							bad = append(bad, "store before the Err() test")
						case ssa.CallInstruction:
							if in != ssa.Instruction(c) {
								bad = append(bad, "call before the Err() test")
							}
						}
					}
					// the error edge returns without calls or stores
					eb := b0.Succs[0]
					if bo.Op == token.EQL {
						// `if e.Err() == nil { … }`: the error edge is the one that skips the body
						eb = b0.Succs[1]
					}
					for _, in := range eb.Instrs {
						switch in.(type) {
						case *ssa.Store, ssa.CallInstruction:
							bad = append(bad, "the error edge is not a bare return (destination may be touched after an error)")
						}
					}
					if _, ok := eb.Instrs[len(eb.Instrs)-1].(*ssa.Return); !ok {
						bad = append(bad, "the error edge does not return")
					}
				}
			}
		}
		if !okGuard {
			bad = append(bad, "does not start with `if e.Err() != nil { return … }` (or the body under `if e.Err() == nil`)")
		}
		// (ii) exactly one call to Context.<same name> on e.Ctx with own params in order
		var ctxCalls []*ssa.Call
		for _, c := range callsIn(f) {
			if cc, ok := c.(*ssa.Call); ok {
				g := callee(cc)
				if g != nil && g.Signature.Recv() != nil && w.apdTypeName(g.Signature.Recv().Type()) == "Context" {
					ctxCalls = append(ctxCalls, cc)
				}
			}
		}
		if len(ctxCalls) != 1 {
			bad = append(bad, fmt.Sprintf("%d Context method calls (want exactly 1)", len(ctxCalls)))
		} else {
			c := ctxCalls[0]
			g := callee(c)
			if g.Name() != f.Name() {
				bad = append(bad, fmt.Sprintf("performs Context.%s instead of Context.%s", g.Name(), f.Name()))
			}
			args := c.Common().Args
			if w.exprOf(f, args[0]).String() != "e.Ctx" {
				bad = append(bad, "the Context receiver is not e.Ctx")
			}
			if len(args)-1 != len(f.Params)-1 {
				bad = append(bad, "argument count differs from the wrapper's parameters")
			} else {
				for i := 1; i < len(args); i++ {
					if args[i] != ssa.Value(f.Params[i]) {
						bad = append(bad, fmt.Sprintf("argument %d is %s, not the wrapper's parameter %s", i, w.exprOf(f, args[i]).String(), f.Params[i].Name()))
					}
				}
			}
			// (iii) both results to update
			ups := w.callsTo(f, "(*ErrDecimal).update")
			if len(ups) != 1 {
				bad = append(bad, fmt.Sprintf("%d update calls (want 1)", len(ups)))
			} else {
				u := ups[0].Common().Args
				nres := g.Signature.Results().Len()
				e1, ok1 := u[1].(*ssa.Extract)
				e2, ok2 := u[2].(*ssa.Extract)
				if !ok1 || !ok2 || e1.Tuple != ssa.Value(c) || e2.Tuple != ssa.Value(c) || e1.Index != nres-2 || e2.Index != nres-1 || u[0] != ssa.Value(f.Params[0]) {
					bad = append(bad, "the Context method's (Condition, error) results are not both passed to e.update")
				}
			}
		}
		if len(bad) > 0 {
			r.bad(key, w.pos(f.Pos()), strings.Join(uniqStrings(bad), "; "))
		} else {
			r.ok(key, w.pos(f.Pos()), "Err-guard, same-named Context call on e.Ctx with own parameters, results to update", true)
		}
	}
	// update
	u := w.fn("(*ErrDecimal).update")
	if u == nil {
		r.anchorMissing("(*ErrDecimal).update")
		return
	}
	okFlags, okErr := false, false
	// fields of the receiver, whatever it is called
	recvField := func(addr ssa.Value) string {
		if fa, ok := addr.(*ssa.FieldAddr); ok && fa.X == ssa.Value(u.Params[0]) {
			return w.exprOf(u, addr).Name
		}
		return ""
	}
	loadOf := func(v ssa.Value, field string) bool {
		ld, ok := v.(*ssa.UnOp)
		return ok && ld.Op == token.MUL && recvField(ld.X) == field
	}
	isFlagsStore := func(in ssa.Instruction) bool {
		st, ok := in.(*ssa.Store)
		if !ok || recvField(st.Addr) != "Flags" {
			return false
		}
		bo, ok := st.Val.(*ssa.BinOp)
		if !ok || bo.Op != token.OR {
			return false
		}
		return (loadOf(bo.X, "Flags") && bo.Y == ssa.Value(u.Params[1])) || (loadOf(bo.Y, "Flags") && bo.X == ssa.Value(u.Params[1]))
	}
	isErrStore := func(in ssa.Instruction) bool {
		st, ok := in.(*ssa.Store)
		return ok && recvField(st.Addr) == "err" && st.Val == ssa.Value(u.Params[2])
	}
	for _, b := range u.Blocks {
		for _, in := range b.Instrs {
			if isFlagsStore(in) {
				okFlags = true
			}
			if isErrStore(in) {
				okErr = true
			}
			if st, ok := in.(*ssa.Store); ok && recvField(st.Addr) == "err" && !isErrStore(in) {
				okErr = false // something other than the operation's error is recorded
				break
			}
		}
	}
	// Flags |= res on every path; err = err on every path except those on which an earlier error is
	// already recorded (e.err != nil: the first error wins, which is what the wrappers' guard implies anyway)
	for _, b := range u.Blocks {
		rt, isRet := b.Instrs[len(b.Instrs)-1].(*ssa.Return)
		if !isRet {
			continue
		}
		if !seenBefore(rt, isFlagsStore) {
			okFlags = false
		}
	}
	{
		seen := map[*ssa.BasicBlock]bool{}
		var walk func(b *ssa.BasicBlock)
		walk = func(b *ssa.BasicBlock) {
			if seen[b] {
				return
			}
			seen[b] = true
			for _, in := range b.Instrs {
				if isErrStore(in) {
					return
				}
			}
			if _, isRet := b.Instrs[len(b.Instrs)-1].(*ssa.Return); isRet {
				okErr = false // reached a return without storing, with no earlier error recorded
				return
			}
			for i, sc := range b.Succs {
				if iff, ok := b.Instrs[len(b.Instrs)-1].(*ssa.If); ok {
					if bo, ok := iff.Cond.(*ssa.BinOp); ok && isNilConst(bo.Y) && loadOf(bo.X, "err") {
						// succ 0 = true edge
						if (bo.Op == token.EQL && i == 1) || (bo.Op == token.NEQ && i == 0) {
							continue // an earlier error is recorded on this edge
						}
					}
				}
				walk(sc)
			}
		}
		walk(u.Blocks[0])
	}
	if okFlags && okErr {
		r.ok("(*ErrDecimal).update | accumulates", w.pos(u.Pos()), "Flags |= res; err = err on every path", true)
	} else {
		r.bad("(*ErrDecimal).update | accumulates", w.pos(u.Pos()), fmt.Sprintf("update must do e.Flags |= res (found: %v) and e.err = err (found: %v)", okFlags, okErr))
	}
	if n < 15 {
		r.anchorMissing("ErrDecimal wrappers (found fewer than 15)")
	}
}

// ---- R3 ---------------------------------------------------------------------

var trapFilteredOps = []string{
	"(*Context).add", "(*Context).Add", "(*Context).Sub", "(*Context).Mul", "(*Context).Quo", "(*Context).QuoInteger",
	"(*Context).Rem", "(*Context).Abs", "(*Context).Neg", "(*Context).Round", "(*Context).Quantize",
	"(*Context).RoundToIntegralValue", "(*Context).RoundToIntegralExact", "(*Context).Reduce", "(*Context).Cmp",
	"(*Context).quoSpecials", "(*Context).toIntegralSpecials", "(*Context).setAsNaN", "(*Context).Ceil", "(*Context).Floor",
	"(*Context).SetString",
	// the composite functions: the flags of their series steps reach the caller through the same filter
	"(*Context).Sqrt", "(*Context).Cbrt", "(*Context).Ln", "(*Context).Log10", "(*Context).Exp", "(*Context).Pow",
}

func isErrorType(t types.Type) bool {
	return types.Identical(t, types.Universe.Lookup("error").Type())
}

func ruleReturnIdioms(w *World, r *RuleResult) {
	// the listed operations, and the unexported (Condition, error) helpers they
	// end in by a tail call: such a helper closes the operation in their place
	work := append([]string{}, trapFilteredOps...)
	listed := map[string]bool{}
	for _, n := range work {
		listed[n] = true
	}
	for i := 0; i < len(work); i++ {
		name := work[i]
		f := w.fn(name)
		if f == nil {
			if i < len(trapFilteredOps) {
				r.anchorMissing(name)
			}
			continue
		}
		for _, c := range callsIn(f) {
			call, ok := c.(*ssa.Call)
			if !ok {
				continue
			}
			g := callee(call)
			if g == nil || !w.inPkg(g) || g.Object() == nil || g.Object().Exported() || listed[w.shortName(g)] || len(g.Blocks) == 0 || w.isGoErrorCall(call) {
				continue
			}
			gr := g.Signature.Results()
			if gr.Len() != 2 || !isErrorType(gr.At(1).Type()) || !typeIs(gr.At(0).Type(), apdPath, "Condition") {
				continue
			}
			// is it a tail call: both results returned as they are?
			tail := false
			for _, ref := range *call.Referrers() {
				ex, ok := ref.(*ssa.Extract)
				if !ok || ex.Referrers() == nil {
					continue
				}
				for _, rr := range *ex.Referrers() {
					if _, isRet := rr.(*ssa.Return); isRet {
						tail = true
					}
				}
			}
			isParser := false
			for _, pf := range w.parserFuncs() {
				if pf == g {
					isParser = true // the parsing step does not trap: C03.R8
				}
			}
			// only helpers that close the operation themselves: one that hands its
			// parameters back (a common error exit) is judged where it is called
			closes := false
			for _, gc := range callsIn(g) {
				if gcall, ok := gc.(*ssa.Call); ok && w.isGoErrorCall(gcall) {
					closes = true
				}
			}
			if tail && closes && !isParser && w.shortName(g) != "(*Context).integerPower" {
				listed[w.shortName(g)] = true
				work = append(work, w.shortName(g))
			}
		}
		ci := w.condResultIndex(f)
		res := f.Signature.Results()
		ei := res.Len() - 1
		if ci < 0 || !isErrorType(res.At(ei).Type()) {
			r.anchorMissing(name + " (Condition, error) results")
			continue
		}
		n := 0
		for _, b := range f.Blocks {
			rt, ok := b.Instrs[len(b.Instrs)-1].(*ssa.Return)
			if !ok {
				continue
			}
			n++
			key := fmt.Sprintf("%s | return #%d", name, n)
			cv, ev := rt.Results[ci], rt.Results[ei]
			verdict, why := w.classifyReturn(f, rt, cv, ev)
			if verdict {
				r.ok(key, w.instrPos(rt), why, why != "(0, nil)")
			} else {
				r.bad(key, w.instrPos(rt), why)
			}
		}
	}
}

func (w *World) classifyReturn(f *ssa.Function, rt *ssa.Return, cv, ev ssa.Value) (bool, string) {
	cbits, cconst := condBits(cv)
	// phi of alternatives: every incoming pair must be fine
	if cp, ok := cv.(*ssa.Phi); ok {
		if ep, ok := ev.(*ssa.Phi); ok && ep.Block() == cp.Block() {
			for i := range cp.Edges {
				if ok, why := w.classifyReturn(f, rt, cp.Edges[i], ep.Edges[i]); !ok {
					return false, why
				}
			}
			return true, "every incoming (flags, error) pair is filtered"
		}
	}
	if ex, ok := ev.(*ssa.Extract); ok {
		if call, ok := ex.Tuple.(*ssa.Call); ok {
			g := callee(call)
			if w.isGoErrorCall(call) {
				arg := call.Common().Args[len(call.Common().Args)-1]
				if w.calleeName(call) == "(Condition).GoError" {
					arg = call.Common().Args[0]
				}
				if cx, ok := cv.(*ssa.Extract); ok && cx.Tuple == ex.Tuple && cx.Index == 0 {
					return true, "return goError(flags)"
				}
				if cv == arg {
					return true, "flags returned together with goError(flags)'s error"
				}
				return false, "the error comes from goError on different flags than the ones returned"
			}
			if g != nil && w.inPkg(g) {
				gci := w.condResultIndex(g)
				if cx, ok := cv.(*ssa.Extract); ok && cx.Tuple == ex.Tuple && cx.Index == gci && ex.Index == g.Signature.Results().Len()-1 {
					return true, "tail call of " + w.shortName(g)
				}
				if cconst && cbits == 0 && w.definitelyNonNil(ev, rt.Block()) {
					return true, "(0, non-nil error from " + w.shortName(g) + ")"
				}
				if w.definitelyNonNil(ev, rt.Block()) {
					return true, "flags with the definitely non-nil error of " + w.shortName(g)
				}
				return false, "flags and error come from different sources: " + w.exprOf(f, cv).String() + " / " + w.exprOf(f, ev).String()
			}
		}
	}
	if isNilConst(ev) {
		if cconst && cbits == 0 {
			return true, "(0, nil)"
		}
		return false, "flags " + w.exprOf(f, cv).String() + " are returned with a nil error without passing the trap filter"
	}
	if w.definitelyNonNil(ev, rt.Block()) {
		if cconst && cbits == 0 {
			return true, "(0, non-nil error)"
		}
		return true, "flags with a definitely non-nil error"
	}
	return false, "cannot relate returned flags " + w.exprOf(f, cv).String() + " and error " + w.exprOf(f, ev).String()
}

// ---- R4 ---------------------------------------------------------------------

func errorCompareSites(w *World, f *ssa.Function) []ssa.Instruction {
	var out []ssa.Instruction
	for _, b := range f.Blocks {
		for _, in := range b.Instrs {
			bo, ok := in.(*ssa.BinOp)
			if !ok || (bo.Op != token.EQL && bo.Op != token.NEQ) {
				continue
			}
			if isErrorType(bo.X.Type()) && isErrorType(bo.Y.Type()) && !isNilConst(bo.X) && !isNilConst(bo.Y) {
				out = append(out, in)
			}
		}
	}
	return out
}

func ruleErrorCompare(w *World, r *RuleResult) {
	total := 0
	for _, name := range w.Names {
		f := w.Funcs[name]
		for _, in := range errorCompareSites(w, f) {
			total++
			r.bad(name+" | error compared with error", w.instrPos(in), "two error values are compared with each other ("+w.exprOf(f, in.(ssa.Value)).String()+"); a stale nil error can be returned when an internal step failed")
		}
	}
	// positive example (must fire): analysed from testdata on every run
	if n, err := positiveExample("errcmp", func(pw *World) int {
		c := 0
		for _, nm := range pw.Names {
			c += len(errorCompareSites(pw, pw.Funcs[nm]))
		}
		return c
	}); err != nil {
		r.undecided("positive example errcmp", "testdata", err.Error())
	} else if n == 0 {
		r.undecided("positive example errcmp", "testdata", "the rule did not fire on its positive example")
	}
	r.ok("package | no error==error comparison", "", fmt.Sprintf("%d comparison sites between two non-nil error operands; positive example fires", total), true)
}

// ---- R5 ---------------------------------------------------------------------

func ruleSurfaceErrors(w *World, r *RuleResult) {
	for _, name := range w.Names {
		f := w.Funcs[name]
		mk := w.callsTo(f, "MakeErrDecimal")
		if len(mk) == 0 {
			continue
		}
		// the ErrDecimal locals of f
		eds := map[ssa.Value]bool{}
		for _, b := range f.Blocks {
			for _, in := range b.Instrs {
				if a, ok := in.(*ssa.Alloc); ok && typeIs(a.Type(), apdPath, "ErrDecimal") {
					eds[a] = true
				}
			}
		}
		isWrapper := func(in ssa.Instruction) bool {
			c, ok := in.(*ssa.Call)
			if !ok {
				return false
			}
			g := callee(c)
			if g == nil || g.Signature.Recv() == nil || w.apdTypeName(g.Signature.Recv().Type()) != "ErrDecimal" {
				return false
			}
			return errDecimalNonWrappers[g.Name()] == "" && eds[c.Common().Args[0]]
		}
		// forward analysis: dirty = a wrapper ran since the last successful Err() test
		n := len(f.Blocks)
		in := make([]int, n) // -1 unreached, 0 clean, 1 dirty
		for i := range in {
			in[i] = -1
		}
		in[0] = 0
		roles := w.roles(f)
		p := w.newProv(f, nil)
		var problems []string
		outState := func(b *ssa.BasicBlock, st int, record bool) []int {
			var lastErrCall *ssa.Call
			for _, x := range b.Instrs {
				if isWrapper(x) {
					st = 1
					continue
				}
				if c, ok := x.(*ssa.Call); ok && w.calleeName(c) == "(*ErrDecimal).Err" && eds[c.Common().Args[0]] {
					lastErrCall = c
					continue
				}
				if record && st == 1 {
					switch y := x.(type) {
					case *ssa.Return:
						if !w.isErrorReturn(y) && !w.returnsEdErr(y, eds) {
							problems = append(problems, "result-delivering return at "+w.instrPos(y)+" is reachable after a wrapper call without an ed.Err() != nil test: an internal trapped condition would be hidden")
						}
					default:
						for _, e := range w.instrEffects(p, x, nil) {
							if e.Write && e.Loc.Root.Kind == RParam && roles[e.Loc.Root.Param] == RoleDest && isDecimalPtr(f.Params[e.Loc.Root.Param].Type()) {
								if c, ok := x.(*ssa.Call); ok && isWrapper(c) {
									continue
								}
								// a helper's out-parameter that every caller points at a local scratch value is
								// not the operation's destination
								if w.scratchParam(f, e.Loc.Root.Param) {
									continue
								}
								// replacing the destination by the shared NaN (the failure path's clean-up) hides nothing
								if c, ok := x.(*ssa.Call); ok && len(c.Common().Args) > 0 && w.nanWholeWrite(c, basePtr(c.Common().Args[0])) {
									continue
								}
								problems = append(problems, "destination written at "+w.instrPos(x)+" after a wrapper call whose error has not been tested")
							}
						}
					}
				}
			}
			outs := make([]int, len(b.Succs))
			for i := range outs {
				outs[i] = st
			}
			// an `if ed.Err() != nil` (possibly via a local) cleans the false edge
			if iff, ok := b.Instrs[len(b.Instrs)-1].(*ssa.If); ok && lastErrCall != nil {
				if bo, ok := iff.Cond.(*ssa.BinOp); ok && (bo.Op == token.NEQ || bo.Op == token.EQL) && bo.X == ssa.Value(lastErrCall) && isNilConst(bo.Y) {
					nilEdge := 1
					if bo.Op == token.EQL {
						nilEdge = 0
					}
					// the non-nil edge must return (an error)
					eb := b.Succs[1-nilEdge]
					if rt, ok := eb.Instrs[len(eb.Instrs)-1].(*ssa.Return); ok && (w.isErrorReturn(rt) || w.returnsValue(rt, lastErrCall)) {
						outs[nilEdge] = 0
					}
				}
			}
			return outs
		}
		changed := true
		for iter := 0; changed && iter < 8*n+16; iter++ {
			changed = false
			for _, b := range f.Blocks {
				if in[b.Index] < 0 {
					continue
				}
				outs := outState(b, in[b.Index], false)
				for i, s := range b.Succs {
					if outs[i] > in[s.Index] {
						in[s.Index] = outs[i]
						changed = true
					}
				}
			}
		}
		for _, b := range f.Blocks {
			if in[b.Index] >= 0 {
				outState(b, in[b.Index], true)
			}
		}
		key := name + " | wrapper errors surfaced"
		if len(problems) > 0 {
			r.bad(key, w.pos(f.Pos()), strings.Join(uniqStrings(problems), "; "))
		} else {
			r.ok(key, w.pos(f.Pos()), "every result-delivering return and destination write after wrapper calls is behind an ed.Err() test", true)
		}
	}
}

// returnsEdErr: the error operand of the return is a direct ed.Err() call.
func (w *World) returnsEdErr(rt *ssa.Return, eds map[ssa.Value]bool) bool {
	for _, v := range rt.Results {
		if c, ok := v.(*ssa.Call); ok && w.calleeName(c) == "(*ErrDecimal).Err" && eds[c.Common().Args[0]] {
			return true
		}
	}
	return false
}

func (w *World) returnsValue(rt *ssa.Return, v ssa.Value) bool {
	for _, x := range rt.Results {
		if x == v {
			return true
		}
	}
	return false
}

// scratchParam: parameter idx of the unexported function f receives, at every call site, a pointer to a
// local variable of the caller (a scratch value), never the caller's own parameters.
func (w *World) scratchParam(f *ssa.Function, idx int) bool {
	if f.Object() != nil && f.Object().Exported() || w.addressTaken(f) {
		return false
	}
	sites := w.allCallsTo(w.shortName(f))
	if len(sites) == 0 {
		return false
	}
	for _, s := range sites {
		if idx >= len(s.Common().Args) {
			return false
		}
		if _, local := basePtr(s.Common().Args[idx]).(*ssa.Alloc); !local {
			return false
		}
	}
	return true
}

// isNonZeroPredicate: h is `func (r Condition) X() bool { return r != 0 }`.
func (w *World) isNonZeroPredicate(h *ssa.Function) bool {
	if h == nil || !w.inPkg(h) || len(h.Blocks) != 1 || len(h.Params) != 1 {
		return false
	}
	rt, ok := h.Blocks[0].Instrs[len(h.Blocks[0].Instrs)-1].(*ssa.Return)
	if !ok || len(rt.Results) != 1 {
		return false
	}
	bo, ok := rt.Results[0].(*ssa.BinOp)
	if !ok || bo.Op != token.NEQ || bo.X != ssa.Value(h.Params[0]) {
		return false
	}
	v, isK := condBits(bo.Y)
	return isK && v == 0
}
