package main

import (
	"fmt"
	"go/token"
	"sort"
	"strings"

	"golang.org/x/tools/go/ssa"
)

// Rules added after the third hunting round (regression hunters comparing the repaired tree with the pinned one).

func init() {
	register(&Rule{ID: "C01.R10", Min: 3,
		Text: "the package limits are limits on exponents, not on digit counts: no System* condition is returned because a number of digits (a value that derives from NumDigits and from no exponent) exceeds ±MaxExponent — the digits a rounding discards raise the exponent, which setExponent range-checks afterwards, so the exact sum of two in-range operands with more than 100000 digits (Sub(78855703962149968742E+99973, 149E-17) at Precision 5 = 7.8856E+99992) must round, not fail",
		Run:  ruleLimitsAreOnExponents})
}

func ruleLimitsAreOnExponents(w *World, r *RuleResult) {
	cc := w.conditionConsts()
	sys := cc["SystemOverflow"] | cc["SystemUnderflow"]
	maxE, ok := int64(0), false
	if c, isC := w.SSA.Members["MaxExponent"].(*ssa.NamedConst); isC {
		maxE, ok = ci(c.Value), true
	}
	if !ok || sys == 0 {
		r.anchorMissing("MaxExponent / System* constants")
		return
	}
	var fns []*ssa.Function
	for _, f := range w.Funcs {
		fns = append(fns, f)
	}
	sort.Slice(fns, func(i, j int) bool { return w.shortName(fns[i]) < w.shortName(fns[j]) })
	for _, f := range fns {
		n := 0
		for _, b := range f.Blocks {
			rt, isRet := b.Instrs[len(b.Instrs)-1].(*ssa.Return)
			if !isRet {
				continue
			}
			hit := false
			for _, v := range rt.Results {
				if bits, isK := condBits(v); isK && typeIs(v.Type(), apdPath, "Condition") && bits&sys != 0 && bits < 1<<12 {
					hit = true
				}
				// c.goError(System…)
				if c, isC := v.(*ssa.Extract); isC {
					if call, isCall := c.Tuple.(*ssa.Call); isCall {
						for _, a := range call.Common().Args {
							if bits, isK := condBits(a); isK && typeIs(a.Type(), apdPath, "Condition") && bits&sys != 0 && bits < 1<<12 {
								hit = true
							}
						}
					}
				}
			}
			if !hit {
				continue
			}
			n++
			key := fmt.Sprintf("%s | System* return #%d is decided on an exponent", w.shortName(f), n)
			var bad []string
			for _, g := range guardsAt(b) {
				bo, isB := g.Cond.(*ssa.BinOp)
				if !isB {
					continue
				}
				for oi, o := range []ssa.Value{bo.X, bo.Y} {
					k, isK := o.(*ssa.Const)
					if !isK || k.Value == nil || (ci(k) != maxE && ci(k) != -maxE) {
						continue
					}
					other := bo.Y
					if oi == 1 {
						other = bo.X
					}
					// a pure digit-count expression: NumDigits calls, Precision fields and constants only
					digits := false
					var pure func(e *Expr, d int) bool
					pure = func(e *Expr, d int) bool {
						if e == nil || d > 12 {
							return false
						}
						switch e.Op {
						case "const", "cycle":
							return true
						case "call":
							if strings.Contains(e.Name, "NumDigits") {
								digits = true
								return true
							}
							return false
						case "field":
							return e.Name == "Precision"
						case "bin", "un", "convert", "phi", "local":
							for _, a := range e.Args {
								if !pure(a, d+1) {
									return false
								}
							}
							return true
						}
						return false
					}
					exponent := !pure(w.exprOf(f, other), 0)
					if digits && !exponent {
						bad = append(bad, w.exprOf(f, g.Cond).String())
					}
				}
			}
			if len(bad) > 0 {
				r.bad(key, w.instrPos(rt), "a System* condition is returned because a digit count fails "+short(strings.Join(uniqStrings(bad), " ∧ "), 160)+": more than 100000 digits to discard is not an exponent out of range — the exact sum or product of in-range operands can be that long and rounds to an in-range value, here the destination keeps the unrounded 100000+ digit coefficient together with 'exponent out of range'")
			} else {
				r.ok(key, w.instrPos(rt), "no guard of this return compares a pure digit count with ±MaxExponent", true)
			}
		}
	}
}

func init() {
	register(&Rule{ID: "C19.R6", Min: 1,
		Text: "the count Context.Reduce returns depends on the operand only: the int result derives from a Decimal.Reduce applied to the operand x itself, and that call comes before every other call that writes the destination (d may be x) — not from stripping the rounded destination, whose trailing zeros are those the rounding left (Reduce(120000) at Precision 2 removes four zeros, not none)",
		Run:  ruleReduceCountFromOperand})
}

func ruleReduceCountFromOperand(w *World, r *RuleResult) {
	f := w.fn("(*Context).Reduce")
	if f == nil {
		r.anchorMissing("(*Context).Reduce")
		return
	}
	if len(f.Params) < 3 {
		r.anchorMissing("(*Context).Reduce parameters (c, d, x)")
		return
	}
	dP, xP := f.Params[1], f.Params[2]
	n := 0
	for _, b := range f.Blocks {
		rt, isRet := b.Instrs[len(b.Instrs)-1].(*ssa.Return)
		if !isRet || len(rt.Results) != 3 {
			continue
		}
		if k, isK := rt.Results[0].(*ssa.Const); isK && k.Value != nil {
			continue // the NaN exit: 0
		}
		n++
		key := fmt.Sprintf("(*Context).Reduce | count of return #%d derives from the operand", n)
		// the sources of the count: extracts of Decimal.Reduce calls (through φ and additions)
		var srcs []*ssa.Call
		okShape := true
		seen := map[ssa.Value]bool{}
		var walk func(v ssa.Value)
		walk = func(v ssa.Value) {
			if seen[v] {
				return
			}
			seen[v] = true
			switch x := v.(type) {
			case *ssa.Const:
			case *ssa.Phi:
				for _, e := range x.Edges {
					walk(e)
				}
			case *ssa.Extract:
				if c, isC := x.Tuple.(*ssa.Call); isC && w.calleeName(c) == "(*Decimal).Reduce" {
					srcs = append(srcs, c)
				} else {
					okShape = false
				}
			default:
				okShape = false
			}
		}
		walk(rt.Results[0])
		if !okShape || len(srcs) == 0 {
			r.ok(key, w.instrPos(rt), "the count is not the plain result of Decimal.Reduce calls: not decided for this shape", false)
			continue
		}
		var bad []string
		for _, c := range srcs {
			args := c.Common().Args
			if len(args) < 2 || args[1] != ssa.Value(xP) {
				bad = append(bad, fmt.Sprintf("the count comes from %s at %s, whose operand is not x", w.exprOf(f, c).String(), w.instrPos(c)))
				continue
			}
			// every other call handing d to a callee comes after it
			for _, ob := range f.Blocks {
				for _, in := range ob.Instrs {
					oc, isC := in.(*ssa.Call)
					if !isC || oc == c {
						continue
					}
					writesD := false
					for _, a := range oc.Common().Args {
						if a == ssa.Value(dP) {
							writesD = true
						}
					}
					if g := callee(oc); g != nil && w.inPkg(g) && writesD {
						sum := w.summary(g)
						writesD = false
						for i, a := range oc.Common().Args {
							if a == ssa.Value(dP) && i < len(sum.Writes) && len(sum.Writes[i]) > 0 {
								writesD = true
							}
						}
					}
					before := oc.Block() == c.Block() && instrIndex(oc) < instrIndex(c) || oc.Block() != c.Block() && reaches(oc.Block(), c.Block())
					if writesD && before {
						bad = append(bad, fmt.Sprintf("%s at %s may write d — which can be x — before the zeros of x are counted at %s", w.calleeName(oc), w.instrPos(oc), w.instrPos(c)))
					}
				}
			}
		}
		if len(bad) > 0 {
			r.bad(key, w.instrPos(rt), strings.Join(uniqStrings(bad), "; ")+": the count must be that of the operand's trailing zeros — Reduce(120000) at Precision 2 gives 1.2E+5 and removed four zeros, stripping the rounded 12E+4 finds none")
		} else {
			r.ok(key, w.instrPos(rt), "the count is the result of Decimal.Reduce(x), taken before any call that writes d", true)
		}
	}
	if n == 0 {
		r.bad("(*Context).Reduce | count", w.pos(f.Pos()), "no return of Context.Reduce delivers a computed count")
	}
}

func init() {
	register(&Rule{ID: "C03.R9", Min: 3,
		Text: "a trap never costs the conditions: no Context operation returns the empty Condition together with the error of an inner step that ran on a working context carrying the caller's own traps (a copy of the receiver whose Traps field was not cleared) — such an error is a trapped condition of the caller, and is owed the flags that occurred; inner steps run on working contexts whose Traps are cleared (a copy of BaseContext still traps Overflow, Underflow and Subnormal: a negligible series term below the package limits would fail the operation), and the closing goError applies the caller's traps to everything (Log10(2) with Inexact trapped returned (0, \"inexact\"))",
		Run:  ruleTrapKeepsConditions})
}

func ruleTrapKeepsConditions(w *World, r *RuleResult) {
	n := 0
	for _, name := range w.Names {
		f := w.Funcs[name]
		if !strings.HasPrefix(name, "(*Context).") || len(f.Params) == 0 || len(f.Blocks) == 0 {
			continue
		}
		ci := w.condResultIndex(f)
		res := f.Signature.Results()
		if ci < 0 || res.Len() < 2 || !isErrorType(res.At(res.Len()-1).Type()) {
			continue
		}
		recv := f.Params[0]
		for _, b := range f.Blocks {
			rt, isRet := b.Instrs[len(b.Instrs)-1].(*ssa.Return)
			if !isRet || len(rt.Results) != res.Len() {
				continue
			}
			if k, isK := rt.Results[ci].(*ssa.Const); !isK || k.Value == nil || ci2(k) != 0 {
				continue
			}
			if isNilConst(rt.Results[len(rt.Results)-1]) {
				continue
			}
			// the inner steps whose failure leads here: guards `err != nil`
			for _, g := range guardsAt(b) {
				bo, isB := g.Cond.(*ssa.BinOp)
				if !isB || (bo.Op != token.NEQ && bo.Op != token.EQL) || (bo.Op == token.NEQ) != g.Val {
					continue
				}
				var ev ssa.Value
				switch {
				case isNilConst(bo.Y) && isErrorType(bo.X.Type()):
					ev = bo.X
				case isNilConst(bo.X) && isErrorType(bo.Y.Type()):
					ev = bo.Y
				default:
					continue
				}
				// the context the failing step ran on
				var step *ssa.Call
				var ctx ssa.Value
				switch x := ev.(type) {
				case *ssa.Extract:
					if c, isC := x.Tuple.(*ssa.Call); isC && len(c.Common().Args) > 0 && isContextPtr(c.Common().Args[0].Type()) {
						step, ctx = c, c.Common().Args[0]
					}
				case *ssa.Call:
					if w.calleeName(x) == "(*ErrDecimal).Err" && len(x.Common().Args) == 1 {
						if k := w.errDecimalCtx(f, x.Common().Args[0]); k != nil {
							step, ctx = x, k
						}
					}
				}
				if step == nil {
					continue
				}
				n++
				key := fmt.Sprintf("%s | empty conditions with the error of %s at %s", name, w.calleeName(step), w.instrPos(step))
				if ctx == ssa.Value(recv) {
					r.bad(key, w.instrPos(rt), "the step ran on the caller's context itself: when one of the caller's traps fires in it, the error is returned without the conditions that occurred")
					continue
				}
				ctor := w.ctxCtor(ctx)
				if ctor == nil {
					r.ok(key, w.instrPos(rt), "the step's context is not a copy made in this function: not decided for this shape", false)
					continue
				}
				fromCaller := false
				if p, fromP := ctor.fromParam(); fromP && p == recv {
					fromCaller = true
				} else if !ctor.fromBaseContext() {
					r.ok(key, w.instrPos(rt), "the step ran on a copy of "+w.exprOf(f, ctor.Src).String()+": not decided for this shape", false)
					continue
				}
				var base ssa.Value = ctor.Call
				if ctor.Call == nil {
					base = ctor.Alloc
				}
				vals := w.lastStoresVia(f, base, "Traps", func(in ssa.Instruction) bool { return in == ssa.Instruction(step) })
				inherits := len(vals) == 0
				for _, v := range vals {
					if v != "0" && v != "0:Condition" {
						inherits = true
					}
				}
				if inherits && !fromCaller {
					r.bad(key, w.instrPos(rt), fmt.Sprintf("the step runs on a copy of BaseContext that still carries BaseContext's traps (Traps = %s): a condition of an intermediate value — a series term below 1E-100000, a difference that rounds up past 1E+100000 — then fails the whole operation with an empty Condition, whatever the caller traps: Ln(1.000…01) with 33339 zeros at Precision 10 returned (0, \"underflow, subnormal\") where 1.000000000E-33340 is required, Ln(99999999E+99993) at Precision 5 returned (0, \"overflow\"); the inner steps run with Traps = 0 and only an exponent beyond the package limits can fail them", strings.Join(vals, " | ")))
				} else if inherits {
					r.bad(key, w.instrPos(rt), fmt.Sprintf("the step runs on a copy of the caller's context that still carries the caller's traps (Traps = %s): when one of them fires inside the step, the operation returns the error with an empty Condition — Log10(2) at Precision 5 with Inexact trapped gave (0, \"inexact\") instead of (Inexact|Rounded, \"inexact\"), and a condition of an intermediate value (a subnormal series term) becomes a spurious error of the operation", strings.Join(vals, " | ")))
				} else {
					r.ok(key, w.instrPos(rt), "the working context's Traps are cleared before the step: only an exponent outside the package limits can fail it", true)
				}
			}
		}
	}
	if n == 0 {
		r.ok("package | inner steps that fail with empty conditions", "", "no Context operation returns (0, err) after a step on a working context", false)
	}
}

func ci2(k *ssa.Const) int64 {
	if k.Value == nil {
		return 0
	}
	return ci(k)
}

// errDecimalCtx: the context an ErrDecimal value (the receiver of a wrapper call in f) was made for:
// ed := MakeErrDecimal(k), directly or through the local it is stored in.
func (w *World) errDecimalCtx(f *ssa.Function, ed ssa.Value) ssa.Value {
	src := ed
	if al, isAl := basePtr(src).(*ssa.Alloc); isAl {
		for _, st := range storesIn(f) {
			if st.Addr == ssa.Value(al) {
				src = st.Val
			}
		}
	}
	if mk, isMk := src.(*ssa.Call); isMk && w.calleeName(mk) == "MakeErrDecimal" && len(mk.Common().Args) == 1 {
		return mk.Common().Args[0]
	}
	return nil
}

func init() {
	register(&Rule{ID: "C12.R6", Min: 1,
		Text: "Exp's reduced argument keeps the digits the series needs: the value that is the dividend of the series' division is either never rounded, or rounded under a context whose Precision is the series' own precision plus a non-negative constant (the same value that is stored as the working precision of the series) — rounded to the caller's or the stage-1 precision, the error is multiplied by 10^t when the sum is raised to the power 10^t (Exp(91.44500000000001) at Precision 4 was 26 ulps off)",
		Run:  ruleExpArgumentPrecision})
	register(&Rule{ID: "C12.R7", Min: 2,
		Text: "constants carry guard digits: the digit count a composite function asks of a constant table (ln 10, 1/ln 10) is the caller's Precision plus a positive constant, never the caller's Precision itself — the product with the constant is rounded to the caller's precision afterwards, and a constant of exactly that many digits contributes an error of its own (Log10(9) at Precision 2 = 0.94, exact 0.9542)",
		Run:  ruleConstantGuardDigits})
}

// precisionValueAt: the value last stored into field Precision of the context ctx (a pointer value of f)
// among the stores that dominate instruction at; conversions stripped. nil if there is none (the constructor's
// own precision is then returned if ctx is a WithPrecision call).
func (w *World) precisionValueAt(f *ssa.Function, ctx ssa.Value, at ssa.Instruction) ssa.Value {
	var best *ssa.Store
	for _, st := range storesIn(f) {
		fa, ok := st.Addr.(*ssa.FieldAddr)
		if !ok || basePtr(fa.X) != basePtr(ctx) || w.exprOf(f, st.Addr).Name != "Precision" || !instrDominates(st, at) {
			continue
		}
		if best == nil || instrDominates(best, st) {
			best = st
		}
	}
	var v ssa.Value
	if best != nil {
		v = best.Val
	} else if ci := w.ctxCtor(basePtr(ctx)); ci != nil {
		v = ci.Prec
	}
	for v != nil {
		if c, ok := v.(*ssa.Convert); ok {
			v = c.X
			continue
		}
		if c, ok := v.(*ssa.ChangeType); ok {
			v = c.X
			continue
		}
		break
	}
	return v
}

func ruleExpArgumentPrecision(w *World, r *RuleResult) {
	f := w.fn("(*Context).Exp")
	if f == nil {
		r.anchorMissing("(*Context).Exp")
		return
	}
	key := "(*Context).Exp | the reduced argument is rounded at the series' precision or not at all"
	// the series division: a wrapper Quo inside a loop
	var quo *ssa.Call
	for _, body := range loopsOf(f) {
		for b := range body {
			for _, in := range b.Instrs {
				if c, ok := in.(*ssa.Call); ok && w.calleeName(c) == "(*ErrDecimal).Quo" && len(c.Common().Args) == 4 {
					quo = c
				}
			}
		}
	}
	if quo == nil {
		r.ok(key, w.pos(f.Pos()), "no series division by an ErrDecimal wrapper inside a loop of Exp: this shape is not decided", false)
		return
	}
	rArg := basePtr(quo.Common().Args[2])
	edCtx := w.errDecimalCtx(f, quo.Common().Args[0])
	if edCtx == nil {
		r.ok(key, w.instrPos(quo), "the context of the series' ErrDecimal cannot be told: this shape is not decided", false)
		return
	}
	series := w.precisionValueAt(f, edCtx, quo)
	reach := w.reachesFn(rounderRound)
	var bad []string
	n := 0
	for _, ci := range callsIn(f) {
		c, ok := ci.(*ssa.Call)
		if !ok || c == quo {
			continue
		}
		g := callee(c)
		if g == nil || !reach[g] || len(c.Common().Args) < 2 || !isContextPtr(c.Common().Args[0].Type()) {
			continue
		}
		// a rounding call whose destination is the reduced argument
		if basePtr(c.Common().Args[1]) != rArg {
			continue
		}
		if !(c.Block() == quo.Block() && instrIndex(c) < instrIndex(quo) || reaches(c.Block(), quo.Block())) {
			continue
		}
		n++
		pv := w.precisionValueAt(f, c.Common().Args[0], c)
		okPrec := pv != nil && series != nil && pv == series
		if bo, isB := pv.(*ssa.BinOp); isB && bo.Op == token.ADD && series != nil {
			for _, pr := range [][2]ssa.Value{{bo.X, bo.Y}, {bo.Y, bo.X}} {
				if k, isK := pr[1].(*ssa.Const); isK && k.Value != nil && ci2(k) >= 0 && pr[0] == series {
					okPrec = true
				}
			}
		}
		if !okPrec {
			bad = append(bad, fmt.Sprintf("%s at %s rounds the reduced argument under Precision = %s, which is not the series' precision %s plus a constant", w.calleeName(c), w.instrPos(c), w.exprOf(f, pv).String(), w.exprOf(f, series).String()))
		}
	}
	if len(bad) > 0 {
		r.bad(key, w.instrPos(quo), strings.Join(bad, "; ")+": digits the series needs are dropped before it — the error of the argument is multiplied by 10^t when the sum is raised to the power 10^t")
	} else if n > 0 {
		r.ok(key, w.instrPos(quo), fmt.Sprintf("%d rounding(s) of the reduced argument, each under the series' own precision plus a non-negative constant", n), true)
	} else {
		r.ok(key, w.instrPos(quo), "the reduced argument reaches the series unrounded", true)
	}
}

func ruleConstantGuardDigits(w *World, r *RuleResult) {
	n := 0
	for _, name := range w.Names {
		f := w.Funcs[name]
		if !strings.HasPrefix(name, "(*Context).") {
			continue
		}
		for _, ci := range callsIn(f) {
			c, ok := ci.(*ssa.Call)
			if !ok || !strings.HasSuffix(w.calleeName(c), ").get") || len(c.Common().Args) != 2 {
				continue
			}
			if !typeIs(c.Common().Args[0].Type(), apdPath, "constWithPrecision") {
				continue
			}
			n++
			key := fmt.Sprintf("%s | constant %s is fetched with guard digits", name, w.exprOf(f, c.Common().Args[0]).String())
			guard := false
			w.exprOf(f, c.Common().Args[1]).walk(func(e *Expr) bool {
				if e.Op == "bin" && e.Name == "+" && len(e.Args) == 2 {
					for _, a := range e.Args {
						if a.Op == "const" {
							if k, isK := a.V.(*ssa.Const); isK && k.Value != nil && ci2(k) > 0 {
								guard = true
							}
						}
					}
				}
				return true
			})
			if guard {
				r.ok(key, w.instrPos(c), "the digit count is "+w.exprOf(f, c.Common().Args[1]).String(), true)
			} else {
				r.bad(key, w.instrPos(c), "the constant is fetched with "+w.exprOf(f, c.Common().Args[1]).String()+" digits, without guard digits: its own rounding error is of the size of the result's unit (the table serves power-of-two digit counts, so at Precision 1, 2, 16, 32, 64 the constant has exactly Precision digits)")
			}
		}
	}
	if n == 0 {
		r.anchorMissing("calls of constWithPrecision.get in Context methods")
	}
}
