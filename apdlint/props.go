package main

const commonAssume = "go/types + go/ssa (x/tools v0.29.0) model the program faithfully; math/big, strconv, strings, fmt behave as documented"

// explainMore: what the rules added after the first version decide (kept apart so that the original
// texts stay as written).
var explainMore = map[string]string{
	"C01": " Also: no rounding decision is taken on a silently truncated machine word (C17.R3).",
	"C03": " Also: the trap filter of every Context method consults the caller's own trap set (its context or an unedited copy).",
	"C04": " Also: the tabled digit-stripping loop of Reduce is dominated by a test excluding zero.",
	"C07": " Also: on both word sizes BigInt's inline array is handled whole (digit counts rely on BitLen).",
	"C08": " Also: setExponent (which derives flags from Coeff/Exponent) is only reached with a receiver known to be finite, so an infinity's leftover digits are never reported as conditions.",
	"C09": " Also: quantize rounds its exponent-shifted intermediate value under a private context with the package MinExponent and MaxExponent.",
	"C12": " Also: Exp hands its operand only to exact methods before the 10^t amplification.",
	"C14": " Also, for Format: the padding width subtracts the lengths of the very sign and buffer written, and zero padding follows the sign.",
	"C15": " Also: adjusted exponents are compared only where the Sign() tests on every path (or at every call site of a helper) exclude zero operands.",
	"C16": " Also: the inline word array is handled whole on amd64 and 386; no exported function returns a pointer into a BigInt's storage.",
	"C17": " Also: Uint64()/Int64() of a BigInt is taken only behind a fit test of that value; no error return of Int64 is decided by the exponent alone (a zero of any exponent converts).",
	"C18": " Also: no exported function hands out a pointer into an operand's internal storage.",
	"C19": " Also: the inline array is handled whole on both word sizes and no narrowing conversion is unguarded.",
}

func prop(id, title string, rules []string, explain string, notDecided []string, assumes ...string) {
	explain += explainMore[id]
	registerProperty(&PropertyDef{ID: id, Title: title, Rules: rules, Explain: explain, NotDecided: notDecided,
		Assumes: append([]string{commonAssume}, assumes...)})
}

func init() {
	prop("C01", "Add/Sub/Mul/Quo/Abs/Neg/Round return the exactly rounded result",
		[]string{"C01.R1", "C01.R2", "C01.R3", "C01.R4", "C01.R5", "C01.R6", "C20.R1", "C20.R2", "C09.R1", "C05.R4", "C17.R3", "C01.R7", "C10.R3", "C07.R9", "C02.R6", "C01.R8", "C01.R9", "C01.R10", "C19.R7"},
		"Decides the wiring of the rounding kernel for all inputs: the sign that reaches every rounding decision is the sign of the value being rounded; the half comparison is made on the division remainder and a non-zero remainder always raises Inexact or is folded into the coefficient (no lost remainder); single-rounding operations round at most once per path and never skip it; Precision 0 cannot reach the digit-discarding division; the eight decision functions have exactly their modes' truth tables (finite-domain evaluation) and every digit-dropping site consults them.",
		[]string{"numeric equality with the once-rounded exact result (alignment, digit arithmetic, carries) — quantifies over coefficient values"})
	prop("C02", "Condition flags describe exactly what happened to the result",
		[]string{"C02.R1", "C02.R2", "C02.R3", "C02.R4", "C02.R5", "C01.R2", "C01.R7", "C02.R6", "C01.R8", "C12.R8"},
		"Decides: the flag set is closed (12 single bits; only | & &^ ^ on Condition values, so no 13th bit for any input); Inexact⇒Rounded, Overflow⇒Inexact and the Underflow guard hold by construction at every raise site; no Condition produced by a callee is dropped or clobbered outside a reasoned table; the division conditions sit under exactly their specification guards; a non-zero division remainder always raises Inexact.",
		[]string{"\"Inexact iff the result differs from the exact one\" beyond the remainder rule; over-reporting of Rounded"})
	prop("C03", "Traps turn raised conditions into errors and never change or hide results",
		[]string{"C03.R1", "C03.R2", "C03.R3", "C03.R4", "C03.R5", "C03.R6", "C03.R7", "C03.R8", "C04.R4", "C03.R9"},
		"Decides the error plumbing on all paths: GoError returns an error iff a system or trapped bit is set (path enumeration); every ErrDecimal wrapper performs exactly the same-named Context call behind the sticky-error guard and accumulates flags; every return of the single-rounding operations passes the trap filter with the flags it returns; errors are never compared with each other; composite functions test ed.Err() before every result-delivering return and destination write; wrapper-driven loops terminate under any trap set; the parsing step does not trap by itself — its conditions reach the caller's single goError.",
		[]string{"equality of composite-function results across trap sets when no error is returned (depends on which internal conditions arise)"})
	prop("C04", "Operations are total: no panic and no hang on any well-formed input",
		[]string{"C04.R1", "C04.R2", "C04.R3", "C04.R4", "C04.R5", "C04.R6", "C01.R3", "C07.R5", "C07.R6", "C12.R5", "C04.R7", "C04.R8"},
		"Decides: the reachable explicit panics are the three tabled, unreachable ones (with exhaustive switch companions); no possibly-nil pointer reaches a dereferencing parameter; every big-integer divisor is a power of ten, a non-zero constant or behind the operand's IsZero test, and table indices are guarded; every API-reachable loop is counted, error-checked on each cycle, or tabled with its variant; the parser rejects signs inside the digit string, keeps a NaN form on error and range-checks finite results.",
		[]string{"implicit run-time panics that depend on values beyond the listed index/divisor/nil obligations (inside math/big), memory exhaustion, slow-but-finite operations at the ±100000 limits"})
	prop("C05", "Any argument may alias the destination or another argument",
		[]string{"C05.R1", "C05.R2", "C05.R3", "C05.R4", "C06.R8", "C06.R10", "C06.R11", "C16.R7", "C05.R5"},
		"Decides the structural cause of alias-safety for every function with a destination role and a same-typed operand role: assuming they are the same object, no path reads an operand field after a non-copy write of that field through the destination (flow- and field-sensitive over SSA, bottom-up callee summaries, the repo's p==q / p!=nil guards prune paths); BigInt wrappers use distinct inner temporaries and the innerOrAlias helpers exactly where math/big compares pointers.",
		[]string{"alias behaviour inside math/big (trusted)"},
		"math/big methods are alias-safe when they can see the aliasing (same *big.Int or same backing array)", "hand summaries of (*BigInt).inner* / noescape; updateInner(src) copies src")
	prop("C06", "Results depend only on operands and context; inputs are never modified",
		[]string{"C06.R1", "C06.R2", "C06.R3", "C06.R4", "C06.R5", "C06.R6", "C06.R7", "C06.R8", "C06.R9", "C06.R10", "C06.R11"},
		"Decides for all inputs and histories: destinations of exported operations are write-only until assigned and completely assigned (Form, Negative, Exponent, Coeff) on every result-delivering return; the mod-set through every operand-role parameter and through the Context is empty; pointers into package-level tables and constants never reach a written position outside initialisation; every package-level variable is init-only; a failed exponent check (setExponent returning a System* flag without storing) never leaves a new coefficient with the destination's previous exponent.",
		[]string{"nothing numeric is needed for this property"},
		"a Condition carrying a System* flag always becomes an error (C03.R1/R3), so such returns need not deliver a complete value", "math/big mod/ref table", "hand summaries of the unsafe helpers")
	prop("C07", "Every finite result fits the context it was computed in",
		[]string{"C07.R1", "C07.R2", "C07.R3", "C07.R4", "C07.R5", "C07.R6", "C01.R3", "C16.R5", "C07.R7", "C07.R8", "C07.R9", "C01.R8", "C07.R10"},
		"Decides: in every rounding operation the value delivered by each return has passed a setExponent range check after its last coefficient/exponent write (or is a whole-value copy, a small constant, or a tabled exception with its invariant); rounding increments are renormalised through roundAddOne; signed inputs to coefficients are sign-normalised; Context.Reduce strips after rounding.",
		[]string{"that Rounder.Round removes exactly NumDigits−Precision digits (digit arithmetic)"})
	prop("C08", "Special values follow the decimal arithmetic rules in every operation",
		[]string{"C08.R1", "C08.R2", "C08.R3", "C08.R4", "C08.R5", "C08.R6", "C08.R7", "C08.R8", "C08.R9", "C02.R6"},
		"Decides: every exported Context operation tests all its operands for NaN first and returns setAsNaN with the same operands; setAsNaN's selection order and signaling behaviour (path enumeration); NaN results and invalid-class flags are paired both ways, DivisionByZero with infinity; copied unsigned specials/zeros get their sign from the operands; the exact-zero sum sign is c.Rounding == RoundFloor; a NaN the library generates never takes a sign afterwards.",
		[]string{"the complete result table for finite × special operand combinations beyond these pairings"})
	prop("C09", "Quantize and RoundToIntegral produce the requested exponent, correctly rounded",
		[]string{"C09.R1", "C09.R2", "C09.R3", "C09.R4", "C09.R5", "C09.R6", "C09.R7", "C09.R8", "C20.R2", "C01.R5", "C04.R6", "C09.R9"},
		"Decides: every digit-dropping path in quantize consults the rounding mode; the last exponent store before every non-system return of quantize is the requested exponent; Quantize yields NaN under each of its five guards; RoundToIntegralValue masks exactly Inexact|Rounded and Exact nothing, both quantize to exponent 0 behind the specials prologue; Ceil/Floor adjust by one only under the strict sign test of the fraction; quantize refuses an exponent gap only for non-zero values.",
		[]string{"correctness of the rescaled coefficient and the 0.9→1.0 fix-up arithmetic"})
	prop("C10", "Integer division and remainder satisfy the division identity",
		[]string{"C10.R1", "C10.R2", "C01.R3", "C04.R3", "C10.R3", "C08.R9"},
		"Decides sibling agreement of QuoInteger and Rem: both align with upscale and propagate its error, divide exactly once with truncating Quo/QuoRem on the aligned coefficients in order, test DivisionImpossible on that very quotient's digit count; QuoInteger's sign is x≠y and its exponent 0, Rem's sign is x's; Rem rounds once; the divisor is behind y's IsZero test.",
		[]string{"the identity x = q·y + r itself (math/big arithmetic and alignment arithmetic)"})
	prop("C11", "Sqrt is correctly rounded; Cbrt is within one unit and exact on perfect cubes",
		[]string{"C11.R1", "C11.R2", "C11.R3", "C11.R4", "C04.R4", "C03.R5", "C12.R5", "C11.R5", "C11.R6"},
		"Decides only structure: Sqrt's final rounding runs with Precision = c.Precision and Rounding = half-even on a working context of larger precision; Cbrt returns zero flags only under operand == d³; both take specials from rootSpecials; their loops are bounded and their wrapper errors surfaced; Sqrt corrects its last digit and derives Inexact from an exact comparison of the candidate's square with the operand; Cbrt works on the operand scaled by its digit count, locates the root among Precision-digit candidates by exact cubes, and every exit applies the scale.",
		[]string{"correct rounding of Sqrt and the 1-ulp bound of Cbrt: real-analysis error bounds of Newton iterations with tuned guard digits — no sound static argument in reach"})
	prop("C12", "Exp, Ln, Log10 and Pow are accurate to one unit in the last place",
		[]string{"C12.R1", "C12.R2", "C12.R3", "C12.R4", "C12.R5", "C06.R9", "C04.R4", "C03.R5", "C06.R7", "C12.R6", "C12.R7", "C12.R9", "C12.R10", "C12.R11"},
		"Decides: every digit of the ln 10 and 1/ln 10 literals (≈2200 each; the suite uses ≤ 50) equals an independent big-integer computation; the precision table doubles from 1 and is fetched at the working precision; the exact-by-definition shortcuts (exp 0, ln 1, x**0, integer exponents) exist with zero flags; overflow/underflow reports are confined to their guards; Exp's reduced argument is rounded, if at all, at the series' precision; constant tables are asked for guard digits; a float64 image of a Decimal that drives the term count is bounded below and a logarithm taken from the representation uses the adjusted exponent; Pow's working precision covers the digits of its base.",
		[]string{"one-ulp accuracy: series truncation and guard-digit sufficiency are statements about real numbers"})
	prop("C13", "Text and binary encodings round-trip every Decimal exactly",
		[]string{"C13.R1", "C13.R2", "C13.R3", "C13.R4", "C13.R5", "C06.R2", "C07.R8"},
		"Decides writer/reader table agreement: special-name, sign and exponent-marker tokens written by the formatter are the ones the parser accepts and map back to the same Form; Compose and Decompose agree on the form byte and Compose assigns the whole value; the float path uses shortest 64-bit formatting and the package parser; all text producers share one formatter; setExponent applies the package limits to the sum of the exponent terms (so the scientific form of a long coefficient parses back) stores no exponent above them and refuses no value for an exponent below them whose adjusted exponent is inside.",
		[]string{"digit/point placement round-trip for every exponent (string arithmetic in fmtE/fmtF vs the parser)"})
	prop("C14", "String is the GDA scientific string; parsing accepts exactly its grammar",
		[]string{"C04.R5", "C14.R2", "C14.R3", "C14.R4", "C14.R5", "C14.R6", "C14.R7", "C14.R8", "C14.R9", "C14.R10", "C14.R11", "C13.R1", "C13.R5", "C07.R5", "C14.R12", "C07.R8"},
		"Decides: the digit string is sign-free when it reaches BigInt.SetString; special names are alternatives; payload and exponent are validated by strconv with error edges returning errors (base 10, 32 bit); every text entry point goes through the one parser; parse errors return no partial value; plain notation is chosen exactly under exponent ≤ 0 ∧ adjusted ≥ −6 with the documented zero exception; fmtE prints the adjusted exponent; on the error edge of the parsing step the receiver is overwritten with the shared NaN.",
		[]string{"full language equality with the GDA grammar (acceptance of digit strings is delegated to strconv/math/big)", "Format's flag/width layout beyond the padding width and the sign-before-zeros order"})
	prop("C15", "Cmp is the exact numeric order and CmpTotal is the documented total order",
		[]string{"C15.R1", "C15.R2", "C15.R3", "C15.R4", "C08.R1", "C05.R4"},
		"Decides: the Form constants have the order CmpTotal relies on and cmpOrder is ±(Form+1); on every path of Decimal.Cmp that returns a coefficient comparison the result is negated exactly for negative operands and the larger-exponent side is the rescaled one; CmpTotal's exponent tie-break flips for negatives (path enumeration); comparisons write nothing; Context.Cmp has the NaN prologue.",
		[]string{"order axioms over triples; correctness of the digit-count shortcut (numeric)"})
	prop("C16", "BigInt behaves exactly like math/big.Int",
		[]string{"C16.R1", "C16.R2", "C16.R3", "C16.R4", "C16.R5", "C16.R6", "C16.R7", "C18.R5", "C05.R1", "C05.R2", "C06.R3", "C05.R5", "C16.R8"},
		"Decides wrapper discipline for all 60+ methods: same-named math/big call on the receiver's view with parameters' views in order; every written view is written back with updateInner on every successful path and operands never are; zero is never negative on any fast path; fast paths read operands before writing (RAW) and never write them; the views written by the math/big routines that can leave a sign on a zero magnitude are normalised before the write-back.",
		[]string{"value equality of the uint64 fast-path arithmetic with math/big; text and bit-length results"})
	prop("C17", "Integer and float conversions and Modf are exact",
		[]string{"C17.R1", "C17.R2", "C17.R3", "C13.R3", "C05.R1", "C06.R2", "C05.R5", "C17.R4"},
		"Decides: Int64 extracts the coefficient only behind the finite, integral and both range tests, each failing into an error, with bounds built from the int64 limits; Modf's outputs copy sign and form from the receiver, split by 10^(−exponent) with exponents 0 / receiver's, are alias-safe and completely assigned; the float path constants.",
		[]string{"the ×10 loop and MinInt64 cast arithmetic in Int64; nearest-float claim (delegated to strconv)"})
	prop("C18", "A Context and its operands can be shared by concurrent goroutines",
		[]string{"C06.R3", "C06.R4", "C06.R5", "C06.R6", "C06.R7", "C18.R4", "C18.R5"},
		"A schedule-independent data-race-freedom argument: with each goroutine owning its destination, two calls race only if one writes a location the other accesses; the rules show no function writes through an operand-role pointer, through the Context, or through a pointer rooted at package-level state outside initialisation (which happens-before every goroutine), and that the package has no goroutines, no sync/atomic state and no run-time memoisation.",
		[]string{"\"returns exactly what it returns alone\" follows from race freedom plus C06 determinism; not checked separately"},
		"math/big does not write its read-only arguments", "Go memory model: package initialisation happens-before any use")
	prop("C19", "Reduce and NumDigits are exact",
		[]string{"C04.R2", "C06.R1", "C07.R4", "C19.R3", "C19.R4", "C19.R5", "C19.R6", "C19.R7", "C04.R3", "C05.R4", "C17.R3", "C16.R5"},
		"Decides: no nil pointer reaches NumDigits' comparison on the >128-bit negative path; Decimal.Reduce's count reads the operand, never the destination; Context.Reduce strips after rounding and restores the operand's sign; NumDigits' positive and negative arms are mirror images over the same table entry and the table index is guarded. Decimal.Reduce (and the helpers it may be split into) adds every counter it returns to the exponent exactly once, outside its loops (count and exponent move together).",
		[]string{"that the table contents and the float estimate are right (numeric; initialisation code)"})
	prop("C20", "Rounding modes bracket each other and rounding is monotone",
		[]string{"C20.R1", "C20.R2", "C01.R1", "C01.R2", "C09.R1", "C20.R5", "C05.R4", "C01.R5", "C01.R6", "C02.R5", "C09.R5", "C10.R3", "C02.R6", "C01.R9"},
		"Decides the structural causes of bracketing/mirroring: exhaustive, distinct dispatch of the eight modes; each decision function has exactly its mode's truth table over neg × sign(half) (so floor/ceiling are complementary in neg, directed modes ignore half, half modes ignore neg); every caller hands the decision the true sign and a real half comparison; no digit-dropping path bypasses it; Sub is add with only y's sign flipped.",
		[]string{"the relational inequalities between the eight results themselves; monotonicity and scaling laws (numeric)"})
}
