package main

func init() {
	registerProperty(&PropertyDef{ID: "C05", Title: "Any argument may alias the destination or another argument",
		Rules:   []string{"C05.R1", "C05.R2", "C05.R3"},
		Explain: "Decides the structural cause of alias-safety for every function with two same-typed pointer roles: under the assumption dest==operand no path reads an operand field after a non-copy write of that field through the destination (flow- and field-sensitive over SSA with bottom-up callee summaries; the repo's own p==q / p!=nil guards prune paths); BigInt wrappers use distinct inner temporaries and the innerOrAlias helpers exactly where math/big compares pointers.",
		NotDecided: []string{"alias behaviour inside math/big (trusted)", "equality of the numeric results as such"},
		Assumes:    []string{"math/big methods are alias-safe when they can see the aliasing (same *big.Int or same backing array)", "hand summaries of (*BigInt).inner / noescape"}})
	registerProperty(&PropertyDef{ID: "C06", Title: "Results depend only on operands and context; inputs are never modified",
		Rules:   []string{"C06.R1", "C06.R2", "C06.R3", "C06.R4", "C06.R5", "C06.R6"},
		Explain: "Decides, for all inputs and histories at once: destinations are write-only until assigned and completely assigned on every result-delivering return; the mod-set of every operand and of the Context is empty; pointers into package-level tables/constants never reach a written position outside initialisation.",
		NotDecided: []string{"nothing numeric is needed for this property"},
		Assumes:    []string{"a Condition carrying a System* flag always becomes an error (decided by C03.R1/R3), so such returns need not deliver a complete value", "math/big mod/ref table", "hand summaries of (*BigInt).inner / noescape"}})
}

func init() {
	registerProperty(&PropertyDef{ID: "C01", Title: "Add/Sub/Mul/Quo/Abs/Neg/Round return the exactly rounded result",
		Rules:   []string{"C01.R1", "C01.R2", "C01.R3", "C01.R4", "C20.R1", "C20.R2", "C09.R1"},
		Explain: "tbd", NotDecided: []string{"tbd"}})
}

func init() {
	registerProperty(&PropertyDef{ID: "C02", Title: "Condition flags describe exactly what happened to the result",
		Rules:   []string{"C02.R1", "C02.R2", "C02.R3", "C02.R4", "C01.R2"},
		Explain: "tbd", NotDecided: []string{"tbd"}})
}

func init() {
	registerProperty(&PropertyDef{ID: "C03", Title: "Traps turn raised conditions into errors and never change or hide results",
		Rules:   []string{"C03.R1", "C03.R2", "C03.R3", "C03.R4", "C03.R5"},
		Explain: "tbd", NotDecided: []string{"tbd"}})
}

func init() {
	registerProperty(&PropertyDef{ID: "C04", Title: "Operations are total: no panic and no hang on any well-formed input",
		Rules:   []string{"C04.R1", "C04.R2", "C04.R3", "C04.R4", "C04.R5"},
		Explain: "tbd", NotDecided: []string{"tbd"}})
}

func init() {
	registerProperty(&PropertyDef{ID: "C07", Title: "Every finite result fits the context it was computed in",
		Rules:   []string{"C07.R1", "C07.R2", "C07.R3", "C07.R4"},
		Explain: "tbd", NotDecided: []string{"tbd"}})
}

func init() {
	registerProperty(&PropertyDef{ID: "C08", Title: "Special values follow the decimal arithmetic rules in every operation",
		Rules:   []string{"C08.R1", "C08.R2", "C08.R3", "C08.R4", "C08.R5"},
		Explain: "tbd", NotDecided: []string{"tbd"}})
}

func init() {
	registerProperty(&PropertyDef{ID: "C09", Title: "Quantize and RoundToIntegral produce the requested exponent, correctly rounded",
		Rules:   []string{"C09.R1", "C09.R2", "C09.R3", "C09.R4"},
		Explain: "tbd", NotDecided: []string{"tbd"}})
	registerProperty(&PropertyDef{ID: "C10", Title: "Integer division and remainder satisfy the division identity",
		Rules:   []string{"C10.R1", "C10.R2", "C01.R3"},
		Explain: "tbd", NotDecided: []string{"tbd"}})
}

func init() {
	registerProperty(&PropertyDef{ID: "C13", Title: "Text and binary encodings round-trip every Decimal exactly",
		Rules:   []string{"C13.R1", "C13.R2", "C13.R3", "C13.R4", "C06.R2"},
		Explain: "tbd", NotDecided: []string{"tbd"}})
	registerProperty(&PropertyDef{ID: "C12", Title: "Exp, Ln, Log10 and Pow are accurate to one unit in the last place",
		Rules:   []string{"C12.R1", "C12.R2", "C12.R3"},
		Explain: "tbd", NotDecided: []string{"tbd"}})
	registerProperty(&PropertyDef{ID: "C15", Title: "Cmp is the exact numeric order and CmpTotal is the documented total order",
		Rules:   []string{"C15.R1", "C15.R2", "C15.R3", "C08.R1"},
		Explain: "tbd", NotDecided: []string{"tbd"}})
}

func init() {
	registerProperty(&PropertyDef{ID: "C11", Title: "Sqrt is correctly rounded; Cbrt is within one unit and exact on perfect cubes",
		Rules:   []string{"C11.R1", "C11.R2"},
		Explain: "tbd", NotDecided: []string{"tbd"}})
	registerProperty(&PropertyDef{ID: "C20", Title: "Rounding modes bracket each other and rounding is monotone",
		Rules:   []string{"C20.R1", "C20.R2", "C01.R1", "C01.R2", "C09.R1", "C20.R5"},
		Explain: "tbd", NotDecided: []string{"tbd"}})
}

func init() {
	registerProperty(&PropertyDef{ID: "C14", Title: "String is the GDA scientific string; parsing accepts exactly its grammar",
		Rules:   []string{"C04.R5", "C14.R2", "C14.R3", "C14.R4", "C14.R6", "C13.R1"},
		Explain: "tbd", NotDecided: []string{"tbd"}})
}

func init() {
	registerProperty(&PropertyDef{ID: "C16", Title: "BigInt behaves exactly like math/big.Int",
		Rules:   []string{"C16.R1", "C16.R2", "C16.R3", "C05.R1", "C05.R2", "C06.R3"},
		Explain: "tbd", NotDecided: []string{"tbd"}})
}
