package main

import (
	"go/types"
	"sort"
	"strings"

	"golang.org/x/tools/go/ssa"
)

// A2 — mod/ref effects and per-function summaries.

// Effect is one read or write of an abstract location by an instruction.
type Effect struct {
	Write bool
	Loc   Loc
	// CopyOf != nil (writes only): the value written is a copy of the same
	// field of that location (d.F = s.F, d.Set(s)). Under d==s such a write is
	// the identity.
	CopyOf *Loc
	In     ssa.Instruction
	Via    string // callee through which the effect happens ("" = direct)
	Arg    int    // argument position the effect is attached to (calls), else 0
	// Ptr is the base pointer value through which the access happens (FieldAddr
	// chains stripped); CopySrc (copy writes) the base pointer of the source.
	Ptr     ssa.Value
	CopySrc ssa.Value
	// Storage marks reads that do not observe the value (BigInt.inner re-using
	// the inline array as backing store).
	Storage bool
}

const allFields = "*"

// bigReadOnly lists the math/big.Int methods that do not modify their
// receiver. Every other math/big.Int method is treated as writing its
// receiver. (Hand-written from the math/big documentation: trusted base.)
var bigReadOnly = map[string]bool{
	"Cmp": true, "CmpAbs": true, "Sign": true, "Bit": true, "BitLen": true, "Bits": true, "Bytes": true,
	"Int64": true, "IsInt64": true, "IsUint64": true, "Uint64": true, "String": true, "Text": true,
	"Append": true, "Format": true, "ProbablyPrime": true, "TrailingZeroBits": true, "FillBytes": true,
	"GobEncode": true, "MarshalJSON": true, "MarshalText": true, "Float64": true,
}

// bigExtraOut lists math/big.Int methods that write arguments other than the
// receiver: method -> argument indices (0 = receiver).
var bigExtraOut = map[string][]int{
	"QuoRem": {3}, "DivMod": {3}, "GCD": {1, 2},
}

// bigCopy lists math/big.Int methods whose receiver becomes a copy of arg 1.
var bigCopy = map[string]bool{"Set": true}

// pureExtern lists external functions known not to write through any pointer
// they receive other than documented output buffers, and not to retain them.
var pureExternPrefixes = []string{
	"fmt.", "errors.", "strings.", "strconv.", "math.", "math/bits.", "unsafe.",
	"(*math/rand.Rand).", "(*strings.Builder).",
}

func isPureExtern(name string) bool {
	for _, p := range pureExternPrefixes {
		if strings.HasPrefix(name, p) {
			return true
		}
	}
	return false
}

type Summary struct {
	Fn     *ssa.Function
	Reads  []map[string]bool // per parameter: fields (first-level) that may be read through it
	Writes []map[string]bool // per parameter: fields that may be written through it
	// CopyFrom[i][f] = j  : every write of field f through parameter i copies field f of parameter j
	// CopyFrom[i][f] = -1 : some write of f is not such a copy
	CopyFrom []map[string]int
	// DerefReads/DerefWrites: accesses to objects reached through a pointer field of the parameter
	DerefReads  []map[string]bool
	DerefWrites []map[string]bool
	StorageOnly []map[string]bool // fields only ever read as storage
	Returns     [][]Loc           // per result: provenance in the callee's frame
	GReads      map[string]bool   // shared roots read (key)
	GWrites     map[string]bool   // shared roots written (key)
	UnknownPtr  []string          // pointer arguments handed to unanalysed callees: "callee(arg root)"
	Manual      bool
}

func (w *World) newSummary(f *ssa.Function) *Summary {
	n := len(f.Params)
	s := &Summary{Fn: f, GReads: map[string]bool{}, GWrites: map[string]bool{}}
	for i := 0; i < n; i++ {
		s.Reads = append(s.Reads, map[string]bool{})
		s.Writes = append(s.Writes, map[string]bool{})
		s.CopyFrom = append(s.CopyFrom, map[string]int{})
		s.DerefReads = append(s.DerefReads, map[string]bool{})
		s.DerefWrites = append(s.DerefWrites, map[string]bool{})
		s.StorageOnly = append(s.StorageOnly, map[string]bool{})
	}
	nres := f.Signature.Results().Len()
	s.Returns = make([][]Loc, nres)
	return s
}

// summary returns the (fixpoint) summary of an in-package function.
func (w *World) summary(f *ssa.Function) *Summary {
	if s, ok := w.sums[f]; ok {
		return s
	}
	// not yet computed (only happens before computeSummaries): empty
	s := w.newSummary(f)
	w.sums[f] = s
	return s
}

// manualSummaries holds the hand-written summaries of the functions whose
// semantics go through unsafe (trusted base, see DESIGN §10).
func (w *World) manualSummary(f *ssa.Function) *Summary {
	switch w.shortName(f) {
	case "(*BigInt).inner":
		// Returns a *big.Int view of z: either z._inner or tmp pointed at
		// z._inline. Reads z (storage + sign), writes only tmp.
		s := w.newSummary(f)
		s.Manual = true
		s.Reads[0][allFields] = true
		s.StorageOnly[0][allFields] = true
		s.Writes[1][allFields] = true
		s.Returns[0] = []Loc{{Root: Root{Kind: RParam, Param: 0}}}
		return s
	case "(*BigInt).innerOrAlias", "(*BigInt).innerOrNilOrAlias", "(*BigInt).innerOrNil":
		// Like inner: the result is a view of the receiver, or — when the
		// receiver is the same object as `a` — the caller's view `ai` of it
		// (the pointer passed in, whatever it points to), or nil for a nil
		// receiver in the OrNil variants.
		s := w.newSummary(f)
		s.Manual = true
		s.Reads[0][allFields] = true
		s.StorageOnly[0][allFields] = true
		s.Writes[1][allFields] = true
		// Locations name objects: when `ai` is returned the receiver is the same object as `a`, so the
		// object viewed is the receiver's in every case (that `ai` is indeed a view of `a` is C05.R2's business).
		s.Returns[0] = []Loc{{Root: Root{Kind: RParam, Param: 0}}}
		if w.shortName(f) != "(*BigInt).innerOrAlias" {
			s.Returns[0] = append(s.Returns[0], Loc{Root: Root{Kind: RNil}})
		}
		return s
	case "noescape":
		s := w.newSummary(f)
		s.Manual = true
		s.Returns[0] = []Loc{{Root: Root{Kind: RParam, Param: 0}}}
		return s
	}
	return nil
}

func sumSize(s *Summary) int {
	n := len(s.GReads) + len(s.GWrites) + len(s.UnknownPtr)
	for i := range s.Reads {
		n += len(s.Reads[i]) + len(s.Writes[i]) + len(s.DerefReads[i]) + len(s.DerefWrites[i])
		for _, v := range s.CopyFrom[i] {
			if v == -1 {
				n++
			}
		}
		n += len(s.CopyFrom[i])
	}
	for _, r := range s.Returns {
		n += len(r)
	}
	return n
}

// computeSummaries runs the bottom-up fixpoint over all functions.
func (w *World) computeSummaries() int {
	for _, n := range w.Names {
		f := w.Funcs[n]
		if m := w.manualSummary(f); m != nil {
			w.sums[f] = m
		} else {
			w.sums[f] = w.newSummary(f)
		}
	}
	rounds := 0
	for {
		rounds++
		changed := false
		for _, n := range w.Names {
			f := w.Funcs[n]
			if w.sums[f].Manual {
				continue
			}
			ns := w.computeSummary(f)
			if sumSize(ns) != sumSize(w.sums[f]) {
				changed = true
			}
			w.sums[f] = ns
		}
		if !changed || rounds > 50 {
			break
		}
	}
	return rounds
}

func (w *World) computeSummary(f *ssa.Function) *Summary {
	s := w.newSummary(f)
	p := w.newProv(f, nil)
	unk := map[string]bool{}
	for _, b := range f.Blocks {
		for _, in := range b.Instrs {
			for _, e := range w.instrEffects(p, in, unk) {
				w.recordEffect(s, e)
			}
			if r, ok := in.(*ssa.Return); ok {
				for i, v := range r.Results {
					if i < len(s.Returns) && pointerLike(v.Type()) {
						s.Returns[i] = dedupLocs(append(s.Returns[i], p.roots(v)...))
					}
				}
			}
		}
	}
	s.UnknownPtr = sortedKeys(unk)
	if w.shortName(f) == "(*BigInt).updateInner" {
		// updateInner(src) makes the receiver equal to src (trusted base): a copy.
		for k := range s.CopyFrom[0] {
			s.CopyFrom[0][k] = 1
		}
	}
	return s
}

func pointerLike(t types.Type) bool {
	switch t.Underlying().(type) {
	case *types.Pointer, *types.Slice, *types.Interface:
		return true
	}
	_, ok := t.Underlying().(*types.Basic)
	if ok && t.Underlying().(*types.Basic).Kind() == types.UnsafePointer {
		return true
	}
	return false
}

func (w *World) recordEffect(s *Summary, e Effect) {
	r := e.Loc.Root
	field := e.Loc.Field
	if field == "" {
		field = allFields
	}
	switch {
	case r.Kind == RParam:
		i := r.Param
		if e.Write {
			s.Writes[i][field] = true
			j := -1
			if e.CopyOf != nil && e.CopyOf.Root.Kind == RParam {
				cf := e.CopyOf.Field
				if cf == "" {
					cf = allFields
				}
				if cf == field {
					j = e.CopyOf.Root.Param
				}
			}
			if old, ok := s.CopyFrom[i][field]; ok && old != j {
				s.CopyFrom[i][field] = -1
			} else if !ok {
				s.CopyFrom[i][field] = j
			}
		} else {
			s.Reads[i][field] = true
			if e.Storage {
				if _, seen := s.StorageOnly[i][field]; !seen {
					s.StorageOnly[i][field] = true
				}
			} else {
				s.StorageOnly[i][field] = false
			}
		}
	case r.Kind == RDeref && r.paramRooted() >= 0:
		i := r.paramRooted()
		if e.Write {
			s.DerefWrites[i][r.Name] = true
		} else {
			s.DerefReads[i][r.Name] = true
		}
	case r.shared():
		if e.Write {
			s.GWrites[rootGlobalName(r)] = true
		} else {
			s.GReads[rootGlobalName(r)] = true
		}
	}
}

func rootGlobalName(r Root) string {
	for r.Kind == RDeref {
		r = *r.Base
	}
	return r.Name
}

// instrEffects returns the reads (first) and writes (after) of one instruction
// in terms of abstract locations of the analysed function.
func (w *World) instrEffects(p *provCtx, in ssa.Instruction, unk map[string]bool) []Effect {
	var out []Effect
	switch in := in.(type) {
	case *ssa.Store:
		var cp *Loc
		var cps ssa.Value
		if ld, ok := in.Val.(*ssa.UnOp); ok && ld.Op.String() == "*" {
			// *a = *b : copy if same field path suffix
			if sameFieldPath(in.Addr, ld.X) {
				cps = basePtr(ld.X)
				src := p.roots(ld.X)
				if len(src) == 1 {
					l := src[0]
					cp = &l
				}
			}
		}
		for _, l := range p.roots(in.Addr) {
			out = append(out, Effect{Write: true, Loc: l, CopyOf: cp, CopySrc: cps, In: in, Ptr: basePtr(in.Addr)})
		}
	case *ssa.UnOp:
		if in.Op.String() == "*" {
			for _, l := range p.roots(in.X) {
				out = append(out, Effect{Loc: l, In: in, Ptr: basePtr(in.X)})
			}
		}
	case ssa.CallInstruction:
		out = append(out, w.callEffects(p, in, unk)...)
	}
	return out
}

// basePtr strips field/index address computations (and view helpers) from a
// pointer value: &x.Coeff -> x.
func basePtr(v ssa.Value) ssa.Value {
	for {
		switch a := v.(type) {
		case *ssa.FieldAddr:
			v = a.X
			continue
		case *ssa.IndexAddr:
			v = a.X
			continue
		case *ssa.ChangeType:
			v = a.X
			continue
		case *ssa.Convert:
			v = a.X
			continue
		case *ssa.Call:
			// the *big.Int view helpers return a view of their receiver
			if f := a.Common().StaticCallee(); f != nil && f.Pkg != nil && f.Pkg.Pkg.Path() == apdPath {
				switch f.Name() {
				case "inner", "innerOrNil", "innerOrAlias", "innerOrNilOrAlias":
					v = a.Common().Args[0]
					continue
				}
			}
		}
		return v
	}
}

// sameFieldPath reports whether two address expressions select the same field
// path below their respective base pointers (x.F.G vs y.F.G, or both bases).
func sameFieldPath(a, b ssa.Value) bool {
	fa, oka := a.(*ssa.FieldAddr)
	fb, okb := b.(*ssa.FieldAddr)
	if oka != okb {
		return false
	}
	if !oka {
		return types.Identical(a.Type(), b.Type())
	}
	if fa.Field != fb.Field || !types.Identical(fa.X.Type(), fb.X.Type()) {
		return false
	}
	return sameFieldPath(fa.X, fb.X)
}

func applyField(l Loc, f string) Loc {
	if l.Field == "" && f != allFields {
		l.Field = f
	}
	return l
}

func (w *World) callEffects(p *provCtx, c ssa.CallInstruction, unk map[string]bool) []Effect {
	cc := c.Common()
	f := cc.StaticCallee()
	var reads, writes []Effect
	if f != nil && w.inPkg(f) {
		s := w.summary(f)
		args := cc.Args
		for i := range f.Params {
			if i >= len(args) || !pointerLike(args[i].Type()) {
				continue
			}
			locs := p.roots(args[i])
			for _, fld := range sortedKeys(s.Reads[i]) {
				for _, l := range locs {
					reads = append(reads, Effect{Loc: applyField(l, fld), In: c, Via: w.shortName(f), Arg: i, Ptr: basePtr(args[i]), Storage: s.StorageOnly[i][fld]})
				}
			}
			for _, fld := range sortedKeys(s.Writes[i]) {
				var cp *Loc
				var cps ssa.Value
				if j, ok := s.CopyFrom[i][fld]; ok && j >= 0 && j < len(args) {
					cps = basePtr(args[j])
					src := p.roots(args[j])
					if len(src) == 1 {
						l := applyField(src[0], fld)
						cp = &l
					}
				}
				for _, l := range locs {
					writes = append(writes, Effect{Write: true, Loc: applyField(l, fld), CopyOf: cp, CopySrc: cps, In: c, Via: w.shortName(f), Arg: i, Ptr: basePtr(args[i])})
				}
			}
			for _, name := range sortedKeys(s.DerefReads[i]) {
				for _, l := range locs {
					b := l.Root
					reads = append(reads, Effect{Loc: Loc{Root: Root{Kind: RDeref, Base: &b, Name: name}}, In: c, Via: w.shortName(f), Arg: i})
				}
			}
			for _, name := range sortedKeys(s.DerefWrites[i]) {
				for _, l := range locs {
					b := l.Root
					writes = append(writes, Effect{Write: true, Loc: Loc{Root: Root{Kind: RDeref, Base: &b, Name: name}}, In: c, Via: w.shortName(f), Arg: i})
				}
			}
		}
		for _, g := range sortedKeys(s.GReads) {
			reads = append(reads, Effect{Loc: Loc{Root: Root{Kind: RGlobal, Name: g}}, In: c, Via: w.shortName(f)})
		}
		for _, g := range sortedKeys(s.GWrites) {
			writes = append(writes, Effect{Write: true, Loc: Loc{Root: Root{Kind: RGlobal, Name: g}}, In: c, Via: w.shortName(f)})
		}
		if unk != nil {
			for _, u := range s.UnknownPtr {
				// propagate only those that mention a parameter; re-express is not
				// attempted: keep the callee's text, prefixed by the call chain.
				_ = u
			}
		}
		return append(reads, writes...)
	}
	// ---- external / builtin / interface call ----
	name := w.calleeName(c)
	args := cc.Args
	if cc.IsInvoke() {
		args = append([]ssa.Value{cc.Value}, cc.Args...)
	}
	if strings.HasPrefix(name, "(*math/big.Int).") {
		m := strings.TrimPrefix(name, "(*math/big.Int).")
		outs := map[int]bool{}
		if !bigReadOnly[m] {
			outs[0] = true
		}
		for _, k := range bigExtraOut[m] {
			outs[k] = true
		}
		for i, a := range args {
			if !pointerLike(a.Type()) {
				continue
			}
			for _, l := range p.roots(a) {
				if outs[i] {
					var cp *Loc
					var cps ssa.Value
					if bigCopy[m] && i == 0 && len(args) > 1 {
						cps = basePtr(args[1])
						src := p.roots(args[1])
						if len(src) == 1 {
							cp = &src[0]
						}
					}
					writes = append(writes, Effect{Write: true, Loc: l, CopyOf: cp, CopySrc: cps, In: c, Via: name, Arg: i, Ptr: basePtr(a)})
				} else {
					reads = append(reads, Effect{Loc: l, In: c, Via: name, Arg: i, Ptr: basePtr(a)})
				}
			}
		}
		return append(reads, writes...)
	}
	if b, ok := cc.Value.(*ssa.Builtin); ok {
		switch b.Name() {
		case "append", "copy":
			for i, a := range args {
				if !pointerLike(a.Type()) {
					continue
				}
				for _, l := range p.roots(a) {
					if i == 0 {
						writes = append(writes, Effect{Write: true, Loc: l, In: c, Via: name, Arg: i})
					} else {
						reads = append(reads, Effect{Loc: l, In: c, Via: name})
					}
				}
			}
			return append(reads, writes...)
		}
		return nil
	}
	pure := isPureExtern(name) || strings.HasPrefix(name, "invoke fmt.State.")
	for _, a := range args {
		if !pointerLike(a.Type()) {
			continue
		}
		for _, l := range p.roots(a) {
			reads = append(reads, Effect{Loc: l, In: c, Via: name, Ptr: basePtr(a)})
			if !pure && unk != nil {
				switch l.Root.Kind {
				case RAlloc, RFresh, RNil, RExtern:
				default:
					unk[name+"("+l.Root.key()+")"] = true
				}
			}
		}
	}
	return reads
}

// effectString renders an effect for diagnostics.
func (w *World) effectString(e Effect) string {
	k := "read"
	if e.Write {
		k = "write"
	}
	s := k + " " + e.Loc.Root.String()
	if e.Loc.Field != "" {
		s += "." + e.Loc.Field
	}
	if e.Via != "" {
		s += " via " + e.Via
	}
	return s + " at " + w.instrPos(e.In)
}

func sortedFieldSet(m map[string]bool) []string {
	var out []string
	for k, v := range m {
		if v {
			out = append(out, k)
		}
	}
	sort.Strings(out)
	return out
}
