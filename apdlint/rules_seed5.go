package main

import (
	"fmt"
	"go/token"
	"strings"

	"golang.org/x/tools/go/ssa"
)

// Rules added after the fifth mutation round (slips in freshly repaired code).

func init() {
	register(&Rule{ID: "C04.R7", Min: 1,
		Text: "a power of ten is never asked for a negative exponent built from the precision: every call of tableExp10/exp10 whose argument is Precision − k (k > 0) is reached only where the precision is known to be at least k (a dominating Precision == 0 / != 0 / > 0 test) — Precision is unsigned, Precision 0 is a legal context (BaseContext), and the table is indexed with the argument",
		Run:  rulePow10ArgFromPrecision})
	register(&Rule{ID: "C04.R8", Min: 1,
		Text: "the variant of Condition.String's loop is real: on every way round the loop on which the current bit is set in r, r leaves the iteration with that bit cleared (r ^= i / r &^= i); only where the bit is not set may r go round unchanged — otherwise the loop never ends for a Condition that carries a flag without a name (SystemOverflow, SystemUnderflow)",
		Run:  ruleConditionStringProgress})
	register(&Rule{ID: "C07.R8", Min: 1,
		Text: "the digit count handed to setExponent is resolved before it is used: the parameter nd takes part in arithmetic only after the unknownNumDigits test (through the φ that merges the NumDigits result) — a use of the raw parameter computes with the sentinel −1 for every caller that leaves the count to setExponent (the parser, Mul, Quo's zero case, Round after a digit drop)",
		Run:  ruleDigitCountResolved})
	register(&Rule{ID: "C02.R6", Min: 1,
		Text: "Overflow never survives without Inexact through the package-limit conversion: in a helper entered with a Condition known to carry SystemOverflow (which setExponent always pairs with Overflow), every path to a return either clears Overflow or raises Inexact — a zero that is merely clamped must come back with Clamped alone",
		Run:  ruleLimitOverflowBit})
	register(&Rule{ID: "C07.R9", Min: 1,
		Text: "a clamped zero gets the context's exponent limit: wherever Clamped is raised under a System-overflow or above-MaxExponent test, the Exponent stored on that path is the context's MaxExponent field, not the package constant (a zero must fit the context it was computed in)",
		Run:  ruleClampToContextLimit})
	register(&Rule{ID: "C14.R12", Min: 1,
		Text: "only upper-case ASCII letters are folded: in the parser's case-folding function every store that adds or ors 0x20 into a byte is reached only under both range tests 'A' <= c and c <= 'Z' on that byte — folding any other byte turns control characters into grammar characters (0x0B → '+', 0x0D → '-', 0x10–0x19 → digits)",
		Run:  ruleFoldOnlyLetters})
	register(&Rule{ID: "C05.R5", Min: 1,
		Text: "an alias-aware view helper is told the truth: in every call x.innerOrAlias(tmp, a, ai) / innerOrNilOrAlias the view ai is a view of a itself — handing it the view of a third BigInt makes the callee read that object whenever x and a are the same",
		Run:  ruleAliasHelperPartner})
	register(&Rule{ID: "C16.R8", Min: 1,
		Text: "the fast paths store several results in math/big's order: where a uint64 fast path writes two results back (QuoRem: quotient, remainder), the write-backs come in the order of math/big's assignments (the remainder last), so that one object receiving both ends up with the same value on the fast and on the general path",
		Run:  ruleFastPathStoreOrder})
}

// ---- C04.R7 ------------------------------------------------------------------

func rulePow10ArgFromPrecision(w *World, r *RuleResult) {
	n := 0
	for _, name := range w.Names {
		f := w.Funcs[name]
		for _, c := range callsIn(f) {
			cn := w.calleeName(c)
			if cn != "tableExp10" && cn != "exp10" {
				continue
			}
			arg := c.Common().Args[0]
			// arg = conv(Precision) - k  (int64 arithmetic; the uint32 form Precision-1 wraps instead and is
			// then a huge positive number, which the callers that use it guard in their own way)
			bo, ok := arg.(*ssa.BinOp)
			if !ok || bo.Op != token.SUB {
				continue
			}
			k, isK := bo.Y.(*ssa.Const)
			if !isK || k.Value == nil || ci(k) <= 0 {
				continue
			}
			if !strings.HasSuffix(w.exprOf(f, bo.X).String(), ".Precision") && !strings.Contains(w.exprOf(f, bo.X).String(), ".Precision)") {
				continue
			}
			if !strings.HasPrefix(bo.Type().String(), "int") {
				continue
			}
			n++
			key := fmt.Sprintf("%s | %s(Precision − %d) is reached with Precision ≥ %d", name, cn, ci(k), ci(k))
			if cnt := countKey(r, key); cnt > 0 {
				key = fmt.Sprintf("%s #%d", key, cnt+1)
			}
			okGuard := false
			for _, dg := range w.guardsAtDeep(f, c.Block()) {
				g := dg.Guard
				gb, isB := g.Cond.(*ssa.BinOp)
				if !isB {
					continue
				}
				l := w.exprOf(dg.Fn, gb.X).String()
				kk, isKK := gb.Y.(*ssa.Const)
				if !strings.HasSuffix(l, ".Precision") || !isKK || kk.Value == nil {
					continue
				}
				v := ci(kk)
				switch {
				case gb.Op == token.EQL && !g.Val && v == 0 && ci(k) == 1,
					gb.Op == token.NEQ && g.Val && v == 0 && ci(k) == 1,
					gb.Op == token.GTR && g.Val && v >= ci(k)-1,
					gb.Op == token.GEQ && g.Val && v >= ci(k),
					gb.Op == token.LSS && !g.Val && v >= ci(k),
					gb.Op == token.LEQ && !g.Val && v >= ci(k)-1:
					okGuard = true
				}
			}
			if okGuard {
				r.ok(key, w.instrPos(c), "a dominating test excludes the smaller precisions", true)
			} else {
				r.bad(key, w.instrPos(c), fmt.Sprintf("the argument is Precision − %d and nothing on the way here excludes Precision < %d: with Precision 0 (BaseContext, rounding disabled) the table is indexed with −1 and the call panics", ci(k), ci(k)))
			}
		}
	}
	if n == 0 {
		r.ok("package | powers of ten with a Precision − k exponent", "", "no such call in the package", false)
	}
}

// ---- C04.R8 ------------------------------------------------------------------

func ruleConditionStringProgress(w *World, r *RuleResult) {
	f := w.fn("(Condition).String")
	if f == nil {
		r.anchorMissing("(Condition).String")
		return
	}
	key := "(Condition).String | a set bit is cleared on every way round the loop"
	// loop header φs: r (the remaining flags) and i (the bit); find the φ that is and-ed with another φ
	var rPhi, iPhi *ssa.Phi
	for _, b := range f.Blocks {
		for _, in := range b.Instrs {
			bo, ok := in.(*ssa.BinOp)
			if !ok || bo.Op != token.AND {
				continue
			}
			x, okx := bo.X.(*ssa.Phi)
			y, oky := bo.Y.(*ssa.Phi)
			if okx && oky && x.Block() == y.Block() && rPhi == nil {
				rPhi, iPhi = x, y
			}
		}
	}
	if rPhi == nil {
		r.ok(key, w.pos(f.Pos()), "Condition.String has no r&i loop: not decided for this shape", false)
		return
	}
	// which of the two is shifted (i) and which is the remaining set (r)?
	isShifted := func(p *ssa.Phi) bool {
		for _, e := range p.Edges {
			if bo, ok := e.(*ssa.BinOp); ok && bo.Op == token.SHL {
				return true
			}
			if ph, ok := e.(*ssa.Phi); ok {
				for _, e2 := range ph.Edges {
					if bo, ok := e2.(*ssa.BinOp); ok && bo.Op == token.SHL {
						return true
					}
				}
			}
		}
		return false
	}
	if isShifted(rPhi) && !isShifted(iPhi) {
		rPhi, iPhi = iPhi, rPhi
	}
	// every value that flows back into rPhi: through (chains of) φs, each leaf is either r with the bit
	// cleared, or r itself on an edge where r&i == 0 is known
	var bad []string
	seen := map[ssa.Value]bool{}
	var check func(v ssa.Value, pred, blk *ssa.BasicBlock, depth int)
	check = func(v ssa.Value, pred, blk *ssa.BasicBlock, depth int) {
		if depth > 6 {
			return
		}
		switch x := v.(type) {
		case *ssa.Phi:
			if x == rPhi {
				// r unchanged: only where the bit is known not to be set
				okEdge := false
				for _, g := range rawEdgeConds(pred, blk) {
					bo, isB := g.Cond.(*ssa.BinOp)
					if !isB {
						continue
					}
					and, isA := bo.X.(*ssa.BinOp)
					k, isK := bo.Y.(*ssa.Const)
					if !isA || !isK || and.Op != token.AND || k.Value == nil || ci(k) != 0 {
						continue
					}
					if !((and.X == ssa.Value(rPhi) && and.Y == ssa.Value(iPhi)) || (and.Y == ssa.Value(rPhi) && and.X == ssa.Value(iPhi))) {
						continue
					}
					if (bo.Op == token.EQL && g.Val) || (bo.Op == token.NEQ && !g.Val) {
						okEdge = true
					}
				}
				if !okEdge {
					bad = append(bad, fmt.Sprintf("r goes round unchanged from the block at %s although the bit may be set", w.pos(pred.Instrs[0].Pos())))
				}
				return
			}
			if seen[x] {
				return
			}
			seen[x] = true
			for i, e := range x.Edges {
				check(e, x.Block().Preds[i], x.Block(), depth+1)
			}
		case *ssa.BinOp:
			if (x.Op == token.XOR || x.Op == token.AND_NOT) && ((x.X == ssa.Value(rPhi) && x.Y == ssa.Value(iPhi)) || (x.Op == token.XOR && x.Y == ssa.Value(rPhi) && x.X == ssa.Value(iPhi))) {
				return // the bit is cleared
			}
			bad = append(bad, "r is recomputed as "+w.exprOf(f, x).String())
		default:
			bad = append(bad, "r becomes "+w.exprOf(f, v).String())
		}
	}
	hdr := rPhi.Block()
	n := 0
	for i, e := range rPhi.Edges {
		pred := hdr.Preds[i]
		if !hdr.Dominates(pred) {
			continue // entry edge
		}
		n++
		check(e, pred, hdr, 0)
	}
	switch {
	case n == 0:
		r.ok(key, w.pos(f.Pos()), "no back edge into the loop header: not decided for this shape", false)
	case len(bad) > 0:
		r.bad(key, w.pos(f.Pos()), strings.Join(uniqStrings(bad), "; ")+": the loop `for i := 1; r != 0; i <<= 1` ends only because every set bit of r is eventually cleared — a Condition carrying SystemOverflow or SystemUnderflow (which have no name and `continue`) makes String() spin for ever")
	default:
		r.ok(key, w.pos(f.Pos()), "every value of r that goes round the loop has the current bit cleared, or is r itself on an edge where r&i == 0", true)
	}
}

// ---- C07.R8 ------------------------------------------------------------------

func ruleDigitCountResolved(w *World, r *RuleResult) {
	f := w.fn("(*Decimal).setExponent")
	if f == nil {
		r.anchorMissing("(*Decimal).setExponent")
		return
	}
	key := "(*Decimal).setExponent | nd is used only after the unknownNumDigits test"
	var nd *ssa.Parameter
	for _, p := range f.Params {
		if p.Name() == "nd" || (p.Type().String() == "int64" && nd == nil) {
			nd = p
		}
	}
	if nd == nil || nd.Referrers() == nil {
		r.ok(key, w.pos(f.Pos()), "setExponent has no digit-count parameter: not decided for this shape", false)
		return
	}
	var bad []string
	hasTest := false
	for _, u := range *nd.Referrers() {
		switch x := u.(type) {
		case *ssa.BinOp:
			if x.Op == token.EQL || x.Op == token.NEQ {
				hasTest = true
				continue
			}
			bad = append(bad, fmt.Sprintf("%s at %s", w.exprOf(f, x).String(), w.instrPos(x)))
		case *ssa.Phi, *ssa.DebugRef:
		default:
			if in, ok := u.(ssa.Instruction); ok {
				bad = append(bad, fmt.Sprintf("used at %s", w.instrPos(in)))
			}
		}
	}
	switch {
	case len(bad) > 0:
		r.bad(key, w.pos(f.Pos()), "the raw parameter takes part in "+strings.Join(uniqStrings(bad), "; ")+" before it has been replaced by NumDigits: for every caller that passes unknownNumDigits the computation runs with −1 (an in-range value at the lower exponent limit, such as 1E-100000, is then refused)")
	case !hasTest:
		r.ok(key, w.pos(f.Pos()), "the parameter is never compared with the sentinel: not decided for this shape", false)
	default:
		r.ok(key, w.pos(f.Pos()), "the parameter is only compared with the sentinel; arithmetic uses the merged value", true)
	}
}

// ---- C02.R6 ------------------------------------------------------------------

func ruleLimitOverflowBit(w *World, r *RuleResult) {
	cc := w.conditionConsts()
	ovf, inx := cc["Overflow"], cc["Inexact"]
	n := 0
	for _, name := range w.Names {
		f := w.Funcs[name]
		if !w.isCondTransformerLoose(f) {
			continue
		}
		var cp *ssa.Parameter
		for _, p := range f.Params {
			if typeIs(p.Type(), apdPath, "Condition") && !isPointer(p.Type()) {
				cp = p
			}
		}
		paths, ok := enumPaths(f, 10000)
		if !ok || cp == nil {
			continue
		}
		for _, p := range paths {
			// only paths on which SystemOverflow(res) was found true
			sysOver := false
			// … and that do not answer the same test of the same value both ways (the method is called
			// again in a later case of a switch: two SSA values, one fact)
			type sysFact struct {
				v    ssa.Value
				bits int
			}
			outcome := map[sysFact]bool{}
			contradictory := false
			for _, d := range p.Decisions {
				if tv, bits, tms, ok := w.systemTest(d.Cond); ok {
					set := d.Val == tms // true: one of the bits is set
					k := sysFact{tv, bits}
					if prev, had := outcome[k]; had && prev != set {
						contradictory = true
					}
					outcome[k] = set
					if set && bits == 1 {
						sysOver = true
					}
				}
			}
			if !sysOver || contradictory {
				continue
			}
			n++
			key := fmt.Sprintf("%s | Overflow is cleared or joined by Inexact (return at %s)", name, w.instrPos(p.Ret))
			// known bits of the returned Condition on this path: the parameter carries SystemOverflow and
			// Overflow (setExponent always returns them together); constants are applied in order
			sysBits := cc["SystemOverflow"]
			ri := w.condResultIndex(f)
			var eval func(v ssa.Value, d int) (uint64, uint64) // (known set, known clear)
			eval = func(v ssa.Value, d int) (uint64, uint64) {
				if d > 16 {
					return 0, 0
				}
				if v == ssa.Value(cp) {
					return sysBits | ovf, 0
				}
				if bits, isK := condBits(v); isK {
					return bits, ^bits & (1<<12 - 1)
				}
				switch x := v.(type) {
				case *ssa.BinOp:
					xs, xc := eval(x.X, d+1)
					ys, yc := eval(x.Y, d+1)
					switch x.Op {
					case token.OR:
						return xs | ys, xc & yc
					case token.AND:
						return xs & ys, xc | yc
					case token.AND_NOT:
						// x &^ y: bits known set in y are cleared; bits known clear in y keep x
						return xs & yc, xc | ys
					}
				case *ssa.Phi:
					for i, pred := range x.Block().Preds {
						for bi := 0; bi+1 < len(p.Blocks); bi++ {
							if p.Blocks[bi] == pred && p.Blocks[bi+1] == x.Block() {
								return eval(x.Edges[i], d+1)
							}
						}
					}
				}
				return 0, 0
			}
			set, clear := uint64(0), uint64(0)
			if ri >= 0 && ri < len(p.Ret.Results) {
				set, clear = eval(p.Ret.Results[ri], 0)
			}
			// does this path turn the value into an infinity?
			inf := w.formConsts()["Infinite"]
			makesInf := false
			for _, blk := range p.Blocks {
				for _, in := range blk.Instrs {
					if st, ok := in.(*ssa.Store); ok && w.exprOf(f, st.Addr).Name == "Form" {
						if k, isK := st.Val.(*ssa.Const); isK && ci(k) == inf {
							makesInf = true
						}
					}
				}
			}
			switch {
			case clear&ovf == 0 && set&inx == 0:
				r.bad(key, w.instrPos(p.Ret), "on this path the Overflow bit that came with SystemOverflow is neither cleared nor joined by Inexact: a zero product above the package limit (Mul(0E+60000, 7E+60000)) comes back clamped but flagged Overflow — Overflow without Inexact, and an 'overflow' error under the default traps for an exact zero")
			case makesInf && set&ovf == 0:
				r.bad(key, w.instrPos(p.Ret), "on this path the value becomes an infinity but Overflow is not known to be set in what is returned (it is cleared after having been raised): Infinity with Inexact and without Overflow — the modes then coincide although Inexact is raised, and an Overflow trap does not fire")
			default:
				r.ok(key, w.instrPos(p.Ret), "on this path Overflow is cleared, or raised together with Inexact; an infinity comes with Overflow", true)
			}
		}
	}
	if n == 0 {
		r.ok("package | System-overflow conversion paths", "", "no helper converts a SystemOverflow condition: nothing to decide", false)
	}
}

// isCondTransformerLoose: an unexported function with a Condition parameter and a Condition result (whether or
// not every return derives from the parameter — that is C02.R3's question).
func (w *World) isCondTransformerLoose(g *ssa.Function) bool {
	if g == nil || !w.inPkg(g) || g.Object() == nil || g.Object().Exported() || len(g.Blocks) == 0 {
		return false
	}
	if w.condResultIndex(g) < 0 || strings.HasPrefix(w.shortName(g), "(Condition).") {
		return false
	}
	for _, p := range g.Params {
		if typeIs(p.Type(), apdPath, "Condition") && !isPointer(p.Type()) {
			return true
		}
	}
	return false
}

// ---- C07.R9 ------------------------------------------------------------------

func ruleClampToContextLimit(w *World, r *RuleResult) {
	clamped := w.conditionConsts()["Clamped"]
	n := 0
	for _, name := range w.Names {
		f := w.Funcs[name]
		if name == "(*Decimal).setExponent" {
			continue // C01.R7's twin rule covers setExponent's own clamp
		}
		for _, b := range f.Blocks {
			raises := false
			for _, in := range b.Instrs {
				if bo, ok := in.(*ssa.BinOp); ok && bo.Op == token.OR {
					for _, o := range []ssa.Value{bo.X, bo.Y} {
						if bits, isK := condBits(o); isK && bits == clamped && typeIs(bo.Type(), apdPath, "Condition") {
							raises = true
						}
					}
				}
			}
			if !raises {
				continue
			}
			// upper side only: under a SystemOverflow test or a > MaxExponent comparison
			upper := false
			for _, g := range guardsAt(b) {
				if _, bits, tms, ok := w.systemTest(g.Cond); ok && g.Val == tms && bits == 1 {
					upper = true
				}
				if bo, ok := g.Cond.(*ssa.BinOp); ok && g.Val && bo.Op == token.GTR && strings.Contains(w.exprOf(f, bo.Y).String(), "MaxExponent") {
					upper = true
				}
			}
			if !upper {
				continue
			}
			for _, in := range b.Instrs {
				st, ok := in.(*ssa.Store)
				if !ok || w.exprOf(f, st.Addr).Name != "Exponent" {
					continue
				}
				n++
				key := fmt.Sprintf("%s | a zero clamped at the upper limit gets c.MaxExponent", name)
				if cnt := countKey(r, key); cnt > 0 {
					key = fmt.Sprintf("%s #%d", key, cnt+1)
				}
				val := w.exprOf(f, st.Val).String()
				if strings.HasSuffix(val, ".MaxExponent") {
					r.ok(key, w.instrPos(st), "the exponent stored is "+val, true)
				} else {
					r.bad(key, w.instrPos(st), "the exponent stored with Clamped is "+val+", not the context's MaxExponent: in a context with a smaller limit the zero does not fit (Mul(0E+60000, 1E+60000) with MaxExponent 1000 gives 0E+100000)")
				}
			}
		}
	}
	if n == 0 {
		r.ok("package | zeros clamped outside setExponent", "", "no function other than setExponent clamps a zero at the upper limit", false)
	}
}

// ---- C14.R12 -----------------------------------------------------------------

func ruleFoldOnlyLetters(w *World, r *RuleResult) {
	top := w.fn("(*Decimal).setString")
	if top == nil {
		r.anchorMissing("(*Decimal).setString")
		return
	}
	n := 0
	for f := range w.reachable([]*ssa.Function{top}) {
		if !w.inPkg(f) || !w.asciiLowerFn(f) {
			continue
		}
		for _, b := range f.Blocks {
			for _, in := range b.Instrs {
				bo, ok := in.(*ssa.BinOp)
				if !ok || (bo.Op != token.ADD && bo.Op != token.OR) {
					continue
				}
				k, isK := bo.Y.(*ssa.Const)
				if !isK || k.Value == nil || ci(k) != 32 {
					continue
				}
				n++
				key := fmt.Sprintf("%s | 0x20 is folded into a byte only under 'A' <= c <= 'Z'", w.shortName(f))
				if cnt := countKey(r, key); cnt > 0 {
					key = fmt.Sprintf("%s #%d", key, cnt+1)
				}
				lo, hi := false, false
				for _, dg := range w.guardsAtDeep(f, b) {
					gb, isB := dg.Guard.Cond.(*ssa.BinOp)
					if !isB {
						continue
					}
					for oi, o := range []ssa.Value{gb.X, gb.Y} {
						kk, isKK := o.(*ssa.Const)
						if !isKK || kk.Value == nil {
							continue
						}
						// the test must be about the very byte that is folded
						tested := gb.Y
						if oi == 1 {
							tested = gb.X
						}
						same := sameElemLoad(f, tested, bo.X)
						if dg.Via != nil {
							same = false
							for pi, q := range dg.Fn.Params {
								if ssa.Value(q) == tested && pi < len(dg.Via.Common().Args) && sameElemLoad(f, dg.Via.Common().Args[pi], bo.X) {
									same = true
								}
							}
						}
						if !same {
							continue
						}
						op := gb.Op
						if oi == 0 {
							op = map[token.Token]token.Token{token.LSS: token.GTR, token.GTR: token.LSS, token.LEQ: token.GEQ, token.GEQ: token.LEQ}[op]
						}
						v, val := ci(kk), dg.Guard.Val
						// c >= 'A'
						if (v == 'A' && ((op == token.GEQ && val) || (op == token.LSS && !val))) || (v == 'A'-1 && ((op == token.GTR && val) || (op == token.LEQ && !val))) {
							lo = true
						}
						// c <= 'Z'
						if (v == 'Z' && ((op == token.LEQ && val) || (op == token.GTR && !val))) || (v == 'Z'+1 && ((op == token.LSS && val) || (op == token.GEQ && !val))) {
							hi = true
						}
					}
				}
				if lo && hi {
					r.ok(key, w.instrPos(bo), "both range tests dominate the fold", true)
				} else {
					r.bad(key, w.instrPos(bo), "a byte is or-ed/added with 0x20 without both range tests on the way here: bytes outside 'A'..'Z' are changed too, and control characters become grammar characters (\"1E\\x0b5\" parses as 1E+5)")
				}
			}
		}
	}
	if n == 0 {
		r.ok("(*Decimal).setString | case folding by arithmetic", "", "no byte-wise case folding reachable from the parser: not decided for this shape", false)
	}
}

// ---- C05.R5 ------------------------------------------------------------------

func ruleAliasHelperPartner(w *World, r *RuleResult) {
	n := 0
	for _, name := range w.Names {
		f := w.Funcs[name]
		for _, c := range callsIn(f) {
			cn := w.calleeName(c)
			if cn != "(*BigInt).innerOrAlias" && cn != "(*BigInt).innerOrNilOrAlias" {
				continue
			}
			a := c.Common().Args
			if len(a) < 4 {
				continue
			}
			n++
			key := fmt.Sprintf("%s | %s is given the view of its partner", name, strings.TrimPrefix(cn, "(*BigInt)."))
			if cnt := countKey(r, key); cnt > 0 {
				key = fmt.Sprintf("%s #%d", key, cnt+1)
			}
			// one alias helper delegating to the other with its own (partner, view) parameters: the pair is
			// judged at this helper's own call sites
			if fn := w.shortName(f); fn == "(*BigInt).innerOrAlias" || fn == "(*BigInt).innerOrNilOrAlias" {
				pa, okA := a[2].(*ssa.Parameter)
				pv, okV := a[3].(*ssa.Parameter)
				if okA && okV && len(f.Params) >= 4 && pa == f.Params[2] && pv == f.Params[3] && a[0] == ssa.Value(f.Params[0]) {
					r.ok(key, w.instrPos(c), "forwards its own partner and view parameters: judged at the call sites of "+fn, false)
					continue
				}
			}
			// every leaf of the view value must be a view of the partner object
			ok := true
			var leaves func(v ssa.Value, d int)
			leaves = func(v ssa.Value, d int) {
				if d > 5 {
					ok = false
					return
				}
				if phi, isPhi := v.(*ssa.Phi); isPhi {
					for _, e := range phi.Edges {
						leaves(e, d+1)
					}
					return
				}
				if basePtr(v) != basePtr(a[2]) {
					ok = false
				}
			}
			leaves(a[3], 0)
			if !ok {
				// the view may itself have been chosen by a written-out alias test (bi := zi; if b != z { bi =
				// b.inner(&tmp) }): what counts is what it is when all parameters are different objects — where
				// two of them are one object, the view of the one is a view of the other
				dead, deadE := deadDistinctNonNil(f)
				ll := liveLeaves(a[3], dead, deadE, 0)
				ok = len(ll) > 0
				for _, l := range ll {
					if basePtr(l) != basePtr(a[2]) {
						ok = false
					}
				}
			}
			if ok {
				r.ok(key, w.instrPos(c), "the view handed over is a view of the partner parameter", true)
			} else {
				r.bad(key, w.instrPos(c), fmt.Sprintf("the helper is told that %s is the partner but is handed %s, which is not a view of it: when the receiver and the partner are the same BigInt the callee is given an unrelated object (Modf(&integ, d) with d as the fraction read the quotient's old contents instead of the dividend)", w.exprOf(f, a[2]).String(), w.exprOf(f, a[3]).String()))
			}
		}
	}
	if n == 0 {
		r.anchorMissing("calls of innerOrAlias / innerOrNilOrAlias")
	}
}

// ---- C16.R8 ------------------------------------------------------------------

// fastPathOrder: wrapper method -> parameter names in the order in which math/big assigns its results.
var fastPathOrder = map[string][]string{
	"(*BigInt).QuoRem": {"z", "r"},
	"(*BigInt).DivMod": {"z", "m"},
}

func ruleFastPathStoreOrder(w *World, r *RuleResult) {
	n := 0
	for name, order := range fastPathOrder {
		f := w.fn(name)
		if f == nil {
			continue
		}
		pidx := func(v ssa.Value) int {
			for i, q := range f.Params {
				if basePtr(v) == ssa.Value(q) {
					for oi, on := range order {
						if q.Name() == on {
							return oi
						}
					}
					_ = i
				}
			}
			return -1
		}
		for _, b := range f.Blocks {
			var seq []int
			var at ssa.Instruction
			for _, in := range b.Instrs {
				c, ok := in.(*ssa.Call)
				if !ok || w.calleeName(c) != "(*BigInt).updateInnerFromUint64" {
					continue
				}
				if k := pidx(c.Common().Args[0]); k >= 0 {
					seq = append(seq, k)
					at = c
				}
			}
			if len(seq) < 2 {
				continue
			}
			n++
			key := fmt.Sprintf("%s | fast-path results are stored in math/big's order", name)
			if cnt := countKey(r, key); cnt > 0 {
				key = fmt.Sprintf("%s #%d", key, cnt+1)
			}
			sorted := true
			for i := 1; i < len(seq); i++ {
				if seq[i] < seq[i-1] {
					sorted = false
				}
			}
			if sorted {
				r.ok(key, w.instrPos(at), "stored in the order "+strings.Join(order, ", "), true)
			} else {
				r.bad(key, w.instrPos(at), "the uint64 fast path stores its results in another order than math/big ("+strings.Join(order, ", then ")+"): when both are the same BigInt the fast path leaves the other result in it than the general path and math/big do")
			}
		}
	}
	if n == 0 {
		r.ok("package | uint64 fast paths with two results", "", "no fast path writes two results back: nothing to decide", false)
	}
}

func init() {
	register(&Rule{ID: "C01.R8", Min: 1,
		Text: "a result below the package's lower exponent limit underflows, it is not refused: in setExponent every System-underflow return is reached only with a value known to be normal in the context (a test adjusted exponent >= c.MinExponent) — anything lower is a subnormal of the context and is rounded at Etiny like one (Mul(1E-60000, 1E-60000) is a zero with Underflow, not an error)",
		Run:  ruleLowerLimitUnderflows})
}

func ruleLowerLimitUnderflows(w *World, r *RuleResult) {
	f := w.fn("(*Decimal).setExponent")
	if f == nil {
		r.anchorMissing("(*Decimal).setExponent")
		return
	}
	sysU := w.conditionConsts()["SystemUnderflow"]
	n := 0
	for _, b := range f.Blocks {
		rt, isRet := b.Instrs[len(b.Instrs)-1].(*ssa.Return)
		if !isRet {
			continue
		}
		hit := false
		for _, v := range rt.Results {
			if bits, isK := condBits(v); isK && typeIs(v.Type(), apdPath, "Condition") && bits&sysU != 0 && bits < 1<<12 {
				hit = true
			}
		}
		if !hit {
			continue
		}
		n++
		key := fmt.Sprintf("(*Decimal).setExponent | System-underflow return #%d only for a value that is normal in the context", n)
		normal := false
		for _, g := range guardsAt(b) {
			bo, isB := g.Cond.(*ssa.BinOp)
			if !isB {
				continue
			}
			l, rr := w.exprOf(f, bo.X).String(), w.exprOf(f, bo.Y).String()
			if strings.HasSuffix(rr, ".MinExponent)") || strings.HasSuffix(rr, ".MinExponent") {
				if (bo.Op == token.GEQ && g.Val) || (bo.Op == token.LSS && !g.Val) {
					normal = true
				}
			}
			if strings.HasSuffix(l, ".MinExponent)") || strings.HasSuffix(l, ".MinExponent") {
				if (bo.Op == token.LEQ && g.Val) || (bo.Op == token.GTR && !g.Val) {
					normal = true
				}
			}
		}
		if normal {
			r.ok(key, w.instrPos(rt), "reached only where the adjusted exponent is at least c.MinExponent", true)
		} else {
			r.bad(key, w.instrPos(rt), "the value is refused because it is below the package limit, without regard to the context: every such value is a subnormal of the context (c.MinExponent >= -100000) and must be rounded at Etiny with Underflow — Mul(1E-60000, 1E-60000), Quo(1E-60000, 3E+60000) and a zero product with such an exponent return 'exponent out of range' instead")
		}
	}
	if n == 0 {
		r.ok("(*Decimal).setExponent | System-underflow returns", w.pos(f.Pos()), "setExponent never refuses a value on the lower side", false)
	}
}

func init() {
	register(&Rule{ID: "C01.R9", Min: 5,
		Text: "the exponent range is checked on the rounded result, not on the exact one: in the single-rounding operations no setExponent call on the destination is followed by the operation's rounding of that destination — the digits the rounding drops raise the exponent, so the exact value can be outside the package limits where the rounded one is inside (Mul(11111E-50000, 11111E-50002) at Precision 5 is 1.2345E-99994)",
		Run:  ruleRangeAfterRounding})
}

func ruleRangeAfterRounding(w *World, r *RuleResult) {
	reach := w.reachesFn(rounderRound)
	for _, name := range singleRoundingOps {
		f := w.fn(name)
		if f == nil {
			continue
		}
		key := name + " | no range check of the unrounded value before the rounding"
		var bad []string
		for _, s := range w.callsTo(f, "(*Decimal).setExponent") {
			recv := basePtr(s.Common().Args[0])
			for _, c := range callsIn(f) {
				call, ok := c.(*ssa.Call)
				if !ok || call == s {
					continue
				}
				g := callee(call)
				if g == nil || !reach[g] {
					continue
				}
				gi := destArgIndex(w, g)
				if gi >= len(call.Common().Args) || basePtr(call.Common().Args[gi]) != recv {
					continue
				}
				after := call.Block() == s.Block() && instrIndex(call) > instrIndex(s) || call.Block() != s.Block() && reaches(s.Block(), call.Block())
				if after {
					bad = append(bad, fmt.Sprintf("setExponent at %s, then %s at %s", w.instrPos(s), w.calleeName(call), w.instrPos(call)))
				}
			}
		}
		if len(bad) > 0 {
			r.bad(key, w.pos(f.Pos()), strings.Join(uniqStrings(bad), "; ")+": the exact result is refused when its exponent is outside the package limits although the rounding that follows would have brought it inside")
		} else {
			r.ok(key, w.pos(f.Pos()), "the destination's range is checked by (or after) its rounding only", true)
		}
	}
}

// sameElemLoad: a and b are the same value, or two loads of the same element (same slice value, same index
// value — go/ssa does not merge them) with no store into that slice that could fall between them: every
// store through the slice is dominated by the second load.
func sameElemLoad(f *ssa.Function, a, b ssa.Value) bool {
	if a == b {
		return true
	}
	la, ok1 := a.(*ssa.UnOp)
	lb, ok2 := b.(*ssa.UnOp)
	if !ok1 || !ok2 || la.Op != token.MUL || lb.Op != token.MUL {
		return false
	}
	ia, ok1 := la.X.(*ssa.IndexAddr)
	ib, ok2 := lb.X.(*ssa.IndexAddr)
	if !ok1 || !ok2 || ia.X != ib.X || ia.Index != ib.Index {
		return false
	}
	if !instrDominates(la, lb) {
		return false
	}
	for _, st := range storesIn(f) {
		if sa, isIA := st.Addr.(*ssa.IndexAddr); isIA && sa.X == ia.X {
			if !instrDominates(lb, st) {
				return false
			}
		}
	}
	return true
}
