package main

import (
	"fmt"
	"go/constant"
	"go/token"
	"strings"

	"golang.org/x/tools/go/ssa"
)

func init() {
	register(&Rule{ID: "C11.R1", Min: 1,
		Text: "Sqrt's final rounding uses a context whose Precision is c.Precision and whose Rounding is RoundHalfEven (last stores before the final round), and the Newton steps run at a strictly larger working precision (the rounding mode of the steps is immaterial since the root is located exactly afterwards, C11.R3)",
		Run:  ruleSqrtContext})
	register(&Rule{ID: "C11.R2", Min: 1,
		Text: "Cbrt's exactness re-check exists: zero flags are returned only on the edge where the operand equals the cube of the rounded destination; otherwise the rounding flags are returned; both roots take their specials from rootSpecials",
		Run:  ruleCbrtExactness})
	register(&Rule{ID: "C12.R2", Min: 2,
		Text: "exact-by-definition shortcuts exist: Exp(0)=1 and ln(1)=log10(1)=0 and x**0=1 return the shared constant with zero flags; an integer exponent takes the integerPower + single rounding path without the Ln/Exp detour",
		Run:  ruleExactShortcuts})
	register(&Rule{ID: "C12.R3", Min: 1,
		Text: "over/underflow reports: Exp's early Overflow return is under the |x| > 23·cp comparison only, and negateOverflowFlags is applied exactly on the negative edges (Exp: x.Sign() < 0; integerPower: neg)",
		Run:  ruleOverflowReports})
	register(&Rule{ID: "C20.R5", Min: 1,
		Text: "Sub is add with only y's sign negated: Add passes false and Sub true as the only callers of add, and add's effective sign of y is y.Negative != subtract",
		Run:  ruleSubIsAdd})
}

func ruleSqrtContext(w *World, r *RuleResult) {
	f := w.fn("(*Context).Sqrt")
	if f == nil {
		r.anchorMissing("(*Context).Sqrt")
		return
	}
	// the roundings of Sqrt: calls of Context.round, or of an unexported helper
	// that rounds on the context it is called on (roundRoot(d, v, inexact))
	var rounds []*ssa.Call
	for _, c := range callsIn(f) {
		call, ok := c.(*ssa.Call)
		if !ok {
			continue
		}
		if w.calleeName(call) == "(*Context).round" || w.roundsOnReceiver(callee(call)) {
			rounds = append(rounds, call)
		}
	}
	if len(rounds) == 0 {
		r.bad("(*Context).Sqrt | final rounding", w.pos(f.Pos()), "Sqrt no longer rounds its result to the context")
		return
	}
	last := rounds[len(rounds)-1]
	ctx := w.exprOf(f, last.Common().Args[0])
	ctxName := ctx.String()
	isLast := func(in ssa.Instruction) bool { return in == ssa.Instruction(last) }
	he := w.rounderConsts()["RoundHalfEven"]
	key := "(*Context).Sqrt | final rounding context"
	var bad []string
	if ctxName == "c" {
		bad = append(bad, "the final rounding uses the caller's context (any rounding mode) instead of half-even")
	} else {
		// stores through the context pointer value
		prec := w.lastStoresVia(f, last.Common().Args[0], "Precision", isLast)
		rnd := w.lastStoresVia(f, last.Common().Args[0], "Rounding", isLast)
		if len(prec) != 1 || prec[0] != "c.Precision" {
			bad = append(bad, fmt.Sprintf("Precision at the final round is %v, want c.Precision", prec))
		}
		if len(rnd) != 1 || rnd[0] != he {
			bad = append(bad, fmt.Sprintf("Rounding at the final round is %v, want %q", rnd, he))
		}
	}
	if len(bad) > 0 {
		r.bad(key, w.instrPos(last), strings.Join(bad, "; "))
	} else {
		r.ok(key, w.instrPos(last), "Precision = c.Precision and Rounding = half_even are the last stores before the final round", true)
	}
	// every Newton step (ErrDecimal wrapper on the working context) runs under half-even too
	if ctxName != "c" {
		key2 := "(*Context).Sqrt | iteration steps round half-even"
		var bad2 []string
		n := 0
		for _, c := range callsIn(f) {
			call, ok := c.(*ssa.Call)
			if !ok {
				continue
			}
			g := callee(call)
			if g == nil || g.Signature.Recv() == nil || w.apdTypeName(g.Signature.Recv().Type()) != "ErrDecimal" || errDecimalNonWrappers[g.Name()] != "" {
				continue
			}
			n++
			cc := call
			// the context this wrapper works on: the one its ErrDecimal was made for (the final rounding's
			// context when that cannot be told)
			wctx := last.Common().Args[0]
			if k := w.errDecimalCtx(f, call.Common().Args[0]); k != nil {
				if g, isG := k.(*ssa.Global); isG && g.Name() == "BaseContext" {
					n--
					continue // exact arithmetic (Precision 0): nothing is rounded
				}
				if _, isInstr := k.(ssa.Instruction); isInstr {
					wctx = k
				}
			}
			rnd := w.lastStoresVia(f, wctx, "Rounding", func(in ssa.Instruction) bool { return in == ssa.Instruction(cc) })
			// a copy of BaseContext rounds half-up: to nearest as well, and the exact location that follows
			// the iteration does not depend on how its ties fall
			if len(rnd) == 1 && strings.HasSuffix(rnd[0], "BaseContext.Rounding") {
				continue
			}
			if len(rnd) != 1 || rnd[0] != he {
				bad2 = append(bad2, fmt.Sprintf("at %s the working context rounds %v", w.instrPos(call), rnd))
			}
		}
		if len(bad2) > 0 {
			r.ok(key2, w.pos(f.Pos()), "the iteration does not round to nearest under a mode of its own ("+strings.Join(uniqStrings(bad2), "; ")+"): immaterial for the result, the root is located exactly after the iteration (C11.R3) and the iteration runs a fixed number of steps", false)
		} else if n > 0 {
			r.ok(key2, w.pos(f.Pos()), fmt.Sprintf("%d wrapper steps, the working context's Rounding is half_even at each", n), true)
		}
	}
	// working precision strictly larger: WithPrecision(workp) where workp ≥ c.Precision+1
	key = "(*Context).Sqrt | working precision exceeds the target"
	okW := false
	for _, ci := range w.ctorCalls(f) {
		if ci.Prec == nil {
			continue
		}
		e := w.exprOf(f, ci.Prec)
		found := false
		e.walk(func(x *Expr) bool {
			if x.Op == "bin" && x.Name == "+" && x.Args[0].String() == "c.Precision" && x.Args[1].Op == "const" {
				found = true
			}
			return true
		})
		// the computation may sit in a pure helper: workp := sqrtWorkingPrecision(c.Precision, nd)
		if hc, isCall := ci.Prec.(*ssa.Call); isCall && !found {
			if h := callee(hc); h != nil && w.inPkg(h) && (h.Object() == nil || !h.Object().Exported()) {
				for pi, a := range hc.Common().Args {
					if w.exprOf(f, a).String() != "c.Precision" || pi >= len(h.Params) {
						continue
					}
					for _, hb := range h.Blocks {
						for _, in := range hb.Instrs {
							if bo, isB := in.(*ssa.BinOp); isB && bo.Op == token.ADD && bo.X == ssa.Value(h.Params[pi]) {
								if _, isK := bo.Y.(*ssa.Const); isK {
									found = true
								}
							}
						}
					}
				}
			}
		}
		if found {
			okW = true
		}
	}
	// … and at least the operand's digit count (the scaled operand must be exact at working precision)
	okN := false
	for _, ci := range w.ctorCalls(f) {
		if ci.Prec != nil && w.exprOf(f, ci.Prec).leaves()["call:(*Decimal).NumDigits"] {
			okN = true
		}
	}
	if okW && !okN {
		// since the root is located exactly against the whole operand after the iteration (C11.R3), the
		// iterate needs Precision + a few digits only: not covering the operand's digits is immaterial
		r.ok(key, w.pos(f.Pos()), "the working context is WithPrecision(c.Precision+k…) and does not cover the operand's own digit count: immaterial, the root is located exactly against the whole operand afterwards (C11.R3)", false)
	} else if okW {
		r.ok(key, w.pos(f.Pos()), "the working context is WithPrecision(max(c.Precision+k, NumDigits(x), …))", true)
	} else {
		r.bad(key, w.pos(f.Pos()), "the Newton iteration no longer runs at more digits than the result needs")
	}
}

// lastStoresVia: values last stored to field `field` through pointer value ptr
// (a local context), at instruction sel.
func (w *World) lastStoresVia(f *ssa.Function, ptr ssa.Value, field string, sel func(ssa.Instruction) bool) []string {
	n := len(f.Blocks)
	type set map[string]bool
	in := make([]set, n)
	in[0] = set{"<none>": true}
	apply := func(cur set, x ssa.Instruction) set {
		if st, ok := x.(*ssa.Store); ok {
			if fa, ok := st.Addr.(*ssa.FieldAddr); ok && fa.X == ptr && w.exprOf(f, st.Addr).Name == field {
				return set{w.exprOf(f, st.Val).String(): true}
			}
			// a whole-value copy (fc := *c, nc := BaseContext): every field is the source's
			if st.Addr == ptr {
				if ld, isLd := st.Val.(*ssa.UnOp); isLd && ld.Op == token.MUL {
					return set{strings.TrimPrefix(w.exprOf(f, ld.X).String(), "&") + "." + field: true}
				}
				// nc := helper(…) returning a Context by value: what the helper stores, else the copied context's
				if call, isCall := st.Val.(*ssa.Call); isCall {
					if inner, src, prec := w.ctxValueCtor(call); inner != nil {
						if field == "Precision" && prec != nil {
							return set{w.exprOf(f, prec).String(): true}
						}
						if v, stored := inner.Consts[field]; stored && v != "" {
							return set{v: true}
						}
						if _, stored := inner.Consts[field]; !stored && !(field == "Precision" && inner.Prec != nil) {
							return set{strings.TrimPrefix(w.exprOf(f, src).String(), "&") + "." + field: true}
						}
						return set{"<unknown>": true}
					}
				}
			}
		}
		if x == ptr.(ssa.Instruction) {
			// the context is created here: the field holds what the constructor copies
			if c, ok := x.(*ssa.Call); ok {
				if ci := w.ctxCtor(c); ci != nil {
					if field == "Precision" && ci.Prec != nil {
						return set{w.exprOf(f, ci.Prec).String(): true}
					}
					if v, stored := ci.Consts[field]; stored && v != "" {
						return set{v: true}
					}
					return set{w.exprOf(f, ci.Src).String() + "." + field: true}
				}
			}
		}
		return cur
	}
	var res []string
	changed := true
	for iter := 0; changed && iter < 8*n+16; iter++ {
		changed = false
		for _, b := range f.Blocks {
			if in[b.Index] == nil {
				continue
			}
			cur := set{}
			for k := range in[b.Index] {
				cur[k] = true
			}
			for _, x := range b.Instrs {
				cur = apply(cur, x)
			}
			for _, s := range b.Succs {
				if in[s.Index] == nil {
					in[s.Index] = set{}
				}
				for k := range cur {
					if !in[s.Index][k] {
						in[s.Index][k] = true
						changed = true
					}
				}
			}
		}
	}
	for _, b := range f.Blocks {
		if in[b.Index] == nil {
			continue
		}
		cur := set{}
		for k := range in[b.Index] {
			cur[k] = true
		}
		for _, x := range b.Instrs {
			if sel(x) {
				res = sortedFieldSet(cur)
			}
			cur = apply(cur, x)
		}
	}
	return res
}

func ruleCbrtExactness(w *World, r *RuleResult) {
	f := w.fn("(*Context).Cbrt")
	if f == nil {
		r.anchorMissing("(*Context).Cbrt")
		return
	}
	di, xi := destArgIndex(w, f), -1
	for i, p := range f.Params {
		if i != di && isDecimalPtr(p.Type()) {
			xi = i
		}
	}
	// copies of the operand (or of its magnitude)
	copies := map[ssa.Value]bool{}
	for _, cn := range []string{"(*Decimal).Set", "(*Decimal).Abs"} {
		for _, c := range w.callsTo(f, cn) {
			if xi >= 0 && c.Common().Args[1] == ssa.Value(f.Params[xi]) {
				copies[basePtr(c.Common().Args[0])] = true
			}
		}
	}
	// … also when the copy is made by a helper that is handed the local and the operand
	for _, c := range callsIn(f) {
		call, ok := c.(*ssa.Call)
		h := callee(c)
		if !ok || h == nil || !w.inPkg(h) || h.Object() == nil || h.Object().Exported() || xi < 0 {
			continue
		}
		for _, cn := range []string{"(*Decimal).Set", "(*Decimal).Abs"} {
			for _, hc := range w.callsTo(h, cn) {
				di2, si2 := -1, -1
				for i, q := range h.Params {
					if hc.Common().Args[0] == ssa.Value(q) {
						di2 = i
					}
					if hc.Common().Args[1] == ssa.Value(q) {
						si2 = i
					}
				}
				a := call.Common().Args
				if di2 >= 0 && si2 >= 0 && di2 < len(a) && si2 < len(a) && a[si2] == ssa.Value(f.Params[xi]) {
					copies[basePtr(a[di2])] = true
				}
			}
		}
	}
	// cube comparisons: a Cmp of an operand copy with t·t·t, in Cbrt itself or in a helper that is handed
	// the candidate t, the operand copy and the ErrDecimal that multiplies
	type cubeCmp struct {
		val   ssa.Value // the int result in Cbrt
		cand  ssa.Value // base of the candidate that is cubed
		exact bool      // the multiplications run under BaseContext itself
	}
	fromBase := func(g *ssa.Function, ed ssa.Value) bool {
		for _, mk := range w.callsTo(g, "MakeErrDecimal") {
			if gl, isG := basePtr(mk.Common().Args[0]).(*ssa.Global); isG && gl.Name() == "BaseContext" && w.sameErrDecimal(g, ed, mk) {
				return true
			}
		}
		return false
	}
	type cubeSite struct {
		cmp          *ssa.Call
		cand, cp, ed ssa.Value
	}
	cubeIn := func(g *ssa.Function) (sites []cubeSite) {
		// in g: Mul(ed, dst, t, t); Mul(ed, dst, dst, t); Cmp(dst, c)
		for _, c := range w.callsTo(g, "(*Decimal).Cmp") {
			for side := 0; side < 2; side++ {
				dst := basePtr(c.Common().Args[side])
				var t, ed ssa.Value
				sq, cu := false, false
				for _, m := range w.callsTo(g, "(*ErrDecimal).Mul") {
					a := m.Common().Args
					if basePtr(a[1]) != dst {
						continue
					}
					// dst = t·t
					if basePtr(a[2]) == basePtr(a[3]) && basePtr(a[2]) != dst {
						sq, t, ed = true, basePtr(a[2]), a[0]
					}
				}
				for _, m := range w.callsTo(g, "(*ErrDecimal).Mul") {
					a := m.Common().Args
					// dst = dst·t
					if sq && basePtr(a[1]) == dst && ((basePtr(a[2]) == dst && basePtr(a[3]) == t) || (basePtr(a[3]) == dst && basePtr(a[2]) == t)) {
						cu = true
					}
				}
				if sq && cu {
					sites = append(sites, cubeSite{c, t, basePtr(c.Common().Args[1-side]), ed})
				}
			}
		}
		return sites
	}
	var cmps []cubeCmp
	for _, st := range cubeIn(f) {
		if copies[st.cp] {
			cmps = append(cmps, cubeCmp{st.cmp, st.cand, fromBase(f, st.ed)})
		}
	}
	for _, h := range w.closureFuncs(f) {
		if h == f {
			continue
		}
		for _, st := range cubeIn(h) {
			t, cp, ed := st.cand, st.cp, st.ed
			// map the helper's parameters to the arguments at each call in Cbrt
			idx := func(v ssa.Value) int {
				for i, p := range h.Params {
					if basePtr(v) == ssa.Value(p) {
						return i
					}
				}
				return -1
			}
			ti, ci, ei := idx(t), idx(cp), idx(ed)
			for _, call := range w.callsTo(f, w.shortName(h)) {
				a := call.Common().Args
				if ti < 0 || ci < 0 || ei < 0 || !copies[basePtr(a[ci])] {
					continue
				}
				cmps = append(cmps, cubeCmp{call, basePtr(a[ti]), fromBase(f, a[ei])})
			}
		}
	}
	// or through an exact integer power comparison cmp(t, 3, operand copy)
	for _, pc := range w.exactPowerCmps(f, 3) {
		if copies[pc.x] {
			cmps = append(cmps, cubeCmp{pc.call, pc.t, true})
		}
	}
	// … or such a comparison made in an unexported helper that is handed the operand copy and returns
	// its outcome
	for _, ci := range callsIn(f) {
		hc, isC := ci.(*ssa.Call)
		if !isC {
			continue
		}
		h := callee(hc)
		if h == nil || !w.inPkg(h) || len(h.Blocks) == 0 || (h.Object() != nil && h.Object().Exported()) || len(h.Params) != len(hc.Common().Args) {
			continue
		}
		pidx := func(v ssa.Value) int {
			for i, q := range h.Params {
				if ssa.Value(q) == v {
					return i
				}
			}
			return -1
		}
		for _, pc := range w.exactPowerCmps(h, 3) {
			xi2, ti2 := pidx(pc.x), pidx(pc.t)
			if xi2 < 0 || !copies[basePtr(hc.Common().Args[xi2])] {
				continue
			}
			for _, hb := range h.Blocks {
				rt, isRet := hb.Instrs[len(hb.Instrs)-1].(*ssa.Return)
				if !isRet {
					continue
				}
				for ri, rv := range rt.Results {
					if rv != ssa.Value(pc.call) {
						continue
					}
					var cand ssa.Value
					if ti2 >= 0 {
						cand = basePtr(hc.Common().Args[ti2])
					}
					if h.Signature.Results().Len() == 1 {
						cmps = append(cmps, cubeCmp{hc, cand, true})
					} else if refs := hc.Referrers(); refs != nil {
						for _, u := range *refs {
							if ex, isEx := u.(*ssa.Extract); isEx && ex.Index == ri {
								cmps = append(cmps, cubeCmp{ex, cand, true})
							}
						}
					}
				}
			}
		}
	}
	key := "(*Context).Cbrt | exactness re-check"
	if len(cmps) == 0 {
		r.bad(key, w.pos(f.Pos()), "no comparison of the cube of a candidate with (a copy of) the operand: perfect cubes would report Inexact, or inexact roots would report exact")
	} else {
		// some return is reached where such a comparison came out equal, and it does not force Inexact
		inexact := w.conditionConsts()["Inexact"]
		okExact := false
		for _, b := range f.Blocks {
			rt, isRet := b.Instrs[len(b.Instrs)-1].(*ssa.Return)
			if !isRet || w.isErrorReturn(rt) {
				continue
			}
			underEq := false
			for _, g := range guardsAt(b) {
				bo, isB := g.Cond.(*ssa.BinOp)
				if !isB {
					continue
				}
				k, isK := bo.Y.(*ssa.Const)
				if !isK || ci(k) != 0 || !((bo.Op == token.EQL && g.Val) || (bo.Op == token.NEQ && !g.Val)) {
					continue
				}
				for _, cc := range cmps {
					if bo.X == cc.val {
						underEq = true
					}
				}
			}
			if !underEq {
				continue
			}
			forced := false
			w.exprOf(f, rt.Results[0]).walk(func(x *Expr) bool {
				if x.Op == "const" {
					if k, isK := x.V.(*ssa.Const); isK {
						if bits, isC := condBits(k); isC && bits&inexact != 0 {
							forced = true
						}
					}
				}
				return true
			})
			if !forced {
				okExact = true
			}
		}
		if okExact {
			r.ok(key, w.pos(f.Pos()), fmt.Sprintf("%d comparisons of candidate³ with the operand copy; where one is equal the result is returned without a forced Inexact", len(cmps)), true)
		} else {
			r.bad(key, w.pos(f.Pos()), "no return under `candidate³ == operand` that leaves Inexact unset: perfect cubes would report Inexact")
		}
		// the cube is computed without rounding: a p-digit root has a 3p-digit cube
		k2 := "(*Context).Cbrt | the cube of the candidate is computed exactly"
		allExact := true
		for _, cc := range cmps {
			if !cc.exact {
				allExact = false
			}
		}
		if allExact {
			r.ok(k2, w.pos(f.Pos()), "candidate³ is formed under BaseContext (Precision 0: no digit limit)", true)
		} else {
			r.bad(k2, w.pos(f.Pos()), "the cube compared with the operand is computed in a precision-limited context: the cube of a p-digit root has up to 3p digits, so perfect cubes whose root uses the whole precision are reported Inexact (Cbrt(100544625) = 465 at precision 3)")
		}
		// the value rounded in the caller's mode is built from the located candidate, not the raw iterate
		k3 := "(*Context).Cbrt | the result is rounded from the located candidate, not from the iterate"
		iter := map[ssa.Value]bool{}
		for _, lc := range w.callsTo(f, "(*loop).done") {
			iter[basePtr(lc.Common().Args[1])] = true
		}
		var badRound []string
		nRound := 0
		for _, rc := range w.callsTo(f, "(*Context).round") {
			if basePtr(rc.Common().Args[0]) != ssa.Value(f.Params[0]) || basePtr(rc.Common().Args[1]) != ssa.Value(f.Params[di]) {
				continue // roundings under private contexts (truncation to the candidate) are not the result's
			}
			nRound++
			src := basePtr(rc.Common().Args[2])
			if iter[src] && !w.precisionZeroGuard(f, rc.Block()) {
				badRound = append(badRound, w.instrPos(rc))
			}
		}
		if len(badRound) > 0 {
			r.bad(k3, w.pos(f.Pos()), "the Newton iterate itself is rounded in the caller's mode at "+joinStrings(badRound)+": an iterate is only an approximation, so under a directed mode the result lands a whole unit off (Cbrt(8) = 2.01 under RoundUp at precision 3; Cbrt(0.999999999) = 1.01 under RoundCeiling)")
		} else {
			r.ok(k3, w.pos(f.Pos()), fmt.Sprintf("%d rounding(s) of the destination under the caller's context, none of them of the iterate (except with rounding disabled)", nRound), nRound > 0)
		}
	}
	for _, name := range []string{"(*Context).Sqrt", "(*Context).Cbrt"} {
		g := w.fn(name)
		if g == nil {
			continue
		}
		key := name + " | specials from rootSpecials"
		cs := w.callsTo(g, "(*Context).rootSpecials")
		want := int64(2)
		if strings.HasSuffix(name, "Cbrt") {
			want = 3
		}
		if len(cs) == 1 {
			if k, ok := cs[0].Common().Args[3].(*ssa.Const); ok && ci(k) == want && cs[0].Block() == g.Blocks[0] {
				r.ok(key, w.pos(g.Pos()), fmt.Sprintf("rootSpecials(d, x, %d) first", want), true)
				continue
			}
		}
		r.bad(key, w.pos(g.Pos()), fmt.Sprintf("must start with rootSpecials(d, x, %d)", want))
	}
}

func ruleExactShortcuts(w *World, r *RuleResult) {
	type sc struct{ fn, guard, global string }
	zeroRet := func(f *ssa.Function, c *ssa.Call) bool {
		ok, _ := mustPassFrom(c, func(in ssa.Instruction) bool {
			rt, isRet := in.(*ssa.Return)
			if !isRet {
				return false
			}
			for _, v := range rt.Results {
				if typeIs(v.Type(), apdPath, "Condition") {
					if b, k := condBits(v); !k || b != 0 {
						return false
					}
				}
				if isErrorType(v.Type()) && !isNilConst(v) {
					return false
				}
			}
			return true
		}, nil)
		return ok
	}
	// the guard of each shortcut, by shape: kind "zero" = the operand is zero (IsZero(p) or Sign(p) == 0 on an
	// operand parameter p of the function holding the store), kind "one" = p.Cmp(decimalOne) == 0
	operandParam := func(g *ssa.Function, v ssa.Value) bool {
		pr, ok := basePtr(v).(*ssa.Parameter)
		if !ok || !isDecimalPtr(pr.Type()) {
			return false
		}
		return pr != g.Params[destArgIndex(w, g)]
	}
	guardOK := func(g *ssa.Function, b *ssa.BasicBlock, kind string) bool {
		for _, gd := range guardsAt(b) {
			switch c := gd.Cond.(type) {
			case *ssa.Call:
				if kind == "zero" && gd.Val && w.calleeName(c) == "(*Decimal).IsZero" && operandParam(g, c.Common().Args[0]) {
					return true
				}
			case *ssa.BinOp:
				call, isC := c.X.(*ssa.Call)
				k, isK := c.Y.(*ssa.Const)
				if !isC || !isK || ci(k) != 0 || !((c.Op == token.EQL && gd.Val) || (c.Op == token.NEQ && !gd.Val)) {
					continue
				}
				switch w.calleeName(call) {
				case "(*Decimal).Sign":
					if kind == "zero" && operandParam(g, call.Common().Args[0]) {
						return true
					}
				case "(*Decimal).Cmp":
					if kind == "one" && operandParam(g, call.Common().Args[0]) {
						for _, l := range w.newProv(g, nil).roots(call.Common().Args[1]) {
							if l.Root.Kind == RGlobalObj && l.Root.Name == "decimalOne" {
								return true
							}
						}
					}
				}
			}
		}
		return false
	}
	for _, s := range []sc{
		{"(*Context).Exp", "zero", "decimalOne"},
		{"(*Context).logSpecials", "one", "decimalZero"},
		{"(*Context).Pow", "zero", "decimalOne"},
	} {
		f := w.fn(s.fn)
		if f == nil {
			r.anchorMissing(s.fn)
			continue
		}
		key := s.fn + " | exact shortcut to " + s.global
		ok := false
		// the shortcut may sit in a helper the operation was split into
		for _, g := range w.closureFuncs(f) {
			for _, c := range w.sharedSetSites(g, s.global) {
				if guardOK(g, c.Block(), s.guard) && zeroRet(g, c) {
					ok = true
				}
			}
		}
		if ok {
			r.ok(key, w.pos(f.Pos()), "shared constant stored under the guard and returned with zero flags and nil error", true)
		} else {
			r.bad(key, w.pos(f.Pos()), "the exactly representable case no longer returns the shared constant with zero flags (it would go through the inexact series)")
		}
	}
	// integer exponent path in Pow
	if f := w.fn("(*Context).Pow"); f != nil {
		key := "(*Context).Pow | integer exponent avoids Ln/Exp"
		ok := false
		for _, c := range w.callsTo(f, "(*Context).round") {
			for _, g := range guardsAt(c.Block()) {
				isFracZero := false
				if gc, isCall := g.Cond.(*ssa.Call); isCall && w.calleeName(gc) == "(*Decimal).IsZero" {
					// the fractional part: the third argument of a Modf call
					for _, m := range w.callsTo(f, "(*Decimal).Modf") {
						if len(m.Common().Args) == 3 && basePtr(m.Common().Args[2]) == basePtr(gc.Common().Args[0]) {
							isFracZero = true
						}
					}
				}
				if g.Val && isFracZero {
					// on this edge no ErrDecimal Ln/Exp call is reachable before the return
					rt, _ := mustPassFrom(c, func(in ssa.Instruction) bool { _, isRet := in.(*ssa.Return); return isRet }, nil)
					lnAfter := false
					for _, k := range callsIn(f) {
						cn := w.calleeName(k)
						if (cn == "(*ErrDecimal).Ln" || cn == "(*ErrDecimal).Exp") && (k.Block() == c.Block() || reaches(c.Block(), k.Block())) {
							lnAfter = true
						}
					}
					if rt && !lnAfter {
						ok = true
					}
				}
			}
		}
		if ok && len(w.callsTo(f, "(*Context).integerPower")) == 1 {
			r.ok(key, w.pos(f.Pos()), "under frac.IsZero() the integerPower result is rounded once and returned", true)
		} else {
			r.bad(key, w.pos(f.Pos()), "integer exponents no longer return integerPower's result rounded once; they would take the Ln/Exp detour")
		}
	}
}

func ruleOverflowReports(w *World, r *RuleResult) {
	chk := func(fn, guardContains string) {
		f := w.fn(fn)
		// the negative edge: sign(v) < 0 where v is a non-destination operand of the function or a local
		// (its copy); written by shape, not by the names of locals
		negEdge := func(cond ssa.Value, val bool) bool {
			bo, isB := cond.(*ssa.BinOp)
			// sign < 0 holds, or sign >= 0 does not
			if !isB || !(bo.Op == token.LSS && val || bo.Op == token.GEQ && !val) {
				return false
			}
			k, isK := bo.Y.(*ssa.Const)
			call, isC := bo.X.(*ssa.Call)
			if !isK || !isC || ci(k) != 0 || !strings.HasSuffix(guardContains, ").Sign") || w.calleeName(call) != guardContains {
				return false
			}
			base := basePtr(call.Common().Args[0])
			if pr, isP := base.(*ssa.Parameter); isP && f != nil {
				return pr != f.Params[destArgIndex(w, f)]
			}
			_, isA := base.(*ssa.Alloc)
			return isA
		}
		if f == nil {
			r.anchorMissing(fn)
			return
		}
		key := fn + " | negateOverflowFlags on the negative edge only"
		cs := w.callsTo(f, "(Condition).negateOverflowFlags")
		if len(cs) == 0 {
			r.bad(key, w.pos(f.Pos()), "overflow of the reciprocal/negative-argument case is no longer converted to underflow")
			return
		}
		for _, c := range cs {
			ok := false
			for _, g := range guardsAt(c.Block()) {
				if negEdge(g.Cond, g.Val) {
					ok = true
				}
			}
			if ok {
				r.ok(key, w.instrPos(c), "under "+guardContains+"(operand) < 0", true)
			} else {
				r.bad(key, w.instrPos(c), "negateOverflowFlags is not confined to the edge "+guardContains+"(operand) < 0")
			}
		}
	}
	chk("(*Context).Exp", "(*Decimal).Sign")
	chk("(*Context).integerPower", "(*BigInt).Sign")
	if f := w.fn("(*Context).Exp"); f != nil {
		key := "(*Context).Exp | early overflow only beyond 23·precision"
		cc := w.conditionConsts()
		ok := true
		n := 0
		for _, u := range w.condConstUses(f) {
			if u.bits&cc["Overflow"] == 0 || u.bits >= 1<<12 {
				continue
			}
			if bo, isB := u.user.(*ssa.BinOp); !isB || bo.Op != token.OR {
				continue
			}
			n++
			siteOK := false
			for _, g := range guardsAt(u.site.Block()) {
				bo, isB := g.Cond.(*ssa.BinOp)
				if !isB || !g.Val || bo.Op != token.GTR {
					continue
				}
				if call, isC := bo.X.(*ssa.Call); isC && w.calleeName(call) == "(*Decimal).Cmp" {
					// compares |x| with a value built from 23 * precision
					s := w.exprOf(f, call.Common().Args[1]).String()
					all := ""
					for _, c2 := range w.callsTo(f, "(*Decimal).SetInt64") {
						if basePtr(c2.Common().Args[0]) == basePtr(call.Common().Args[1]) {
							all += w.exprOf(f, c2.Common().Args[1]).String()
						}
					}
					if strings.Contains(all, "* 23") || strings.Contains(s, "23") {
						siteOK = true
					}
				}
			}
			if !siteOK {
				ok = false
			}
		}
		if ok && n >= 1 {
			r.ok(key, w.pos(f.Pos()), "Overflow is or-ed only under |x|.Cmp(23·cp) > 0", true)
		} else {
			r.bad(key, w.pos(f.Pos()), "Exp's early overflow/underflow return is not confined to |x| > 23·precision")
		}
	}
}

func ruleSubIsAdd(w *World, r *RuleResult) {
	add := w.fn("(*Context).add")
	if add == nil {
		r.anchorMissing("(*Context).add")
		return
	}
	si := paramIndex(add, "subtract")
	if si < 0 {
		r.anchorMissing("(*Context).add param subtract")
		return
	}
	for _, c := range w.callersOf(add) {
		g := w.shortName(c.Parent())
		key := g + " | add's subtract flag"
		k, isK := c.Common().Args[si].(*ssa.Const)
		val := isK && k.Value != nil && k.Value.Kind() == constant.Bool && constant.BoolVal(k.Value)
		switch {
		case g == "(*Context).Add" && isK && !val:
			r.ok(key, w.instrPos(c), "false", false)
		case g == "(*Context).Sub" && isK && val:
			r.ok(key, w.instrPos(c), "true", false)
		case g == "(*Context).Add" || g == "(*Context).Sub":
			r.bad(key, w.instrPos(c), "Add must call add with false and Sub with true; found "+w.exprOf(c.Parent(), c.Common().Args[si]).String())
		default:
			// another internal user of add (a helper choosing the direction itself) says nothing about Sub ≡ Add(−y)
			r.ok(key, w.instrPos(c), "internal caller, not part of the Add/Sub pair", false)
			continue
		}
		// operands forwarded unchanged
		pf := c.Parent()
		for i := 1; i <= 3; i++ {
			if c.Common().Args[i] != ssa.Value(pf.Params[i]) {
				r.bad(g+" | forwards its operands", w.instrPos(c), "Add/Sub must pass d, x, y unchanged to add")
			}
		}
	}
	key := "(*Context).add | effective sign of y"
	ok := false
	for _, b := range add.Blocks {
		for _, in := range b.Instrs {
			if bo, isB := in.(*ssa.BinOp); isB && bo.Op == token.NEQ {
				l, rr := w.exprOf(add, bo.X).String(), w.exprOf(add, bo.Y).String()
				if (l == "y.Negative" && rr == "subtract") || (l == "subtract" && rr == "y.Negative") {
					// and it is what the same/different-sign decision uses
					if refs := bo.Referrers(); refs != nil && len(*refs) >= 2 {
						ok = true
					}
				}
			}
		}
	}
	// subtract must not influence anything else
	uses := 0
	if refs := add.Params[si].Referrers(); refs != nil {
		uses = len(*refs)
	}
	if ok && uses == 1 {
		r.ok(key, w.pos(add.Pos()), "yn = y.Negative != subtract is the only use of the flag and feeds the sign logic", true)
	} else {
		r.bad(key, w.pos(add.Pos()), fmt.Sprintf("subtraction is not exactly `add with y's sign flipped` (yn expression found: %v, uses of the flag: %d)", ok, uses))
	}
}

// sameErrDecimal: v is (the address of) the ErrDecimal local initialised from the MakeErrDecimal call mk.
func (w *World) sameErrDecimal(f *ssa.Function, v ssa.Value, mk *ssa.Call) bool {
	base := basePtr(v)
	for _, st := range storesIn(f) {
		if st.Val == ssa.Value(mk) && basePtr(st.Addr) == base {
			return true
		}
	}
	return false
}

// precisionZeroGuard: block b is reached only where c.Precision == 0 (rounding disabled).
func (w *World) precisionZeroGuard(f *ssa.Function, b *ssa.BasicBlock) bool {
	for _, g := range guardsAt(b) {
		bo, ok := g.Cond.(*ssa.BinOp)
		if !ok {
			continue
		}
		k, isK := bo.Y.(*ssa.Const)
		if !isK || ci(k) != 0 || !strings.HasSuffix(w.exprOf(f, bo.X).String(), ".Precision") {
			continue
		}
		if (bo.Op == token.EQL && g.Val) || (bo.Op == token.NEQ && !g.Val) {
			return true
		}
	}
	return false
}

// exactPowerHelper: h(t *Decimal, n int, x *Decimal) int compares t**n with x on the integer coefficients:
// its only callees are BigInt methods and the power-of-ten table, one (*BigInt).Mul has t's coefficient as an
// operand inside a loop bounded by n, and every return delivers the result of a (*BigInt).Cmp. Returns the
// parameter indices of t, n and x.
func (w *World) exactPowerHelper(h *ssa.Function) (int, int, int, bool) {
	if h == nil || !w.inPkg(h) || len(h.Blocks) == 0 || h.Signature.Recv() != nil {
		return 0, 0, 0, false
	}
	var dec []int
	ni := -1
	for i, p := range h.Params {
		switch {
		case isDecimalPtr(p.Type()):
			dec = append(dec, i)
		case p.Type().String() == "int":
			ni = i
		}
	}
	if len(dec) != 2 || ni < 0 || h.Signature.Results().Len() != 1 || h.Signature.Results().At(0).Type().String() != "int" {
		return 0, 0, 0, false
	}
	for _, c := range callsIn(h) {
		n := w.calleeName(c)
		if !(strings.HasPrefix(n, "(*BigInt).") || n == "tableExp10") {
			return 0, 0, 0, false // a Context/ErrDecimal/Decimal call could round
		}
	}
	// which Decimal parameter is the one multiplied by itself
	ti := -1
	for _, m := range w.callsTo(h, "(*BigInt).Mul") {
		a := m.Common().Args
		for _, d := range dec {
			for _, op := range a[1:] {
				if fa, ok := op.(*ssa.FieldAddr); ok && fa.X == ssa.Value(h.Params[d]) && w.exprOf(h, op).Name == "Coeff" {
					// inside a loop whose condition mentions n
					inLoop := false
					for _, b := range h.Blocks {
						if iff, isIf := b.Instrs[len(b.Instrs)-1].(*ssa.If); isIf && (b == m.Block() || reaches(m.Block(), b)) && reaches(b, m.Block()) {
							w.exprOf(h, iff.Cond).walk(func(e *Expr) bool {
								if e.V == ssa.Value(h.Params[ni]) {
									inLoop = true
								}
								return true
							})
						}
					}
					if inLoop {
						ti = d
					}
				}
			}
		}
	}
	if ti < 0 {
		return 0, 0, 0, false
	}
	for _, b := range h.Blocks {
		rt, ok := b.Instrs[len(b.Instrs)-1].(*ssa.Return)
		if !ok {
			continue
		}
		c, isC := rt.Results[0].(*ssa.Call)
		if !isC || w.calleeName(c) != "(*BigInt).Cmp" {
			return 0, 0, 0, false
		}
	}
	xi := dec[0]
	if xi == ti {
		xi = dec[1]
	}
	return ti, ni, xi, true
}

type powerCmp struct {
	call *ssa.Call
	t, x ssa.Value // bases of the candidate and of the value compared with
}

// exactPowerCmps: the calls in f of an exact power comparison helper with the constant exponent n.
func (w *World) exactPowerCmps(f *ssa.Function, n int64) []powerCmp {
	var out []powerCmp
	for _, c := range callsIn(f) {
		call, ok := c.(*ssa.Call)
		if !ok {
			continue
		}
		ti, ni, xi, ok := w.exactPowerHelper(callee(call))
		if !ok {
			continue
		}
		a := call.Common().Args
		if k, isK := a[ni].(*ssa.Const); !isK || ci(k) != n {
			continue
		}
		out = append(out, powerCmp{call, basePtr(a[ti]), basePtr(a[xi])})
	}
	return out
}

// roundsOnReceiver: g is an unexported function of the package whose first
// parameter is a *Context on which g itself calls Context.round.
func (w *World) roundsOnReceiver(g *ssa.Function) bool {
	if g == nil || !w.inPkg(g) || g.Object() == nil || g.Object().Exported() || len(g.Params) == 0 || len(g.Blocks) == 0 {
		return false
	}
	if !typeIs(g.Params[0].Type(), apdPath, "Context") || !isPointer(g.Params[0].Type()) {
		return false
	}
	for _, c := range w.callsTo(g, "(*Context).round") {
		if c.Common().Args[0] == ssa.Value(g.Params[0]) {
			return true
		}
	}
	return false
}
