package main

import (
	"fmt"
	"go/token"
	"go/types"
	"sort"
	"strings"

	"golang.org/x/tools/go/ssa"
)

func init() {
	register(&Rule{ID: "C19.R7", Min: 3,
		Text: "count and exponent move together in Decimal.Reduce: every store to the Exponent field adds a counter to the field's own value, outside every loop, and that counter is a term of the count returned at each return it reaches; conversely every term of a returned count (other than the count of a nested Reduce of the receiver, which raised the exponent itself, and the digit count of a zero) was added to the exponent on every path on which it is not zero, once (stripping 1000 zeros in a block and forgetting — or adding twice — the 1000 changes the value)",
		Run:  ruleReduceExponentAccounting})
}

// decimalFieldName: the field of apd.Decimal that fa addresses, "" otherwise.
func decimalFieldName(fa *ssa.FieldAddr) string {
	pt, ok := fa.X.Type().Underlying().(*types.Pointer)
	if !ok || !typeIs(fa.X.Type(), apdPath, "Decimal") {
		return ""
	}
	st, ok := pt.Elem().Underlying().(*types.Struct)
	if !ok || fa.Field >= st.NumFields() {
		return ""
	}
	return st.Field(fa.Field).Name()
}

func stripConv(v ssa.Value) ssa.Value {
	for {
		switch x := v.(type) {
		case *ssa.Convert:
			v = x.X
		case *ssa.ChangeType:
			v = x.X
		default:
			return v
		}
	}
}

// addTerms splits v into its additive terms (through conversions).
func addTerms(v ssa.Value) []ssa.Value {
	v = stripConv(v)
	if bo, ok := v.(*ssa.BinOp); ok && bo.Op == token.ADD {
		return append(addTerms(bo.X), addTerms(bo.Y)...)
	}
	return []ssa.Value{v}
}

// seenBeforeOrEdge is seenBefore where, in addition, an edge satisfying
// edgeOK counts as having seen the event (the obligation does not apply on
// the paths through it).
func seenBeforeOrEdge(at ssa.Instruction, ev func(ssa.Instruction) bool, edgeOK func(from, to *ssa.BasicBlock) bool) bool {
	f := at.Parent()
	n := len(f.Blocks)
	in := make([]int, n)
	out := make([]int, n)
	for i := range in {
		in[i], out[i] = -1, -1
	}
	in[0] = 0
	changed := true
	res := false
	for iter := 0; changed && iter < 4*n+8; iter++ {
		changed = false
		for _, b := range f.Blocks {
			if b.Index != 0 {
				v := -1
				for _, p := range b.Preds {
					o := out[p.Index]
					if o == -1 {
						continue
					}
					if edgeOK(p, b) {
						o = 1
					}
					if v == -1 || o < v {
						v = o
					}
				}
				if v != in[b.Index] {
					in[b.Index] = v
					changed = true
				}
			}
			if in[b.Index] == -1 {
				continue
			}
			cur := in[b.Index]
			for _, x := range b.Instrs {
				if x == at {
					res = cur == 1
				}
				if ev(x) {
					cur = 1
				}
			}
			if cur != out[b.Index] {
				out[b.Index] = cur
				changed = true
			}
		}
	}
	return res
}

// exponentStoresOf: does f store to the Exponent field of a *Decimal parameter?
func exponentStoresOf(f *ssa.Function) bool {
	for _, b := range f.Blocks {
		for _, in := range b.Instrs {
			if st, ok := in.(*ssa.Store); ok {
				if fa, ok := st.Addr.(*ssa.FieldAddr); ok && decimalFieldName(fa) == "Exponent" {
					if p, isP := fa.X.(*ssa.Parameter); isP && isDecimalPtr(p.Type()) {
						return true
					}
				}
			}
		}
	}
	return false
}

func ruleReduceExponentAccounting(w *World, r *RuleResult) {
	const top = "(*Decimal).Reduce"
	tf := w.fn(top)
	if tf == nil {
		r.anchorMissing(top)
		return
	}
	if len(tf.Params) < 2 {
		r.anchorMissing(top + " parameters (d, x)")
		return
	}
	// Reduce, and the unexported helpers it was split into that adjust the
	// exponent themselves: each is held to the same accounting, and the count
	// such a helper returns has been added to the exponent by it.
	accounting := map[*ssa.Function]bool{tf: true}
	for g := range w.privateClosure(tf) {
		if g != tf && exponentStoresOf(g) {
			accounting[g] = true
		}
	}
	var fs []*ssa.Function
	for g := range accounting {
		fs = append(fs, g)
	}
	sort.Slice(fs, func(i, j int) bool { return w.shortName(fs[i]) < w.shortName(fs[j]) })
	for _, f := range fs {
		reduceExponentAccountingIn(w, r, f, accounting)
	}
}

func reduceExponentAccountingIn(w *World, r *RuleResult, f *ssa.Function, accounting map[*ssa.Function]bool) {
	name := w.shortName(f)
	// the int result that carries the count
	ci_ := -1
	for i := 0; i < f.Signature.Results().Len(); i++ {
		if b, ok := f.Signature.Results().At(i).Type().Underlying().(*types.Basic); ok && b.Info()&types.IsInteger != 0 {
			ci_ = i
			break
		}
	}
	isDecParam := func(v ssa.Value) bool {
		p, ok := v.(*ssa.Parameter)
		return ok && isDecimalPtr(p.Type())
	}
	// stores to <param>.Exponent, and the counter each adds
	type expStore struct {
		st   *ssa.Store
		terms []ssa.Value // nil: not of the shape Exponent + counters
	}
	var stores []expStore
	for _, b := range f.Blocks {
		for _, in := range b.Instrs {
			st, ok := in.(*ssa.Store)
			if !ok {
				continue
			}
			fa, ok := st.Addr.(*ssa.FieldAddr)
			if !ok || decimalFieldName(fa) != "Exponent" || !isDecParam(fa.X) {
				continue
			}
			es := expStore{st: st}
			if bo, ok := stripConv(st.Val).(*ssa.BinOp); ok && bo.Op == token.ADD {
				for _, pr := range [][2]ssa.Value{{bo.X, bo.Y}, {bo.Y, bo.X}} {
					ld, ok := pr[0].(*ssa.UnOp)
					if !ok || ld.Op != token.MUL {
						continue
					}
					la, ok := ld.X.(*ssa.FieldAddr)
					if ok && decimalFieldName(la) == "Exponent" && isDecParam(la.X) {
						es.terms = addTerms(pr[1])
					}
				}
			}
			stores = append(stores, es)
		}
	}
	loops := loopsOf(f)
	inLoop := func(b *ssa.BasicBlock) bool {
		for _, body := range loops {
			if body[b] {
				return true
			}
		}
		return false
	}
	// aliases of a counter: a φ that merges the counter with the constant 0
	// (and, at a loop header, with itself: unchanged by the loop) is that
	// counter wherever it is not zero
	var aliases func(t ssa.Value, depth int) []ssa.Value
	aliases = func(t ssa.Value, depth int) []ssa.Value {
		out := []ssa.Value{t}
		ph, ok := t.(*ssa.Phi)
		if !ok || depth > 4 {
			return out
		}
		var src ssa.Value
		for i, e := range ph.Edges {
			if e == ssa.Value(ph) {
				continue // carried round a loop unchanged
			}
			if ph.Block().Dominates(ph.Block().Preds[i]) {
				return out // changed inside the loop it heads
			}
			if k, isK := e.(*ssa.Const); isK && ci(k) == 0 {
				continue
			}
			if src != nil && src != e {
				return out
			}
			src = e
		}
		if src != nil {
			out = append(out, aliases(stripConv(src), depth+1)...)
		}
		return out
	}
	phiZeroEdge := func(t ssa.Value, from, to *ssa.BasicBlock) bool {
		for _, a := range aliases(t, 0) {
			ph, ok := a.(*ssa.Phi)
			if !ok || ph.Block() != to {
				continue
			}
			changed := false
			for i, e := range ph.Edges {
				if e != ssa.Value(ph) && to.Dominates(to.Preds[i]) {
					changed = true // a loop counter: 0 on entry says nothing about its value later
				}
			}
			if changed {
				continue
			}
			for i, p := range to.Preds {
				if p == from {
					if k, isK := ph.Edges[i].(*ssa.Const); isK && ci(k) == 0 {
						return true
					}
				}
			}
		}
		return false
	}
	sameCounter := func(retTerm, storeTerm ssa.Value) bool {
		for _, a := range aliases(retTerm, 0) {
			if a == storeTerm {
				return true
			}
		}
		return false
	}
	var rets []*ssa.Return
	for _, b := range f.Blocks {
		if rt, ok := b.Instrs[len(b.Instrs)-1].(*ssa.Return); ok && ci_ >= 0 && len(rt.Results) > ci_ {
			rets = append(rets, rt)
		}
	}
	after := func(a, b ssa.Instruction) bool { // b can execute after a
		if a.Block() == b.Block() && instrIndex(a) < instrIndex(b) {
			return true
		}
		return a.Block() != b.Block() && reaches(a.Block(), b.Block()) || a.Block() == b.Block() && inLoop(a.Block())
	}
	// 1. every store
	for i, es := range stores {
		key := fmt.Sprintf("%s | Exponent store #%d", name, i+1)
		var bad []string
		if es.terms == nil {
			bad = append(bad, "the stored value "+w.exprOf(f, es.st.Val).String()+" is not the field's own value plus a counter")
		}
		if inLoop(es.st.Block()) {
			bad = append(bad, "the store is inside a loop that also counts the zeros it strips: the total is added again after the loop")
		}
		var shown []string
		for _, term := range es.terms {
			shown = append(shown, w.exprOf(f, term).String())
			if k, isK := term.(*ssa.Const); isK && ci(k) == 0 {
				continue
			}
			for _, rt := range rets {
				if !after(es.st, rt) {
					continue
				}
				found := false
				for _, t := range addTerms(rt.Results[ci_]) {
					if sameCounter(t, term) {
						found = true
					}
				}
				if !found {
					bad = append(bad, fmt.Sprintf("the exponent is raised by %s, which is not part of the count %s returned at %s", w.exprOf(f, term).String(), w.exprOf(f, rt.Results[ci_]).String(), w.instrPos(rt)))
				}
			}
			for j, other := range stores {
				if j == i || !after(other.st, es.st) {
					continue
				}
				for _, ot := range other.terms {
					if ot == term {
						bad = append(bad, fmt.Sprintf("the same counter was already added at %s", w.instrPos(other.st)))
					}
				}
			}
		}
		if len(bad) > 0 {
			r.bad(key, w.instrPos(es.st), strings.Join(uniqStrings(bad), "; ")+": the reduced value is the operand's only if the exponent rises by exactly the number of zeros stripped")
		} else {
			r.ok(key, w.instrPos(es.st), "adds "+strings.Join(shown, " + ")+" to the field's own value, outside every loop, once, and every return it reaches returns that counter", true)
		}
	}
	// 2. every return
	n := 0
	for _, rt := range rets {
		cv := rt.Results[ci_]
		if _, isK := cv.(*ssa.Const); isK {
			continue
		}
		n++
		key := fmt.Sprintf("%s | count of return #%d is in the exponent", name, n)
		var bad, notes []string
		undecidedShape := false
		for _, t := range addTerms(cv) {
			t := t
			if _, isK := t.(*ssa.Const); isK {
				continue
			}
			// the digit count of a zero coefficient, and the count of a nested Reduce
			derivesFromCall := func(names ...string) *ssa.Call {
				var found *ssa.Call
				seen := map[ssa.Value]bool{}
				var walk func(v ssa.Value)
				walk = func(v ssa.Value) {
					if seen[v] || found != nil {
						return
					}
					seen[v] = true
					switch x := v.(type) {
					case *ssa.Call:
						for _, nm := range names {
							if w.calleeName(x) == nm {
								found = x
							}
						}
					case *ssa.Extract:
						walk(x.Tuple)
					case *ssa.Convert:
						walk(x.X)
					case *ssa.ChangeType:
						walk(x.X)
					case *ssa.BinOp:
						walk(x.X)
						walk(x.Y)
					}
				}
				walk(t)
				return found
			}
			if c := derivesFromCall("(*Decimal).NumDigits", "NumDigits"); c != nil {
				notes = append(notes, "digit count of the zero operand")
				continue
			}
			var tc *ssa.Call
			if ex, ok := t.(*ssa.Extract); ok {
				tc, _ = ex.Tuple.(*ssa.Call)
			} else if c, ok := t.(*ssa.Call); ok {
				tc = c
			}
			if tc != nil {
				if g := callee(tc); g != nil && accounting[g] {
					onParam := false
					for _, a := range tc.Common().Args {
						if isDecParam(a) {
							onParam = true
						}
					}
					if onParam {
						notes = append(notes, "count of "+w.shortName(g)+" applied to the same value, which raises the exponent by it")
						continue
					}
				}
				// any other call's result is a plain counter: f itself must add it
			}
			matches := func(in ssa.Instruction) bool {
				for _, es := range stores {
					if es.st != in {
						continue
					}
					for _, st := range es.terms {
						if sameCounter(t, st) {
							return true
						}
					}
				}
				return false
			}
			zeroEdge := func(from, to *ssa.BasicBlock) bool {
				if phiZeroEdge(t, from, to) {
					return true
				}
				iff, ok := from.Instrs[len(from.Instrs)-1].(*ssa.If)
				if !ok || len(from.Succs) != 2 {
					return false
				}
				bo, ok := iff.Cond.(*ssa.BinOp)
				if !ok || !sameCounter(t, stripConv(bo.X)) && stripConv(bo.X) != t {
					return false
				}
				k, ok := bo.Y.(*ssa.Const)
				if !ok || ci(k) != 0 {
					return false
				}
				return bo.Op == token.NEQ && to == from.Succs[1] || bo.Op == token.EQL && to == from.Succs[0]
			}
			if seenBeforeOrEdge(rt, matches, zeroEdge) {
				notes = append(notes, w.exprOf(f, t).String()+" added to the exponent")
			} else {
				bad = append(bad, fmt.Sprintf("%s is part of the returned count but on some path to this return the exponent was not raised by it", w.exprOf(f, t).String()))
			}
		}
		switch {
		case len(bad) > 0:
			r.bad(key, w.instrPos(rt), strings.Join(bad, "; ")+": zeros were taken off the coefficient and reported, and the value is smaller by that power of ten")
		default:
			r.ok(key, w.instrPos(rt), strings.Join(uniqStrings(notes), "; "), !undecidedShape)
		}
	}
	if n == 0 && name == "(*Decimal).Reduce" {
		r.bad(name+" | count", w.pos(f.Pos()), "no return of Decimal.Reduce delivers a computed count")
	}
}

func init() {
	register(&Rule{ID: "C12.R8", Min: 5,
		Text: "Underflow accompanies every inexact subnormal result of Exp, Ln, Log10 and Pow: where the flags handed to the closing goError join the Condition of a rounding step with an Inexact the function raises itself (the result is inexact by definition, whether or not the last rounding dropped digits) or with the Condition of a step on a working context other than the receiver (an integer power computed with guard digits), Underflow is or-ed into them under a Subnormal test — the rounding step raises Underflow only when it drops non-zero digits itself (Ln(1.999) at Precision 16, MinExponent 0 returned Inexact|Subnormal without Underflow and a trap on Underflow did not fire)",
		Run:  ruleUnderflowByDefinition})
	register(&Rule{ID: "C12.R9", Min: 1,
		Text: "a float64 image of a Decimal does not drive a series alone: where the value of Decimal.Float64 is a divisor or the argument of a math logarithm in Exp, it is also compared with a constant bound (the float64 of a positive Decimal below 1E-323 is 0: the term count came out as 0 and Exp(1E-400) at Precision 500 was exactly 1)",
		Run:  ruleFloatImageGuard})
}

func ruleUnderflowByDefinition(w *World, r *RuleResult) {
	cc := w.conditionConsts()
	inexact, underflow, subn := cc["Inexact"], cc["Underflow"], cc["Subnormal"]
	if inexact*underflow*subn == 0 {
		r.anchorMissing("Condition constants")
		return
	}
	for _, name := range []string{"(*Context).Exp", "(*Context).Ln", "(*Context).Log10", "(*Context).Pow"} {
		f := w.fn(name)
		if f == nil {
			r.anchorMissing(name)
			continue
		}
		n := 0
		goErrArg := func(call *ssa.Call) ssa.Value {
			if w.calleeName(call) == "(Condition).GoError" {
				return call.Common().Args[0]
			}
			return call.Common().Args[len(call.Common().Args)-1]
		}
		type penv struct {
			params map[*ssa.Parameter]ssa.Value
			site   ssa.Instruction
			parent *penv
		}
		bind := func(g *ssa.Function, call *ssa.Call, parent *penv) *penv {
			e := &penv{params: map[*ssa.Parameter]ssa.Value{}, site: call, parent: parent}
			for i, p := range g.Params {
				if i < len(call.Common().Args) {
					e.params[p] = call.Common().Args[i]
				}
			}
			return e
		}
		hasCondParam := func(g *ssa.Function) bool {
			for _, p := range g.Params {
				if typeIs(p.Type(), apdPath, "Condition") && !isPointer(p.Type()) {
					return true
				}
			}
			return false
		}
		type closing struct {
			call *ssa.Call // the site in f
			arg  ssa.Value // the flags handed to goError
			env  *penv
		}
		var sites []closing
		for _, c := range callsIn(f) {
			call, ok := c.(*ssa.Call)
			if !ok {
				continue
			}
			if w.isGoErrorCall(call) {
				sites = append(sites, closing{call, goErrArg(call), nil})
				continue
			}
			// an unexported helper that is handed the flags and closes the operation itself
			if h := callee(call); h != nil && w.inPkg(h) && (h.Object() == nil || !h.Object().Exported()) && hasCondParam(h) && len(h.Blocks) > 0 {
				for _, hc := range callsIn(h) {
					if hcall, ok := hc.(*ssa.Call); ok && w.isGoErrorCall(hcall) {
						sites = append(sites, closing{call, goErrArg(hcall), bind(h, call, nil)})
					}
				}
			}
		}
		for _, cs := range sites {
			call, arg := cs.call, cs.arg
			// the derivation of the flags: constants or-ed in, and Conditions of callees
			var ownInexact ssa.Instruction
			var rounding []*ssa.Call
			var underflowSites []ssa.Instruction
			seen := map[ssa.Value]bool{}
			var walk func(v ssa.Value, site ssa.Instruction, env *penv, depth int)
			walk = func(v ssa.Value, site ssa.Instruction, env *penv, depth int) {
				if p, isP := v.(*ssa.Parameter); isP {
					if env != nil && depth < 6 {
						if a, ok := env.params[p]; ok {
							walk(a, env.site, env.parent, depth+1)
						}
					}
					return
				}
				if bits, ok := condBits(v); ok {
					if bits&inexact != 0 && bits&cc["Overflow"] == 0 && ownInexact == nil {
						ownInexact = site
					}
					if bits&underflow != 0 && bits&cc["SystemUnderflow"] == 0 {
						underflowSites = append(underflowSites, site)
					}
					return
				}
				if seen[v] {
					return
				}
				seen[v] = true
				switch x := v.(type) {
				case *ssa.BinOp:
					if x.Op == token.OR {
						walk(x.X, x, env, depth)
						walk(x.Y, x, env, depth)
					}
				case *ssa.Phi:
					for i, e := range x.Edges {
						// a constant edge is raised at the end of its predecessor
						var at ssa.Instruction = x
						if _, isK := e.(*ssa.Const); isK {
							p := x.Block().Preds[i]
							at = p.Instrs[len(p.Instrs)-1]
						}
						walk(e, at, env, depth)
					}
				case *ssa.Extract:
					if cl, ok := x.Tuple.(*ssa.Call); ok {
						rounding = append(rounding, cl)
					}
				case *ssa.Call:
					if strings.HasPrefix(w.calleeName(x), "(Condition).") && len(x.Common().Args) > 0 {
						walk(x.Common().Args[0], x, env, depth) // a transformer of flags (negateOverflowFlags), not a step
						return
					}
					// an unexported helper from flags to flags: what it returns, with its parameters bound
					if g := callee(x); g != nil && w.inPkg(g) && (g.Object() == nil || !g.Object().Exported()) && hasCondParam(g) && len(g.Blocks) > 0 && depth < 6 && typeIs(x.Type(), apdPath, "Condition") {
						decimalParam := false
						for _, p := range g.Params {
							if isDecimalPtr(p.Type()) {
								decimalParam = true
							}
						}
						if !decimalParam {
							ge := bind(g, x, env)
							for _, gb := range g.Blocks {
								if rt, ok := gb.Instrs[len(gb.Instrs)-1].(*ssa.Return); ok && len(rt.Results) == 1 {
									walk(rt.Results[0], rt, ge, depth+1)
								}
							}
							return
						}
					}
					if typeIs(x.Type(), apdPath, "Condition") && !roundsConstant(w, x) {
						rounding = append(rounding, x)
					}
				case *ssa.UnOp:
					// a field load (ed.Flags): the conditions of wrapped steps
					if x.Op == token.MUL {
						rounding = append(rounding, nil)
					}
				}
			}
			walk(arg, call, cs.env, 0)
			// a step on a working context of the function's own (not the
			// receiver): its Inexact says nothing about the last rounding either
			var foreign *ssa.Call
			for _, rc := range rounding {
				if rc == nil || len(rc.Common().Args) == 0 || len(f.Params) == 0 {
					continue
				}
				a0 := rc.Common().Args[0]
				if typeIs(a0.Type(), apdPath, "Context") && isPointer(a0.Type()) && a0 != ssa.Value(f.Params[0]) {
					if g := callee(rc); g != nil && g.Name() != "round" && g.Name() != "Round" {
						foreign = rc
					}
				}
			}
			if ownInexact == nil && foreign == nil || len(rounding) == 0 || ownInexact == nil && len(rounding) < 2 {
				continue
			}
			var inexactAt ssa.Instruction = ownInexact
			if inexactAt == nil {
				inexactAt = foreign
			}
			n++
			key := fmt.Sprintf("%s | closing goError #%d", name, n)
			var clear uint64
			for _, g := range guardsAt(call.Block()) {
				clear |= w.guardClearBits(g)
			}
			if clear&subn != 0 {
				r.ok(key, w.instrPos(call), "reached only where Subnormal was found clear: nothing to complete", true)
				continue
			}
			ok2 := false
			var why string
			for _, site := range underflowSites {
				if w.guardedBitsAt(site.Block())&subn != 0 {
					ok2 = true
				}
				if !ok2 {
					why = "Underflow is or-ed in at " + w.instrPos(site) + " but not under a Subnormal test"
				}
			}
			if ok2 {
				r.ok(key, w.instrPos(call), "the flags join a rounding step's Condition with the function's own Inexact, and Underflow is or-ed in under a Subnormal test", true)
			} else {
				if why == "" {
					why = "no Underflow is or-ed into them"
				}
				r.bad(key, w.instrPos(call), "the flags join a rounding step's Condition with the Inexact raised at "+w.instrPos(inexactAt)+", and "+why+": a subnormal result whose last rounding dropped no non-zero digit is returned Inexact|Subnormal without Underflow, and a trap on Underflow does not fire")
			}
		}
		if n == 0 {
			r.ok(name+" | closing goError", w.pos(f.Pos()), "no closing goError joins a rounding step's Condition with an Inexact of the function's own: not decided for this shape", false)
		}
	}
}

// roundsConstant: every *Decimal argument of the step c was last set, on every
// path, to a copy of a package constant (Pow pads the constant 1 for
// 1**±Infinity): its result is no value computed from the operands.
func roundsConstant(w *World, c *ssa.Call) bool {
	f := c.Parent()
	found := false
	for _, a := range c.Common().Args {
		if !isDecimalPtr(a.Type()) {
			continue
		}
		ptr := basePtr(a)
		var set *ssa.Call
		for _, k := range callsIn(f) {
			kc, ok := k.(*ssa.Call)
			if !ok || w.calleeName(kc) != "(*Decimal).Set" || basePtr(kc.Common().Args[0]) != ptr || !instrDominates(kc, c) {
				continue
			}
			for _, l := range w.newProv(f, nil).roots(kc.Common().Args[1]) {
				if l.Root.Kind == RGlobalObj {
					set = kc
				}
			}
		}
		if set == nil {
			return false
		}
		// no other call takes the pointer between the copy and the step
		for _, k := range callsIn(f) {
			kc, ok := k.(*ssa.Call)
			if !ok || kc == set || kc == c {
				continue
			}
			takes := false
			for _, ka := range kc.Common().Args {
				if basePtr(ka) == ptr {
					takes = true
				}
			}
			between := func(a, b ssa.Instruction) bool {
				if a.Block() == b.Block() {
					return instrIndex(a) < instrIndex(b)
				}
				return reaches(a.Block(), b.Block())
			}
			if takes && between(set, kc) && between(kc, c) {
				return false
			}
		}
		found = true
	}
	return found
}

func ruleFloatImageGuard(w *World, r *RuleResult) {
	const name = "(*Context).Exp"
	top := w.fn(name)
	if top == nil {
		r.anchorMissing(name)
		return
	}
	n := 0
	done := map[*ssa.Function]bool{}
	for _, f := range append([]*ssa.Function{top}, w.closureFuncs(top)...) {
		if f != top && !w.privateClosure(top)[f] || done[f] {
			continue
		}
		done[f] = true
		for _, c := range callsIn(f) {
			call, ok := c.(*ssa.Call)
			if !ok || w.calleeName(call) != "(*Decimal).Float64" {
				continue
			}
			// the float64 value and everything computed from it by conversion only
			var fv ssa.Value
			for _, ref := range *call.Referrers() {
				if ex, ok := ref.(*ssa.Extract); ok && ex.Index == 0 {
					fv = ex
				}
			}
			if fv == nil {
				continue
			}
			var risky []string
			compared := false
			for _, ref := range *fv.Referrers() {
				switch x := ref.(type) {
				case *ssa.BinOp:
					switch x.Op {
					case token.QUO:
						if x.Y == fv {
							risky = append(risky, "divisor at "+w.instrPos(x))
						}
					case token.LSS, token.LEQ, token.GTR, token.GEQ, token.EQL, token.NEQ:
						other := x.Y
						if other == fv {
							other = x.X
						}
						if _, isK := other.(*ssa.Const); isK {
							compared = true
						}
					}
				case *ssa.Call:
					if g := callee(x); g != nil && g.Pkg != nil && g.Pkg.Pkg.Path() == "math" && strings.HasPrefix(g.Name(), "Log") {
						risky = append(risky, "argument of math."+g.Name()+" at "+w.instrPos(x))
					}
				}
			}
			if len(risky) == 0 {
				continue
			}
			n++
			key := fmt.Sprintf("%s | float64 image #%d", w.shortName(f), n)
			if compared {
				r.ok(key, w.instrPos(call), "the float64 ("+strings.Join(risky, ", ")+") is also compared with a constant bound", true)
			} else {
				r.bad(key, w.instrPos(call), "the float64 of a Decimal is the "+strings.Join(risky, ", ")+" and is never compared with a bound: for a Decimal below 1E-323 it is 0, the quotient is +Inf and the series gets no term (Exp(1E-400) at Precision 500 = 1 exactly)")
			}
		}
	}
	if n == 0 {
		r.ok(name+" | float64 image", w.pos(top.Pos()), "no float64 image of a Decimal divides or enters a logarithm in Exp", false)
	}
}

func init() {
	register(&Rule{ID: "C12.R10", Min: 1,
		Text: "Pow's working precision covers the base: the precision of the context on which integerPower runs derives from the digit count of the base x as well as from the caller's Precision (a power by repeated squaring at Precision+10 digits rounds a 21-digit base away: Pow(1.00000000000000000001, 1E+20) at Precision 9 gave 1 instead of e)",
		Run:  rulePowWorkingPrecision})
	register(&Rule{ID: "C12.R11", Min: 1,
		Text: "a logarithm taken from a Decimal's representation uses the adjusted exponent: in Exp every float64 that is computed from the Exponent field of a Decimal and goes on into an integer count (of series terms) also involves that Decimal's digit count (Exponent alone is the logarithm of the last digit's unit, not of the value: too few series terms for a long coefficient)",
		Run:  ruleLogFromRepresentation})
}

// derivesFrom walks the operands of v (φ, arithmetic, conversions, extracts,
// calls of builtins and in-package helpers) and reports whether pred holds for
// one of the values met.
func derivesFrom(v ssa.Value, pred func(ssa.Value) bool) bool {
	seen := map[ssa.Value]bool{}
	var walk func(v ssa.Value) bool
	walk = func(v ssa.Value) bool {
		if v == nil || seen[v] {
			return false
		}
		seen[v] = true
		if pred(v) {
			return true
		}
		switch x := v.(type) {
		case *ssa.Phi:
			for _, e := range x.Edges {
				if walk(e) {
					return true
				}
			}
		case *ssa.BinOp:
			return walk(x.X) || walk(x.Y)
		case *ssa.UnOp:
			return walk(x.X)
		case *ssa.Convert:
			return walk(x.X)
		case *ssa.ChangeType:
			return walk(x.X)
		case *ssa.Extract:
			return walk(x.Tuple)
		case *ssa.Call:
			for _, a := range x.Common().Args {
				if walk(a) {
					return true
				}
			}
		}
		return false
	}
	return walk(v)
}

func rulePowWorkingPrecision(w *World, r *RuleResult) {
	const name = "(*Context).Pow"
	f := w.fn(name)
	if f == nil {
		r.anchorMissing(name)
		return
	}
	if len(f.Params) < 3 {
		r.anchorMissing(name + " parameters (c, d, x, y)")
		return
	}
	xP := f.Params[2]
	n := 0
	for _, call := range w.callsTo(f, "(*Context).integerPower") {
		n++
		key := fmt.Sprintf("%s | working precision of integerPower #%d", name, n)
		ctx := call.Common().Args[0]
		prec := w.precisionValueAt(f, ctx, call)
		if prec == nil {
			r.ok(key, w.instrPos(call), "the precision of the working context cannot be told: this shape is not decided", false)
			continue
		}
		fromX := derivesFrom(prec, func(v ssa.Value) bool {
			c, ok := v.(*ssa.Call)
			if !ok || !strings.HasSuffix(w.calleeName(c), "NumDigits") {
				return false
			}
			for _, a := range c.Common().Args {
				if basePtr(a) == ssa.Value(xP) {
					return true
				}
			}
			return false
		})
		fromP := derivesFrom(prec, func(v ssa.Value) bool {
			ld, ok := v.(*ssa.UnOp)
			if !ok || ld.Op != token.MUL {
				return false
			}
			fa, ok := ld.X.(*ssa.FieldAddr)
			return ok && fa.X == ssa.Value(f.Params[0]) && w.exprOf(f, fa).Name == "Precision"
		})
		switch {
		case fromX && fromP:
			r.ok(key, w.instrPos(call), "the working precision "+short(w.exprOf(f, prec).String(), 120)+" derives from c.Precision and from x.NumDigits()", true)
		case !fromX:
			r.bad(key, w.instrPos(call), "the working precision "+short(w.exprOf(f, prec).String(), 120)+" does not depend on the digit count of the base: repeated squaring rounds a base longer than Precision+10 digits away (Pow(1.00000000000000000001, 1E+20) at Precision 9 = 1, required 2.71828183)")
		default:
			r.bad(key, w.instrPos(call), "the working precision "+short(w.exprOf(f, prec).String(), 120)+" does not depend on the caller's Precision")
		}
	}
	if n == 0 {
		r.ok(name+" | working precision of integerPower", w.pos(f.Pos()), "Pow does not call integerPower: this shape is not decided", false)
	}
}

// reachesIntegerCount: the float value v flows, through arithmetic, φ and
// functions of package math, into a conversion to an integer type.
func reachesIntegerCount(v ssa.Value) bool {
	seen := map[ssa.Value]bool{}
	var walk func(v ssa.Value) bool
	walk = func(v ssa.Value) bool {
		if seen[v] || v.Referrers() == nil {
			return false
		}
		seen[v] = true
		for _, ref := range *v.Referrers() {
			switch x := ref.(type) {
			case *ssa.Convert:
				if bt, ok := x.Type().Underlying().(*types.Basic); ok && bt.Info()&types.IsInteger != 0 {
					return true
				}
				if walk(x) {
					return true
				}
			case *ssa.BinOp:
				if x.Op == token.ADD || x.Op == token.SUB || x.Op == token.MUL || x.Op == token.QUO {
					if walk(x) {
						return true
					}
				}
			case *ssa.Phi:
				if walk(x) {
					return true
				}
			case *ssa.Call:
				if g := callee(x); g != nil && g.Pkg != nil && g.Pkg.Pkg.Path() == "math" && walk(x) {
					return true
				}
			}
		}
		return false
	}
	return walk(v)
}

func ruleLogFromRepresentation(w *World, r *RuleResult) {
	const name = "(*Context).Exp"
	top := w.fn(name)
	if top == nil {
		r.anchorMissing(name)
		return
	}
	n := 0
	done := map[*ssa.Function]bool{}
	for _, f := range append([]*ssa.Function{top}, w.closureFuncs(top)...) {
		if f != top && !w.privateClosure(top)[f] || done[f] {
			continue
		}
		done[f] = true
		for _, b := range f.Blocks {
			for _, in := range b.Instrs {
				cv, ok := in.(*ssa.Convert)
				if !ok {
					continue
				}
				if bt, isB := cv.Type().Underlying().(*types.Basic); !isB || bt.Info()&types.IsFloat == 0 {
					continue
				}
				// only where the float goes on, through arithmetic and math
				// functions, into an integer again (a count of terms or digits)
				if !reachesIntegerCount(cv) {
					continue
				}
				// the Decimals whose Exponent field the converted value is computed from
				var owners []ssa.Value
				derivesFrom(cv.X, func(v ssa.Value) bool {
					if ld, ok := v.(*ssa.UnOp); ok && ld.Op == token.MUL {
						if fa, ok := ld.X.(*ssa.FieldAddr); ok && decimalFieldName(fa) == "Exponent" {
							owners = append(owners, basePtr(fa.X))
						}
					}
					return false
				})
				for _, o := range owners {
					o := o
					n++
					key := fmt.Sprintf("%s | float64 from an Exponent field #%d", w.shortName(f), n)
					withDigits := derivesFrom(cv.X, func(v ssa.Value) bool {
						c, ok := v.(*ssa.Call)
						if !ok || !strings.HasSuffix(w.calleeName(c), "NumDigits") {
							return false
						}
						for _, a := range c.Common().Args {
							if basePtr(a) == o {
								return true
							}
						}
						return false
					})
					if withDigits {
						r.ok(key, w.instrPos(cv), "the converted value "+short(w.exprOf(f, cv.X).String(), 100)+" joins the exponent with the digit count of the same Decimal", true)
					} else {
						r.bad(key, w.instrPos(cv), "the float64 "+short(w.exprOf(f, cv.X).String(), 100)+" is computed from the Exponent field without the digit count of the same Decimal: the exponent alone is the logarithm of the unit of the last digit, not a bound of the value's (Exp(1E-301+1E-600) with a 300-digit coefficient at Precision 620 lost the x²/2 term)")
					}
				}
			}
		}
	}
	if n == 0 {
		r.ok(name+" | float64 from an Exponent field", w.pos(top.Pos()), "no float64 is computed from a Decimal's Exponent field in Exp", false)
	}
}

// guardSetBits: the Condition bits known to be set in some value when the
// guard g holds: a predicate method (res.Subnormal()), a mask test
// (res&M != 0 for a single bit M, res&M == M for any M), or a negation.
func (w *World) guardSetBits(g Guard) uint64 {
	cc := w.conditionConsts()
	cond, val := g.Cond, g.Val
	for {
		u, ok := cond.(*ssa.UnOp)
		if !ok || u.Op != token.NOT {
			break
		}
		cond, val = u.X, !val
	}
	switch c := cond.(type) {
	case *ssa.Call:
		nm := w.calleeName(c)
		if val && strings.HasPrefix(nm, "(Condition).") {
			return cc[strings.TrimPrefix(nm, "(Condition).")]
		}
	case *ssa.BinOp:
		if c.Op != token.EQL && c.Op != token.NEQ {
			return 0
		}
		for _, pr := range [][2]ssa.Value{{c.X, c.Y}, {c.Y, c.X}} {
			and, ok := pr[0].(*ssa.BinOp)
			if !ok || and.Op != token.AND {
				continue
			}
			var mask uint64
			if m, ok := condBits(and.X); ok {
				mask = m
			} else if m, ok := condBits(and.Y); ok {
				mask = m
			} else {
				continue
			}
			other, ok := condBits(pr[1])
			if !ok {
				if k, isK := pr[1].(*ssa.Const); isK && ci(k) == 0 {
					other, ok = 0, true
				}
			}
			if !ok {
				continue
			}
			single := mask != 0 && mask&(mask-1) == 0
			switch {
			case other == 0 && single && (c.Op == token.NEQ) == val:
				return mask
			case other == mask && mask != 0 && (c.Op == token.EQL) == val:
				return mask
			}
		}
	}
	return 0
}

// guardClearBits: the Condition bits known to be clear when the guard g holds.
func (w *World) guardClearBits(g Guard) uint64 {
	cc := w.conditionConsts()
	cond, val := g.Cond, g.Val
	for {
		u, ok := cond.(*ssa.UnOp)
		if !ok || u.Op != token.NOT {
			break
		}
		cond, val = u.X, !val
	}
	switch c := cond.(type) {
	case *ssa.Call:
		nm := w.calleeName(c)
		if !val && strings.HasPrefix(nm, "(Condition).") {
			if b := cc[strings.TrimPrefix(nm, "(Condition).")]; b != 0 && b&(b-1) == 0 {
				return b
			}
		}
	case *ssa.BinOp:
		if c.Op != token.EQL && c.Op != token.NEQ {
			return 0
		}
		for _, pr := range [][2]ssa.Value{{c.X, c.Y}, {c.Y, c.X}} {
			and, ok := pr[0].(*ssa.BinOp)
			if !ok || and.Op != token.AND {
				continue
			}
			var mask uint64
			if m, ok := condBits(and.X); ok {
				mask = m
			} else if m, ok := condBits(and.Y); ok {
				mask = m
			} else {
				continue
			}
			if k, isK := pr[1].(*ssa.Const); isK && ci(k) == 0 && (c.Op == token.EQL) == val {
				return mask // no bit of the mask is set
			}
			if other, ok := condBits(pr[1]); ok && other == mask && mask != 0 && mask&(mask-1) == 0 && (c.Op == token.NEQ) == val {
				return mask
			}
		}
	}
	return 0
}

// guardedBitsAt: the union of guardSetBits over the guards of block b.
func (w *World) guardedBitsAt(b *ssa.BasicBlock) uint64 {
	var bits uint64
	for _, g := range guardsAt(b) {
		bits |= w.guardSetBits(g)
	}
	return bits
}

func init() {
	register(&Rule{ID: "C11.R5", Min: 2,
		Text: "the exact location of a root steps onto the root itself: in Sqrt and Cbrt the candidate is moved to its successor (v.Set(&next)) under every outcome of the exact comparison cmpPower(next, n, operand) except 'above' — a comparison that also refuses equality never reaches a root that is exactly representable one unit above the iterate (Cbrt(3195³) at Precision 4 came back 3194, Inexact)",
		Run:  ruleRootStepOntoEquality})
}

func ruleRootStepOntoEquality(w *World, r *RuleResult) {
	for _, name := range []string{"(*Context).Sqrt", "(*Context).Cbrt"} {
		top := w.fn(name)
		if top == nil {
			r.anchorMissing(name)
			continue
		}
		n := 0
		// top and the helpers it was split into, also those it shares with the other root function
		var roots []*ssa.Function
		for _, rn := range []string{"(*Context).Sqrt", "(*Context).Cbrt"} {
			if g := w.fn(rn); g != nil {
				roots = append(roots, g)
			}
		}
		joint := w.privateClosureOf(roots)
		reach := w.reachable([]*ssa.Function{top})
		var fs []*ssa.Function
		for _, nm := range w.Names {
			if g := w.Funcs[nm]; g == top || joint[g] && reach[g] && g != roots[0] && g != roots[len(roots)-1] {
				fs = append(fs, g)
			}
		}
		for _, f := range fs {
			for _, set := range w.callsTo(f, "(*Decimal).Set") {
				if len(set.Common().Args) < 2 {
					continue
				}
				src, dst := basePtr(set.Common().Args[1]), basePtr(set.Common().Args[0])
				// src is the successor of dst: it was computed as dst plus something
				succ := false
				for _, nm := range []string{"(*ErrDecimal).Add", "(*Context).Add"} {
					for _, add := range w.callsTo(f, nm) {
						a := add.Common().Args
						if len(a) == 4 && basePtr(a[1]) == src && (basePtr(a[2]) == dst || basePtr(a[3]) == dst) {
							succ = true
						}
					}
				}
				if !succ {
					continue
				}
				// guards of the copy that compare cmpPower(src, …) with 0
				for _, g := range guardsAt(set.Block()) {
					bo, ok := g.Cond.(*ssa.BinOp)
					if !ok {
						continue
					}
					call, isCall := bo.X.(*ssa.Call)
					k, isK := bo.Y.(*ssa.Const)
					if !isCall || !isK || ci(k) != 0 || w.calleeName(call) != "cmpPower" || len(call.Common().Args) < 3 || basePtr(call.Common().Args[0]) != src {
						continue
					}
					var atEq bool
					switch bo.Op {
					case token.GTR, token.LSS, token.NEQ:
						atEq = false
					case token.LEQ, token.GEQ, token.EQL:
						atEq = true
					default:
						continue
					}
					// only steps towards larger candidates: refused when the successor is above
					var above bool // the guard's value when cmpPower > 0
					switch bo.Op {
					case token.GTR, token.GEQ, token.NEQ:
						above = true
					default:
						above = false
					}
					if above == g.Val {
						continue // a copy made when the other value is above: not a step-up
					}
					n++
					key := fmt.Sprintf("%s | step onto %s #%d", w.shortName(f), w.exprOf(f, src).String(), n)
					if atEq == g.Val {
						r.ok(key, w.instrPos(set), "the successor is taken when "+w.exprOf(f, g.Cond).String()+" is "+fmt.Sprint(g.Val)+": also when its power equals the operand", true)
					} else {
						r.bad(key, w.instrPos(set), "the successor is taken only when "+w.exprOf(f, g.Cond).String()+" is "+fmt.Sprint(g.Val)+", which refuses the case where its power equals the operand: an exactly representable root one unit above the iterate is never reached and is reported inexact")
					}
				}
			}
		}
		if n == 0 {
			r.ok(name+" | step onto the successor", w.pos(top.Pos()), "no candidate is moved to a successor under a cmpPower comparison: this shape is not decided", false)
		}
	}
}
