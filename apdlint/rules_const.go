package main

import (
	"go/types"
	"fmt"
	"go/constant"
	"go/token"
	"math/big"
	"sort"
	"strings"

	"golang.org/x/tools/go/ssa"
)

func init() {
	register(&Rule{ID: "C12.R1", Min: 3,
		Text: "the logarithm constants are right: every digit of the strLn10 and strInvLn10 literals equals ln 10 and 1/ln 10 computed independently inside the checker (Machin-like atanh series on big integers, 60 guard digits); the precision table is built at 1,2,4,… digits in order",
		Run:  ruleLogConstants})
	register(&Rule{ID: "C15.R1", Min: 1,
		Text: "the Form constants are ordered Finite < Infinite < NaNSignaling < NaN (CmpTotal's cmpOrder relies on it) and cmpOrder negates for negative values",
		Run:  ruleFormOrder})
	register(&Rule{ID: "C13.R1", Min: 3,
		Text: "writer/reader token agreement: each special name the formatter emits (after the parser's own lower-casing) is accepted by the parser and maps back to the same Form; the exponent marker and sign bytes written are the ones the parser consumes, and the sign is consumed before the form dispatch",
		Run:  ruleTokenAgreement})
	register(&Rule{ID: "C13.R2", Min: 3,
		Text: "Compose/Decompose agree on the form byte (Finite↔0, Infinite↔1, NaN*↔2), and the finite case carries Negative, Exponent and the coefficient bytes both ways",
		Run:  ruleComposeDecompose})
	register(&Rule{ID: "C13.R3", Min: 1,
		Text: "float path: SetFloat64 formats with strconv.AppendFloat(·, f, 'E'|'e', -1, 64) (shortest round-tripping digits) and parses with the package's own parser; Float64 parses String() with ParseFloat(·, 64)",
		Run:  ruleFloatPath})
	register(&Rule{ID: "C13.R4", Min: 3,
		Text: "one formatter: String, Text, MarshalText, Value and Format all reach Decimal.Append; Format maps v,s→'G' and F→'f'",
		Run:  ruleOneFormatter})
}

// atanhInv returns atanh(1/n) * scale.
func atanhInv(n int64, scale *big.Int) *big.Int {
	sum := new(big.Int)
	nn := big.NewInt(n)
	n2 := big.NewInt(n * n)
	term := new(big.Int).Quo(scale, nn) // scale / n^(2k+1)
	for k := int64(0); term.Sign() != 0; k++ {
		t := new(big.Int).Quo(term, big.NewInt(2*k+1))
		sum.Add(sum, t)
		term.Quo(term, n2)
	}
	return sum
}

// ln10Digits returns the first n significant digits of ln 10 and 1/ln 10 as
// digit strings (without the decimal point), truncated, plus the next digit.
func ln10Digits(n int) (string, string) {
	guard := 60
	scale := new(big.Int).Exp(big.NewInt(10), big.NewInt(int64(n+guard)), nil)
	ln := new(big.Int)
	for _, t := range [][2]int64{{46, 31}, {34, 49}, {20, 161}} {
		ln.Add(ln, new(big.Int).Mul(big.NewInt(t[0]), atanhInv(t[1], scale)))
	}
	inv := new(big.Int).Quo(new(big.Int).Mul(scale, scale), ln)
	return ln.String(), inv.String() // ln10 = 2.30… → digits "230…"; 1/ln10 = 0.434… → digits "434…"
}

// matchesDigits: lit (digits of the literal without point/leading zeros) equals
// ref truncated or correctly rounded to the same length.
func matchesDigits(lit, ref string) (bool, int) {
	if len(lit) > len(ref)-10 {
		return false, -1
	}
	for i := 0; i < len(lit)-1; i++ {
		if lit[i] != ref[i] {
			return false, i
		}
	}
	last := len(lit) - 1
	if lit[last] == ref[last] {
		return true, -1
	}
	// rounded up in the last place?
	if ref[last+1] >= '5' && lit[last] == ref[last]+1 {
		return true, -1
	}
	return false, last
}

func (w *World) stringConst(name string) (string, bool) {
	if c, ok := w.SSA.Members[name].(*ssa.NamedConst); ok && c.Value.Value.Kind() == constant.String {
		return constant.StringVal(c.Value.Value), true
	}
	return "", false
}

func ruleLogConstants(w *World, r *RuleResult) {
	l10, ok1 := w.stringConst("strLn10")
	inv, ok2 := w.stringConst("strInvLn10")
	if !ok1 || !ok2 {
		r.anchorMissing("strLn10 / strInvLn10")
		return
	}
	n := len(l10)
	if len(inv) > n {
		n = len(inv)
	}
	refLn, refInv := ln10Digits(n + 5)
	check := func(name, lit, ref, prefix string) {
		key := name + " | digits"
		if !strings.HasPrefix(lit, prefix) {
			r.bad(key, "const.go", "literal does not start with "+prefix)
			return
		}
		digits := strings.TrimPrefix(lit, prefix)
		if prefix == "2." {
			digits = "2" + digits
		}
		for _, ch := range digits {
			if ch < '0' || ch > '9' {
				r.bad(key, "const.go", "literal contains a non-digit")
				return
			}
		}
		if len(digits) < 100 {
			r.bad(key, "const.go", fmt.Sprintf("literal has only %d digits; working precisions up to Precision+2 need more", len(digits)))
			return
		}
		if ok, at := matchesDigits(digits, ref); ok {
			r.ok(key, "const.go", fmt.Sprintf("all %d digits agree with the independently computed value (last digit truncated or rounded)", len(digits)), true)
		} else {
			r.bad(key, "const.go", fmt.Sprintf("digit %d of the literal is %q but the true value has %q: every logarithm at or beyond that precision is wrong", at+1, string(digits[at]), string(ref[at])))
		}
	}
	check("strLn10", l10, refLn, "2.")
	check("strInvLn10", inv, refInv, "0.")
	// precision table: makeConstWithPrecision rounds at p = 1,2,4,... (p *= 2 from 1) and get() indexes by ceil(log2 p)
	if f := w.fn("makeConstWithPrecision"); f != nil {
		key := "makeConstWithPrecision | precisions double from 1"
		ok := false
		for _, b := range f.Blocks {
			for _, in := range b.Instrs {
				if phi, isPhi := in.(*ssa.Phi); isPhi {
					hasOne, hasDouble := false, false
					for _, e := range phi.Edges {
						if k, ok := e.(*ssa.Const); ok && k.Value != nil && ci(k) == 1 {
							hasOne = true
						}
						if bo, ok := e.(*ssa.BinOp); ok && bo.Op == token.MUL && bo.X == ssa.Value(phi) {
							if k, ok := bo.Y.(*ssa.Const); ok && ci(k) == 2 {
								hasDouble = true
							}
						}
					}
					if hasOne && hasDouble {
						ok = true
					}
				}
			}
		}
		if ok && len(w.callsTo(f, "(*Context).Round")) == 1 {
			r.ok(key, w.pos(f.Pos()), "p starts at 1 and doubles; each entry is Round(unrounded) at precision p", true)
		} else {
			r.bad(key, w.pos(f.Pos()), "the precision table is no longer built at 1,2,4,… digits by rounding the full constant")
		}
	} else {
		r.anchorMissing("makeConstWithPrecision")
	}
	// callers of get pass at least the working precision
	for _, c := range w.allCallsTo("(*constWithPrecision).get") {
		f := c.Parent()
		key := w.shortName(f) + " | constant fetched at the working precision"
		arg := w.exprOf(f, c.Common().Args[1])
		lv := arg.leaves()
		if lv["c.Precision"] {
			r.ok(key, w.instrPos(c), "get("+arg.String()+")", true)
		} else {
			r.bad(key, w.instrPos(c), "get("+arg.String()+") does not derive from the context precision")
		}
	}
}

func ruleFormOrder(w *World, r *RuleResult) {
	f := w.formConsts()
	if f["Finite"] < f["Infinite"] && f["Infinite"] < f["NaNSignaling"] && f["NaNSignaling"] < f["NaN"] && len(f) == 4 {
		r.ok("Form constants | order", "decimal.go", fmt.Sprintf("Finite=%d < Infinite=%d < NaNSignaling=%d < NaN=%d", f["Finite"], f["Infinite"], f["NaNSignaling"], f["NaN"]), true)
	} else {
		r.bad("Form constants | order", "decimal.go", fmt.Sprintf("CmpTotal needs Finite < Infinite < NaNSignaling < NaN, have %v", f))
	}
	g := w.fn("(*Decimal).cmpOrder")
	if g == nil {
		r.anchorMissing("(*Decimal).cmpOrder")
		return
	}
	paths, ok := enumPaths(g, 16)
	key := "(*Decimal).cmpOrder | Form+1, negated for negatives"
	if !ok {
		r.undecided(key, w.pos(g.Pos()), "not loop-free")
		return
	}
	good := len(paths) == 2
	for _, p := range paths {
		v := w.exprOf(g, phiOnPath(p.Ret.Results[0], p)).String()
		neg := false
		for _, d := range p.Decisions {
			if w.exprOf(g, d.Cond).String() == "d.Negative" {
				neg = d.Val
			}
		}
		if neg && v != "-(d.Form + 1)" || !neg && v != "(d.Form + 1)" {
			good = false
		}
	}
	if good {
		r.ok(key, w.pos(g.Pos()), "returns int(Form)+1, negated when d.Negative", true)
	} else {
		r.bad(key, w.pos(g.Pos()), "cmpOrder is no longer ±(Form+1) by sign")
	}
}

// stringConstsIn collects the string constants used in f.
func (w *World) stringConstsIn(f *ssa.Function) map[string]bool {
	out := map[string]bool{}
	for _, b := range f.Blocks {
		for _, in := range b.Instrs {
			for _, op := range in.Operands(nil) {
				if *op == nil {
					continue
				}
				if k, ok := (*op).(*ssa.Const); ok && k.Value != nil && k.Value.Kind() == constant.String {
					out[constant.StringVal(k.Value)] = true
				}
			}
		}
	}
	return out
}

func ruleTokenAgreement(w *World, r *RuleResult) {
	app, par := w.fn("(*Decimal).Append"), w.fn("(*Decimal).setString")
	if app == nil || par == nil {
		r.anchorMissing("(*Decimal).Append / (*Decimal).setString")
		return
	}
	forms := w.formConsts()
	// writer: Form case -> appended literal (path enumeration over the Form switch)
	emitted := map[int64]string{}
	// in Append itself, or in a helper it was split into that maps a Form to its text
	for _, af := range w.closureFuncs(app) {
		for _, b := range af.Blocks {
			facts := guardsAt(b)
			var form int64 = -1
			for _, g := range facts {
				bo, ok := g.Cond.(*ssa.BinOp)
				if !ok || bo.Op != token.EQL || !g.Val {
					continue
				}
				isForm := strings.HasSuffix(w.exprOf(af, bo.X).String(), ".Form")
				if pr, isP := bo.X.(*ssa.Parameter); isP && typeIs(pr.Type(), apdPath, "Form") {
					isForm = true
				}
				if !isForm {
					continue
				}
				if k, ok := bo.Y.(*ssa.Const); ok {
					form = ci(k)
				}
			}
			if form < 0 {
				continue
			}
			for _, in := range b.Instrs {
				if c, ok := in.(*ssa.Call); ok {
					if bi, ok := c.Common().Value.(*ssa.Builtin); ok && bi.Name() == "append" && len(c.Common().Args) == 2 {
						if k, ok := c.Common().Args[1].(*ssa.Const); ok && k.Value != nil && k.Value.Kind() == constant.String {
							emitted[form] = constant.StringVal(k.Value)
						}
					}
				}
				if rt, ok := in.(*ssa.Return); ok && af != app {
					for _, res := range rt.Results {
						if k, ok := res.(*ssa.Const); ok && k.Value != nil && k.Value.Kind() == constant.String && constant.StringVal(k.Value) != "" {
							emitted[form] = constant.StringVal(k.Value)
						}
					}
				}
			}
		}
	}
	// reader: literal -> Form stored under its guard
	pars := w.parserFuncs()
	parserTokens := map[string]bool{}
	for _, pf := range pars {
		for t := range w.stringConstsIn(pf) {
			parserTokens[t] = true
		}
	}
	readForm := func(tok string) (int64, bool) {
		// the Form constant stored in blocks guarded by that token's test
		for _, par := range pars {
			for _, b := range par.Blocks {
				gs := guardsAt(b)
				for _, pb := range b.Preds {
					eg := edgeGuards(pb, b)
					if len(eg) > 0 {
						gs = append(gs, eg[len(eg)-1])
					}
				}
				for _, g := range gs {
					if !g.Val {
						continue
					}
					hit := false
					// a short-circuit `a || b` may be a φ whose constant edge stands for the disjunct tested in
					// the predecessor: the disjuncts count as well
					for _, cnd := range append([]ssa.Value{g.Cond}, shortCircuitDisjuncts(g.Cond)...) {
						w.exprOf(par, cnd).walk(func(x *Expr) bool {
							if x.Op == "const" && x.Name == tok {
								hit = true
							}
							return true
						})
					}
					if !hit {
						continue
					}
					for _, in := range b.Instrs {
						if st, ok := in.(*ssa.Store); ok && w.recvFieldStore(par, st, "Form") {
							if k, ok := st.Val.(*ssa.Const); ok {
								return ci(k), true
							}
						}
						// a helper that returns the form it recognised
						if rt, ok := in.(*ssa.Return); ok {
							for _, res := range rt.Results {
								if k, ok := res.(*ssa.Const); ok && typeIs(k.Type(), apdPath, "Form") {
									return ci(k), true
								}
							}
						}
					}
				}
			}
		}
		return 0, false
	}
	for _, fname := range []string{"NaN", "NaNSignaling", "Infinite"} {
		fv := forms[fname]
		key := "special name of " + fname
		lit, ok := emitted[fv]
		if !ok {
			r.bad(key, w.pos(app.Pos()), "the formatter emits no literal for this form")
			continue
		}
		low := strings.ToLower(lit)
		if !parserTokens[low] {
			r.bad(key, w.pos(par.Pos()), fmt.Sprintf("the formatter writes %q but the parser has no %q token: String() output does not parse back", lit, low))
			continue
		}
		if fname == "NaN" {
			// quiet NaN is the parser's initial Form ("leave as NaN until parsed") when the nan prefix matched
			r.ok(key, w.pos(app.Pos()), fmt.Sprintf("%q ↔ parser token %q (Form stays NaN)", lit, low), true)
			continue
		}
		if got, ok := readForm(low); ok && got == fv {
			r.ok(key, w.pos(app.Pos()), fmt.Sprintf("%q ↔ parser token %q → Form %s", lit, low, fname), true)
		} else {
			r.bad(key, w.pos(par.Pos()), fmt.Sprintf("parser token %q does not map back to Form %s", low, fname))
		}
	}
	// sign: writer emits '-' first under d.Negative; parser consumes "-" first (before ToLower / form dispatch)
	key := "sign byte"
	firstMinus := false
	// the first thing the parser does with its input is the test for a leading "-" (its own helper or
	// strings.HasPrefix), in setString itself or in the helper it starts by delegating to
	inPars := map[*ssa.Function]bool{}
	for _, pf := range pars {
		inPars[pf] = true
	}
	for cur, hop := par, 0; cur != nil && hop < 4; hop++ {
		var first *ssa.Call
		for _, in := range cur.Blocks[0].Instrs {
			if c, ok := in.(*ssa.Call); ok {
				first = c
				break
			}
		}
		cur = nil
		if first == nil {
			break
		}
		switch nm := w.calleeName(first); {
		case nm == "consumePrefix" || nm == "strings.HasPrefix":
			if k, ok := first.Common().Args[1].(*ssa.Const); ok && k.Value != nil && k.Value.Kind() == constant.String && constant.StringVal(k.Value) == "-" {
				firstMinus = true
			}
		case callee(first) != nil && inPars[callee(first)]:
			cur = callee(first)
		}
	}
	writerMinus := false
	for _, b := range app.Blocks {
		for _, g := range guardsAt(b) {
			if g.Val && w.exprOf(app, g.Cond).String() == "d.Negative" {
				for _, in := range b.Instrs {
					if c, ok := in.(*ssa.Call); ok {
						if bi, ok := c.Common().Value.(*ssa.Builtin); ok && bi.Name() == "append" {
							writerMinus = true
						}
					}
				}
			}
		}
	}
	if firstMinus && writerMinus {
		r.ok(key, w.pos(par.Pos()), "'-' is written first under d.Negative and consumed first by the parser, before the special-name dispatch (so -NaN, -sNaN, -Infinity, -0 keep their sign)", true)
	} else {
		r.bad(key, w.pos(par.Pos()), fmt.Sprintf("sign handling differs between writer (%v) and parser (consumes '-' first: %v)", writerMinus, firstMinus))
	}
	// exponent marker: parser searches 'e' after lower-casing; fmtE writes its fmt byte which is 'e'/'E'
	key = "exponent marker"
	okE := false
	lower := false
	for _, pf := range pars {
		for _, c := range w.callsTo(pf, "strings.IndexByte") {
			if k, ok := c.Common().Args[1].(*ssa.Const); ok && ci(k) == 'e' {
				okE = true
			}
		}
		if len(w.callsTo(pf, "strings.ToLower")) > 0 || w.callsASCIILower(pf) {
			lower = true
		}
	}
	if okE && lower {
		r.ok(key, w.pos(par.Pos()), "parser lower-cases and splits at 'e'; the formatter writes 'e' or 'E'", true)
	} else {
		r.bad(key, w.pos(par.Pos()), "the parser no longer lower-cases and splits at 'e'")
	}
}

func ruleComposeDecompose(w *World, r *RuleResult) {
	dec, com := w.fn("(*Decimal).Decompose"), w.fn("(*Decimal).Compose")
	if dec == nil || com == nil {
		r.anchorMissing("Compose/Decompose")
		return
	}
	forms := w.formConsts()
	// Decompose: Form -> form byte on the return reached under that case
	d2b := map[int64]int64{}
	paths, ok := enumPaths(dec, 512)
	if !ok {
		r.undecided("Decompose | form byte", w.pos(dec.Pos()), "not loop-free")
		return
	}
	for _, p := range paths {
		var form int64 = -1
		for _, d := range p.Decisions {
			if bo, ok := d.Cond.(*ssa.BinOp); ok && bo.Op == token.EQL && d.Val && w.exprOf(dec, bo.X).String() == "d.Form" {
				if k, ok := bo.Y.(*ssa.Const); ok {
					form = ci(k)
				}
			}
		}
		if form < 0 {
			continue
		}
		if k, ok := phiOnPath(p.Ret.Results[0], p).(*ssa.Const); ok {
			d2b[form] = ci(k)
		}
	}
	// finite case: sign and exponent are the value's own
	{
		key := "Decompose | finite case returns d.Negative and d.Exponent"
		var bad []string
		n := 0
		fin := forms["Finite"]
		for _, p := range paths {
			finite := false
			for _, d := range p.Decisions {
				if bo, ok := d.Cond.(*ssa.BinOp); ok && bo.Op == token.EQL && d.Val && w.exprOf(dec, bo.X).String() == "d.Form" {
					if k, ok := bo.Y.(*ssa.Const); ok && ci(k) == fin {
						finite = true
					}
				}
			}
			if !finite || len(p.Ret.Results) != 4 {
				continue
			}
			n++
			neg := w.exprOf(dec, phiOnPath(p.Ret.Results[1], p)).String()
			exp := w.exprOf(dec, phiOnPath(p.Ret.Results[3], p)).String()
			if neg != "d.Negative" || exp != "d.Exponent" {
				bad = append(bad, fmt.Sprintf("return at %s yields negative=%s exponent=%s", w.instrPos(p.Ret), neg, exp))
			}
		}
		if len(bad) > 0 || n == 0 {
			r.bad(key, w.pos(dec.Pos()), "a finite value is decomposed with a sign or exponent that is not its own: "+strings.Join(uniqStrings(bad), "; "))
		} else {
			r.ok(key, w.pos(dec.Pos()), fmt.Sprintf("%d finite paths, each returning d.Negative and d.Exponent", n), true)
		}
	}
	// Compose: form byte -> Form stored
	b2f := map[int64]int64{}
	cp, ok := enumPaths(com, 512)
	if !ok {
		r.undecided("Compose | form byte", w.pos(com.Pos()), "not loop-free")
		return
	}
	for _, p := range cp {
		var fb int64 = -1
		for _, d := range p.Decisions {
			if bo, ok := d.Cond.(*ssa.BinOp); ok && bo.Op == token.EQL && d.Val && w.exprOf(com, bo.X).String() == "form" {
				if k, ok := bo.Y.(*ssa.Const); ok {
					fb = ci(k)
				}
			}
		}
		if fb < 0 {
			continue
		}
		for _, b := range p.Blocks {
			for _, in := range b.Instrs {
				for _, v := range w.storedFieldValues(com, in, com.Params[0], "Form", 0) {
					var n int64
					if _, err := fmt.Sscanf(v, "%d", &n); err == nil {
						b2f[fb] = n
					}
				}
			}
		}
	}
	// table-driven form: d.Form = table[form] with a package-level array filled by constants at initialisation
	for _, st := range storesIn(com) {
		if !strings.HasSuffix(w.exprOf(com, st.Addr).String(), ".Form") {
			continue
		}
		ld, isLd := st.Val.(*ssa.UnOp)
		if !isLd || ld.Op != token.MUL {
			continue
		}
		ia, isIA := ld.X.(*ssa.IndexAddr)
		if !isIA {
			continue
		}
		g, isG := ia.X.(*ssa.Global)
		if !isG || w.exprOf(com, stripWidening(ia.Index)).String() != "form" {
			continue
		}
		if tab, ok := w.globalArrayInts(g); ok {
			for i, v := range tab {
				if _, have := b2f[i]; !have {
					b2f[i] = v
				}
			}
		}
	}
	for _, fname := range sortedKeys(forms) {
		fv := forms[fname]
		key := "form byte of " + fname
		by, ok := d2b[fv]
		if !ok {
			r.bad(key, w.pos(dec.Pos()), "Decompose has no case producing a form byte")
			continue
		}
		back, ok := b2f[by]
		want := fv
		if fname == "NaNSignaling" {
			want = forms["NaN"] // documented: signaling becomes quiet
		}
		if ok && back == want {
			r.ok(key, w.pos(dec.Pos()), fmt.Sprintf("Decompose → %d → Compose → Form %d", by, back), true)
		} else {
			r.bad(key, w.pos(com.Pos()), fmt.Sprintf("Decompose writes form byte %d, which Compose maps to Form %d (have mapping: %v), expected %d", by, back, ok, want))
		}
	}
	_ = sort.Strings
}

func ruleFloatPath(w *World, r *RuleResult) {
	if f := w.fn("(*Decimal).SetFloat64"); f != nil {
		key := "(*Decimal).SetFloat64 | shortest formatting"
		cs := w.callsTo(f, "strconv.AppendFloat")
		ok := false
		if len(cs) == 1 {
			a := cs[0].Common().Args
			fmtB, _ := a[2].(*ssa.Const)
			prec, _ := a[3].(*ssa.Const)
			bits, _ := a[4].(*ssa.Const)
			if fmtB != nil && prec != nil && bits != nil && (ci(fmtB) == 'E' || ci(fmtB) == 'e') && ci(prec) == -1 && ci(bits) == 64 && a[1] == ssa.Value(f.Params[1]) {
				ok = true
			}
		}
		reachesParser := w.reachesFn("(*Decimal).setString")[f]
		// every return lies behind the formatting call (no special-cased floats)
		if ok {
			for _, b := range f.Blocks {
				if rt, isRet := b.Instrs[len(b.Instrs)-1].(*ssa.Return); isRet {
					if !seenBefore(rt, func(in ssa.Instruction) bool { return in == ssa.Instruction(cs[0]) }) {
						ok = false
					}
				}
			}
		}
		if ok && reachesParser {
			r.ok(key, w.pos(f.Pos()), "AppendFloat(buf, f, 'E', -1, 64) then the package parser", true)
		} else {
			r.bad(key, w.pos(f.Pos()), "SetFloat64 must format f with AppendFloat(·, f, 'E'|'e', -1, 64) and parse it with the package parser; anything else loses or invents digits")
		}
	} else {
		r.anchorMissing("(*Decimal).SetFloat64")
	}
	if f := w.fn("(*Decimal).Float64"); f != nil {
		key := "(*Decimal).Float64 | nearest float"
		cs := w.callsTo(f, "strconv.ParseFloat")
		ok := false
		if len(cs) == 1 {
			bits, _ := cs[0].Common().Args[1].(*ssa.Const)
			if bits != nil && ci(bits) == 64 && strings.HasPrefix(w.exprOf(f, cs[0].Common().Args[0]).String(), "(*Decimal).String(d") {
				ok = true
			}
		}
		if ok {
			for _, b := range f.Blocks {
				if rt, isRet := b.Instrs[len(b.Instrs)-1].(*ssa.Return); isRet {
					if !seenBefore(rt, func(in ssa.Instruction) bool { return in == ssa.Instruction(cs[0]) }) {
						ok = false
					}
				}
			}
		}
		if ok {
			r.ok(key, w.pos(f.Pos()), "ParseFloat(d.String(), 64)", true)
		} else {
			r.bad(key, w.pos(f.Pos()), "Float64 must be strconv.ParseFloat(d.String(), 64)")
		}
	} else {
		r.anchorMissing("(*Decimal).Float64")
	}
}

func ruleOneFormatter(w *World, r *RuleResult) {
	reach := w.reachesFn("(*Decimal).Append")
	for _, name := range []string{"(*Decimal).String", "(*Decimal).Text", "(*Decimal).MarshalText", "(Decimal).Value", "(*Decimal).Format"} {
		f := w.fn(name)
		if f == nil {
			r.anchorMissing(name)
			continue
		}
		if reach[f] {
			r.ok(name+" | formats through Append", w.pos(f.Pos()), "reaches (*Decimal).Append", true)
		} else {
			r.bad(name+" | formats through Append", w.pos(f.Pos()), "no longer produces its text through (*Decimal).Append")
		}
	}
	if f := w.fn("(*Decimal).Format"); f != nil {
		key := "(*Decimal).Format | verb mapping"
		// the byte passed to Append is a φ over the verb and the constants 'f' (for F) and 'G' (for v, s)
		var bad []string
		// the mapping may live in a helper that returns the Text format of a verb: on every path of the helper
		// that decided `verb == K` the first result is the constant
		helperMaps := func(verb, to int64) bool {
			for _, g := range w.closureFuncs(f) {
				if g == f || g.Signature.Results().Len() == 0 {
					continue
				}
				paths, ok := enumPaths(g, 512)
				if !ok {
					continue
				}
				n, good := 0, true
				for _, p := range paths {
					hit := false
					for _, d := range p.Decisions {
						bo, isB := d.Cond.(*ssa.BinOp)
						if !isB || bo.Op != token.EQL || !d.Val {
							continue
						}
						if _, isP := stripWidening(bo.X).(*ssa.Parameter); !isP {
							continue
						}
						if kk, isK := bo.Y.(*ssa.Const); isK && kk.Value != nil && ci(kk) == verb {
							hit = true
						}
					}
					if !hit {
						continue
					}
					n++
					if k, isK := phiOnPath(p.Ret.Results[0], p).(*ssa.Const); !isK || k.Value == nil || ci(k) != to {
						good = false
					}
				}
				if n > 0 && good {
					return true
				}
			}
			return false
		}
		viaHelper := helperMaps('F', 'f') && helperMaps('v', 'G') && helperMaps('s', 'G')
		for _, c := range w.callsTo(f, "(*Decimal).Append") {
			e := w.exprOf(f, c.Common().Args[2])
			s := e.String()
			if !viaHelper && (!strings.Contains(s, "102") || !strings.Contains(s, "71")) {
				bad = append(bad, "Append format byte is "+s)
			}
		}
		// F→f, v/s→G: check the guards of the constant edges
		type want struct{ verb, to int64 }
		for _, wv := range []want{{'F', 'f'}, {'v', 'G'}, {'s', 'G'}} {
			ok := false
			for _, b := range f.Blocks {
				for _, in := range b.Instrs {
					phi, isPhi := in.(*ssa.Phi)
					if !isPhi {
						continue
					}
					for i, e := range phi.Edges {
						k, isK := e.(*ssa.Const)
						if !isK || k.Value == nil || ci(k) != wv.to {
							continue
						}
						gs := edgeGuards(b.Preds[i], b)
						for _, pp := range b.Preds[i].Preds {
							if eg := edgeGuards(pp, b.Preds[i]); len(eg) > 0 {
								gs = append(gs, eg[len(eg)-1])
							}
						}
						for _, g := range gs {
							if bo, ok2 := g.Cond.(*ssa.BinOp); ok2 && bo.Op == token.EQL && g.Val {
								if kk, ok3 := bo.Y.(*ssa.Const); ok3 && ci(kk) == wv.verb {
									ok = true
								}
							}
						}
					}
				}
			}
			if !ok && !helperMaps(wv.verb, wv.to) {
				bad = append(bad, fmt.Sprintf("verb %q is not mapped to %q", rune(wv.verb), rune(wv.to)))
			}
		}
		if len(bad) == 0 {
			r.ok(key, w.pos(f.Pos()), "F→'f'; v,s→'G'; e,E,f,g,G unchanged", true)
		} else {
			r.bad(key, w.pos(f.Pos()), strings.Join(bad, "; "))
		}
	}
}

// callsASCIILower: pf calls a function of the package that maps 'A'..'Z' to lower case byte-wise
// (recognised by its comparisons with 'A' and 'Z' and the addition of 'a'-'A').
func (w *World) callsASCIILower(pf *ssa.Function) bool {
	for _, c := range callsIn(pf) {
		g := callee(c)
		if g == nil || !w.inPkg(g) || w.asciiLowerFn(g) == false {
			continue
		}
		return true
	}
	return false
}

func (w *World) asciiLowerFn(g *ssa.Function) bool {
	cmpA, cmpZ, add := false, false, false
	// the range test may live in a predicate helper of the function
	var fns []*ssa.Function
	fns = append(fns, g)
	for _, c := range callsIn(g) {
		if h := callee(c); h != nil && w.inPkg(h) && h != g && h.Object() != nil && !h.Object().Exported() && len(h.Blocks) > 0 && len(h.Blocks) < 12 {
			fns = append(fns, h)
		}
	}
	for _, fn := range fns {
		for _, b := range fn.Blocks {
			for _, in := range b.Instrs {
				bo, ok := in.(*ssa.BinOp)
				if !ok {
					continue
				}
				for _, o := range []ssa.Value{bo.X, bo.Y} {
					k, isK := o.(*ssa.Const)
					if !isK || k.Value == nil || k.Value.Kind() != constant.Int {
						continue
					}
					switch {
					case ci(k) == 'A' && (bo.Op == token.LEQ || bo.Op == token.GEQ || bo.Op == token.LSS || bo.Op == token.GTR):
						cmpA = true
					case ci(k) == 'Z' && (bo.Op == token.LEQ || bo.Op == token.GEQ || bo.Op == token.LSS || bo.Op == token.GTR):
						cmpZ = true
					case ci(k) == 32 && (bo.Op == token.ADD || bo.Op == token.OR):
						add = true
					}
				}
			}
		}
	}
	return cmpA && cmpZ && add
}

// globalArrayInts: the contents of a package-level array of integers that initialisation fills with
// constants (a composite literal) and nothing else ever stores to.
func (w *World) globalArrayInts(g *ssa.Global) (map[int64]int64, bool) {
	pt, ok := g.Type().Underlying().(*types.Pointer)
	if !ok {
		return nil, false
	}
	arr, ok := pt.Elem().Underlying().(*types.Array)
	if !ok {
		return nil, false
	}
	out := map[int64]int64{}
	for i := int64(0); i < arr.Len(); i++ {
		out[i] = 0
	}
	found := false
	for _, n := range w.Names {
		f := w.Funcs[n]
		for _, st := range storesIn(f) {
			var idxBase ssa.Value
			switch a := st.Addr.(type) {
			case *ssa.Global:
				if a != g {
					continue
				}
				if !strings.HasPrefix(n, "init") {
					return nil, false
				}
				ld, isLd := st.Val.(*ssa.UnOp)
				if !isLd || ld.Op != token.MUL {
					return nil, false
				}
				al, isAl := ld.X.(*ssa.Alloc)
				if !isAl {
					return nil, false
				}
				for _, st2 := range storesIn(f) {
					ia, isIA := st2.Addr.(*ssa.IndexAddr)
					if !isIA || ia.X != ssa.Value(al) {
						continue
					}
					ki, okI := ia.Index.(*ssa.Const)
					kv, okV := st2.Val.(*ssa.Const)
					if !okI || !okV || kv.Value == nil {
						return nil, false
					}
					out[ci(ki)] = ci(kv)
				}
				found = true
				continue
			case *ssa.IndexAddr:
				idxBase = a.X
				if idxBase != ssa.Value(g) {
					continue
				}
				ki, okI := a.Index.(*ssa.Const)
				kv, okV := st.Val.(*ssa.Const)
				if !strings.HasPrefix(n, "init") || !okI || !okV || kv.Value == nil {
					return nil, false
				}
				out[ci(ki)] = ci(kv)
				found = true
			}
		}
	}
	return out, found
}

// shortCircuitDisjuncts: for a boolean φ with constant edges (the value form of `a || b` / `a && b`), the
// conditions tested at the end of the blocks those edges come from.
func shortCircuitDisjuncts(v ssa.Value) []ssa.Value {
	phi, ok := v.(*ssa.Phi)
	if !ok {
		return nil
	}
	var out []ssa.Value
	for i, e := range phi.Edges {
		if _, isK := e.(*ssa.Const); !isK {
			continue
		}
		pb := phi.Block().Preds[i]
		for hop := 0; hop < 3 && pb != nil; hop++ {
			if iff, isIf := pb.Instrs[len(pb.Instrs)-1].(*ssa.If); isIf {
				out = append(out, iff.Cond)
				out = append(out, shortCircuitDisjuncts(iff.Cond)...)
				break
			}
			if len(pb.Preds) != 1 {
				break
			}
			pb = pb.Preds[0]
		}
	}
	return out
}
