package main

import (
	"fmt"
	"go/token"
	"go/types"
	"strings"

	"golang.org/x/tools/go/ssa"
)

func init() {
	register(&Rule{ID: "C05.R4", Min: 9,
		Text: "scratch discipline: a pointer returned by a helper that may alias its scratch argument (tableExp10, exp10, upscale) is never read after the scratch object has been overwritten, and the scratch object's previous content is never read after the helper call (a live value must not be lent as scratch)",
		Run:  ruleScratchDiscipline})
	register(&Rule{ID: "C06.R7", Min: 1,
		Text: "no shallow copy of a value that owns a heap big.Int: a struct containing a BigInt is never copied by plain assignment from another live object (the copy would share the *big.Int with it); the only allowed site is BigInt.Set under its isInline guard",
		Run:  ruleNoShallowCopy})
}

// scratchHelpers returns, for in-package functions, result index -> scratch
// parameter index when the result may alias a parameter the function writes.
func (w *World) scratchParams(g *ssa.Function) map[int]int {
	out := map[int]int{}
	s := w.summary(g)
	for k, locs := range s.Returns {
		for _, l := range locs {
			if l.Root.Kind == RParam && l.Field == "" && len(s.Writes[l.Root.Param]) > 0 && isBigIntPtr(g.Params[l.Root.Param].Type()) {
				if g.Signature.Recv() != nil {
					continue // methods return their own receiver / out-parameters: outputs, not lent scratch
				}
				out[k] = l.Root.Param
			}
		}
	}
	return out
}

func ruleScratchDiscipline(w *World, r *RuleResult) {
	for _, name := range w.Names {
		f := w.Funcs[name]
		for _, c := range callsIn(f) {
			call, ok := c.(*ssa.Call)
			if !ok {
				continue
			}
			g := callee(call)
			if g == nil || !w.inPkg(g) {
				continue
			}
			sp := w.scratchParams(g)
			if len(sp) == 0 {
				continue
			}
			// all results aliasing one scratch param are handled together
			byScratch := map[int][]int{}
			for k, j := range sp {
				byScratch[j] = append(byScratch[j], k)
			}
			for j, ks := range byScratch {
				if j >= len(call.Common().Args) {
					continue
				}
				scratch := basePtr(call.Common().Args[j])
				key := fmt.Sprintf("%s | scratch of %s", name, w.shortName(g))
				if n := countKey(r, key); n > 0 {
					key = fmt.Sprintf("%s #%d", key, n+1)
				}
				// the values T that may alias the scratch
				isT := func(v ssa.Value) bool {
					v = basePtrNoView(v)
					if v == ssa.Value(call) && g.Signature.Results().Len() == 1 {
						return true
					}
					if ex, ok := v.(*ssa.Extract); ok && ex.Tuple == ssa.Value(call) {
						for _, k := range ks {
							if ex.Index == k {
								return true
							}
						}
					}
					return false
				}
				var derivesT func(v ssa.Value, depth int) bool
				derivesT = func(v ssa.Value, depth int) bool {
					if isT(v) {
						return true
					}
					if depth > 6 {
						return false
					}
					if phi, ok := v.(*ssa.Phi); ok {
						for _, e := range phi.Edges {
							if derivesT(e, depth+1) {
								return true
							}
						}
					}
					return false
				}
				problems := w.scratchFlow(f, call, scratch, derivesT)
				if len(problems) == 0 {
					r.ok(key, w.instrPos(call), "the returned pointer is not read after the scratch is overwritten, and the scratch's old content is not read after the call", true)
				} else {
					r.bad(key, w.instrPos(call), strings.Join(uniqStrings(problems), "; "))
				}
			}
		}
	}
}

// basePtrNoView strips address arithmetic but not the inner-view helpers.
func basePtrNoView(v ssa.Value) ssa.Value {
	for {
		switch a := v.(type) {
		case *ssa.FieldAddr:
			v = a.X
			continue
		case *ssa.IndexAddr:
			v = a.X
			continue
		case *ssa.ChangeType:
			v = a.X
			continue
		}
		return v
	}
}

func (w *World) scratchFlow(f *ssa.Function, call *ssa.Call, scratch ssa.Value, derivesT func(ssa.Value, int) bool) []string {
	const (
		sValid = 1 // after the call: result valid, scratch clobbered
		sStale = 2 // scratch overwritten again: result stale
	)
	n := len(f.Blocks)
	in := make([]int, n)
	var problems []string
	type argUse struct {
		read, write bool
	}
	classify := func(c ssa.CallInstruction, i int) argUse {
		g := callee(c)
		if g != nil && w.inPkg(g) {
			s := w.summary(g)
			if i >= len(s.Reads) {
				return argUse{}
			}
			rd := false
			for fld, v := range s.Reads[i] {
				if v && !s.StorageOnly[i][fld] {
					rd = true
				}
			}
			if w.storageParam(g, i) || (i < len(g.Params) && w.roles(g)[i] == RoleDest) {
				rd = false // destinations / scratch parameters are overwritten, not read for their value
			}
			return argUse{read: rd, write: len(s.Writes[i]) > 0}
		}
		cn := w.calleeName(c)
		if strings.HasPrefix(cn, "(*math/big.Int).") {
			m := strings.TrimPrefix(cn, "(*math/big.Int).")
			wr := i == 0 && !bigReadOnly[m]
			for _, k := range bigExtraOut[m] {
				if k == i {
					wr = true
				}
			}
			return argUse{read: !wr, write: wr}
		}
		return argUse{read: true}
	}
	step := func(b *ssa.BasicBlock, st int, record bool) int {
		for _, x := range b.Instrs {
			if x == ssa.Instruction(call) {
				st = sValid
				continue
			}
			if st == 0 {
				continue
			}
			switch y := x.(type) {
			case ssa.CallInstruction:
				args := y.Common().Args
				writesScratch := false
				for i, a := range args {
					if !pointerLike(a.Type()) {
						continue
					}
					u := classify(y, i)
					if derivesT(a, 0) {
						if u.read && st&sStale != 0 && record {
							problems = append(problems, fmt.Sprintf("the pointer returned by %s is read at %s after its scratch %s was overwritten: it no longer holds the helper's result", w.calleeName(call), w.instrPos(x), w.exprOf(f, scratch).String()))
						}
						continue
					}
					if basePtr(a) == scratch {
						if u.read && st&sValid != 0 && record {
							problems = append(problems, fmt.Sprintf("%s is read at %s after being lent as scratch to %s, which may have overwritten it", w.exprOf(f, scratch).String(), w.instrPos(x), w.calleeName(call)))
						}
						if u.write {
							writesScratch = true
						}
					}
				}
				if writesScratch {
					st = sStale
				}
			case *ssa.UnOp:
				if y.Op == token.MUL && basePtr(y.X) == scratch && !derivesT(y.X, 0) && st&sValid != 0 && record {
					problems = append(problems, fmt.Sprintf("%s is read at %s after being lent as scratch", w.exprOf(f, scratch).String(), w.instrPos(x)))
				}
			case *ssa.Store:
				if basePtr(y.Addr) == scratch && !derivesT(y.Addr, 0) {
					st = sStale
				}
			}
		}
		return st
	}
	in[call.Block().Index] = 0
	reached := map[int]bool{call.Block().Index: true}
	// the call's own block: state before the call is 0; propagate from there
	work := []int{call.Block().Index}
	outs := map[int]int{}
	for len(work) > 0 {
		bi := work[0]
		work = work[1:]
		b := f.Blocks[bi]
		o := step(b, in[bi], false)
		if o == outs[bi] && bi != call.Block().Index {
			continue
		}
		outs[bi] = o
		for _, s := range b.Succs {
			ns := in[s.Index] | o
			if !reached[s.Index] || ns != in[s.Index] {
				reached[s.Index] = true
				in[s.Index] = ns
				work = append(work, s.Index)
			}
		}
		if len(work) > 10000 {
			break
		}
	}
	for bi := range reached {
		step(f.Blocks[bi], in[bi], true)
	}
	return problems
}

// ---- C06.R7 ----------------------------------------------------------------

func typeOwnsBigInt(t types.Type, depth int) bool {
	if depth > 4 {
		return false
	}
	if typeIs(t, apdPath, "BigInt") && !isPointer(t) {
		return true
	}
	switch u := t.Underlying().(type) {
	case *types.Struct:
		for i := 0; i < u.NumFields(); i++ {
			ft := u.Field(i).Type()
			if typeIs(ft, "math/big", "Int") && isPointer(ft) {
				return true
			}
			if _, isPtr := ft.Underlying().(*types.Pointer); isPtr {
				continue
			}
			if typeOwnsBigInt(ft, depth+1) {
				return true
			}
		}
	case *types.Array:
		return typeOwnsBigInt(u.Elem(), depth+1)
	}
	return false
}

func ruleNoShallowCopy(w *World, r *RuleResult) {
	n := 0
	for _, name := range w.Names {
		f := w.Funcs[name]
		p := w.newProv(f, nil)
		for _, st := range storesIn(f) {
			if !typeOwnsBigInt(st.Val.Type(), 0) {
				continue
			}
			var loads []*ssa.UnOp
			var collect func(v ssa.Value, d int)
			collect = func(v ssa.Value, d int) {
				if d > 4 {
					return
				}
				switch x := v.(type) {
				case *ssa.UnOp:
					if x.Op == token.MUL {
						loads = append(loads, x)
					}
				case *ssa.Phi:
					for _, e := range x.Edges {
						collect(e, d+1)
					}
				}
			}
			collect(st.Val, 0)
			for _, ld := range loads {
				// copying from a function-local temporary that is dead afterwards is harmless; copying
				// from a parameter / shared object / any object that stays live is not
				srcLive := false
				for _, l := range p.roots(ld.X) {
					switch l.Root.Kind {
					case RParam, RGlobal, RGlobalObj, RDeref, RUnknown, RExtern:
						srcLive = true
					}
				}
				if !srcLive {
					continue
				}
				n++
				key := fmt.Sprintf("%s | struct copy of %s", name, types.TypeString(st.Val.Type(), func(*types.Package) string { return "" }))
				if k := countKey(r, key); k > 0 {
					key = fmt.Sprintf("%s #%d", key, k+1)
				}
				if typeIs(st.Val.Type(), apdPath, "BigInt") && !isPointer(st.Val.Type()) {
				// a BigInt copied whole where its source is known to be inline (isInline() holds of the very
				// pointer loaded from): the value lives in the words, no heap big.Int is shared
				inlineGuard := false
				for _, g := range guardsAt(st.Block()) {
					cond, val := g.Cond, g.Val
					for {
						u, ok := cond.(*ssa.UnOp)
						if !ok || u.Op != token.NOT {
							break
						}
						cond, val = u.X, !val
					}
					if c, ok := cond.(*ssa.Call); ok && val && w.calleeName(c) == "(*BigInt).isInline" && c.Common().Args[0] == ld.X {
						inlineGuard = true
					}
				}
				if inlineGuard {
					r.ok(key, w.instrPos(st), "under isInline() of the source: the value lives in the inline array, no heap big.Int is shared", true)
					continue
				}
			}
			r.bad(key, w.instrPos(st), "a value owning a heap *big.Int is copied by plain struct assignment from "+w.exprOf(f, ld.X).String()+": for coefficients above 128 bits source and copy share one big.Int, so writing one modifies the other (operand mutation / data race)")
			}
		}
	}
	if n == 0 {
		r.bad("package | struct copies", "", "expected at least the guarded copy in (*BigInt).Set")
	}
}
