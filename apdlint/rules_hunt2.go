package main

import (
	"fmt"
	"go/token"
	"strings"

	"golang.org/x/tools/go/ssa"
)

// Rules added after the second batch of hunter findings (H7, H9).

func init() {
	register(&Rule{ID: "C16.R6", Min: 3,
		Text: "zero is never negative outside the inline array either: math/big leaves the neg flag on a zero magnitude after GobDecode, in the cofactors of GCD, and in any such value copied by Set from a caller's *big.Int; updateInner clears it only for inline values (it returns early when the receiver already owns the big.Int). Each view written by one of these calls passes a zero-sign normaliser before it is written back — or updateInner's early-return branch normalises itself",
		Run:  ruleHeapNegZero})
	register(&Rule{ID: "C11.R4", Min: 1,
		Text: "Cbrt's computation does not depend on the operand's exponent: before the range-reduction loops the working operand's Exponent is rewritten from its digit count (|x| = ax·10^(3k) with ax in [1,1000)), and every result-delivering exit adds that scale back to the exponent it delivers — otherwise cubes of candidates leave the package range near the limits (Cbrt(8E-99999) was an error) and the reduction by 8 runs tens of thousands of times",
		Run:  ruleCbrtScaled})
}

// instrDominates: a is executed before b on every path to b.
func instrDominates(a, b ssa.Instruction) bool {
	if a.Block() == b.Block() {
		return instrIndex(a) < instrIndex(b)
	}
	return a.Block().Dominates(b.Block())
}

var negZeroSources = map[string]string{
	"(*math/big.Int).GobDecode": "a sign byte with no magnitude decodes to neg=true, abs=nil",
	"(*math/big.Int).GCD":       "lehmerGCD negates the cofactor of a negative operand also when it is zero",
	"(*math/big.Int).Set":       "copies the neg flag of a caller-supplied *big.Int, which may be such a value",
}

func (w *World) isZeroSignNormaliser(g *ssa.Function) bool {
	if g == nil || !w.inPkg(g) || len(g.Params) == 0 {
		return false
	}
	p := g.Params[0]
	if !strings.HasSuffix(p.Type().String(), "math/big.Int") {
		return false
	}
	tests, clears := false, false
	for _, c := range callsIn(g) {
		n := w.calleeName(c)
		args := c.Common().Args
		if len(args) == 0 || args[0] != ssa.Value(p) {
			continue
		}
		switch n {
		case "(*math/big.Int).Sign", "(*math/big.Int).Bits", "(*math/big.Int).BitLen":
			tests = true
		case "(*math/big.Int).SetUint64", "(*math/big.Int).SetInt64":
			if k, ok := args[1].(*ssa.Const); ok && ci(k) == 0 {
				clears = true
			}
		case "(*math/big.Int).Abs", "(*math/big.Int).SetBits":
			clears = true
		}
	}
	return tests && clears
}

func ruleHeapNegZero(w *World, r *RuleResult) {
	upd := w.fn("(*BigInt).updateInner")
	if upd == nil {
		r.anchorMissing("(*BigInt).updateInner")
		return
	}
	// does updateInner normalise in its early-return branch?
	selfNorm := false
	for _, b := range upd.Blocks {
		early := false
		for _, g := range guardsAt(b) {
			if bo, ok := g.Cond.(*ssa.BinOp); ok && bo.Op == token.EQL && g.Val {
				s := w.exprOf(upd, g.Cond).String()
				if strings.Contains(s, "_inner") && strings.Contains(s, "src") {
					early = true
				}
			}
		}
		if !early {
			continue
		}
		for _, in := range b.Instrs {
			switch y := in.(type) {
			case *ssa.Call:
				if w.isZeroSignNormaliser(callee(y)) {
					selfNorm = true
				}
			case *ssa.Store:
				if k, ok := y.Val.(*ssa.Const); ok && k.Value != nil && k.Value.String() == "false" {
					selfNorm = true
				}
			}
		}
	}
	n := 0
	for _, name := range w.Names {
		f := w.Funcs[name]
		if !strings.HasPrefix(name, "(*BigInt).") {
			continue
		}
		for _, c := range callsIn(f) {
			call, ok := c.(*ssa.Call)
			if !ok {
				continue
			}
			cn := w.calleeName(call)
			reason, hit := negZeroSources[cn]
			if !hit {
				continue
			}
			args := call.Common().Args
			var views []ssa.Value
			switch cn {
			case "(*math/big.Int).GobDecode":
				views = []ssa.Value{args[0]}
			case "(*math/big.Int).GCD":
				views = []ssa.Value{args[1], args[2]}
			case "(*math/big.Int).Set":
				// only a value that comes from outside: the wrapper's own *big.Int parameter
				if p, isP := args[1].(*ssa.Parameter); isP && strings.HasSuffix(p.Type().String(), "math/big.Int") {
					views = []ssa.Value{args[0]}
				}
			}
			for vi, v := range views {
				if k, isK := v.(*ssa.Const); isK && k.Value == nil {
					continue
				}
				n++
				key := fmt.Sprintf("%s | view #%d written by %s is unsigned when zero", name, vi+1, cn)
				if selfNorm {
					r.ok(key, w.instrPos(call), "updateInner clears the sign of a zero magnitude in its early-return branch", true)
					continue
				}
				var ups []*ssa.Call
				for _, u := range w.callsTo(f, "(*BigInt).updateInner") {
					if len(u.Common().Args) > 1 && u.Common().Args[1] == v && (instrDominates(call, u) || reaches(call.Block(), u.Block())) {
						ups = append(ups, u)
					}
				}
				if len(ups) == 0 {
					r.ok(key, w.instrPos(call), "this view is not written back", false)
					continue
				}
				var bad []string
				for _, u := range ups {
					okN := false
					for _, x := range callsIn(f) {
						nc, isC := x.(*ssa.Call)
						if !isC || !w.isZeroSignNormaliser(callee(nc)) || len(nc.Common().Args) == 0 || nc.Common().Args[0] != v {
							continue
						}
						if instrDominates(call, nc) && instrDominates(nc, u) {
							okN = true
						}
					}
					if !okN {
						bad = append(bad, w.instrPos(u))
					}
				}
				if len(bad) == 0 {
					r.ok(key, w.instrPos(call), "a zero-sign normaliser runs on the view between the math/big call and every write-back", true)
				} else {
					r.bad(key, w.instrPos(call), fmt.Sprintf("%s (%s), and the view is written back at %s without its sign being cleared: updateInner drops the sign only for an inline value, so a receiver that has outgrown its inline array keeps a negative zero (Cmp with 0 is -1, IsUint64 false, %%d prints -0) where a fresh receiver gets 0", cn, reason, strings.Join(bad, ", ")))
				}
			}
		}
	}
	if n < 3 {
		r.anchorMissing(fmt.Sprintf("BigInt wrappers of GobDecode / GCD / Set(*big.Int) (found %d views)", n))
	}
}

func ruleCbrtScaled(w *World, r *RuleResult) {
	f := w.fn("(*Context).Cbrt")
	if f == nil {
		r.anchorMissing("(*Context).Cbrt")
		return
	}
	digitsIn := func(g *ssa.Function, v ssa.Value) bool {
		for l := range w.exprOf(g, v).leaves() {
			if l == "call:(*Decimal).NumDigits" || l == "call:(*BigInt).NumDigits" || l == "call:NumDigits" {
				return true
			}
		}
		return false
	}
	// a scaling helper: an unexported function that rewrites the Exponent of one of its *Decimal parameters
	// from a digit count and returns a value derived from that count (the scale)
	scaleHelper := func(h *ssa.Function) (int, bool) {
		if h == nil || !w.inPkg(h) || h.Object() == nil || h.Object().Exported() || len(h.Blocks) == 0 {
			return 0, false
		}
		pi := -1
		for _, st := range storesIn(h) {
			fa, ok := st.Addr.(*ssa.FieldAddr)
			if !ok || w.exprOf(h, st.Addr).Name != "Exponent" || !digitsIn(h, st.Val) {
				continue
			}
			for i, q := range h.Params {
				if basePtr(fa.X) == ssa.Value(q) {
					pi = i
				}
			}
		}
		if pi < 0 {
			return 0, false
		}
		for _, b := range h.Blocks {
			if rt, ok := b.Instrs[len(b.Instrs)-1].(*ssa.Return); ok {
				if len(rt.Results) != 1 || !digitsIn(h, rt.Results[0]) {
					return 0, false
				}
			}
		}
		return pi, true
	}
	fromDigits := func(v ssa.Value) bool {
		if digitsIn(f, v) {
			return true
		}
		found := false
		w.exprOf(f, v).walk(func(e *Expr) bool {
			if c, ok := e.V.(*ssa.Call); ok {
				if _, isScale := scaleHelper(callee(c)); isScale {
					found = true
				}
			}
			return true
		})
		return found
	}
	// first loop header
	var firstLoop *ssa.BasicBlock
	for _, b := range f.Blocks {
		for _, s := range b.Succs {
			if s.Dominates(b) && (firstLoop == nil || s.Index < firstLoop.Index) {
				firstLoop = s
			}
		}
	}
	if firstLoop == nil {
		r.ok("(*Context).Cbrt | exponent normalised before the range reduction", w.pos(f.Pos()), "Cbrt has no loop: not decided for this shape", false)
		return
	}
	// (1) a store to a local Decimal's Exponent, derived from a digit count, dominating the first loop
	var scaleStores []*ssa.Store
	for _, st := range storesIn(f) {
		fa, ok := st.Addr.(*ssa.FieldAddr)
		if !ok || w.exprOf(f, st.Addr).Name != "Exponent" {
			continue
		}
		if _, isAlloc := basePtr(fa.X).(*ssa.Alloc); !isAlloc {
			continue
		}
		if fromDigits(st.Val) && (st.Block() == firstLoop || st.Block().Dominates(firstLoop)) {
			scaleStores = append(scaleStores, st)
		}
	}
	key := "(*Context).Cbrt | exponent normalised before the range reduction"
	// … or a call of a scaling helper on a local Decimal
	var scaleCall *ssa.Call
	for _, c := range callsIn(f) {
		call, ok := c.(*ssa.Call)
		if !ok {
			continue
		}
		if pi, isScale := scaleHelper(callee(call)); isScale && pi < len(call.Common().Args) {
			if _, isAlloc := basePtr(call.Common().Args[pi]).(*ssa.Alloc); isAlloc && (call.Block() == firstLoop || call.Block().Dominates(firstLoop)) {
				scaleCall = call
			}
		}
	}
	if len(scaleStores) == 0 && scaleCall != nil {
		r.ok(key, w.instrPos(scaleCall), "the working operand's Exponent is rewritten from its adjusted exponent by "+w.calleeName(scaleCall)+" before the first loop", true)
	} else if len(scaleStores) == 0 {
		r.bad(key, w.pos(f.Pos()), "no store of the working operand's Exponent derived from its digit count dominates the range-reduction loops: Cbrt iterates and cubes candidates at the operand's own exponent, so operands near the exponent limits fail with 'exponent out of range' (Cbrt(8E-99999)) and the reduction by 8 runs once per three binary orders of magnitude")
		return
	} else {
		r.ok(key, w.instrPos(scaleStores[0]), "the working operand's Exponent is rewritten from its adjusted exponent before the first loop", true)
	}
	// (2) every result-delivering return is dominated by an Exponent store derived from the digit count, after the loops
	n := 0
	for _, b := range f.Blocks {
		rt, ok := b.Instrs[len(b.Instrs)-1].(*ssa.Return)
		if !ok || w.isErrorReturn(rt) {
			continue
		}
		// only returns after the iteration (the specials prologue returns before it)
		if !reaches(firstLoop, b) {
			continue
		}
		n++
		key := fmt.Sprintf("(*Context).Cbrt | exit #%d applies the scale", n)
		okScale := false
		for _, st := range storesIn(f) {
			if w.exprOf(f, st.Addr).Name != "Exponent" || !fromDigits(st.Val) {
				continue
			}
			if reaches(firstLoop, st.Block()) && !(st.Block() == firstLoop || st.Block().Dominates(firstLoop)) && instrDominates(st, rt) {
				okScale = true
			}
		}
		if okScale {
			r.ok(key, w.instrPos(rt), "an Exponent store carrying the scale dominates this return", true)
		} else {
			r.bad(key, w.instrPos(rt), "this exit delivers the root of the scaled operand without adding the scale 10^k back to its exponent")
		}
	}
	if n == 0 {
		r.anchorMissing("(*Context).Cbrt result-delivering returns after the iteration")
	}
}

func init() {
	register(&Rule{ID: "C16.R7", Min: 4,
		Text: "results that may be stored in one object are one object to math/big: for the math/big methods with several written arguments (QuoRem: z, r; DivMod: z, m; GCD: z, x, y) the views passed for two parameters are the same *big.Int whenever the two BigInts are the same object — two headers over the same inline words clobber each other and the survivor depends on the write-back order, not on math/big's assignment order; where math/big reads an operand again after writing a result (DivMod's divisor y after m) and the two are one object, the operand is passed as a private copy",
		Run:  ruleOutputViewsShared})
}

// multiWritten: math/big methods and the argument positions (0 = receiver) that must share a view when
// the corresponding BigInts are the same object.
var multiWritten = map[string][][2]int{
	"QuoRem": {{0, 3}},
	"DivMod": {{0, 3}, {2, 3}, {0, 2}},
	"GCD":    {{0, 1}, {0, 2}, {1, 2}, {2, 4}},
}

// privateCopy: pairs (operand, result) of a math/big method that reads the operand again after it has written
// the result and does not protect itself: when the two BigInts are one object the operand's view must be a
// private copy (math/big's DivMod copies y only when y is its receiver).
var privateCopy = map[string][2]int{
	"DivMod": {2, 3},
}

func ruleOutputViewsShared(w *World, r *RuleResult) {
	n := 0
	for _, name := range w.Names {
		f := w.Funcs[name]
		if !strings.HasPrefix(name, "(*BigInt).") {
			continue
		}
		for _, c := range callsIn(f) {
			call, ok := c.(*ssa.Call)
			if !ok {
				continue
			}
			cn := w.calleeName(call)
			if !strings.HasPrefix(cn, "(*math/big.Int).") {
				continue
			}
			pairs, hit := multiWritten[strings.TrimPrefix(cn, "(*math/big.Int).")]
			if !hit || strings.TrimPrefix(cn, "(*math/big.Int).") != w.wrapperMethod(f) {
				continue
			}
			args := call.Common().Args
			if len(args) != len(f.Params) {
				continue // C16.R1 reports this
			}
			for _, pr := range pairs {
				i, j := pr[0], pr[1]
				n++
				key := fmt.Sprintf("%s | %s and %s share one view when they are one object", name, f.Params[i].Name(), f.Params[j].Name())
				canon := func(v ssa.Value) []ssa.Value { return w.viewUnderPair(f, i, j, v) }
				ci, cj := canon(args[i]), canon(args[j])
				same := len(ci) == 1 && len(cj) == 1 && ci[0] == cj[0]
				if pc, isPC := privateCopy[w.wrapperMethod(f)]; isPC && pc == pr {
					key = fmt.Sprintf("%s | %s is divided through a private copy when %s is stored in it", name, f.Params[i].Name(), f.Params[j].Name())
					copied := len(ci) == 1
					if copied {
						switch lv := ci[0].(type) {
						case *ssa.Call:
							// yi = tmp.Set(yi)
							copied = w.calleeName(lv) == "(*math/big.Int).Set"
							if copied {
								_, local := lv.Common().Args[0].(*ssa.Alloc)
								copied = local
							}
						case *ssa.Alloc:
							// tmp.Set(yi); yi = &tmp
							copied = false
							for _, sc := range w.callsTo(f, "(*math/big.Int).Set") {
								if sc.Common().Args[0] == ssa.Value(lv) && (sc.Block() == call.Block() || reaches(sc.Block(), call.Block())) {
									copied = true
								}
							}
						default:
							copied = false
						}
					}
					if copied {
						r.ok(key, w.instrPos(call), "under "+f.Params[i].Name()+" == "+f.Params[j].Name()+" the operand view is a copy made into a local big.Int", true)
					} else {
						r.bad(key, w.instrPos(call), fmt.Sprintf("when the modulus is stored in the divisor (z.DivMod(x, y, y)) big.Int.DivMod is given a view of y that the stored remainder overwrites (the same *big.Int, or a second header over the same words): math/big reads y again after it has written m — it protects y only against its receiver — so for x < 0 it corrects the remainder with the remainder itself: DivMod(-3·2^130, 2^64+5) gives m = 0 and a quotient off by two"))
					}
					continue
				}
				if same {
					r.ok(key, w.instrPos(call), "under "+f.Params[i].Name()+" == "+f.Params[j].Name()+" both positions receive the same *big.Int", true)
				} else {
					r.bad(key, w.instrPos(call), fmt.Sprintf("when %s and %s are the same BigInt, big.Int.%s is still given two different *big.Int headers over the same words: the two results clobber each other, and what the object holds afterwards depends on the order of the write-backs (z.QuoRem(5, 2^64+5, z) gave 0 where math/big, and the uint64 fast path, give 5)", f.Params[i].Name(), f.Params[j].Name(), f.Name()))
				}
			}
		}
	}
	if n == 0 {
		r.anchorMissing("BigInt wrappers of QuoRem / DivMod / GCD")
	}
}

func init() {
	register(&Rule{ID: "C06.R11", Min: 20,
		Text: "a failed operation leaves no interim value: in every exported Context operation, an error return that can be reached after the destination was written (an intermediate result computed in place, possibly in a scratch value when the destination is an operand) is preceded by a whole-value overwrite of the destination with no write after it — otherwise what the destination holds after the error depends on whether it aliases an operand (Pow left x**int(y) in a distinct destination and x in an aliased one)",
		Run:  ruleNoInterimOnError})
}

func ruleNoInterimOnError(w *World, r *RuleResult) {
	n := 0
	for _, name := range w.Names {
		f := w.Funcs[name]
		if !strings.HasPrefix(name, "(*Context).") || f.Object() == nil || !f.Object().Exported() {
			continue
		}
		di := destArgIndex(w, f)
		if di >= len(f.Params) || !isDecimalPtr(f.Params[di].Type()) || w.roles(f)[di] != RoleDest {
			continue
		}
		d := ssa.Value(f.Params[di])
		p := w.newProv(f, nil)
		writesD := func(in ssa.Instruction) bool {
			for _, e := range w.instrEffects(p, in, nil) {
				if e.Write && e.Loc.Root.Kind == RParam && e.Loc.Root.Param == di {
					return true
				}
			}
			return false
		}
		whole := func(in ssa.Instruction) bool {
			c, ok := in.(*ssa.Call)
			if !ok {
				return false
			}
			g := callee(c)
			if g == nil || len(c.Common().Args) == 0 || basePtr(c.Common().Args[0]) != d {
				return false
			}
			return wholeValueWriters[w.shortName(g)] || w.shortName(g) == "(*Context).setAsNaN"
		}
		var writers []ssa.Instruction
		for _, b := range f.Blocks {
			for _, in := range b.Instrs {
				if writesD(in) {
					writers = append(writers, in)
				}
			}
		}
		for _, b := range f.Blocks {
			rt, ok := b.Instrs[len(b.Instrs)-1].(*ssa.Return)
			if !ok || !w.definitelyErrorReturn(rt) {
				continue
			}
			n++
			key := fmt.Sprintf("%s | error return leaves no interim value", name)
			if k := countKey(r, key); k > 0 {
				key = fmt.Sprintf("%s #%d", key, k+1)
			}
			// backwards from the return: the last write on each path must be a whole-value write
			var bad ssa.Instruction
			// the error returned comes from these calls: a destination last written by the failing call
			// itself holds that call's own (failed or trapped) output, not an interim value of this function
			errFrom := map[ssa.Value]bool{}
			for _, v := range rt.Results {
				if isErrorType(v.Type()) {
					w.exprOf(f, v).walk(func(e *Expr) bool {
						if ex, ok := e.V.(*ssa.Extract); ok {
							errFrom[ex.Tuple] = true
						}
						return true
					})
				}
			}
			seen := map[string]bool{}
			var back func(bb *ssa.BasicBlock, from int, notSet map[ssa.Value]bool)
			back = func(bb *ssa.BasicBlock, from int, notSet map[ssa.Value]bool) {
				if bad != nil {
					return
				}
				for i := from; i >= 0; i-- {
					in := bb.Instrs[i]
					if whole(in) {
						return
					}
					if writesD(in) {
						if c, isCall := in.(*ssa.Call); isCall {
							if notSet[c] && w.writesOnlyWhenTrue(callee(c), f, c, di) {
								continue // a (set, …) helper whose `set` result was false on this path: it wrote nothing
							}
							// (only when the call wrote the destination itself, not "the destination or a scratch
							// value" chosen by an aliasing test: then what the destination holds differs)
							direct := false
							for _, a := range c.Common().Args {
								if a == d {
									direct = true
								}
							}
							if errFrom[c] && direct {
								return
							}
							// … or the return sits on the error edge of that very call
							own := false
							for blk, idx := range errTestEdges(f, c) {
								if succ := blk.Succs[idx]; succ == rt.Block() || succ.Dominates(rt.Block()) {
									own = true
								}
							}
							if own && direct {
								return
							}
						}
						bad = in
						return
					}
				}
				for pi, pb := range bb.Preds {
					_ = pi
					ns := notSet
					// entering bb from pb through the false edge of `if set` where set is result #0 of a call
					if iff, isIf := pb.Instrs[len(pb.Instrs)-1].(*ssa.If); isIf && len(pb.Succs) == 2 && pb.Succs[1] == bb && pb.Succs[0] != bb {
						if ex, isEx := iff.Cond.(*ssa.Extract); isEx && ex.Index == 0 {
							ns = map[ssa.Value]bool{}
							for k := range notSet {
								ns[k] = true
							}
							ns[ex.Tuple] = true
						}
					}
					key := fmt.Sprintf("%d/%d", pb.Index, len(ns))
					if !seen[key] {
						seen[key] = true
						back(pb, len(pb.Instrs)-1, ns)
					}
				}
			}
			back(b, len(b.Instrs)-2, map[ssa.Value]bool{})
			if bad == nil {
				r.ok(key, w.instrPos(rt), "on every path the destination is untouched, or its last write before this return is a whole-value overwrite", len(writers) > 0)
			} else {
				r.bad(key, w.instrPos(rt), fmt.Sprintf("this error return can be reached with the destination last written at %s by an intermediate step: it keeps an interim value, and a different one when the destination is also an operand (the step then works in a scratch value)", w.instrPos(bad)))
			}
		}
	}
	if n == 0 {
		r.anchorMissing("error returns of exported Context operations")
	}
}

// definitelyErrorReturn: the return's error result is definitely non-nil (not merely possibly).
func (w *World) definitelyErrorReturn(rt *ssa.Return) bool {
	for _, v := range rt.Results {
		if isErrorType(v.Type()) && w.definitelyNonNil(v, rt.Block()) {
			return true
		}
	}
	return false
}

// writesOnlyWhenTrue: g returns a bool first and writes the destination it is handed only on the
// executions on which that bool is true (the *Specials helpers).
func (w *World) writesOnlyWhenTrue(g, f *ssa.Function, c *ssa.Call, di int) bool {
	if g == nil || !w.inPkg(g) || g.Signature.Results().Len() == 0 || g.Signature.Results().At(0).Type().String() != "bool" {
		return false
	}
	for i, a := range c.Common().Args {
		if basePtr(a) != ssa.Value(f.Params[di]) || i >= len(g.Params) || !isPointer(g.Params[i].Type()) {
			continue
		}
		fr := w.flow(g, i, -1)
		if !fr.Split {
			return false
		}
		for _, tags := range fr.MayF {
			if len(tags) > 0 {
				return false
			}
		}
	}
	return true
}

// viewUnderPair: the *big.Int values that can be passed for v in the BigInt wrapper f when its parameters i and
// j are one (non-nil) object and every other parameter is a different object: the live leaves of v's φs under
// that assumption, with the alias helpers resolved to the partner's view.
func (w *World) viewUnderPair(f *ssa.Function, i, j int, v ssa.Value) []ssa.Value {
	dead, deadE := deadUnderPair(f, i, j)
	var out []ssa.Value
	var res func(v ssa.Value, d int)
	res = func(v ssa.Value, d int) {
		for _, l := range liveLeaves(v, dead, deadE, 0) {
			if hc, isC := l.(*ssa.Call); isC && d < 4 {
				hn := w.calleeName(hc)
				ha := hc.Common().Args
				if (hn == "(*BigInt).innerOrAlias" || hn == "(*BigInt).innerOrNilOrAlias") && len(ha) > 3 {
					a, b := ssa.Value(f.Params[i]), ssa.Value(f.Params[j])
					if (ha[0] == a && ha[2] == b) || (ha[0] == b && ha[2] == a) || ha[0] == ha[2] {
						res(ha[3], d+1)
						continue
					}
				}
			}
			out = append(out, l)
		}
	}
	res(v, 0)
	return out
}
