package main

import (
	"fmt"
	"go/token"
	"strings"

	"golang.org/x/tools/go/ssa"
)

// Rules added after the second batch of hunter findings (H7, H9).

func init() {
	register(&Rule{ID: "C16.R6", Min: 3,
		Text: "zero is never negative outside the inline array either: math/big leaves the neg flag on a zero magnitude after GobDecode, in the cofactors of GCD, and in any such value copied by Set from a caller's *big.Int; updateInner clears it only for inline values (it returns early when the receiver already owns the big.Int). Each view written by one of these calls passes a zero-sign normaliser before it is written back — or updateInner's early-return branch normalises itself",
		Run:  ruleHeapNegZero})
	register(&Rule{ID: "C11.R4", Min: 1,
		Text: "Cbrt's computation does not depend on the operand's exponent: before the range-reduction loops the working operand's Exponent is rewritten from its digit count (|x| = ax·10^(3k) with ax in [1,1000)), and every result-delivering exit adds that scale back to the exponent it delivers — otherwise cubes of candidates leave the package range near the limits (Cbrt(8E-99999) was an error) and the reduction by 8 runs tens of thousands of times",
		Run:  ruleCbrtScaled})
}

// instrDominates: a is executed before b on every path to b.
func instrDominates(a, b ssa.Instruction) bool {
	if a.Block() == b.Block() {
		return instrIndex(a) < instrIndex(b)
	}
	return a.Block().Dominates(b.Block())
}

var negZeroSources = map[string]string{
	"(*math/big.Int).GobDecode": "a sign byte with no magnitude decodes to neg=true, abs=nil",
	"(*math/big.Int).GCD":       "lehmerGCD negates the cofactor of a negative operand also when it is zero",
	"(*math/big.Int).Set":       "copies the neg flag of a caller-supplied *big.Int, which may be such a value",
}

func (w *World) isZeroSignNormaliser(g *ssa.Function) bool {
	if g == nil || !w.inPkg(g) || len(g.Params) == 0 {
		return false
	}
	p := g.Params[0]
	if !strings.HasSuffix(p.Type().String(), "math/big.Int") {
		return false
	}
	tests, clears := false, false
	for _, c := range callsIn(g) {
		n := w.calleeName(c)
		args := c.Common().Args
		if len(args) == 0 || args[0] != ssa.Value(p) {
			continue
		}
		switch n {
		case "(*math/big.Int).Sign", "(*math/big.Int).Bits", "(*math/big.Int).BitLen":
			tests = true
		case "(*math/big.Int).SetUint64", "(*math/big.Int).SetInt64":
			if k, ok := args[1].(*ssa.Const); ok && ci(k) == 0 {
				clears = true
			}
		case "(*math/big.Int).Abs", "(*math/big.Int).SetBits":
			clears = true
		}
	}
	return tests && clears
}

func ruleHeapNegZero(w *World, r *RuleResult) {
	upd := w.fn("(*BigInt).updateInner")
	if upd == nil {
		r.anchorMissing("(*BigInt).updateInner")
		return
	}
	// does updateInner normalise in its early-return branch?
	selfNorm := false
	for _, b := range upd.Blocks {
		early := false
		for _, g := range guardsAt(b) {
			if bo, ok := g.Cond.(*ssa.BinOp); ok && bo.Op == token.EQL && g.Val {
				s := w.exprOf(upd, g.Cond).String()
				if strings.Contains(s, "_inner") && strings.Contains(s, "src") {
					early = true
				}
			}
		}
		if !early {
			continue
		}
		for _, in := range b.Instrs {
			switch y := in.(type) {
			case *ssa.Call:
				if w.isZeroSignNormaliser(callee(y)) {
					selfNorm = true
				}
			case *ssa.Store:
				if k, ok := y.Val.(*ssa.Const); ok && k.Value != nil && k.Value.String() == "false" {
					selfNorm = true
				}
			}
		}
	}
	n := 0
	for _, name := range w.Names {
		f := w.Funcs[name]
		if !strings.HasPrefix(name, "(*BigInt).") {
			continue
		}
		for _, c := range callsIn(f) {
			call, ok := c.(*ssa.Call)
			if !ok {
				continue
			}
			cn := w.calleeName(call)
			reason, hit := negZeroSources[cn]
			if !hit {
				continue
			}
			args := call.Common().Args
			var views []ssa.Value
			switch cn {
			case "(*math/big.Int).GobDecode":
				views = []ssa.Value{args[0]}
			case "(*math/big.Int).GCD":
				views = []ssa.Value{args[1], args[2]}
			case "(*math/big.Int).Set":
				// only a value that comes from outside: the wrapper's own *big.Int parameter
				if p, isP := args[1].(*ssa.Parameter); isP && strings.HasSuffix(p.Type().String(), "math/big.Int") {
					views = []ssa.Value{args[0]}
				}
			}
			for vi, v := range views {
				if k, isK := v.(*ssa.Const); isK && k.Value == nil {
					continue
				}
				n++
				key := fmt.Sprintf("%s | view #%d written by %s is unsigned when zero", name, vi+1, cn)
				if selfNorm {
					r.ok(key, w.instrPos(call), "updateInner clears the sign of a zero magnitude in its early-return branch", true)
					continue
				}
				var ups []*ssa.Call
				for _, u := range w.callsTo(f, "(*BigInt).updateInner") {
					if len(u.Common().Args) > 1 && u.Common().Args[1] == v && (instrDominates(call, u) || reaches(call.Block(), u.Block())) {
						ups = append(ups, u)
					}
				}
				if len(ups) == 0 {
					r.ok(key, w.instrPos(call), "this view is not written back", false)
					continue
				}
				var bad []string
				for _, u := range ups {
					okN := false
					for _, x := range callsIn(f) {
						nc, isC := x.(*ssa.Call)
						if !isC || !w.isZeroSignNormaliser(callee(nc)) || len(nc.Common().Args) == 0 || nc.Common().Args[0] != v {
							continue
						}
						if instrDominates(call, nc) && instrDominates(nc, u) {
							okN = true
						}
					}
					if !okN {
						bad = append(bad, w.instrPos(u))
					}
				}
				if len(bad) == 0 {
					r.ok(key, w.instrPos(call), "a zero-sign normaliser runs on the view between the math/big call and every write-back", true)
				} else {
					r.bad(key, w.instrPos(call), fmt.Sprintf("%s (%s), and the view is written back at %s without its sign being cleared: updateInner drops the sign only for an inline value, so a receiver that has outgrown its inline array keeps a negative zero (Cmp with 0 is -1, IsUint64 false, %%d prints -0) where a fresh receiver gets 0", cn, reason, strings.Join(bad, ", ")))
				}
			}
		}
	}
	if n < 3 {
		r.anchorMissing(fmt.Sprintf("BigInt wrappers of GobDecode / GCD / Set(*big.Int) (found %d views)", n))
	}
}

func ruleCbrtScaled(w *World, r *RuleResult) {
	f := w.fn("(*Context).Cbrt")
	if f == nil {
		r.anchorMissing("(*Context).Cbrt")
		return
	}
	fromDigits := func(v ssa.Value) bool {
		for l := range w.exprOf(f, v).leaves() {
			if l == "call:(*Decimal).NumDigits" || l == "call:(*BigInt).NumDigits" || l == "call:NumDigits" {
				return true
			}
		}
		return false
	}
	// first loop header
	var firstLoop *ssa.BasicBlock
	for _, b := range f.Blocks {
		for _, s := range b.Succs {
			if s.Dominates(b) && (firstLoop == nil || s.Index < firstLoop.Index) {
				firstLoop = s
			}
		}
	}
	if firstLoop == nil {
		r.ok("(*Context).Cbrt | exponent normalised before the range reduction", w.pos(f.Pos()), "Cbrt has no loop: not decided for this shape", false)
		return
	}
	// (1) a store to a local Decimal's Exponent, derived from a digit count, dominating the first loop
	var scaleStores []*ssa.Store
	for _, st := range storesIn(f) {
		fa, ok := st.Addr.(*ssa.FieldAddr)
		if !ok || w.exprOf(f, st.Addr).Name != "Exponent" {
			continue
		}
		if _, isAlloc := basePtr(fa.X).(*ssa.Alloc); !isAlloc {
			continue
		}
		if fromDigits(st.Val) && (st.Block() == firstLoop || st.Block().Dominates(firstLoop)) {
			scaleStores = append(scaleStores, st)
		}
	}
	key := "(*Context).Cbrt | exponent normalised before the range reduction"
	if len(scaleStores) == 0 {
		r.bad(key, w.pos(f.Pos()), "no store of the working operand's Exponent derived from its digit count dominates the range-reduction loops: Cbrt iterates and cubes candidates at the operand's own exponent, so operands near the exponent limits fail with 'exponent out of range' (Cbrt(8E-99999)) and the reduction by 8 runs once per three binary orders of magnitude")
		return
	}
	r.ok(key, w.instrPos(scaleStores[0]), "the working operand's Exponent is rewritten from its adjusted exponent before the first loop", true)
	// (2) every result-delivering return is dominated by an Exponent store derived from the digit count, after the loops
	n := 0
	for _, b := range f.Blocks {
		rt, ok := b.Instrs[len(b.Instrs)-1].(*ssa.Return)
		if !ok || w.isErrorReturn(rt) {
			continue
		}
		// only returns after the iteration (the specials prologue returns before it)
		if !reaches(firstLoop, b) {
			continue
		}
		n++
		key := fmt.Sprintf("(*Context).Cbrt | exit #%d applies the scale", n)
		okScale := false
		for _, st := range storesIn(f) {
			if w.exprOf(f, st.Addr).Name != "Exponent" || !fromDigits(st.Val) {
				continue
			}
			if reaches(firstLoop, st.Block()) && !(st.Block() == firstLoop || st.Block().Dominates(firstLoop)) && instrDominates(st, rt) {
				okScale = true
			}
		}
		if okScale {
			r.ok(key, w.instrPos(rt), "an Exponent store carrying the scale dominates this return", true)
		} else {
			r.bad(key, w.instrPos(rt), "this exit delivers the root of the scaled operand without adding the scale 10^k back to its exponent")
		}
	}
	if n == 0 {
		r.anchorMissing("(*Context).Cbrt result-delivering returns after the iteration")
	}
}
