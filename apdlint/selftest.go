package main

import (
	"encoding/json"
	"fmt"
	"os"
	"os/exec"
	"path/filepath"
	"strings"
	"sync"
)

// Thorough-tier self-test: every seeded variant of the property (one broken
// instance per rule) must make that rule report that construct on a scratch
// copy of /repo's current tree, and every benign (behaviour-preserving)
// variant must stay silent. A patch that no longer applies to an edited tree
// is skipped, not failed. Failures make the check exit 2 (broken machinery),
// never VIOLATION.

type variant struct {
	Name     string `json:"name"`
	Kind     string `json:"kind"`
	Property string `json:"property"`
	Rule     string `json:"rule"`
	Contains string `json:"construct_contains"`
}

func selfTest(p *PropertyDef, variantsDir, repo string) (okN, skipN int, fails []string) {
	b, err := os.ReadFile(filepath.Join(variantsDir, "index.json"))
	if err != nil {
		return 0, 0, []string{"cannot read variants index: " + err.Error()}
	}
	var all []variant
	if err := json.Unmarshal(b, &all); err != nil {
		return 0, 0, []string{"variants index: " + err.Error()}
	}
	var mine []variant
	for _, v := range all {
		if v.Property == p.ID {
			mine = append(mine, v)
		}
		// behaviour-preserving refactorings must be silent for every property: they are run against all
		// properties at once, hosted by C06's thorough check
		if v.Property == "*" && p.ID == "C06" {
			mine = append(mine, v)
		}
	}
	self, _ := os.Executable()
	var mu sync.Mutex
	var wg sync.WaitGroup
	sem := make(chan struct{}, 8)
	for _, v := range mine {
		wg.Add(1)
		go func(v variant) {
			defer wg.Done()
			sem <- struct{}{}
			defer func() { <-sem }()
			res, msg := runVariant(self, repo, variantsDir, p.ID, v)
			mu.Lock()
			defer mu.Unlock()
			switch res {
			case "ok":
				okN++
			case "skip":
				skipN++
			default:
				fails = append(fails, v.Name+": "+msg)
			}
		}(v)
	}
	wg.Wait()
	return
}

func runVariant(self, repo, variantsDir, prop string, v variant) (string, string) {
	tmp, err := os.MkdirTemp("", "apdlint_variant_")
	if err != nil {
		return "fail", err.Error()
	}
	defer os.RemoveAll(tmp)
	dst := filepath.Join(tmp, "repo")
	os.MkdirAll(dst, 0o755)
	entries, _ := os.ReadDir(repo)
	for _, e := range entries {
		n := e.Name()
		if e.IsDir() || strings.HasSuffix(n, "_test.go") {
			continue
		}
		if strings.HasSuffix(n, ".go") || n == "go.mod" || n == "go.sum" {
			data, err := os.ReadFile(filepath.Join(repo, n))
			if err != nil {
				return "fail", err.Error()
			}
			os.WriteFile(filepath.Join(dst, n), data, 0o644)
		}
	}
	patch := filepath.Join(variantsDir, v.Name+".patch")
	ap := exec.Command("git", "apply", "--whitespace=nowarn", patch)
	ap.Dir = dst
	if out, err := ap.CombinedOutput(); err != nil {
		_ = out
		return "skip", "patch does not apply"
	}
	if v.Property == "*" {
		prop = "all"
	}
	cmd := exec.Command(self, "-repo", dst, "-property", prop, "-tier", "quick", "-no-selftest", "-evidence-dir", filepath.Join(tmp, "ev"))
	out, _ := cmd.CombinedOutput()
	code := cmd.ProcessState.ExitCode()
	text := string(out)
	if v.Kind == "benign" {
		if code == 0 && !strings.Contains(text, "VIOLATION") {
			return "ok", ""
		}
		return "fail", fmt.Sprintf("benign variant is not silent (exit %d): %s", code, short(firstViolation(text), 300))
	}
	// seeded
	if code != 1 {
		return "fail", fmt.Sprintf("seeded variant not reported (exit %d)", code)
	}
	for _, line := range strings.Split(text, "\n") {
		if strings.Contains(line, v.Rule+":") && strings.Contains(line, v.Contains) {
			return "ok", ""
		}
	}
	return "fail", fmt.Sprintf("reported, but not by rule %s on a construct containing %q: %s", v.Rule, v.Contains, short(firstViolation(text), 300))
}

func firstViolation(text string) string {
	lines := strings.Split(text, "\n")
	for i, l := range lines {
		if strings.HasPrefix(l, "VIOLATION") && i+1 < len(lines) {
			return lines[i+1]
		}
	}
	if len(lines) > 0 {
		return lines[len(lines)-1]
	}
	return ""
}
