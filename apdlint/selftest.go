package main

func selfTest(p *PropertyDef, variants, repo string) (int, int, []string) { return 0, 0, nil }
