package main

import (
	"go/types"
	"fmt"
	"go/token"
	"sort"
	"strings"

	"golang.org/x/tools/go/ssa"
)

func init() {
	register(&Rule{ID: "C09.R2", Min: 1,
		Text: "requested exponent: on every return of quantize that is not a system-limit return, the last store to d.Exponent stores the exp parameter",
		Run:  ruleQuantizeExponent})
	register(&Rule{ID: "C09.R3", Min: 3,
		Text: "Quantize guards: NaN + InvalidOperation is produced under each of Form==Infinite, exp < etiny(), NumDigits > Precision, exp > MaxExponent and Overflow∨Underflow after rounding; no other flags survive on those paths",
		Run:  ruleQuantizeGuards})
	register(&Rule{ID: "C09.R4", Min: 3,
		Text: "integral variants: RoundToIntegralValue masks exactly Inexact|Rounded, RoundToIntegralExact masks nothing, both quantize to the constant exponent 0 after toIntegralSpecials; Ceil adds one only under frac.Sign() > 0 and Floor subtracts one only under frac.Sign() < 0",
		Run:  ruleIntegralVariants})
	register(&Rule{ID: "C10.R1", Min: 4,
		Text: "QuoInteger and Rem agree: both align with upscale and propagate its error, divide with truncating BigInt.Quo/QuoRem (never the Euclidean Div/Mod/DivMod), and test DivisionImpossible on the digit count of that very quotient",
		Run:  ruleIntDivSiblings})
	register(&Rule{ID: "C10.R2", Min: 1,
		Text: "signs: QuoInteger stores d.Negative from x.Negative != y.Negative, Rem from x.Negative alone; QuoInteger's exponent is the constant 0 on every return",
		Run:  ruleIntDivSigns})
}

// lastStoresAtReturns: forward analysis of the values last stored to the
// address expression addr (rendered, e.g. "&d.Exponent"); returns, per selected
// return, the set of rendered values ("<none>" when no store happened).
func (w *World) lastStoresAt(f *ssa.Function, addr string, at func(ssa.Instruction) bool) map[ssa.Instruction][]string {
	n := len(f.Blocks)
	type set map[string]bool
	in := make([]set, n)
	in[0] = set{"<none>": true}
	apply := func(cur set, x ssa.Instruction) set {
		if st, ok := x.(*ssa.Store); ok && w.exprOf(f, st.Addr).String() == addr {
			return set{w.exprOf(f, st.Val).String(): true}
		}
		// a callee that may write the field makes the value opaque
		if c, ok := x.(*ssa.Call); ok {
			if g := callee(c); g != nil && w.inPkg(g) {
				parts := strings.SplitN(strings.TrimPrefix(addr, "&"), ".", 2)
				if len(parts) == 2 {
					sum := w.summary(g)
					for i, a := range c.Common().Args {
						if i < len(sum.Writes) && pointerLike(a.Type()) && w.exprOf(f, a).String() == parts[0] && (sum.Writes[i][parts[1]] || sum.Writes[i][allFields]) {
							return set{"<written by " + w.shortName(g) + ">": true}
						}
					}
				}
			}
		}
		return cur
	}
	changed := true
	for iter := 0; changed && iter < 8*n+16; iter++ {
		changed = false
		for _, b := range f.Blocks {
			if in[b.Index] == nil {
				continue
			}
			cur := set{}
			for k := range in[b.Index] {
				cur[k] = true
			}
			for _, x := range b.Instrs {
				cur = apply(cur, x)
			}
			for _, s := range b.Succs {
				if in[s.Index] == nil {
					in[s.Index] = set{}
				}
				for k := range cur {
					if !in[s.Index][k] {
						in[s.Index][k] = true
						changed = true
					}
				}
			}
		}
	}
	out := map[ssa.Instruction][]string{}
	for _, b := range f.Blocks {
		if in[b.Index] == nil {
			continue
		}
		cur := set{}
		for k := range in[b.Index] {
			cur[k] = true
		}
		for _, x := range b.Instrs {
			if at(x) {
				out[x] = sortedFieldSet(cur)
			}
			cur = apply(cur, x)
		}
	}
	return out
}

func isReturn(in ssa.Instruction) bool { _, ok := in.(*ssa.Return); return ok }

func ruleQuantizeExponent(w *World, r *RuleResult) {
	f := w.fn("(*Context).quantize")
	if f == nil {
		r.anchorMissing("(*Context).quantize")
		return
	}
	key := "(*Context).quantize | result exponent is the requested one"
	var bad []string
	n := 0
	for in, vals := range w.lastStoresAt(f, "&"+w.destName(f)+".Exponent", isReturn) {
		rt := in.(*ssa.Return)
		if w.isErrorReturn(rt) {
			continue
		}
		n++
		if len(vals) != 1 || vals[0] != "exp" {
			bad = append(bad, fmt.Sprintf("return at %s: last d.Exponent store is %v", w.instrPos(rt), vals))
		}
	}
	sort.Strings(bad)
	if len(bad) > 0 || n == 0 {
		r.bad(key, w.pos(f.Pos()), "the result's exponent is not the requested exponent on every path: "+strings.Join(bad, "; "))
	} else {
		r.ok(key, w.pos(f.Pos()), fmt.Sprintf("%d non-system returns, each preceded by d.Exponent = exp as the last exponent store", n), true)
	}
}

func ruleQuantizeGuards(w *World, r *RuleResult) {
	f := w.fn("(*Context).Quantize")
	if f == nil {
		r.anchorMissing("(*Context).Quantize")
		return
	}
	inf := w.formConsts()["Infinite"]
	nanSites := w.sharedSetSites(f, "decimalNaN")
	isNaNSet := func(in ssa.Instruction) bool {
		for _, c := range nanSites {
			if ssa.Instruction(c) == in {
				return true
			}
		}
		return false
	}
	type guardSpec struct {
		name  string
		match func(cond ssa.Value) (bool, int) // matched, edge (0 true / 1 false) on which NaN must follow
	}
	bin := func(cond ssa.Value) *ssa.BinOp { b, _ := cond.(*ssa.BinOp); return b }
	specs := []guardSpec{
		{"x.Form == Infinite", func(c ssa.Value) (bool, int) {
			b := bin(c)
			if b == nil || (b.Op != token.EQL && b.Op != token.NEQ) || w.exprOf(f, b.X).String() != "x.Form" {
				return false, 0
			}
			if k, ok := b.Y.(*ssa.Const); ok && ci(k) == inf {
				if b.Op == token.EQL {
					return true, 0
				}
				return true, 1
			}
			return false, 0
		}},
		{"exp < c.etiny()", func(c ssa.Value) (bool, int) {
			b := bin(c)
			if b == nil {
				return false, 0
			}
			l, rr := w.exprOf(f, b.X).String(), w.exprOf(f, b.Y).String()
			if l == "exp" && strings.HasPrefix(rr, "(*Context).etiny(") && b.Op == token.LSS {
				return true, 0
			}
			if l == "exp" && strings.HasPrefix(rr, "(*Context).etiny(") && b.Op == token.GEQ {
				return true, 1
			}
			return false, 0
		}},
		{"NumDigits > c.Precision", func(c ssa.Value) (bool, int) {
			b := bin(c)
			if b == nil || b.Op != token.GTR {
				return false, 0
			}
			lx, ly := w.exprOf(f, b.X).leaves(), w.exprOf(f, b.Y).leaves()
			if (lx["call:(*Decimal).NumDigits"] || lx["call:NumDigits"]) && ly["c.Precision"] {
				return true, 0
			}
			return false, 0
		}},
		{"exp > c.MaxExponent", func(c ssa.Value) (bool, int) {
			b := bin(c)
			if b == nil || b.Op != token.GTR {
				return false, 0
			}
			if w.exprOf(f, b.X).String() == "exp" && w.exprOf(f, b.Y).String() == "c.MaxExponent" {
				return true, 0
			}
			return false, 0
		}},
		{"res.Overflow()", func(c ssa.Value) (bool, int) {
			if call, ok := c.(*ssa.Call); ok && w.calleeName(call) == "(Condition).Overflow" {
				return true, 0
			}
			return false, 0
		}},
		{"res.Underflow()", func(c ssa.Value) (bool, int) {
			if call, ok := c.(*ssa.Call); ok && w.calleeName(call) == "(Condition).Underflow" {
				return true, 0
			}
			return false, 0
		}},
	}
	// the over/underflow pair may be tested with one mask: res&(Overflow|Underflow) != 0
	cc := w.conditionConsts()
	maskTest := func(c ssa.Value, bit uint64) (bool, int) {
		b := bin(c)
		if b == nil || (b.Op != token.NEQ && b.Op != token.EQL) {
			return false, 0
		}
		for _, pair := range [][2]ssa.Value{{b.X, b.Y}, {b.Y, b.X}} {
			and, isA := pair[0].(*ssa.BinOp)
			z, isZ := pair[1].(*ssa.Const)
			if !isA || !isZ || and.Op != token.AND || z.Value == nil || ci(z) != 0 {
				continue
			}
			for _, o := range []ssa.Value{and.X, and.Y} {
				if bits, isK := condBits(o); isK && bits&bit != 0 {
					if b.Op == token.NEQ {
						return true, 0
					}
					return true, 1
				}
			}
		}
		return false, 0
	}
	for i := range specs {
		sp := &specs[i]
		inner := sp.match
		switch sp.name {
		case "res.Overflow()":
			sp.match = func(c ssa.Value) (bool, int) {
				if m, e := inner(c); m {
					return m, e
				}
				return maskTest(c, cc["Overflow"])
			}
		case "res.Underflow()":
			sp.match = func(c ssa.Value) (bool, int) {
				if m, e := inner(c); m {
					return m, e
				}
				return maskTest(c, cc["Underflow"])
			}
		}
	}
	// path form: the tests may be branch conditions or values folded into a boolean that is branched on
	// later (enumPaths records both as decisions of the path)
	paths, pathsOK := enumPaths(f, 100000)
	for _, sp := range specs {
		key := "(*Context).Quantize | NaN under " + sp.name
		found, ok := false, false
		for _, b := range f.Blocks {
			iff, isIf := b.Instrs[len(b.Instrs)-1].(*ssa.If)
			if !isIf {
				continue
			}
			m, edge := sp.match(iff.Cond)
			if !m {
				continue
			}
			found = true
			good, _ := mustPassEdge(b.Succs[edge], isNaNSet, nil)
			if good {
				ok = true
			}
		}
		if (!found || !ok) && pathsOK {
			pFound, pOK := false, true
			for _, p := range paths {
				trig := false
				for _, d := range p.Decisions {
					if m, edge := sp.match(d.Cond); m && ((edge == 0) == d.Val) {
						trig = true
					}
				}
				if !trig {
					continue
				}
				pFound = true
				hasNaN := false
				for _, b := range p.Blocks {
					for _, in := range b.Instrs {
						if isNaNSet(in) {
							hasNaN = true
						}
					}
				}
				if !hasNaN && !w.isErrorReturn(p.Ret) {
					pOK = false
				}
			}
			if pFound {
				found, ok = true, pOK
			}
		}
		switch {
		case !found:
			r.bad(key, w.pos(f.Pos()), "Quantize no longer tests "+sp.name+": a result outside the context would be returned instead of NaN/InvalidOperation")
		case !ok:
			r.bad(key, w.pos(f.Pos()), "the "+sp.name+" edge does not always end in the shared NaN")
		default:
			r.ok(key, w.pos(f.Pos()), "every path from that edge stores the shared NaN (paired with InvalidOperation by C08.R3)", true)
		}
	}
}

func ruleIntegralVariants(w *World, r *RuleResult) {
	cc := w.conditionConsts()
	want := cc["Inexact"] | cc["Rounded"]
	masks := func(f *ssa.Function, bound map[*ssa.Parameter]uint64) []uint64 {
		var out []uint64
		for _, b := range f.Blocks {
			for _, in := range b.Instrs {
				bo, ok := in.(*ssa.BinOp)
				if !ok || !typeIs(bo.Type(), apdPath, "Condition") {
					continue
				}
				for _, o := range []ssa.Value{bo.X, bo.Y} {
					v, isK := condBits(o)
					if pr, isP := o.(*ssa.Parameter); isP && !isK {
						if bv, have := bound[pr]; have {
							if bo.Op == token.AND_NOT && bv == 0 && o == bo.Y {
								continue // &^ 0 masks nothing
							}
							v, isK = bv, true
						}
					}
					if !isK {
						continue
					}
					switch bo.Op {
					case token.AND:
						out = append(out, ^v&(1<<12-1))
					case token.AND_NOT:
						out = append(out, v&(1<<12-1))
					}
				}
			}
		}
		return out
	}
	for _, name := range []string{"(*Context).RoundToIntegralValue", "(*Context).RoundToIntegralExact"} {
		f := w.fn(name)
		if f == nil {
			r.anchorMissing(name)
			continue
		}
		// the operation may be a one-line delegation to a helper shared by the two variants, which is told
		// the flags to ignore: the helper is judged with its Condition parameters bound to the constants
		top := f
		bound := map[*ssa.Parameter]uint64{}
		if h, call := w.soleDelegate(f); h != nil {
			okBind := true
			for i, p := range h.Params {
				if typeIs(p.Type(), apdPath, "Condition") && !isPointer(p.Type()) {
					if v, isK := condBits(call.Common().Args[i]); isK {
						bound[p] = v
					} else {
						okBind = false
					}
				}
			}
			if okBind {
				f = h
			}
		}
		ms := masks(f, bound)
		key := name + " | flag mask"
		if strings.HasSuffix(name, "Value") {
			if len(ms) == 1 && ms[0] == want {
				r.ok(key, w.pos(top.Pos()), "removes exactly Inexact|Rounded", true)
			} else {
				r.bad(key, w.pos(f.Pos()), fmt.Sprintf("must remove exactly Inexact|Rounded (%#x), removes %#x", want, ms))
			}
		} else {
			if len(ms) == 0 {
				r.ok(key, w.pos(f.Pos()), "no flag is masked", true)
			} else {
				r.bad(key, w.pos(f.Pos()), fmt.Sprintf("RoundToIntegralExact must report Inexact/Rounded but masks %#x", ms))
			}
		}
		key = name + " | specials prologue, then quantize to exponent 0"
		okPro := len(w.callsTo(f, "(*Context).toIntegralSpecials")) == 1 && w.callsTo(f, "(*Context).toIntegralSpecials")[0].Block() == f.Blocks[0]
		okQ := w.quantizesToZero(f, 0)
		switch {
		case okPro && okQ:
			r.ok(key, w.pos(f.Pos()), "toIntegralSpecials first; the value is produced by quantize(d, x, 0) (directly or through a helper)", true)
		case !okPro:
			r.bad(key, w.pos(f.Pos()), "does not start with the toIntegralSpecials prologue")
		default:
			r.bad(key, w.pos(f.Pos()), "the integral value is not produced by quantize(·, ·, 0)")
		}
	}
	for _, spec := range []struct {
		fn, op string
		cmp    token.Token
	}{{"(*Context).Ceil", "(*Context).Add", token.GTR}, {"(*Context).Floor", "(*Context).Sub", token.LSS}} {
		f := w.fn(spec.fn)
		if f == nil {
			r.anchorMissing(spec.fn)
			continue
		}
		key := spec.fn + " | ±1 adjustment guard"
		modf := w.callsTo(f, "(*Decimal).Modf")
		if len(modf) == 0 {
			// the split into integral and fractional part is not made here (the operation delegates to a
			// shared helper that chooses the direction at run time): this shape is not decided
			r.ok(key, w.pos(f.Pos()), "delegates to a helper: the guard is not decided for this shape", false)
			continue
		}
		fracOf := func(v ssa.Value) bool {
			for _, m := range modf {
				if len(m.Common().Args) == 3 && basePtr(m.Common().Args[2]) == basePtr(v) {
					return true
				}
			}
			return false
		}
		cs := w.callsTo(f, spec.op)
		// … or the shared kernel called directly: c.add(d, x, y, subtract) with the matching constant
		for _, ac := range w.callsTo(f, "(*Context).add") {
			a := ac.Common().Args
			if len(a) == 5 {
				if k, isK := a[4].(*ssa.Const); isK && k.Value != nil && (k.Value.String() == "true") == (spec.op == "(*Context).Sub") {
					cs = append(cs, ac)
				}
			}
		}
		ok := false
		why := "no call of " + spec.op
		for _, c := range cs {
			why = "the adjustment is not guarded by (fractional part of Modf).Sign() " + spec.cmp.String() + " 0 with the constant one"
			p := w.newProv(f, nil)
			one := false
			for _, l := range p.roots(c.Common().Args[3]) {
				if l.Root.Kind == RGlobalObj && l.Root.Name == "decimalOne" {
					one = true
				}
			}
			for _, g := range guardsAt(c.Block()) {
				bo, isB := g.Cond.(*ssa.BinOp)
				if !isB || !g.Val || bo.Op != spec.cmp {
					continue
				}
				call, isC := bo.X.(*ssa.Call)
				k, isK := bo.Y.(*ssa.Const)
				if isC && isK && ci(k) == 0 && w.calleeName(call) == "(*Decimal).Sign" && fracOf(call.Common().Args[0]) && one {
					ok = true
				}
			}
		}
		if ok && len(cs) == 1 {
			r.ok(key, w.pos(f.Pos()), "one is "+strings.ToLower(strings.TrimPrefix(spec.op, "(*Context)."))+"ed exactly under frac.Sign() "+spec.cmp.String()+" 0", true)
		} else {
			r.bad(key, w.pos(f.Pos()), why)
		}
	}
}

// quantizesToZero: f calls quantize with the constant exponent 0, directly or
// through an unexported helper that does.
func (w *World) quantizesToZero(f *ssa.Function, depth int) bool {
	if depth > 3 {
		return false
	}
	for _, c := range w.callsTo(f, "(*Context).quantize") {
		if k, ok := c.Common().Args[3].(*ssa.Const); ok && ci(k) == 0 {
			return true
		}
	}
	for _, c := range callsIn(f) {
		g := callee(c)
		if g != nil && w.inPkg(g) && (g.Object() == nil || !g.Object().Exported()) && w.shortName(g) != "(*Context).quantize" && w.reachesFn("(*Context).quantize")[g] {
			if w.quantizesToZero(g, depth+1) {
				return true
			}
		}
	}
	return false
}

// ---- C10 --------------------------------------------------------------------

func ruleIntDivSiblings(w *World, r *RuleResult) {
	for _, name := range []string{"(*Context).QuoInteger", "(*Context).Rem"} {
		f := w.fn(name)
		if f == nil {
			r.anchorMissing(name)
			continue
		}
		// upscale + error propagation
		key := name + " | aligns with upscale and propagates its error"
		us := w.callsTo(f, "upscale")
		// … or a wrapper that hands upscale's four results on in order (and its error, possibly wrapped)
		for _, c := range callsIn(f) {
			if call, isCall := c.(*ssa.Call); isCall && w.isUpscaleWrapper(callee(call)) {
				us = append(us, call)
			}
		}
		okUp := false
		if len(us) == 1 {
			if refs := us[0].Referrers(); refs != nil {
				for _, u := range *refs {
					if ex, ok := u.(*ssa.Extract); ok && ex.Index == 3 {
						if er := ex.Referrers(); er != nil {
							for _, uu := range *er {
								if bo, ok := uu.(*ssa.BinOp); ok && bo.Op == token.NEQ && isNilConst(bo.Y) {
									okUp = true
								}
							}
						}
					}
				}
			}
		}
		if okUp {
			r.ok(key, w.pos(f.Pos()), "one upscale call whose error is tested against nil", true)
		} else {
			r.bad(key, w.pos(f.Pos()), "operands are not aligned by upscale, or its error (exponent gap beyond the limit) is ignored")
		}
		// truncating division only
		key = name + " | truncating division"
		var divs []*ssa.Call
		euclid := false
		for _, c := range callsIn(f) {
			cn := w.calleeName(c)
			switch cn {
			case "(*BigInt).Quo", "(*BigInt).QuoRem":
				divs = append(divs, c.(*ssa.Call))
			case "(*BigInt).Div", "(*BigInt).Mod", "(*BigInt).DivMod":
				euclid = true
			}
		}
		if euclid || len(divs) != 1 {
			r.bad(key, w.pos(f.Pos()), fmt.Sprintf("must divide exactly once with truncating Quo/QuoRem (found %d; Euclidean Div/Mod used: %v)", len(divs), euclid))
			continue
		}
		r.ok(key, w.instrPos(divs[0]), w.calleeName(divs[0])+" on the aligned coefficients", true)
		// the division's operands are upscale's outputs, in order
		key = name + " | divides the aligned coefficients in order"
		a1, a2 := divs[0].Common().Args[1], divs[0].Common().Args[2]
		e1, ok1 := a1.(*ssa.Extract)
		e2, ok2 := a2.(*ssa.Extract)
		if ok1 && ok2 && len(us) > 0 && e1.Tuple == ssa.Value(us[0]) && e2.Tuple == ssa.Value(us[0]) && e1.Index == 0 && e2.Index == 1 {
			r.ok(key, w.instrPos(divs[0]), "dividend = upscale #0 (x), divisor = upscale #1 (y)", true)
		} else {
			r.bad(key, w.instrPos(divs[0]), "dividend/divisor are not upscale's first/second result")
		}
		// DivisionImpossible counts the digits of that quotient
		key = name + " | DivisionImpossible tests the quotient's digits"
		quot := basePtr(divs[0].Common().Args[0])
		okND := false
		for _, b := range f.Blocks {
			iff, ok := b.Instrs[len(b.Instrs)-1].(*ssa.If)
			if !ok {
				continue
			}
			bo, ok := iff.Cond.(*ssa.BinOp)
			if !ok || bo.Op != token.GTR || !w.exprOf(f, bo.Y).leaves()["c.Precision"] {
				continue
			}
			if call, ok := bo.X.(*ssa.Call); ok {
				cn := w.calleeName(call)
				if (cn == "NumDigits" || cn == "(*Decimal).NumDigits") && basePtr(call.Common().Args[0]) == quot {
					okND = true
				}
			}
		}
		// … on every path: no result-delivering return may be reached from the division without that test
		if okND {
			isTest := func(in ssa.Instruction) bool {
				iff, ok := in.(*ssa.If)
				if !ok {
					return false
				}
				bo, ok := iff.Cond.(*ssa.BinOp)
				if !ok || bo.Op != token.GTR || !w.exprOf(f, bo.Y).leaves()["c.Precision"] {
					return false
				}
				call, ok := bo.X.(*ssa.Call)
				return ok && basePtr(call.Common().Args[0]) == quot
			}
			if ok, ret := mustPassFrom(divs[0], isTest, func(rt *ssa.Return) bool { return w.isErrorReturn(rt) }); !ok {
				okND = false
				r.bad(key, w.instrPos(divs[0]), fmt.Sprintf("the return at %s is reachable from the division without the digit-count test: an oversized integer quotient would go unreported", w.instrPos(ret)))
				continue
			}
		}
		if okND {
			r.ok(key, w.pos(f.Pos()), "NumDigits(<receiver of the division>) > c.Precision, on every path after the division", true)
		} else {
			r.bad(key, w.pos(f.Pos()), "the digit-count test is not applied to the integer quotient produced by the division")
		}
	}
}

func ruleIntDivSigns(w *World, r *RuleResult) {
	check := func(name string, want []string) {
		f := w.fn(name)
		if f == nil {
			r.anchorMissing(name)
			return
		}
		key := name + " | result sign"
		// the last sign store reaching a finite, non-special return (main path: the block of the final return through goError)
		var stores []*ssa.Store
		for _, b := range f.Blocks {
			for _, in := range b.Instrs {
				if st, ok := in.(*ssa.Store); ok && w.exprOf(f, st.Addr).String() == "&"+w.destName(f)+".Negative" {
					stores = append(stores, st)
				}
			}
		}
		if len(stores) == 0 {
			r.bad(key, w.pos(f.Pos()), "d.Negative is never stored")
			return
		}
		var bad []string
		for _, st := range stores {
			var got []string
			for l := range w.exprOf(f, st.Val).leaves() {
				if strings.HasSuffix(l, ".Negative") {
					got = append(got, l)
				}
			}
			sort.Strings(got)
			if strings.Join(got, ",") != strings.Join(want, ",") {
				bad = append(bad, fmt.Sprintf("store at %s depends on %v", w.instrPos(st), got))
			}
		}
		if len(bad) > 0 {
			r.bad(key, w.instrPos(stores[0]), fmt.Sprintf("the sign must derive from exactly %v: %s", want, strings.Join(bad, "; ")))
		} else {
			r.ok(key, w.instrPos(stores[0]), fmt.Sprintf("d.Negative derives from exactly %v", want), true)
		}
	}
	check("(*Context).QuoInteger", []string{"x.Negative", "y.Negative"})
	check("(*Context).Rem", []string{"x.Negative"})
	if f := w.fn("(*Context).QuoInteger"); f != nil {
		key := "(*Context).QuoInteger | exponent 0"
		var bad []string
		n := 0
		for in, vals := range w.lastStoresAt(f, "&"+w.destName(f)+".Exponent", isReturn) {
			rt := in.(*ssa.Return)
			if w.isErrorReturn(rt) {
				continue
			}
			// special-value returns (through quoSpecials) carry their own exponent
			if len(vals) == 1 && strings.HasPrefix(vals[0], "<written by (*Context).quoSpecials") || len(vals) == 1 && vals[0] == "<none>" {
				continue
			}
			// the DivisionImpossible return delivers the shared NaN, not a quotient
			{
				setsNaN := w.allSetsAreNaN(f)
				var rest []string
				for _, v := range vals {
					isExit := false
					if strings.HasPrefix(v, "<written by ") {
						if _, ok := w.nanExitHelper(w.fn(strings.TrimSuffix(strings.TrimPrefix(v, "<written by "), ">"))); ok {
							isExit = true
						}
					}
					if !(v == "<written by (*Decimal).Set>" && setsNaN) && !isExit {
						rest = append(rest, v)
					}
				}
				if len(rest) == 0 {
					continue
				}
				vals = rest
			}
			n++
			if len(vals) != 1 || vals[0] != "0" {
				bad = append(bad, fmt.Sprintf("return at %s: exponent %v", w.instrPos(rt), vals))
			}
		}
		if len(bad) > 0 || n == 0 {
			r.bad(key, w.pos(f.Pos()), "the integer quotient is not returned with exponent 0: "+strings.Join(bad, "; "))
		} else {
			r.ok(key, w.pos(f.Pos()), "last exponent store before every quotient-delivering return is the constant 0", true)
		}
	}
}

// allSetsAreNaN: every (*Decimal).Set call in f whose destination is f's destination parameter copies the
// shared NaN (so a value "written by Set" is that NaN).
func (w *World) allSetsAreNaN(f *ssa.Function) bool {
	d := ssa.Value(f.Params[destArgIndex(w, f)])
	n := 0
	for _, c := range callsIn(f) {
		call, ok := c.(*ssa.Call)
		if !ok || w.calleeName(call) != "(*Decimal).Set" || basePtr(call.Common().Args[0]) != d {
			continue
		}
		n++
		if !w.nanWholeWrite(call, d) {
			return false
		}
	}
	return n > 0
}

// soleDelegate: f does nothing but call one unexported in-package function and return its results.
func (w *World) soleDelegate(f *ssa.Function) (*ssa.Function, *ssa.Call) {
	if len(f.Blocks) != 1 {
		return nil, nil
	}
	var only *ssa.Call
	for _, in := range f.Blocks[0].Instrs {
		switch x := in.(type) {
		case *ssa.Call:
			if only != nil {
				return nil, nil
			}
			only = x
		case *ssa.Store, *ssa.Go, *ssa.Defer:
			return nil, nil
		}
	}
	if only == nil {
		return nil, nil
	}
	h := callee(only)
	if h == nil || !w.inPkg(h) || h.Object() == nil || h.Object().Exported() || len(h.Blocks) == 0 {
		return nil, nil
	}
	rt, ok := f.Blocks[0].Instrs[len(f.Blocks[0].Instrs)-1].(*ssa.Return)
	if !ok {
		return nil, nil
	}
	for _, v := range rt.Results {
		if ex, isEx := v.(*ssa.Extract); isEx && ex.Tuple == ssa.Value(only) {
			continue
		}
		if v == ssa.Value(only) {
			continue
		}
		return nil, nil
	}
	return h, only
}

// isUpscaleWrapper: an unexported function with upscale's result shape whose every return either delivers
// the four results of one upscale call on its own Decimal parameters in order, or is an error return.
func (w *World) isUpscaleWrapper(g *ssa.Function) bool {
	up := w.fn("upscale")
	if g == nil || up == nil || g == up || !w.inPkg(g) || g.Object() == nil || g.Object().Exported() || len(g.Blocks) == 0 {
		return false
	}
	if !types.Identical(g.Signature.Results(), up.Signature.Results()) {
		return false
	}
	calls := w.callsTo(g, "upscale")
	if len(calls) != 1 {
		return false
	}
	// the Decimal operands are the wrapper's own parameters, in their order
	var decParams []ssa.Value
	for _, p := range g.Params {
		if isDecimalPtr(p.Type()) {
			decParams = append(decParams, p)
		}
	}
	a := calls[0].Common().Args
	if len(decParams) != 2 || len(a) < 2 || a[0] != decParams[0] || a[1] != decParams[1] {
		return false
	}
	n := 0
	for _, b := range g.Blocks {
		rt, ok := b.Instrs[len(b.Instrs)-1].(*ssa.Return)
		if !ok {
			continue
		}
		if w.isErrorReturn(rt) || definitelyErr(rt) {
			continue
		}
		n++
		for i := 0; i < 3 && i < len(rt.Results); i++ {
			v := rt.Results[i]
			if phi, isPhi := v.(*ssa.Phi); isPhi {
				// named results: the value on the non-error path
				var pick ssa.Value
				for _, e := range phi.Edges {
					if ex, isEx := e.(*ssa.Extract); isEx && ex.Tuple == ssa.Value(calls[0]) {
						pick = e
					}
				}
				if pick != nil {
					v = pick
				}
			}
			ex, isEx := v.(*ssa.Extract)
			if !isEx || ex.Tuple != ssa.Value(calls[0]) || ex.Index != i {
				return false
			}
		}
	}
	return n > 0
}

// definitelyErr: the return's error result is the result of a call that constructs an error.
func definitelyErr(rt *ssa.Return) bool {
	if len(rt.Results) == 0 {
		return false
	}
	last := rt.Results[len(rt.Results)-1]
	if c, ok := last.(*ssa.Call); ok {
		if f := c.Common().StaticCallee(); f != nil {
			switch f.String() {
			case "fmt.Errorf", "errors.New":
				return true
			}
		}
	}
	return false
}
