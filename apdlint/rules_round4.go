package main

import (
	"fmt"
	"go/token"
	"go/types"
	"strings"

	"golang.org/x/tools/go/ssa"
)

// Rules added after the fourth round of independent mutations (DESIGN §11.5).

func init() {
	register(&Rule{ID: "C01.R7", Min: 1,
		Text: "a non-zero division remainder is acted upon, not merely reported: in Quo, on every path from the test rem.Sign() != 0 (true) to the following setExponent call, either a ShouldAddOne decision is taken or the remainder is folded into the coefficient (a write of d.Coeff: the sticky digit of the subnormal branch) before that call",
		Run:  ruleRemainderActedUpon})
	register(&Rule{ID: "C03.R7", Min: 1,
		Text: "ErrDecimal.Err never hides a recorded error: every return of Err that does not deliver e.err itself is reached only where e.err was tested and found nil",
		Run:  ruleErrReturnsStoredError})
	register(&Rule{ID: "C12.R5", Min: 1,
		Text: "working contexts of the composite functions round to nearest-even: a context handed to MakeErrDecimal is a copy of BaseContext, or a copy of the caller's (c.WithPrecision) with its Rounding stored RoundHalfEven on every path before that (a directed mode inherited from the caller biases every intermediate step the same way: series terms stop shrinking and convergence tests never succeed)",
		Run:  ruleWorkingContextHalfEven})
	register(&Rule{ID: "C07.R7", Min: 1,
		Text: "a zero whose exponent is above the range is clamped to MaxExponent: in setExponent the exponent finally stored on the path that raises Clamped under v > c.MaxExponent is c.MaxExponent",
		Run:  ruleZeroClampStoresMax})
	register(&Rule{ID: "C09.R7", Min: 1,
		Text: "Quantize delivers a number only when every guard was passed: on each path of Quantize that does not store the shared NaN, the decisions x.Form == Infinite, exp < etiny and exp > c.MaxExponent were all taken and are false; and the Overflow/Underflow test that turns the result into NaN reads the accumulated flags (quantize's own included)",
		Run:  ruleQuantizeAllGuards})
	register(&Rule{ID: "C10.R3", Min: 1,
		Text: "alignment accepts every exponent gap two operands inside the package limits can have (2·MaxExponent), whatever the operand order: upscale's only failing test compares the difference of the two exponents with an effective bound of at least 2·MaxExponent",
		Run:  ruleUpscaleGap})
	register(&Rule{ID: "C14.R10", Min: 1,
		Text: "the '+' flag overrides the ' ' flag, as in fmt: a sign text \" \" is chosen only where s.Flag('+') was tested and is false",
		Run:  rulePlusOverridesSpace})
}

// ---- C01.R7 ------------------------------------------------------------------

func ruleRemainderActedUpon(w *World, r *RuleResult) {
	f := w.fn("(*Context).Quo")
	if f == nil {
		r.anchorMissing("(*Context).Quo")
		return
	}
	key := "(*Context).Quo | non-zero remainder reaches the rounding"
	var rems []ssa.Value
	for _, c := range w.callsTo(f, "(*BigInt).QuoRem") {
		if len(c.Common().Args) == 4 {
			rems = append(rems, basePtr(c.Common().Args[3]))
		}
	}
	if len(rems) == 0 {
		r.ok(key, w.pos(f.Pos()), "Quo does not divide with QuoRem itself: this shape is not decided", false)
		return
	}
	paths, ok := enumPaths(f, 200000)
	if !ok {
		r.undecided(key, w.pos(f.Pos()), "Quo is not loop-free or has too many paths")
		return
	}
	di := destArgIndex(w, f)
	reachSAO := w.reachesFn(shouldAddOne)
	isRemTest := func(g Guard) bool {
		bo, isB := g.Cond.(*ssa.BinOp)
		if !isB {
			return false
		}
		call, isC := bo.X.(*ssa.Call)
		k, isK := bo.Y.(*ssa.Const)
		if !isC || !isK || ci(k) != 0 || w.calleeName(call) != "(*BigInt).Sign" {
			return false
		}
		isRem := false
		for _, rm := range rems {
			if basePtr(call.Common().Args[0]) == rm {
				isRem = true
			}
		}
		return isRem && ((bo.Op == token.NEQ && g.Val) || (bo.Op == token.EQL && !g.Val))
	}
	n := 0
	var bad []string
	for _, p := range paths {
		var test *ssa.If
		for _, d := range p.Decisions {
			if isRemTest(d) {
				test = d.At
			}
		}
		if test == nil {
			continue
		}
		n++
		// walk the path after the test up to the first setExponent call
		started, acted, reached := false, false, false
		for _, b := range p.Blocks {
			for _, in := range b.Instrs {
				if in == ssa.Instruction(test) {
					started = true
					continue
				}
				if !started || reached {
					continue
				}
				c, isCall := in.(*ssa.Call)
				if !isCall {
					continue
				}
				switch cn := w.calleeName(c); {
				case cn == shouldAddOne:
					acted = true
				case cn == "(*Decimal).setExponent":
					reached = true
				default:
					g := callee(c)
					if g == nil || !w.inPkg(g) {
						continue
					}
					// a helper that takes the decision itself
					if reachSAO[g] {
						acted = true
					}
					// a write of the destination's coefficient (directly, or by a helper handed the destination)
					for ai, a := range c.Common().Args {
						if basePtr(a) != ssa.Value(f.Params[di]) {
							continue
						}
						s, okS := w.sums[g]
						if !okS || ai >= len(s.Writes) || len(s.Writes[ai]) == 0 {
							continue
						}
						if w.exprOf(f, a).Name == "Coeff" || s.Writes[ai]["Coeff"] || s.Writes[ai][allFields] {
							acted = true
						}
					}
				}
			}
		}
		if reached && !acted {
			bad = append(bad, fmt.Sprintf("path through %s", w.instrPos(test)))
		}
	}
	if len(bad) > 0 {
		r.bad(key, w.pos(f.Pos()), fmt.Sprintf("on %d of %d paths with a non-zero remainder the coefficient reaches setExponent unchanged and without a rounding decision: the remainder is only reported as Inexact, the digits rounded at Etiny do not see it (1251E-9 / 1 at Precision 3, MinExponent -5 gives 12E-7 instead of 13E-7 under half-even)", len(uniqStrings(bad)), n))
	} else {
		r.ok(key, w.pos(f.Pos()), fmt.Sprintf("%d paths with a non-zero remainder; each takes a ShouldAddOne decision or folds the remainder into d.Coeff before setExponent", n), n > 0)
	}
}

// ---- C03.R7 ------------------------------------------------------------------

func ruleErrReturnsStoredError(w *World, r *RuleResult) {
	f := w.fn("(*ErrDecimal).Err")
	if f == nil {
		r.anchorMissing("(*ErrDecimal).Err")
		return
	}
	key := "(*ErrDecimal).Err | a recorded error is always returned"
	isErrLoad := func(v ssa.Value) bool {
		ld, ok := v.(*ssa.UnOp)
		if !ok || ld.Op != token.MUL {
			return false
		}
		fa, ok := ld.X.(*ssa.FieldAddr)
		return ok && fa.X == ssa.Value(f.Params[0]) && w.exprOf(f, ld.X).Name == "err"
	}
	var bad []string
	n := 0
	for _, b := range f.Blocks {
		rt, ok := b.Instrs[len(b.Instrs)-1].(*ssa.Return)
		if !ok || len(rt.Results) != 1 {
			continue
		}
		n++
		if isErrLoad(rt.Results[0]) {
			continue
		}
		okGuard := false
		for _, g := range guardsAt(b) {
			bo, isB := g.Cond.(*ssa.BinOp)
			if !isB || !isNilConst(bo.Y) || !isErrLoad(bo.X) {
				continue
			}
			if (bo.Op == token.NEQ && !g.Val) || (bo.Op == token.EQL && g.Val) {
				okGuard = true
			}
		}
		if !okGuard {
			bad = append(bad, fmt.Sprintf("return at %s", w.instrPos(rt)))
		}
	}
	if len(bad) > 0 {
		r.bad(key, w.pos(f.Pos()), "Err can return without having looked at the recorded error ("+joinStrings(bad)+"): an error that carries no flag (exponent out of range, zero precision) is dropped, later operations run and overwrite it")
	} else {
		r.ok(key, w.pos(f.Pos()), fmt.Sprintf("%d returns: e.err itself, or reached only under e.err == nil", n), true)
	}
}

// ---- C12.R5 ------------------------------------------------------------------

func ruleWorkingContextHalfEven(w *World, r *RuleResult) {
	halfEven := w.rounderConsts()["RoundHalfEven"]
	// Sqrt is not in the list: its iteration runs a fixed number of steps and the root is located exactly
	// afterwards (C11.R3), so the rounding mode of its steps cannot change the result
	for _, name := range []string{"(*Context).Cbrt", "(*Context).Ln", "(*Context).Log10", "(*Context).Exp", "(*Context).Pow"} {
		top := w.fn(name)
		if top == nil {
			r.anchorMissing(name)
			continue
		}
		for _, f := range w.closureFuncs(top) {
			for _, mk := range w.callsTo(f, "MakeErrDecimal") {
				base := basePtr(mk.Common().Args[0])
				ci := w.ctxCtor(base)
				if ci == nil {
					continue
				}
				key := fmt.Sprintf("%s | working context rounds half-even", w.shortName(f))
				if n := countKey(r, key); n > 0 {
					key = fmt.Sprintf("%s #%d", key, n+1)
				}
				if _, fromParam := ci.fromParam(); !fromParam {
					// derived from BaseContext: its mode does not depend on the caller
					if ci.fromBaseContext() {
						r.ok(key, w.instrPos(mk), "the working context is a copy of BaseContext (a round-to-nearest mode whatever the caller's)", true)
					}
					continue
				}
				stored := seenBefore(mk, func(in ssa.Instruction) bool {
					st, ok := in.(*ssa.Store)
					if !ok {
						return false
					}
					fa, ok := st.Addr.(*ssa.FieldAddr)
					return ok && basePtr(fa.X) == base && w.exprOf(f, st.Addr).Name == "Rounding" && w.exprOf(f, st.Val).String() == halfEven
				})
				if v, ok := ci.Consts["Rounding"]; ok && v == halfEven {
					stored = true // set by the constructor helper itself
				}
				if stored {
					r.ok(key, w.instrPos(mk), "Rounding = RoundHalfEven is stored into the copy before it is used", true)
				} else {
					r.bad(key, w.instrPos(mk), "the working context keeps the caller's rounding mode: under a directed mode every intermediate step is biased the same way, so a series term can stick at one unit of the working precision and never reach the stopping threshold (Ln(1.05) with MinExponent 0 under RoundUp does not return), and results drift")
				}
			}
		}
	}
}

// ---- C07.R7 ------------------------------------------------------------------

func ruleZeroClampStoresMax(w *World, r *RuleResult) {
	f := w.fn("(*Decimal).setExponent")
	if f == nil {
		r.anchorMissing("(*Decimal).setExponent")
		return
	}
	key := "(*Decimal).setExponent | clamped zero gets c.MaxExponent"
	clamped := w.conditionConsts()["Clamped"]
	// the final store of the exponent
	var final *ssa.Store
	for _, st := range storesIn(f) {
		if fa, ok := st.Addr.(*ssa.FieldAddr); ok && fa.X == ssa.Value(f.Params[0]) && w.exprOf(f, st.Addr).Name == "Exponent" {
			final = st
		}
	}
	if final == nil {
		r.anchorMissing("setExponent: store of d.Exponent")
		return
	}
	n := 0
	var bad []string
	for _, b := range f.Blocks {
		raises := false
		for _, in := range b.Instrs {
			if bo, ok := in.(*ssa.BinOp); ok && bo.Op == token.OR {
				for _, o := range []ssa.Value{bo.X, bo.Y} {
					if bits, isK := condBits(o); isK && bits == clamped {
						raises = true
					}
				}
			}
		}
		if !raises {
			continue
		}
		// only the over-range branch: guarded by a comparison > with c.MaxExponent
		over := false
		for _, g := range guardsAt(b) {
			if bo, ok := g.Cond.(*ssa.BinOp); ok && g.Val && bo.Op == token.GTR && strings.HasSuffix(w.exprOf(f, bo.Y).String(), ".MaxExponent") {
				over = true
			}
		}
		if !over {
			continue
		}
		n++
		// follow the unique successors to the block of the final store's φ
		v := final.Val
		phi, isPhi := v.(*ssa.Phi)
		if !isPhi {
			bad = append(bad, "the stored exponent does not depend on the branch taken")
			continue
		}
		cur, prev := b, b
		for steps := 0; cur != phi.Block() && steps < 8; steps++ {
			if len(cur.Succs) != 1 {
				break
			}
			prev, cur = cur, cur.Succs[0]
		}
		if cur != phi.Block() {
			bad = append(bad, "the path from the Clamped branch to the exponent store could not be followed")
			continue
		}
		okEdge := false
		for i, pb := range phi.Block().Preds {
			if pb == prev {
				if strings.Contains(w.exprOf(f, phi.Edges[i]).String(), ".MaxExponent") {
					okEdge = true
				}
			}
		}
		if !okEdge {
			bad = append(bad, fmt.Sprintf("Clamped is raised at %s but the exponent stored afterwards is not c.MaxExponent", w.instrPos(b.Instrs[0])))
		}
	}
	switch {
	case n == 0:
		r.ok(key, w.pos(f.Pos()), "no Clamped branch under v > c.MaxExponent found: this shape is not decided", false)
	case len(bad) > 0:
		r.bad(key, w.pos(f.Pos()), joinStrings(bad)+": a zero result keeps an exponent above MaxExponent (Mul(0E+8, 1E+8) with MaxExponent 10 gives 0E+16)")
	default:
		r.ok(key, w.pos(f.Pos()), "on the Clamped branch the stored exponent is c.MaxExponent", true)
	}
}

// ---- C09.R7 ------------------------------------------------------------------

func ruleQuantizeAllGuards(w *World, r *RuleResult) {
	f := w.fn("(*Context).Quantize")
	if f == nil {
		r.anchorMissing("(*Context).Quantize")
		return
	}
	key := "(*Context).Quantize | a number is delivered only past every guard"
	paths, ok := enumPaths(f, 100000)
	if !ok {
		r.undecided(key, w.pos(f.Pos()), "Quantize is not loop-free or has too many paths")
		return
	}
	nan := map[ssa.Instruction]bool{}
	for _, c := range w.sharedSetSites(f, "decimalNaN") {
		nan[c] = true
	}
	for _, c := range w.callsTo(f, "(*Context).setAsNaN") {
		nan[c] = true
	}
	inf := w.formConsts()["Infinite"]
	n := 0
	var bad []string
	for _, p := range paths {
		isNaN := false
		for _, b := range p.Blocks {
			for _, in := range b.Instrs {
				if nan[in] {
					isNaN = true
				}
			}
		}
		if isNaN || w.isErrorReturn(p.Ret) {
			continue
		}
		n++
		gInf, gTiny, gMax := false, false, false
		for _, d := range p.Decisions {
			bo, isB := d.Cond.(*ssa.BinOp)
			if !isB {
				continue
			}
			l, rr := w.exprOf(f, bo.X).String(), w.exprOf(f, bo.Y).String()
			switch {
			case strings.HasSuffix(l, ".Form") && (bo.Op == token.EQL || bo.Op == token.NEQ):
				if k, isK := bo.Y.(*ssa.Const); isK && ci(k) == inf && (bo.Op == token.EQL) != d.Val {
					gInf = true
				}
			case bo.Op == token.LSS && !d.Val && strings.Contains(rr, "etiny"):
				gTiny = true
			case bo.Op == token.GTR && !d.Val && strings.HasSuffix(rr, ".MaxExponent") && !strings.Contains(l, "NumDigits"):
				gMax = true
			}
		}
		var miss []string
		if !gInf {
			miss = append(miss, "x.Form == Infinite")
		}
		if !gTiny {
			miss = append(miss, "exp < etiny")
		}
		if !gMax {
			miss = append(miss, "exp > c.MaxExponent")
		}
		if len(miss) > 0 {
			bad = append(bad, fmt.Sprintf("the return at %s delivers a number on a path that never tested %s", w.instrPos(p.Ret), strings.Join(miss, ", ")))
		}
	}
	if len(bad) > 0 {
		r.bad(key, w.pos(f.Pos()), joinStrings(bad)+": a target exponent outside the context's range is accepted (Quantize(0E+11, 11) with MaxExponent 10 gives 0E+10 Clamped instead of NaN)")
	} else {
		r.ok(key, w.pos(f.Pos()), fmt.Sprintf("%d number-delivering paths; each took all three guards on their false side", n), n > 0)
	}
	// the over/underflow test reads the accumulated flags
	key = "(*Context).Quantize | range test reads quantize's own flags too"
	var qcalls []ssa.Value
	for _, c := range w.callsTo(f, "(*Context).quantize") {
		qcalls = append(qcalls, c)
	}
	tested := 0
	okAll := true
	for _, c := range callsIn(f) {
		cn := w.calleeName(c)
		if cn != "(Condition).Overflow" && cn != "(Condition).Underflow" {
			continue
		}
		tested++
		has := false
		w.exprOf(f, c.Common().Args[0]).walk(func(x *Expr) bool {
			for _, q := range qcalls {
				if x.V == q {
					has = true
				}
			}
			return !has
		})
		if !has {
			okAll = false
		}
	}
	switch {
	case tested == 0 || len(qcalls) == 0:
		r.ok(key, w.pos(f.Pos()), "no Overflow()/Underflow() test on flags in this shape: not decided", false)
	case okAll:
		r.ok(key, w.pos(f.Pos()), "the tested flags include the result of quantize", true)
	default:
		r.bad(key, w.pos(f.Pos()), "the Overflow/Underflow test that turns the result into NaN + InvalidOperation looks at the final rounding's flags only: the Underflow quantize itself reports for an exponent gap beyond the package limit leaks out with a finite result")
	}
}

// ---- C10.R3 ------------------------------------------------------------------

func ruleUpscaleGap(w *World, r *RuleResult) {
	f := w.fn("upscale")
	if f == nil {
		r.anchorMissing("upscale")
		return
	}
	key := "upscale | exponent gap limit"
	maxE, okM := int64(0), false
	if c, isC := w.SSA.Members["MaxExponent"].(*ssa.NamedConst); isC {
		maxE, okM = ci(c.Value), true
	}
	if !okM {
		r.anchorMissing("MaxExponent")
		return
	}
	n := 0
	var bad []string
	// upscale and the unexported error-returning helpers the test may have been moved into
	top := f
	scope := []*ssa.Function{top}
	for _, ci := range callsIn(top) {
		if h := callee(ci); h != nil && w.inPkg(h) && h != top && len(h.Blocks) > 0 && (h.Object() == nil || !h.Object().Exported()) {
			res := h.Signature.Results()
			if res.Len() > 0 && isErrorType(res.At(res.Len()-1).Type()) {
				scope = append(scope, h)
			}
		}
	}
	for _, f := range scope {
		for _, b := range f.Blocks {
			rt, ok := b.Instrs[len(b.Instrs)-1].(*ssa.Return)
			if !ok || !w.isErrorReturn(rt) {
				continue
			}
			// a failure handed up from a helper of the scope is judged at the helper's own failing return
			delegated := false
			for _, g := range guardsAt(b) {
				if bo, isB := g.Cond.(*ssa.BinOp); isB && (bo.Op == token.NEQ) == g.Val {
					for _, o := range []ssa.Value{bo.X, bo.Y} {
						var hc *ssa.Call
						switch x := o.(type) {
						case *ssa.Call:
							hc = x
						case *ssa.Extract:
							hc, _ = x.Tuple.(*ssa.Call)
						}
						if hc != nil {
							for _, h := range scope[1:] {
								if callee(hc) == h {
									delegated = true
								}
							}
						}
					}
				}
			}
			if delegated {
				continue
			}
			n++
			good := false
			tooLow := ""
			var seen []string
			for _, g := range guardsAt(b) {
				bo, isB := g.Cond.(*ssa.BinOp)
				if !isB {
					continue
				}
				seen = append(seen, w.exprOf(f, g.Cond).String())
				k, isK := bo.Y.(*ssa.Const)
				if !isK || !g.Val || (bo.Op != token.GTR && bo.Op != token.GEQ) {
					continue
				}
				// the compared value: a difference of the two (converted) Exponent loads, possibly plus a constant;
				// the effective bound on the difference must be at least 2·MaxExponent — the exponents of two
				// operands inside the package limits differ by up to that much (Add(1E+100000, 1E-100000) has a
				// result, 1.0000E+100000 at Precision 5). Whether the difference is taken before or after the
				// operands are ordered does not matter below that bound: a negative difference is never refused.
				x, off := bo.X, int64(0)
				if add, isAdd := x.(*ssa.BinOp); isAdd && (add.Op == token.ADD || add.Op == token.SUB) {
					if kc, isKC := add.Y.(*ssa.Const); isKC && kc.Value != nil {
						x = add.X
						off = ci(kc)
						if add.Op == token.SUB {
							off = -off
						}
					}
				}
				// the whole difference handed to a helper as a parameter: it is judged at the helper's call sites in
				// upscale, each of which must pass a difference of the two Exponent fields
				if pr, isP := x.(*ssa.Parameter); isP && f != top {
					idx := -1
					for i, q := range f.Params {
						if q == pr {
							idx = i
						}
					}
					sites := 0
					allDiff := idx >= 0
					for _, cs := range callsIn(top) {
						if callee(cs) != f || idx >= len(cs.Common().Args) {
							continue
						}
						sites++
						d, isD := cs.Common().Args[idx].(*ssa.BinOp)
						if !isD || d.Op != token.SUB || !strings.Contains(w.exprOf(top, d.X).String(), ".Exponent") || !strings.Contains(w.exprOf(top, d.Y).String(), ".Exponent") {
							allDiff = false
						}
					}
					if allDiff && sites > 0 {
						bound := ci(k) - off
						if bo.Op == token.GEQ {
							bound--
						}
						if bound >= 2*maxE {
							good = true
						} else {
							tooLow = fmt.Sprintf("%s refuses gaps above %d, but two operands within the limits can be %d apart", w.exprOf(f, g.Cond).String(), bound, 2*maxE)
						}
					}
					continue
				}
				sub, isSub := x.(*ssa.BinOp)
				if !isSub || sub.Op != token.SUB {
					continue
				}
				// a difference of two exponents: Exponent fields, or an exponent handed in as an integer parameter
				isDiff, fields := true, 0
				for _, o := range []ssa.Value{sub.X, sub.Y} {
					e := w.exprOf(f, o)
					if strings.Contains(e.String(), ".Exponent") {
						fields++
						continue
					}
					intParam := false
					e.walk(func(x *Expr) bool {
						if pr, isP := x.V.(*ssa.Parameter); isP && x.Op == "param" {
							if bt, isBasic := pr.Type().Underlying().(*types.Basic); isBasic && bt.Info()&types.IsInteger != 0 {
								intParam = true
							}
						}
						return true
					})
					if !intParam {
						isDiff = false
					}
				}
				if fields == 0 {
					isDiff = false
				}
				if !isDiff {
					continue
				}
				// D + off > K  ⇔  D > K − off ;  D + off >= K  ⇔  D > K − off − 1
				bound := ci(k) - off
				if bo.Op == token.GEQ {
					bound--
				}
				if bound < 2*maxE {
					tooLow = fmt.Sprintf("the alignment refuses exponent gaps above %d: the exponents of two operands inside the package limits differ by up to %d, so Add(1E+100000, 1E-100000) fails with 'exponent out of range' and no result although 1.0000E+100000 (Inexact, Rounded) is required", bound, 2*maxE)
					continue
				}
				good = true
			}
			if !good && tooLow != "" {
				bad = append(bad, tooLow+fmt.Sprintf(" (the failing return at %s)", w.instrPos(rt)))
			} else if !good {
				bad = append(bad, fmt.Sprintf("the failing return at %s is under %s", w.instrPos(rt), short(strings.Join(seen, " ∧ "), 160)))
			}
		}
	}
	f = top
	switch {
	case n == 0:
		r.ok(key, w.pos(f.Pos()), "upscale has no failing return", true)
	case len(bad) > 0:
		r.bad(key, w.pos(f.Pos()), joinStrings(bad)+": the only failing test must compare the difference of the two exponents with a bound of at least 2·MaxExponent — otherwise gaps that well-formed operands have are rejected")
	default:
		r.ok(key, w.pos(f.Pos()), "fails only under (ordered exponent difference) > a bound of at least 2·MaxExponent", true)
	}
}

// ---- C14.R10 -----------------------------------------------------------------

func rulePlusOverridesSpace(w *World, r *RuleResult) {
	f := w.fn("(*Decimal).Format")
	if f == nil {
		r.anchorMissing("(*Decimal).Format")
		return
	}
	key := "(*Decimal).Format | '+' overrides ' '"
	isFlag := func(v ssa.Value, ch int64) bool {
		c, ok := v.(*ssa.Call)
		if !ok || !c.Common().IsInvoke() || c.Common().Method.Name() != "Flag" || len(c.Common().Args) != 1 {
			return false
		}
		k, isK := c.Common().Args[0].(*ssa.Const)
		return isK && ci(k) == ch
	}
	n := 0
	var bad []string
	for _, b := range f.Blocks {
		for _, in := range b.Instrs {
			phi, ok := in.(*ssa.Phi)
			if !ok {
				continue
			}
			for i, e := range phi.Edges {
				k, isK := e.(*ssa.Const)
				if !isK {
					continue
				}
				if s, okS := strConst(k); !okS || s != " " {
					continue
				}
				n++
				pred := b.Preds[i]
				okG := false
				gs := guardsAt(pred)
				gs = append(gs, edgeGuards(pred, b)...)
				for _, g := range gs {
					if isFlag(g.Cond, '+') && !g.Val {
						okG = true
					}
					// the (unused for decimals) branch that replaces a '+' written by the formatter itself
					if bo, isB := g.Cond.(*ssa.BinOp); isB && g.Val && bo.Op == token.EQL {
						if kk, isKK := bo.Y.(*ssa.Const); isKK && ci(kk) == '+' {
							okG = true
						}
					}
				}
				if !okG {
					bad = append(bad, fmt.Sprintf("the sign becomes \" \" on the edge from %s without Flag('+') having been found false", w.instrPos(pred.Instrs[len(pred.Instrs)-1])))
				}
			}
		}
	}
	switch {
	case n == 0:
		r.ok(key, w.pos(f.Pos()), "no choice of a \" \" sign found: this shape is not decided", false)
	case len(bad) > 0:
		r.bad(key, w.pos(f.Pos()), joinStrings(bad)+": with both flags fmt prints '+' (%+ G of 1.5 must be \"+1.5\")")
	default:
		r.ok(key, w.pos(f.Pos()), "\" \" is chosen only where Flag('+') is false", true)
	}
}

func init() {
	register(&Rule{ID: "C11.R3", Min: 1,
		Text: "Sqrt does not simply round its Newton iterate: where the iteration is used, the last digit and the Inexact flag are decided by exact comparisons with the (scaled) operand — a product x·x formed under BaseContext (no digit limit) is compared with the operand copy both to choose between the truncated candidate and its successor and to set Inexact",
		Run:  ruleSqrtExactLastDigit})
}

func ruleSqrtExactLastDigit(w *World, r *RuleResult) {
	f := w.fn("(*Context).Sqrt")
	if f == nil {
		r.anchorMissing("(*Context).Sqrt")
		return
	}
	key := "(*Context).Sqrt | last digit and Inexact decided against the operand"
	// only for the Newton shape: a loop dividing the operand copy by the iterate
	newton := false
	for _, body := range loopsOf(f) {
		for b := range body {
			for _, in := range b.Instrs {
				if c, ok := in.(*ssa.Call); ok && w.calleeName(c) == "(*ErrDecimal).Quo" {
					newton = true
				}
			}
		}
	}
	if !newton {
		r.ok(key, w.pos(f.Pos()), "Sqrt is not computed by a Newton iteration here: this shape is not decided", false)
		return
	}
	di, xi := destArgIndex(w, f), -1
	for i, p := range f.Params {
		if i != di && isDecimalPtr(p.Type()) {
			xi = i
		}
	}
	// copies of the operand
	copies := map[ssa.Value]bool{}
	for _, c := range w.callsTo(f, "(*Decimal).Set") {
		if xi >= 0 && c.Common().Args[1] == ssa.Value(f.Params[xi]) {
			copies[basePtr(c.Common().Args[0])] = true
		}
	}
	steersIncr, steersInexact := false, false
	var limited, viaMul []string
	nCmps := 0
	inexact := w.conditionConsts()["Inexact"]
	// boolSteersInexact: in the caller, the boolean v decides whether Inexact is or-ed in
	boolSteersInexact := func(v ssa.Value) bool {
		for _, b := range f.Blocks {
			for _, in := range b.Instrs {
				bo, isB := in.(*ssa.BinOp)
				if !isB || bo.Op != token.OR {
					continue
				}
				for _, o := range []ssa.Value{bo.X, bo.Y} {
					if bits, isK := condBits(o); isK && bits&inexact != 0 {
						for _, g := range guardsAt(b) {
							if w.condMentions(g.Cond, v) {
								return true
							}
						}
					}
				}
			}
		}
		return false
	}
	analyse := func(hf *ssa.Function, copies map[ssa.Value]bool, viaCall *ssa.Call) {
		// exact squares: Mul(dst, v, v) on an ErrDecimal made from BaseContext itself
		squares := map[ssa.Value]bool{}
		for _, m := range w.callsTo(hf, "(*ErrDecimal).Mul") {
			a := m.Common().Args
			if len(a) != 4 || basePtr(a[2]) != basePtr(a[3]) {
				continue
			}
			for _, mk := range w.callsTo(hf, "MakeErrDecimal") {
				if gl, isG := basePtr(mk.Common().Args[0]).(*ssa.Global); isG && gl.Name() == "BaseContext" && w.sameErrDecimal(hf, a[0], mk) {
					squares[basePtr(a[1])] = true
				}
			}
		}
		// comparisons operand-copy vs exact square
		var cmps []*ssa.Call
		_ = cmps
		for _, c := range w.callsTo(hf, "(*Decimal).Cmp") {
			a0, a1 := basePtr(c.Common().Args[0]), basePtr(c.Common().Args[1])
			if (copies[a0] && squares[a1]) || (copies[a1] && squares[a0]) {
				cmps = append(cmps, c)
			}
		}
		// or through an exact integer power comparison cmp(v, 2, operand copy)
		for _, pc := range w.exactPowerCmps(hf, 2) {
			if copies[pc.x] {
				cmps = append(cmps, pc.call)
			}
		}
		// one comparison steers an increment of a coefficient, one steers the Inexact flag
		for _, c := range cmps {
			for _, b := range hf.Blocks {
				iff, isIf := b.Instrs[len(b.Instrs)-1].(*ssa.If)
				if !isIf || !w.condMentions(iff.Cond, c) {
					continue
				}
				for _, sc := range b.Succs {
					for _, in := range sc.Instrs {
						ac, isCall := in.(*ssa.Call)
						if !isCall {
							continue
						}
						switch w.calleeName(ac) {
						case "(*BigInt).Add":
							steersIncr = true
						case "(*ErrDecimal).Add", "(*ErrDecimal).Sub", "(*Decimal).Set":
							// the candidate is moved to its neighbour: v = v ± ulp, v = next
							steersIncr = true
						}
					}
				}
			}
			// the comparison's outcome reaches an OR with Inexact (possibly through a bool local)
			for _, b := range hf.Blocks {
				for _, in := range b.Instrs {
					bo, isB := in.(*ssa.BinOp)
					if !isB || bo.Op != token.OR {
						continue
					}
					for _, o := range []ssa.Value{bo.X, bo.Y} {
						if bits, isK := condBits(o); isK && bits&inexact != 0 {
							for _, g := range guardsAt(b) {
								if w.condMentions(g.Cond, c) {
									steersInexact = true
								}
								// through a boolean: inexact := sq.Cmp(&f) != 0 ; if inexact {...}
								if cmpBo, isC := g.Cond.(*ssa.BinOp); isC && w.condMentions(cmpBo, c) {
									steersInexact = true
								}
								// through a boolean set under the comparison: if sq.Cmp(&f) != 0 { inexact = true … } ; if inexact {...}
								if phi, isPhi := g.Cond.(*ssa.Phi); isPhi {
									for ei, e := range phi.Edges {
										k, isK := e.(*ssa.Const)
										if !isK || constBoolTrue(k) != g.Val {
											continue
										}
										pred := phi.Block().Preds[ei]
										for _, pg := range append(edgeGuards(pred, phi.Block()), guardsAt(pred)...) {
											if w.condMentions(pg.Cond, c) {
												steersInexact = true
											}
										}
									}
								}
							}
							for _, pb := range b.Preds {
								for _, g := range edgeGuards(pb, b) {
									if w.condMentions(g.Cond, c) {
										steersInexact = true
									}
								}
							}
						}
					}
				}
			}
		}
		// a boolean φ of the comparison guarding the OR
		if !steersInexact {
			for _, c := range cmps {
				if refs := c.Referrers(); refs != nil {
					for _, u := range *refs {
						if bo, isB := u.(*ssa.BinOp); isB && (bo.Op == token.NEQ || bo.Op == token.EQL) {
							for _, blk := range hf.Blocks {
								iff, isIf := blk.Instrs[len(blk.Instrs)-1].(*ssa.If)
								if !isIf || !w.condMentions(iff.Cond, bo) {
									continue
								}
								for _, sc := range blk.Succs {
									for _, in := range sc.Instrs {
										if ob, isO := in.(*ssa.BinOp); isO && ob.Op == token.OR {
											for _, o := range []ssa.Value{ob.X, ob.Y} {
												if bits, isK := condBits(o); isK && bits&inexact != 0 {
													steersInexact = true
												}
											}
										}
									}
								}
							}
						}
					}
				}
			}
		}
		// a boolean set under the comparison and handed to an unexported helper that raises Inexact under it
		// (roundRoot(d, v, inexact))
		if !steersInexact {
			for _, c := range cmps {
				for _, b := range hf.Blocks {
					for _, in := range b.Instrs {
						phi, isPhi := in.(*ssa.Phi)
						if !isPhi || phi.Type().String() != "bool" {
							continue
						}
						set := false
						for ei, e := range phi.Edges {
							if k, isK := e.(*ssa.Const); !isK || !constBoolTrue(k) {
								continue
							}
							pred := phi.Block().Preds[ei]
							for _, pg := range append(edgeGuards(pred, phi.Block()), guardsAt(pred)...) {
								if w.condMentions(pg.Cond, c) {
									set = true
								}
							}
						}
						if !set {
							continue
						}
						// the boolean and the φs that merge it with other values further down
						derived := map[ssa.Value]bool{phi: true}
						for grew := true; grew; {
							grew = false
							for _, ob := range hf.Blocks {
								for _, oin := range ob.Instrs {
									op, isP := oin.(*ssa.Phi)
									if !isP || derived[op] {
										continue
									}
									for _, e := range op.Edges {
										if derived[e] {
											derived[op] = true
											grew = true
										}
									}
								}
							}
						}
						for _, ci := range callsIn(hf) {
							hc, isC := ci.(*ssa.Call)
							if !isC {
								continue
							}
							h := callee(hc)
							if h == nil || !w.inPkg(h) || len(h.Blocks) == 0 || (h.Object() != nil && h.Object().Exported()) {
								continue
							}
							for ai, a := range hc.Common().Args {
								if derived[a] && ai < len(h.Params) && w.raisesInexactUnder(h, h.Params[ai]) {
									steersInexact = true
								}
							}
						}
					}
				}
			}
		}
		// the exact location must not be skipped for some results: a comparison site guarded by the context's
		// exponent limits means that results outside the normal range (subnormal ones) are rounded from the
		// iterate after all, twice
		for _, c := range cmps {
			for _, g := range guardsAt(c.Block()) {
				for l := range w.exprOf(hf, g.Cond).leaves() {
					if strings.HasSuffix(l, ".MinExponent") || strings.HasSuffix(l, ".MaxExponent") {
						limited = append(limited, w.instrPos(c)+" under "+short(w.exprOf(hf, g.Cond).String(), 80))
					}
				}
			}
		}
		// … and must not itself be subject to the exponent limits: the square of a Precision-digit candidate,
		// formed by a Decimal multiplication, has twice its exponent
		for _, c := range cmps {
			if w.calleeName(c) == "(*Decimal).Cmp" {
				viaMul = append(viaMul, w.instrPos(c))
			}
		}

		// the helper's boolean result, set under the comparison, decides Inexact in the caller
		if viaCall != nil && !steersInexact {
			for _, c := range cmps {
				for _, hb := range hf.Blocks {
					rt, isRet := hb.Instrs[len(hb.Instrs)-1].(*ssa.Return)
					if !isRet {
						continue
					}
					for ri, rv := range rt.Results {
						if rv.Type().String() != "bool" {
							continue
						}
						steered := w.condMentions(rv, c)
						if phi, isPhi := rv.(*ssa.Phi); isPhi && !steered {
							for ei := range phi.Edges {
								pred := phi.Block().Preds[ei]
								for _, pg := range append(edgeGuards(pred, phi.Block()), guardsAt(pred)...) {
									if w.condMentions(pg.Cond, c) {
										steered = true
									}
								}
							}
						}
						if !steered {
							for _, pg := range guardsAt(hb) {
								if w.condMentions(pg.Cond, c) {
									steered = true
								}
							}
						}
						if !steered {
							continue
						}
						// the caller's use of result #ri
						if refs := viaCall.Referrers(); refs != nil {
							for _, u := range *refs {
								if ex, isEx := u.(*ssa.Extract); isEx && ex.Index == ri && boolSteersInexact(ex) {
									steersInexact = true
								}
							}
						}
						if hf.Signature.Results().Len() == 1 && boolSteersInexact(viaCall) {
							steersInexact = true
						}
					}
				}
			}
		}
		nCmps += len(cmps)
	}
	analyse(f, copies, nil)
	// the location may be delegated to an unexported helper that is handed the operand copy
	for _, ci := range callsIn(f) {
		hc, isC := ci.(*ssa.Call)
		if !isC {
			continue
		}
		h := callee(hc)
		if h == nil || !w.inPkg(h) || len(h.Blocks) == 0 || (h.Object() != nil && h.Object().Exported()) || len(h.Params) != len(hc.Common().Args) {
			continue
		}
		hcopies := map[ssa.Value]bool{}
		for j, a := range hc.Common().Args {
			if copies[basePtr(a)] {
				hcopies[ssa.Value(h.Params[j])] = true
			}
		}
		if len(hcopies) > 0 {
			analyse(h, hcopies, hc)
		}
	}
	cmps := make([]int, nCmps)
	switch {
	case len(cmps) >= 2 && steersIncr && steersInexact && len(limited) > 0:
		r.bad(key, w.pos(f.Pos()), "the exact decision of the last digit is made only under a test of the context's exponent range ("+strings.Join(uniqStrings(limited), "; ")+"): a result that is subnormal for the context is rounded from the iterate, twice (Sqrt(0.00999999) at Precision 7, MinExponent -1 = 0.1000000; Sqrt(0.9999999998) at Precision 12, MinExponent 0 without Inexact)")
	case len(cmps) >= 2 && steersIncr && steersInexact && len(viaMul) > 0:
		r.bad(key, w.pos(f.Pos()), "the candidate's square is formed by a Decimal multiplication ("+strings.Join(uniqStrings(viaMul), ", ")+"): its exponent is twice the candidate's and leaves the package range from Precision 50000 on, so Sqrt(4) fails with 'exponent out of range' there; compare on the integer coefficients")
	case len(cmps) >= 2 && steersIncr && steersInexact:
		r.ok(key, w.pos(f.Pos()), fmt.Sprintf("%d exact comparisons of the operand copy with a square formed under BaseContext: one chooses between the truncated candidate and its successor, one sets Inexact", len(cmps)), true)
	default:
		r.bad(key, w.pos(f.Pos()), fmt.Sprintf("the iterate is rounded without being checked against the operand (exact comparisons found: %d, one steers the last digit: %v, one steers Inexact: %v): when the root lies just below a rounding midpoint or a representable value the iterate can be that very point, and rounding it resolves a tie that does not exist (Sqrt(0.9999999) at Precision 7 = 1.000000; Sqrt(0.999999998) at Precision 9 reported exact)", len(cmps), steersIncr, steersInexact))
	}
}

// raisesInexactUnder: in h, a constant carrying Inexact is or-ed in, or chosen
// by a φ, under a branch on the boolean parameter p.
func (w *World) raisesInexactUnder(h *ssa.Function, p *ssa.Parameter) bool {
	inexact := w.conditionConsts()["Inexact"]
	for _, b := range h.Blocks {
		for _, in := range b.Instrs {
			switch x := in.(type) {
			case *ssa.BinOp:
				if x.Op != token.OR {
					continue
				}
				for _, o := range []ssa.Value{x.X, x.Y} {
					if bits, isK := condBits(o); isK && bits&inexact != 0 {
						for _, g := range guardsAt(b) {
							if g.Val && w.condMentions(g.Cond, p) {
								return true
							}
						}
					}
				}
			case *ssa.Phi:
				for ei, e := range x.Edges {
					if bits, isK := condBits(e); isK && bits&inexact != 0 {
						pred := x.Block().Preds[ei]
						for _, g := range append(edgeGuards(pred, x.Block()), guardsAt(pred)...) {
							if g.Val && w.condMentions(g.Cond, p) {
								return true
							}
						}
					}
				}
			}
		}
	}
	return false
}
