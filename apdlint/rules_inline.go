package main

import (
	"fmt"
	"go/token"
	"go/types"
	"sort"

	"golang.org/x/tools/go/ssa"
)

func init() {
	register(&Rule{ID: "C16.R5", Min: 4,
		Text: "the inline word array is handled whole on every architecture (2 words on 64-bit, 4 on 32-bit): in the code that is live for the analysed GOARCH, a function that touches z._inline by constant index only touches every index, and a loop over z._inline runs over the full length (its bound is the array length, or index >= 0 when counting down)",
		Run:  ruleInlineArrayWhole})
}

// liveBlocks: blocks reachable from the entry when `if <constant>` edges are
// resolved (go/ssa keeps both arms of `if inlineWords == 2`).
func liveBlocks(f *ssa.Function) map[*ssa.BasicBlock]bool {
	live := map[*ssa.BasicBlock]bool{}
	if len(f.Blocks) == 0 {
		return live
	}
	var walk func(b *ssa.BasicBlock)
	walk = func(b *ssa.BasicBlock) {
		if live[b] {
			return
		}
		live[b] = true
		if iff, ok := b.Instrs[len(b.Instrs)-1].(*ssa.If); ok {
			if k, isK := iff.Cond.(*ssa.Const); isK && k.Value != nil {
				if boolConst(k) {
					walk(b.Succs[0])
				} else {
					walk(b.Succs[1])
				}
				return
			}
		}
		for _, s := range b.Succs {
			walk(s)
		}
	}
	walk(f.Blocks[0])
	return live
}

func ruleInlineArrayWhole(w *World, r *RuleResult) {
	isInlineArr := func(v ssa.Value) (int64, bool) {
		fa, ok := v.(*ssa.FieldAddr)
		if !ok || !typeIs(fa.X.Type(), apdPath, "BigInt") {
			return 0, false
		}
		pt, ok := fa.Type().Underlying().(*types.Pointer)
		if !ok {
			return 0, false
		}
		at, ok := pt.Elem().Underlying().(*types.Array)
		if !ok {
			return 0, false
		}
		return at.Len(), true
	}
	type acc struct {
		consts   map[int64]bool
		variable bool
		whole    bool
		n        int64
		pos      string
	}
	type scanRes struct {
		accs     map[ssa.Value]*acc
		loopsBad []string
		nLoops   int
	}
	scans := map[*ssa.Function]*scanRes{}
	var scan func(f *ssa.Function) *scanRes
	scan = func(f *ssa.Function) *scanRes {
		if sr, ok := scans[f]; ok {
			return sr
		}
		live := liveBlocks(f)
		// per receiver/base object
		accs := map[ssa.Value]*acc{}
		var loopsBad []string
		nLoops := 0
		for _, b := range f.Blocks {
			if !live[b] {
				continue
			}
			for _, in := range b.Instrs {
				switch x := in.(type) {
				case *ssa.IndexAddr:
					n, ok := isInlineArr(x.X)
					if !ok {
						continue
					}
					base := basePtr(x.X)
					a := accs[base]
					if a == nil {
						a = &acc{consts: map[int64]bool{}, n: n, pos: w.instrPos(x)}
						accs[base] = a
					}
					if k, isK := x.Index.(*ssa.Const); isK {
						// an element address that is not just loaded/stored (handed to unsafe/SetBits) stands for the array
						escapes := false
						if refs := x.Referrers(); refs != nil {
							for _, u := range *refs {
								switch y := u.(type) {
								case *ssa.Store:
									if y.Addr != ssa.Value(x) {
										escapes = true
									}
								case *ssa.UnOp:
								case *ssa.DebugRef:
								default:
									escapes = true
								}
							}
						}
						if escapes {
							a.whole = true
						}
						a.consts[ci(k)] = true
						continue
					}
					a.variable = true
					// the loop that drives this index
					nLoops++
					if why := w.indexLoopBound(x.Index, n); why != "" {
						loopsBad = append(loopsBad, fmt.Sprintf("%s at %s", why, w.instrPos(x)))
					}
				case *ssa.Slice:
					if n, ok := isInlineArr(x.X); ok {
						base := basePtr(x.X)
						a := accs[base]
						if a == nil {
							a = &acc{consts: map[int64]bool{}, n: n, pos: w.instrPos(x)}
							accs[base] = a
						}
						a.whole = true
					}
				case *ssa.UnOp:
					// *(&z._inline): whole-array load (copy / comparison)
					if x.Op == token.MUL {
						if n, ok := isInlineArr(x.X); ok {
							base := basePtr(x.X)
							a := accs[base]
							if a == nil {
								a = &acc{consts: map[int64]bool{}, n: n, pos: w.instrPos(x)}
								accs[base] = a
							}
							a.whole = true
						}
					}
				case *ssa.Store:
					if n, ok := isInlineArr(x.Addr); ok {
						base := basePtr(x.Addr)
						a := accs[base]
						if a == nil {
							a = &acc{consts: map[int64]bool{}, n: n, pos: w.instrPos(x)}
							accs[base] = a
						}
						a.whole = true
					}
				}
			}
		}
		sr := &scanRes{accs: accs, loopsBad: loopsBad, nLoops: nLoops}
		scans[f] = sr
		return sr
	}
	// merged: the words of the object `base` that f handles itself or through the in-package functions it
	// hands the object to (a helper split off for one half of the words is part of its caller's handling)
	var merged func(f *ssa.Function, base ssa.Value, depth int) (map[int64]bool, bool)
	merged = func(f *ssa.Function, base ssa.Value, depth int) (map[int64]bool, bool) {
		out := map[int64]bool{}
		sr := scan(f)
		if a := sr.accs[base]; a != nil {
			// at the top level a whole-array access (copy, comparison, escaping element address) settles it; a
			// callee vouches only with a loop over the words or with the words it names — `inner` handing the
			// array to math/big on the slow path says nothing about the words the fast path looks at
			if a.variable || a.whole && depth == 0 {
				return out, true
			}
			for k := range a.consts {
				out[k] = true
			}
		}
		if depth > 3 {
			return out, false
		}
		live := liveBlocks(f)
		for _, b := range f.Blocks {
			if !live[b] {
				continue
			}
			for _, in := range b.Instrs {
				c, ok := in.(ssa.CallInstruction)
				if !ok {
					continue
				}
				g := callee(c)
				if g == nil || !w.inPkg(g) || g.Blocks == nil {
					continue
				}
				for i, a := range c.Common().Args {
					if i < len(g.Params) && basePtr(a) == base && typeIs(a.Type(), apdPath, "BigInt") {
						m, full := merged(g, g.Params[i], depth+1)
						if full {
							return out, true
						}
						for k := range m {
							out[k] = true
						}
					}
				}
			}
		}
		return out, false
	}
	complete := func(m map[int64]bool, full bool, n int64) bool {
		if full {
			return true
		}
		for i := int64(0); i < n; i++ {
			if !m[i] {
				return false
			}
		}
		return true
	}
	for _, name := range w.Names {
		f := w.Funcs[name]
		sr := scan(f)
		accs, loopsBad, nLoops := sr.accs, sr.loopsBad, sr.nLoops
		if len(accs) == 0 {
			continue
		}
		key := name + " | inline words handled whole"
		var bad []string
		for base, a := range accs {
			if a.variable || a.whole || len(a.consts) == 0 {
				continue
			}
			// the lowest word alone is a legitimate partial view (parity of the value)
			if len(a.consts) == 1 && a.consts[0] {
				continue
			}
			// the other words are handled by a helper this function hands the object to
			if m, full := merged(f, base, 0); complete(m, full, a.n) {
				continue
			}
			// or this is such a helper: unexported, the object is its parameter, and every caller handles the
			// remaining words of the object it passes
			if prm, isParam := base.(*ssa.Parameter); isParam && f.Object() != nil && !f.Object().Exported() {
				idx := -1
				for i, q := range f.Params {
					if q == prm {
						idx = i
					}
				}
				callers := w.callersOf(f)
				allOK := idx >= 0 && len(callers) > 0
				for _, c := range callers {
					if !allOK {
						break
					}
					// only a sibling helper can vouch for the words this one leaves out (the function it was
					// split off), not the exported methods that use the pair
					if po := c.Parent().Object(); po == nil || po.Exported() {
						allOK = false
						break
					}
					if idx >= len(c.Common().Args) {
						allOK = false
						break
					}
					m, full := merged(c.Parent(), basePtr(c.Common().Args[idx]), 0)
					if !complete(m, full, a.n) {
						allOK = false
					}
				}
				if allOK {
					continue
				}
			}
			var missing []string
			for i := int64(0); i < a.n; i++ {
				if !a.consts[i] {
					missing = append(missing, fmt.Sprint(i))
				}
			}
			if len(missing) > 0 {
				var have []string
				for i := range a.consts {
					have = append(have, fmt.Sprint(i))
				}
				sort.Strings(have)
				bad = append(bad, fmt.Sprintf("on GOARCH=%s the inline array has %d words but only word(s) %v are touched (never %v) and there is no loop over the array: code unrolled for the two-word layout is live here (first access at %s)", w.Arch, a.n, have, missing, a.pos))
			}
		}
		bad = append(bad, loopsBad...)
		if len(bad) > 0 {
			sort.Strings(bad)
			r.bad(key, w.pos(f.Pos()), joinStrings(bad))
		} else {
			r.ok(key, w.pos(f.Pos()), fmt.Sprintf("%d object(s) with inline-word accesses, %d index loop(s); all whole on GOARCH=%s", len(accs), nLoops, w.Arch), true)
		}
	}
}

// indexLoopBound: idx is a loop-carried index (φ); every comparison of it with
// a constant that controls the loop must leave the full range 0..n-1
// reachable. Returns a description of the defect, or "".
func (w *World) indexLoopBound(idx ssa.Value, n int64) string {
	phi, ok := idx.(*ssa.Phi)
	if !ok {
		return "" // computed index: not a plain loop
	}
	refs := phi.Referrers()
	if refs == nil {
		return ""
	}
	for _, u := range *refs {
		bo, isB := u.(*ssa.BinOp)
		if !isB || bo.X != ssa.Value(phi) {
			continue
		}
		k, isK := bo.Y.(*ssa.Const)
		if !isK {
			continue
		}
		// only comparisons that steer a branch
		steers := false
		if br := bo.Referrers(); br != nil {
			for _, x := range *br {
				if _, isIf := x.(*ssa.If); isIf {
					steers = true
				}
			}
		}
		if !steers {
			continue
		}
		v := ci(k)
		switch bo.Op {
		case token.LSS:
			if v != n {
				return fmt.Sprintf("the loop over the %d inline words runs while index < %d", n, v)
			}
		case token.LEQ:
			if v != n-1 {
				return fmt.Sprintf("the loop over the %d inline words runs while index <= %d", n, v)
			}
		case token.GEQ:
			if v != 0 {
				return fmt.Sprintf("the downward loop over the inline words stops at index %d, not 0", v)
			}
		case token.GTR:
			if v != -1 {
				return fmt.Sprintf("the downward loop over the inline words stops above index %d, not -1", v)
			}
		}
	}
	return ""
}
