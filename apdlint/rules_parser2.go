package main

import (
	"fmt"
	"go/token"
	"strings"

	"golang.org/x/tools/go/ssa"
)

// Rules added after the parser / setExponent repairs (hunters H1, H8).

func init() {
	register(&Rule{ID: "C13.R5", Min: 2,
		Text: "the exponent limits apply to the sum of the exponent terms: in setExponent no System* return is decided by comparing a single element of the variadic term list with ±MaxExponent (a long fraction is written with a large exponent part: \"1.00…0E+40001\" with 100001 fraction digits is in range), the exponent finally stored derives from a value that a dominating test holds at or below MaxExponent, and no value is refused because its exponent rather than its adjusted exponent is below MinExponent (a quotient is padded to the precision, so the exponent of a normal result near the lower limit is below it); the parser tests the lower limit on the adjusted exponent itself",
		Run:  ruleExponentSum})
	register(&Rule{ID: "C14.R11", Min: 1,
		Text: "a rejected string leaves no partial value: at every call of the parsing step from outside the parser, each path that leaves through the error edge overwrites the receiver with the shared NaN (whole value: digits and sign parsed so far are a NaN payload to CmpTotal and to NaN propagation) before it returns — or the parser's own top function does so around its helper",
		Run:  ruleNoPartialValue})
	register(&Rule{ID: "C03.R8", Min: 1,
		Text: "the parsing step does not trap: inside the parser goError is reached only where a System* flag was found (the hard error), and the conditions of an accepted string flow, together with those of the rounding, into the one goError call of the caller — a trapped Overflow/Subnormal of the exponent step must come with the value and the flags, not be taken for a syntax error",
		Run:  ruleParserTrapsOnce})
}

func ruleExponentSum(w *World, r *RuleResult) {
	f := w.fn("(*Decimal).setExponent")
	if f == nil {
		r.anchorMissing("(*Decimal).setExponent")
		return
	}
	cc := w.conditionConsts()
	sys := cc["SystemOverflow"] | cc["SystemUnderflow"]
	maxE, ok := int64(0), false
	if c, isC := w.SSA.Members["MaxExponent"].(*ssa.NamedConst); isC {
		maxE, ok = ci(c.Value), true
	}
	if !ok || sys == 0 {
		r.anchorMissing("MaxExponent / System* constants")
		return
	}
	var xs *ssa.Parameter
	for _, p := range f.Params {
		if f.Signature.Variadic() && p == f.Params[len(f.Params)-1] {
			xs = p
		}
	}
	if xs == nil {
		r.ok("(*Decimal).setExponent | limits apply to the sum", w.pos(f.Pos()), "setExponent has no variadic term list: not decided for this shape", false)
		return
	}
	bareElem := func(v ssa.Value) bool {
		for {
			switch x := v.(type) {
			case *ssa.Convert:
				v = x.X
				continue
			case *ssa.ChangeType:
				v = x.X
				continue
			}
			break
		}
		u, ok := v.(*ssa.UnOp)
		if !ok || u.Op != token.MUL {
			// rangeint/“for _, x := range xs” may also read through Extract of Next; slices use IndexAddr
			return false
		}
		ia, ok := u.X.(*ssa.IndexAddr)
		return ok && basePtr(ia.X) == ssa.Value(xs)
	}
	// A: no per-term limit decision
	n := 0
	for _, b := range f.Blocks {
		rt, isRet := b.Instrs[len(b.Instrs)-1].(*ssa.Return)
		if !isRet {
			continue
		}
		hit := false
		var per []string
		for _, v := range rt.Results {
			if bits, isK := condBits(v); isK && typeIs(v.Type(), apdPath, "Condition") && bits&sys != 0 && bits < 1<<12 {
				hit = true
			}
			// … or the non-zero outcome of a classifying helper applied to a value
			if hc, isC := v.(*ssa.Call); isC && typeIs(v.Type(), apdPath, "Condition") && w.isErrorReturn(rt) {
				if _, okc := w.constResultsOf(v); okc {
					hit = true
					for _, a := range hc.Common().Args {
						if bareElem(a) {
							per = append(per, w.exprOf(f, v).String())
						}
					}
				}
			}
		}
		if !hit {
			continue
		}
		n++
		key := fmt.Sprintf("(*Decimal).setExponent | system-limit return #%d is decided on the sum", n)
		for _, g := range guardsAt(b) {
			bo, isB := g.Cond.(*ssa.BinOp)
			if !isB {
				continue
			}
			for oi, o := range []ssa.Value{bo.X, bo.Y} {
				k, isK := o.(*ssa.Const)
				if !isK || (ci(k) != maxE && ci(k) != -maxE) {
					continue
				}
				other := bo.Y
				if oi == 1 {
					other = bo.X
				}
				// only the guard that puts this return beyond the limit counts
				if bareElem(other) && g.At != nil && (g.At.Block() == b.Idom() || true) {
					per = append(per, w.exprOf(f, g.Cond).String())
				}
			}
		}
		if len(per) > 0 {
			r.bad(key, w.instrPos(rt), "the System* condition is returned because a single exponent term fails "+short(strings.Join(per, " ∧ "), 160)+": the terms are summands (exponent part and fraction length of a numeric string, operand exponents and coefficient adjustments of a quotient), so in-range values whose terms are individually large are rejected — Text('E') of a Decimal with more than 100001 coefficient digits does not parse back")
		} else {
			r.ok(key, w.instrPos(rt), "not decided by a comparison of one element of the term list with ±MaxExponent", true)
		}
	}
	// A': the parser's own limit tests are on the sum as well: no hard-error return of the parser is decided
	// by comparing the parsed exponent part alone with the limits
	for _, pf := range w.parserFuncs() {
		for _, b := range pf.Blocks {
			rt, isRet := b.Instrs[len(b.Instrs)-1].(*ssa.Return)
			if !isRet || !w.isErrorReturn(rt) {
				continue
			}
			for _, g := range guardsAt(b) {
				bo, isB := g.Cond.(*ssa.BinOp)
				if !isB {
					continue
				}
				for oi, o := range []ssa.Value{bo.X, bo.Y} {
					k, isK := o.(*ssa.Const)
					if !isK || (ci(k) != maxE && ci(k) != -maxE) {
						continue
					}
					other := bo.Y
					if oi == 1 {
						other = bo.X
					}
					for {
						if cv, isC := other.(*ssa.Convert); isC {
							other = cv.X
							continue
						}
						break
					}
					ex, isEx := other.(*ssa.Extract)
					if !isEx {
						continue
					}
					if pc, isCall := ex.Tuple.(*ssa.Call); isCall && strings.HasPrefix(w.calleeName(pc), "strconv.Parse") {
						n++
						key := fmt.Sprintf("%s | limit test on the exponent part alone", w.shortName(pf))
						r.bad(key, w.instrPos(rt), "the parser rejects a string because its exponent part alone fails "+w.exprOf(pf, g.Cond).String()+": the fraction length is a summand too, so \"0.1e100001\" (= 1E+100000) and the scientific form of a long coefficient are refused")
					}
				}
			}
		}
	}
	// B: the stored exponent is range-checked on both sides
	for _, st := range storesIn(f) {
		if !w.recvFieldStore(f, st, "Exponent") {
			continue
		}
		key := "(*Decimal).setExponent | the stored exponent is held within the package limits"
		if c := countKey(r, key); c > 0 {
			key = fmt.Sprintf("%s #%d", key, c+1)
		}
		// values the stored exponent derives from
		src := map[ssa.Value]bool{}
		var walk func(v ssa.Value, d int)
		walk = func(v ssa.Value, d int) {
			if v == nil || src[v] || d > 8 {
				return
			}
			src[v] = true
			switch x := v.(type) {
			case *ssa.Convert:
				walk(x.X, d+1)
			case *ssa.ChangeType:
				walk(x.X, d+1)
			case *ssa.Phi:
				for _, e := range x.Edges {
					walk(e, d+1)
				}
			}
		}
		walk(st.Val, 0)
		upper, lower := false, false
		// bounds established on value `other` (of function fn) by the guard g
		bound := func(g Guard, isSrc func(ssa.Value) bool) {
			bo, isB := g.Cond.(*ssa.BinOp)
			if !isB {
				return
			}
			for oi, o := range []ssa.Value{bo.X, bo.Y} {
				k, isK := o.(*ssa.Const)
				if !isK || (ci(k) != maxE && ci(k) != -maxE) {
					continue
				}
				other, op := bo.Y, bo.Op
				if oi == 1 {
					other = bo.X
				} else {
					op = map[token.Token]token.Token{token.LSS: token.GTR, token.GTR: token.LSS, token.LEQ: token.GEQ, token.GEQ: token.LEQ}[op]
				}
				if !isSrc(other) {
					continue
				}
				if ci(k) == maxE && ((op == token.GTR && !g.Val) || (op == token.LEQ && g.Val)) {
					upper = true
				}
				if ci(k) == -maxE && ((op == token.LSS && !g.Val) || (op == token.GEQ && g.Val)) {
					lower = true
				}
			}
		}
		for _, g := range guardsAt(st.Block()) {
			// through a classifying helper: h(v) == 0 where h returns 0 only inside the limits
			if bo, isB := g.Cond.(*ssa.BinOp); isB && (bo.Op == token.EQL || bo.Op == token.NEQ) {
				for _, pair := range [][2]ssa.Value{{bo.X, bo.Y}, {bo.Y, bo.X}} {
					hc, isC := pair[0].(*ssa.Call)
					k0, isK := pair[1].(*ssa.Const)
					if !isC || !isK || k0.Value == nil || ci(k0) != 0 || (bo.Op == token.EQL) != g.Val {
						continue
					}
					h := callee(hc)
					if h == nil || !w.inPkg(h) || len(h.Params) != len(hc.Common().Args) {
						continue
					}
					// the helper's parameters that receive a value the stored exponent derives from
					var hp []ssa.Value
					for j, a := range hc.Common().Args {
						if src[a] {
							hp = append(hp, h.Params[j])
						}
					}
					if len(hp) == 0 {
						continue
					}
					for _, hb := range h.Blocks {
						rt, isRet := hb.Instrs[len(hb.Instrs)-1].(*ssa.Return)
						if !isRet || len(rt.Results) != 1 {
							continue
						}
						if kr, isKr := rt.Results[0].(*ssa.Const); isKr && kr.Value != nil && ci(kr) == 0 {
							for _, hg := range guardsAt(hb) {
								bound(hg, func(v ssa.Value) bool {
									for _, q := range hp {
										if v == q {
											return true
										}
									}
									return false
								})
							}
						}
					}
				}
			}
			bo, isB := g.Cond.(*ssa.BinOp)
			if !isB {
				continue
			}
			for oi, o := range []ssa.Value{bo.X, bo.Y} {
				k, isK := o.(*ssa.Const)
				if !isK || (ci(k) != maxE && ci(k) != -maxE) {
					continue
				}
				other, op := bo.Y, bo.Op
				if oi == 1 {
					other = bo.X
				} else {
					op = map[token.Token]token.Token{token.LSS: token.GTR, token.GTR: token.LSS, token.LEQ: token.GEQ, token.GEQ: token.LEQ}[op]
				}
				if !src[other] {
					continue
				}
				// value <op> const holds with truth g.Val
				if ci(k) == maxE && ((op == token.GTR && !g.Val) || (op == token.LEQ && g.Val)) {
					upper = true
				}
				if ci(k) == -maxE && ((op == token.LSS && !g.Val) || (op == token.GEQ && g.Val)) {
					lower = true
				}
			}
		}
		// lower side, second form: a value below the limit is rounded as a subnormal of the context (and then
		// stored at Etiny or above), and only a value that is normal in the context is refused when its
		// exponent is below the limit — a System-underflow return under `sum < MinExponent`. The parser, which
		// must refuse such strings whatever the context, then has to make that test itself.
		lowerNormal := false
		{
			for _, b := range f.Blocks {
				rt, isRet := b.Instrs[len(b.Instrs)-1].(*ssa.Return)
				if !isRet {
					continue
				}
				sysU := false
				for _, v := range rt.Results {
					if bits, isK := condBits(v); isK && bits&cc["SystemUnderflow"] != 0 {
						sysU = true
					}
				}
				if !sysU {
					continue
				}
				saved := lower
				lower = false
				for _, g := range guardsAt(b) {
					// reuse bound() with inverted sense: the return is reached with sum < MinExponent true
					if bo, isB := g.Cond.(*ssa.BinOp); isB {
						for oi, o := range []ssa.Value{bo.X, bo.Y} {
							if k, isK := o.(*ssa.Const); isK && ci(k) == -maxE {
								other, op := bo.Y, bo.Op
								if oi == 1 {
									other = bo.X
								} else {
									op = map[token.Token]token.Token{token.LSS: token.GTR, token.GTR: token.LSS, token.LEQ: token.GEQ, token.GEQ: token.LEQ}[op]
								}
								if src[other] && ((op == token.LSS && g.Val) || (op == token.GEQ && !g.Val)) {
									lowerNormal = true
								}
							}
						}
					}
				}
				lower = saved
			}
		}
		parserChecks := false
		var parserBare []string // lower-limit tests of the parser on a value that is not an adjusted exponent
		for _, pf := range w.parserFuncs() {
			for _, b := range pf.Blocks {
				rt, isRet := b.Instrs[len(b.Instrs)-1].(*ssa.Return)
				if !isRet || !w.isErrorReturn(rt) {
					continue
				}
				for _, g := range guardsAt(b) {
					hasLimit, adjusted := false, false
					w.exprOf(pf, g.Cond).walk(func(e *Expr) bool {
						if e.Op == "const" && e.Name == fmt.Sprint(-maxE) {
							hasLimit = true
						}
						if e.Op == "call" && strings.Contains(e.Name, "NumDigits") {
							adjusted = true
						}
						return true
					})
					if hasLimit {
						parserChecks = true
						if !adjusted {
							parserBare = append(parserBare, "the error return at "+w.instrPos(rt))
						}
					}
				}
			}
		}
		switch {
		case !upper:
			r.bad(key, w.instrPos(st), "the stored exponent derives from a value that no dominating test holds at or below MaxExponent: an exponent above the package limit can be stored")
		case lower || lowerNormal:
			r.bad(key, w.instrPos(st), "a value is refused because its exponent — not its adjusted exponent — is below MinExponent: the limit is on the adjusted exponent, the exponent of a normal number of several digits is lower (a quotient is padded to the precision: Quo(1E-99990, 4) at Precision 16 is 2500000000000000E-100005, which comes back as NaN with 'exponent out of range'; \"1.0e-100000\" has the adjusted exponent -100000)")
		case len(parserBare) > 0:
			r.bad(key, w.instrPos(st), "the parser refuses a string because its exponent — without the digit count, so not the adjusted exponent — is below MinExponent ("+short(strings.Join(uniqStrings(parserBare), "; "), 200)+"): \"1.0e-100000\" and the text form of a quotient near the lower limit (2.500000000000000E-99990) have adjusted exponents inside the limits and are rejected")
		case !parserChecks:
			r.bad(key, w.instrPos(st), "setExponent rounds a value below the lower package limit as a subnormal of the context instead of refusing it, but the parser does not test the lower limit itself: \"1e-200000\" would be accepted as a (flushed) zero instead of being rejected")
		default:
			r.ok(key, w.instrPos(st), "the stored exponent is ≤ MaxExponent; on the lower side no value is refused for its exponent alone (the adjusted exponent is what the package limits, a subnormal of the context is rounded at Etiny), and the parser tests the lower limit itself", true)
		}
	}
}

// errEdgeOf: for a call returning (…, error), the branch blocks entered when the error is non-nil.
func errTestEdges(f *ssa.Function, call *ssa.Call) map[*ssa.BasicBlock]int {
	out := map[*ssa.BasicBlock]int{} // If block -> successor index of the error edge
	nres := call.Type()
	_ = nres
	for _, b := range f.Blocks {
		iff, ok := b.Instrs[len(b.Instrs)-1].(*ssa.If)
		if !ok {
			continue
		}
		bo, ok := iff.Cond.(*ssa.BinOp)
		if !ok || (bo.Op != token.NEQ && bo.Op != token.EQL) {
			continue
		}
		for _, pair := range [][2]ssa.Value{{bo.X, bo.Y}, {bo.Y, bo.X}} {
			ex, ok := pair[0].(*ssa.Extract)
			k, ok2 := pair[1].(*ssa.Const)
			if !ok || !ok2 || k.Value != nil || ex.Tuple != ssa.Value(call) {
				continue
			}
			if !isErrorType(ex.Type()) {
				continue
			}
			if bo.Op == token.NEQ {
				out[b] = 0
			} else {
				out[b] = 1
			}
		}
	}
	return out
}

// nanWrite: instruction x overwrites recv with the shared NaN (whole value).
func (w *World) nanWholeWrite(x ssa.Instruction, recv ssa.Value) bool {
	c, ok := x.(*ssa.Call)
	if !ok {
		return false
	}
	g := callee(c)
	if g == nil {
		return false
	}
	if !(w.shortName(g) == "(*Decimal).Set" || w.shortName(g) == "(*Decimal).setSlow") {
		// an unexported helper that leaves the shared NaN in the Decimal it is handed, on every path
		// ("set NaN and raise the condition")
		if i, isExit := w.nanExitHelper(g); isExit && i < len(c.Common().Args) && basePtr(c.Common().Args[i]) == recv {
			return true
		}
		return false
	}
	args := c.Common().Args
	if len(args) < 2 || basePtr(args[0]) != recv {
		return false
	}
	src := args[1]
	if u, ok := src.(*ssa.UnOp); ok && u.Op == token.MUL {
		if gl, ok := u.X.(*ssa.Global); ok && gl.Name() == "decimalNaN" {
			return true
		}
	}
	return false
}

// errorEdgeCleans: every path from call that leaves through its error edge passes a NaN whole-write of recv
// before returning. second result: the offending return; third: whether the error was tested at all.
func (w *World) errorEdgeCleans(f *ssa.Function, call *ssa.Call, recv ssa.Value) (bool, ssa.Instruction, bool) {
	edges := errTestEdges(f, call)
	type node struct {
		b   *ssa.BasicBlock
		err bool
	}
	seen := map[node]bool{}
	var bad ssa.Instruction
	var visit func(b *ssa.BasicBlock, from int, onErr bool)
	visit = func(b *ssa.BasicBlock, from int, onErr bool) {
		if bad != nil {
			return
		}
		for i := from; i < len(b.Instrs); i++ {
			x := b.Instrs[i]
			if w.nanWholeWrite(x, recv) {
				return
			}
			if rt, ok := x.(*ssa.Return); ok {
				// a return reached without the error having been tested returns it (or drops it) as is
				bad = rt
				return
			}
		}
		ei, tested := edges[b]
		for si, succ := range b.Succs {
			e := onErr
			if tested {
				if si == ei {
					e = true
				} else if !onErr {
					continue // the no-error edge: nothing to clean
				}
			}
			if n := (node{succ, e}); !seen[n] {
				seen[n] = true
				visit(succ, 0, e)
			}
		}
	}
	visit(call.Block(), instrIndex(call)+1, false)
	return bad == nil, bad, len(edges) > 0
}

func ruleNoPartialValue(w *World, r *RuleResult) {
	top := w.fn("(*Decimal).setString")
	if top == nil {
		r.anchorMissing("(*Decimal).setString")
		return
	}
	inParser := map[*ssa.Function]bool{}
	for _, pf := range w.parserFuncs() {
		inParser[pf] = true
	}
	// does the top function itself clean around a helper?
	selfCleans := false
	for _, c := range callsIn(top) {
		call, ok := c.(*ssa.Call)
		g := callee(c)
		if !ok || g == nil || !inParser[g] || g == top || len(call.Common().Args) == 0 {
			continue
		}
		if basePtr(call.Common().Args[0]) != ssa.Value(top.Params[0]) {
			continue
		}
		if sig := g.Signature.Results(); sig.Len() == 0 || sig.At(sig.Len()-1).Type().String() != "error" {
			continue
		}
		if okc, _, tested := w.errorEdgeCleans(top, call, top.Params[0]); okc && tested {
			selfCleans = true
		}
	}
	n := 0
	for _, c := range w.callersOf(top) {
		call, ok := c.(*ssa.Call)
		if !ok || inParser[c.Parent()] {
			continue
		}
		n++
		f := c.Parent()
		key := fmt.Sprintf("%s | the error edge of the parsing step leaves the plain NaN", w.shortName(f))
		if k := countKey(r, key); k > 0 {
			key = fmt.Sprintf("%s #%d", key, k+1)
		}
		if selfCleans {
			r.ok(key, w.instrPos(call), "the parser's top function overwrites its receiver with the shared NaN on the error edge of its helper", true)
			continue
		}
		recv := basePtr(call.Common().Args[0])
		okc, badRet, tested := w.errorEdgeCleans(f, call, recv)
		switch {
		case okc && tested:
			r.ok(key, w.instrPos(call), "every path through the error edge overwrites the receiver with decimalNaN before it returns", true)
		case !tested:
			r.bad(key, w.instrPos(call), "the parsing step's error is not tested here and the receiver is not reset: after a rejected string the receiver keeps the digits and sign parsed so far")
		default:
			r.bad(key, w.instrPos(call), fmt.Sprintf("the return at %s is reached through the error edge without the receiver having been overwritten with the shared NaN: after a rejected string (\"123x\", \"7e100001\") the receiver is a NaN whose coefficient and sign are the digits parsed so far — CmpTotal orders NaNs by that payload and every operation propagates it", w.instrPos(badRet)))
		}
	}
	if n == 0 {
		r.anchorMissing("callers of (*Decimal).setString outside the parser")
	}
}

func ruleParserTrapsOnce(w *World, r *RuleResult) {
	top := w.fn("(*Decimal).setString")
	if top == nil {
		r.anchorMissing("(*Decimal).setString")
		return
	}
	inParser := map[*ssa.Function]bool{}
	for _, pf := range w.parserFuncs() {
		inParser[pf] = true
	}
	// (a) goError inside the parser only under a System* test
	key := "(*Decimal).setString | goError is reached only for the hard (System*) error"
	var bad []string
	nGo := 0
	for _, pf := range w.parserFuncs() {
		for _, c := range callsIn(pf) {
			n := w.calleeName(c)
			if n != "(*Context).goError" && n != "(Condition).GoError" {
				continue
			}
			nGo++
			// a literal Condition carrying a System* flag is the hard error by construction
			hard := false
			for _, a := range c.Common().Args {
				if bits, isK := condBits(a); isK && typeIs(a.Type(), apdPath, "Condition") && bits&3 != 0 {
					hard = true
				}
			}
			if !hard && !w.underSystemTest(c.Block(), 0) {
				bad = append(bad, fmt.Sprintf("%s at %s", n, w.instrPos(c)))
			}
		}
	}
	switch {
	case len(bad) > 0:
		r.bad(key, w.pos(top.Pos()), "the parsing step turns its conditions into an error with "+joinStrings(bad)+" outside a System* test: a trapped Overflow/Subnormal/Inexact raised by the exponent step is then indistinguishable from a syntax error, and the caller drops the correctly rounded value and its flags (NewFromString(\"1E+10\") under Traps: Overflow returned nil, 0)")
	default:
		r.ok(key, w.pos(top.Pos()), fmt.Sprintf("%d goError call(s) in the parser, each under a System* test", nGo), true)
	}
	// (b) the caller's goError sees the parsing step's conditions
	n := 0
	for _, c := range w.callersOf(top) {
		call, ok := c.(*ssa.Call)
		if !ok || inParser[c.Parent()] {
			continue
		}
		n++
		f := c.Parent()
		key := fmt.Sprintf("%s | the parsing step's conditions reach the caller's goError", w.shortName(f))
		found, any := false, false
		for _, g := range callsIn(f) {
			nm := w.calleeName(g)
			if nm != "(*Context).goError" && nm != "(Condition).GoError" {
				continue
			}
			any = true
			for _, a := range g.Common().Args {
				w.exprOf(f, a).walk(func(x *Expr) bool {
					if ex, ok := x.V.(*ssa.Extract); ok && ex.Tuple == ssa.Value(call) && ex.Index == 0 {
						found = true
					}
					return true
				})
			}
		}
		switch {
		case found:
			r.ok(key, w.instrPos(call), "the Condition returned by the parsing step is part of the argument of the caller's goError", true)
		case !any:
			r.ok(key, w.instrPos(call), "the caller does not call goError itself: not decided for this shape", false)
		default:
			r.bad(key, w.instrPos(call), "the Condition returned by the parsing step does not reach the caller's goError: conditions raised while the exponent was set (Subnormal, Underflow, Overflow, Clamped) are neither reported nor trapped")
		}
	}
	if n == 0 {
		r.anchorMissing("callers of (*Decimal).setString outside the parser")
	}
}

func init() {
	register(&Rule{ID: "C09.R8", Min: 1,
		Text: "a zero takes any exponent: in quantize every refusal of the exponent gap (a return of a System* constant) is reached only with a coefficient known to be non-zero — a zero has no digits to append, so Quantize(0E+50000, −60000) is 0E−60000 with no condition, not NaN",
		Run:  ruleQuantizeZeroAnyExponent})
}

func ruleQuantizeZeroAnyExponent(w *World, r *RuleResult) {
	f := w.fn("(*Context).quantize")
	if f == nil {
		r.anchorMissing("(*Context).quantize")
		return
	}
	cc := w.conditionConsts()
	sys := cc["SystemOverflow"] | cc["SystemUnderflow"]
	n := 0
	for _, g := range w.closureFuncs(f) {
		for _, b := range g.Blocks {
			rt, isRet := b.Instrs[len(b.Instrs)-1].(*ssa.Return)
			if !isRet {
				continue
			}
			hit := false
			for _, v := range rt.Results {
				if bits, isK := condBits(v); isK && typeIs(v.Type(), apdPath, "Condition") && bits&sys != 0 && bits < 1<<12 {
					hit = true
				}
			}
			if !hit {
				continue
			}
			n++
			key := fmt.Sprintf("%s | exponent-gap refusal #%d excludes zero", w.shortName(g), n)
			if w.zeroExcludedAt(g, b) {
				r.ok(key, w.instrPos(rt), "reached only behind a test that the value is not zero", true)
			} else {
				r.bad(key, w.instrPos(rt), "the exponent gap is refused before the coefficient is looked at: a zero operand (which needs no digits appended) is turned into NaN/InvalidOperation by Quantize when the target exponent is more than 100000 below its own")
			}
		}
	}
	if n == 0 {
		r.ok("(*Context).quantize | exponent-gap refusals exclude zero", w.pos(f.Pos()), "quantize returns no System* constant: no gap is refused", false)
	}
}

func init() {
	register(&Rule{ID: "C08.R9", Min: 5,
		Text: "a NaN the library generates carries no sign: after the destination was overwritten with the shared NaN (d.Set(decimalNaN)) no path to a return stores its Negative field (other than the constant false) — a negative NaN is reserved for a propagated NaN operand; QuoInteger stamped the quotient's sign on its DivisionImpossible NaN",
		Run:  ruleGeneratedNaNUnsigned})
}

func ruleGeneratedNaNUnsigned(w *World, r *RuleResult) {
	n := 0
	for _, name := range w.Names {
		f := w.Funcs[name]
		for _, c := range callsIn(f) {
			call, ok := c.(*ssa.Call)
			if !ok || len(call.Common().Args) < 2 {
				continue
			}
			recv := basePtr(call.Common().Args[0])
			if !w.nanWholeWrite(call, recv) {
				continue
			}
			n++
			key := fmt.Sprintf("%s | generated NaN stays unsigned", name)
			if k := countKey(r, key); k > 0 {
				key = fmt.Sprintf("%s #%d", key, k+1)
			}
			var bad ssa.Instruction
			seen := map[*ssa.BasicBlock]bool{}
			var visit func(b *ssa.BasicBlock, from int)
			visit = func(b *ssa.BasicBlock, from int) {
				for i := from; i < len(b.Instrs) && bad == nil; i++ {
					switch y := b.Instrs[i].(type) {
					case *ssa.Store:
						fa, ok := y.Addr.(*ssa.FieldAddr)
						if !ok || basePtr(fa.X) != recv || w.exprOf(f, y.Addr).Name != "Negative" {
							continue
						}
						if k, ok := y.Val.(*ssa.Const); ok && !constBoolTrue(k) {
							continue
						}
						bad = y
						return
					case *ssa.Call:
						// another whole-value write ends the NaN's life
						if g := callee(y); g != nil && y != call && wholeValueWriters[w.shortName(g)] && len(y.Common().Args) > 0 && basePtr(y.Common().Args[0]) == recv {
							return
						}
					case *ssa.Return:
						return
					}
				}
				if bad != nil {
					return
				}
				for _, s := range b.Succs {
					if !seen[s] {
						seen[s] = true
						visit(s, 0)
					}
				}
			}
			visit(call.Block(), instrIndex(call)+1)
			if bad != nil {
				if reason, ok := nanSignTable[name]; ok && w.powSignIsGuarded(f, bad.(*ssa.Store)) {
					r.ok(key, w.instrPos(call), "tabled: "+reason, false)
					continue
				}
				// a helper the tabled function was split into, which is handed the sign as a parameter: the
				// conjunction is re-checked on the argument of every call, in the tabled function
				if owner := w.ownerIn(f, sortedKeys(nanSignTable)); owner != "" && owner != name {
					if prm, isP := bad.(*ssa.Store).Val.(*ssa.Parameter); isP {
						idx := -1
						for i, q := range f.Params {
							if q == prm {
								idx = i
							}
						}
						callers := w.callersOf(f)
						all := idx >= 0 && len(callers) > 0
						for _, cs := range callers {
							if !all {
								break
							}
							if w.shortName(cs.Parent()) != owner || idx >= len(cs.Common().Args) || !w.powSignValueIsGuarded(cs.Parent(), cs.Common().Args[idx]) {
								all = false
							}
						}
						if all {
							r.ok(key, w.instrPos(call), "tabled (for "+owner+", which hands the sign to this helper): "+nanSignTable[owner], false)
							continue
						}
					}
				}
			}
			if bad == nil {
				r.ok(key, w.instrPos(call), "no store of the destination's sign follows the NaN on any path", true)
			} else {
				r.bad(key, w.instrPos(call), fmt.Sprintf("after the destination was set to the shared NaN its Negative field is stored at %s: the generated NaN takes a sign (QuoInteger(-1E+10, 3) at Precision 5 returned -NaN, which CmpTotal orders below -Infinity and Rem does not produce for the same operands)", w.instrPos(bad)))
			}
		}
	}
	if n == 0 {
		r.anchorMissing("d.Set(decimalNaN) sites")
	}
}

func constBoolTrue(k *ssa.Const) bool {
	return k.Value != nil && k.Value.String() == "true"
}

// nanSignTable: functions where a sign store follows a generated NaN on a path that cannot carry a true sign.
// The invariant is only accepted while the stored sign is still the conjunction it is stated for
// (powSignIsGuarded re-checks its conjuncts on every run).
var nanSignTable = map[string]string{
	"(*Context).Pow": "the sign stored after the NaN is neg = x.Negative ∧ y finite ∧ y integral ∧ y odd: the NaN branches are taken only for an infinite or non-integral y (neg's second/third conjunct is false) or for y = 0 (its integer part is 0, which is not odd), so neg is false there",
}

// powSignIsGuarded: the stored sign is a conjunction that still contains the tests the tabled invariant
// relies on: y.Form compared with Finite, the fraction's IsZero, and the integer part's low bit.
func (w *World) powSignIsGuarded(f *ssa.Function, st *ssa.Store) bool {
	return w.powSignValueIsGuarded(f, st.Val)
}

func (w *World) powSignValueIsGuarded(f *ssa.Function, signVal ssa.Value) bool {
	need := map[string]bool{"form": false, "frac": false, "bit": false}
	// the conjunction is a short-circuit chain: a phi whose edges are the constant false (coming from the
	// blocks that test the earlier conjuncts) and the value of the last conjunct
	var exprs []*Expr
	if phi, ok := signVal.(*ssa.Phi); ok {
		for i, ed := range phi.Edges {
			if k, isK := ed.(*ssa.Const); isK {
				if constBoolTrue(k) {
					return false // a disjunction: not the shape the invariant is stated for
				}
				pred := phi.Block().Preds[i]
				if iff, isIf := pred.Instrs[len(pred.Instrs)-1].(*ssa.If); isIf {
					exprs = append(exprs, w.exprOf(f, iff.Cond))
				}
				continue
			}
			exprs = append(exprs, w.exprOf(f, ed))
		}
	} else {
		exprs = append(exprs, w.exprOf(f, signVal))
	}
	e := &Expr{Op: "and", Args: exprs}
	e.walk(func(x *Expr) bool {
		s := x.String()
		if x.Op == "field" && strings.HasSuffix(s, ".Form") {
			need["form"] = true
		}
		if x.Op == "call" && strings.Contains(x.Name, "IsZero") {
			need["frac"] = true
		}
		if x.Op == "call" && strings.Contains(x.Name, ").Bit") {
			need["bit"] = true
		}
		return true
	})
	ok := need["form"] && need["frac"] && need["bit"]
	return ok
}

// nanExitHelper: g is an unexported function of the package that overwrites one of its *Decimal parameters
// with the shared NaN (a whole-value write, with nothing written to it afterwards) on every path to every
// return. Returns the index of that parameter.
func (w *World) nanExitHelper(g *ssa.Function) (int, bool) {
	if g == nil || !w.inPkg(g) || len(g.Blocks) == 0 || (g.Object() != nil && g.Object().Exported()) {
		return -1, false
	}
	if w.nanExitMemo == nil {
		w.nanExitMemo = map[*ssa.Function]int{}
	}
	if v, done := w.nanExitMemo[g]; done {
		return v, v >= 0
	}
	w.nanExitMemo[g] = -1 // recursion guard
	for i, p := range g.Params {
		if !isDecimalPtr(p.Type()) {
			continue
		}
		recv := ssa.Value(p)
		isNaN := func(in ssa.Instruction) bool { return w.nanWholeWrite(in, recv) }
		all, n := true, 0
		for _, b := range g.Blocks {
			rt, isRet := b.Instrs[len(b.Instrs)-1].(*ssa.Return)
			if !isRet {
				continue
			}
			n++
			if !seenBefore(rt, isNaN) {
				all = false
				break
			}
		}
		if !all || n == 0 {
			continue
		}
		// nothing but the NaN writes touches the parameter
		clean := true
		pr := w.newProv(g, nil)
		for _, b := range g.Blocks {
			for _, in := range b.Instrs {
				if isNaN(in) {
					continue
				}
				for _, e := range w.instrEffects(pr, in, nil) {
					if e.Write && e.Loc.Root.Kind == RParam && e.Loc.Root.Param == i {
						clean = false
					}
				}
			}
		}
		if clean {
			w.nanExitMemo[g] = i
			return i, true
		}
	}
	return -1, false
}
