package main

import (
	"fmt"
	"go/token"
	"go/types"
	"strings"

	"golang.org/x/tools/go/ssa"
)

func init() {
	register(&Rule{ID: "C16.R1", Min: 36,
		Text: "wrapper agreement: every exported BigInt method's slow path calls the math/big.Int method of the same name on the receiver's inner view, passing each *BigInt parameter's inner view in the same position and every other parameter unchanged; the receiver's view is never a read-only argument",
		Run:  ruleBigWrappers})
	register(&Rule{ID: "C16.R2", Min: 36,
		Text: "inner/updateInner pairing: after a mutating math/big call every written view (receiver and documented out-parameters) is written back with updateInner on the same BigInt before every return that reports success; non-mutating methods never write back",
		Run:  ruleUpdateInnerPairing})
	register(&Rule{ID: "C16.R3", Min: 4,
		Text: "zero is never negative: every uint64 fast-path helper returns neg=false or a neg that is conditioned on the returned magnitude being non-zero, and a store of the negative sentinel is guarded by a non-zero test of the inline words",
		Run:  ruleNoNegativeZero})
}

// bigNoCounterpart: exported BigInt methods that have no same-named math/big
// call, with the reason.
var bigNoCounterpart = map[string]string{
	"SetInt64":      "pure fast path: sign/magnitude split of an int64",
	"SetUint64":     "pure fast path",
	"MathBigInt":    "interop: copies the view with big.Int.Set",
	"SetMathBigInt": "interop: big.Int.Set from a *big.Int",
	"Size":          "memory footprint, not a math/big method",
	"Sign":          "reads the representation directly; delegates to big.Int.Sign for heap values",
}

func ruleBigWrappers(w *World, r *RuleResult) {
	for _, f := range w.exportedAPI() {
		recv := f.Signature.Recv()
		if recv == nil || w.apdTypeName(recv.Type()) != "BigInt" {
			continue
		}
		name := w.shortName(f)
		apiName := f.Name()
		key := name + " | delegates to big.Int." + apiName
		if why := bigNoCounterpart[apiName]; why != "" && apiName != "Sign" {
			r.ok(key, w.pos(f.Pos()), "tabled: "+why, false)
			continue
		}
		if !w.bigIntHasMethod(apiName) {
			// not a mirror of a math/big method (a convenience composed from the wrappers): nothing to agree with
			r.ok(key, w.pos(f.Pos()), "math/big.Int has no method of this name: not part of the mirrored API", false)
			continue
		}
		// the slow path may live in an unexported helper that is handed the receiver and the parameters as
		// they are (a fast path stays in the exported method)
		if h := w.forwardTarget(f, apiName); h != nil {
			f = h
		}
		var calls []*ssa.Call
		for _, c := range callsIn(f) {
			if cc, ok := c.(*ssa.Call); ok && strings.HasPrefix(w.calleeName(cc), "(*math/big.Int).") {
				calls = append(calls, cc)
			}
		}
		var same *ssa.Call
		var others []string
		deadDistinct, _ := deadAssumingDistinct(f, func(int, int) bool { return true })
		for _, c := range calls {
			m := strings.TrimPrefix(w.calleeName(c), "(*math/big.Int).")
			if _, local := c.Common().Args[0].(*ssa.Alloc); local && m == "Set" && deadDistinct[c.Block()] {
				// a private copy of a view into a local big.Int, made only where two parameters are one
				// object (math/big does the same for the aliasings it knows about)
				continue
			}
			if m == apiName {
				if same != nil {
					others = append(others, "more than one call of big.Int."+m)
				}
				same = c
			} else if !(m == "SetBits" || m == "Bits") {
				others = append(others, "calls big.Int."+m)
			}
		}
		if same == nil {
			r.bad(key, w.pos(f.Pos()), "the slow path does not call big.Int."+apiName+" ("+strings.Join(others, ", ")+"): results differ from math/big")
			continue
		}
		var bad []string
		bad = append(bad, others...)
		args := same.Common().Args
		// receiver view
		if basePtr(args[0]) != ssa.Value(f.Params[0]) {
			onRecv := false
			for _, l := range w.newProv(f, nil).roots(args[0]) {
				if l.Root.paramRooted() == 0 {
					onRecv = true // z._inner of a heap-backed value
				}
			}
			if !onRecv {
				bad = append(bad, "big.Int."+apiName+" is not invoked on the receiver's view")
			}
		}
		// parameters in order
		if len(args) != len(f.Params) {
			bad = append(bad, fmt.Sprintf("argument count %d differs from the wrapper's %d parameters", len(args)-1, len(f.Params)-1))
		} else {
			for i := 1; i < len(args); i++ {
				p := f.Params[i]
				if isBigIntPtr(p.Type()) {
					// when all parameters are distinct objects (the branches taken only for p == q pruned)
					// the argument is the view of its own parameter
					dead, deadE := deadDistinctNonNil(f)
					okView := true
					leaves := liveLeaves(args[i], dead, deadE, 0)
					for _, l := range leaves {
						if basePtr(l) != ssa.Value(p) {
							okView = false
						}
					}
					if !okView || len(leaves) == 0 {
						bad = append(bad, fmt.Sprintf("argument %d is not the inner view of parameter %s", i, p.Name()))
					}
				} else if args[i] != ssa.Value(p) {
					// conversions of the same value are fine (none exist today)
					bad = append(bad, fmt.Sprintf("argument %d is %s, not parameter %s", i, w.exprOf(f, args[i]).String(), p.Name()))
				}
			}
		}
		// non-pointer results returned unchanged
		res := f.Signature.Results()
		for i := 0; i < res.Len(); i++ {
			t := res.At(i).Type()
			if isBigIntPtr(t) || isErrorType(t) {
				continue
			}
			if _, isPtr := t.Underlying().(*types.Pointer); isPtr {
				continue
			}
			// some return must deliver the big call's result #i
			okRes := false
			for _, b := range f.Blocks {
				if rt, ok := b.Instrs[len(b.Instrs)-1].(*ssa.Return); ok && i < len(rt.Results) {
					v := rt.Results[i]
					if v == ssa.Value(same) {
						okRes = true
					}
					if ex, ok := v.(*ssa.Extract); ok && ex.Tuple == ssa.Value(same) && ex.Index == i {
						okRes = true
					}
					if phi, ok := v.(*ssa.Phi); ok {
						for _, e := range phi.Edges {
							if e == ssa.Value(same) {
								okRes = true
							}
						}
					}
				}
			}
			if !okRes {
				// a boolean result may instead decide between the success and failure returns
				if refs := same.Referrers(); refs != nil {
					for _, u := range *refs {
						if ex, ok := u.(*ssa.Extract); ok && ex.Index == i {
							if er := ex.Referrers(); er != nil {
								for _, uu := range *er {
									if _, isIf := uu.(*ssa.If); isIf {
										okRes = true
									}
								}
							}
						}
					}
				}
			}
			if !okRes {
				bad = append(bad, fmt.Sprintf("result %d of big.Int.%s is not what the slow path returns", i, apiName))
			}
		}
		if len(bad) > 0 {
			r.bad(key, w.instrPos(same), strings.Join(uniqStrings(bad), "; "))
		} else {
			r.ok(key, w.instrPos(same), "same-named math/big method on inner(receiver) with inner views / parameters in order", true)
		}
	}
}

func ruleUpdateInnerPairing(w *World, r *RuleResult) {
	for _, name := range w.Names {
		f := w.Funcs[name]
		recv := f.Signature.Recv()
		if recv == nil || w.apdTypeName(recv.Type()) != "BigInt" {
			continue
		}
		switch f.Name() {
		case "inner", "innerOrNil", "innerOrAlias", "innerOrNilOrAlias", "updateInner", "updateInnerFromUint64":
			continue
		}
		key := name + " | write-back of math/big views"
		var problems []string
		nMut := 0
		updates := w.callsTo(f, "(*BigInt).updateInner")
		for _, c := range callsIn(f) {
			call, ok := c.(*ssa.Call)
			if !ok {
				continue
			}
			cn := w.calleeName(call)
			if !strings.HasPrefix(cn, "(*math/big.Int).") {
				continue
			}
			m := strings.TrimPrefix(cn, "(*math/big.Int).")
			outs := []int{}
			if !bigReadOnly[m] {
				outs = append(outs, 0)
			}
			outs = append(outs, bigExtraOut[m]...)
			for _, oi := range outs {
				view := call.Common().Args[oi]
				owner := basePtr(view)
				if _, isParam := owner.(*ssa.Parameter); !isParam {
					continue // a fresh big.Int (MathBigInt's copy)
				}
				if m == "SetBits" && name == "(*BigInt).inner" {
					continue
				}
				nMut++
				ev := func(in ssa.Instruction) bool {
					u, ok := in.(*ssa.Call)
					if !ok {
						return false
					}
					if w.calleeName(u) != "(*BigInt).updateInner" {
						// a helper of the package that writes back on all its non-error returns
						if oi, vi, isWB := w.writesBackHelper(callee(u)); isWB && oi < len(u.Common().Args) && vi < len(u.Common().Args) {
							return u.Common().Args[oi] == owner && u.Common().Args[vi] == view
						}
						return false
					}
					return u.Common().Args[0] == owner && u.Common().Args[1] == view
				}
				ok, ret := mustPassFromUnlessFailed(call, ev, func(rt *ssa.Return) bool {
					// failure returns (nil / false / error) need no write-back
					for _, v := range rt.Results {
						if isNilConst(v) && isBigIntPtr(v.Type()) {
							return true
						}
					}
					return w.isErrorReturn(rt)
				})
				// optional out-parameters may be nil: a `view != nil` guard around the write-back is fine
				if !ok {
					guardedOK := false
					for _, u := range updates {
						if u.Common().Args[0] == owner && u.Common().Args[1] == view {
							for _, g := range guardsAt(u.Block()) {
								if bo, isB := g.Cond.(*ssa.BinOp); isB && bo.Op == token.NEQ && bo.X == view && isNilConst(bo.Y) && g.Val {
									guardedOK = true
								}
							}
						}
					}
					if guardedOK {
						ok = true
					}
				}
				if !ok {
					problems = append(problems, fmt.Sprintf("big.Int.%s writes the view of %s but the return at %s is reached without updateInner: the result stays in a temporary header", m, w.exprOf(f, owner).String(), w.instrPos(ret)))
				}
			}
		}
		// non-mutating methods never write back; operands are never written back
		roles := w.roles(f)
		for _, u := range updates {
			owner := u.Common().Args[0]
			if p, ok := owner.(*ssa.Parameter); ok {
				for i, q := range f.Params {
					if q == p && roles[i] == RoleOperand {
						problems = append(problems, "updateInner is applied to operand "+p.Name())
					}
				}
			}
		}
		if nMut == 0 && len(updates) == 0 {
			if f.Object() != nil && f.Object().Exported() {
				r.ok(key, w.pos(f.Pos()), "no mutating math/big call, no write-back", false)
			}
			continue
		}
		if len(problems) > 0 {
			r.bad(key, w.pos(f.Pos()), strings.Join(uniqStrings(problems), "; "))
		} else {
			r.ok(key, w.pos(f.Pos()), fmt.Sprintf("%d written views, each followed by updateInner(owner, view) on every successful path", nMut), true)
		}
	}
}

func ruleNoNegativeZero(w *World, r *RuleResult) {
	// (a) *Inline helpers: (uint64, bool, bool)
	for _, name := range w.Names {
		f := w.Funcs[name]
		res := f.Signature.Results()
		if f.Signature.Recv() != nil || res.Len() < 3 || !strings.HasSuffix(name, "Inline") {
			continue
		}
		// results: one or more (magnitude uint64, neg bool) pairs followed by ok bool
		basicKind := func(i int) types.BasicKind {
			if b, ok := res.At(i).Type().Underlying().(*types.Basic); ok {
				return b.Kind()
			}
			return types.Invalid
		}
		pairList := inlinePairs(f.Signature)
		if len(pairList) == 0 || basicKind(res.Len()-1) != types.Bool {
			continue
		}
		key := name + " | sign of a zero result"
		var bad []string
		nret := 0
		for _, b := range f.Blocks {
			rt, ok := b.Instrs[len(b.Instrs)-1].(*ssa.Return)
			if !ok {
				continue
			}
			// failure returns (ok=false) do not deliver a value
			if k, isK := rt.Results[res.Len()-1].(*ssa.Const); isK && k.Value != nil && !boolConst(k) {
				continue
			}
			nret++
			for _, pr := range pairList {
				mag, neg := rt.Results[pr[0]], rt.Results[pr[1]]
				if k, isK := neg.(*ssa.Const); isK && !boolConst(k) {
					continue
				}
				if w.negConditionedOnMagnitude(f, neg, mag, b) {
					continue
				}
				if name == "addInline" && w.sameSignSum(f, rt) {
					continue
				}
				bad = append(bad, fmt.Sprintf("return at %s: neg = %s is not conditioned on the magnitude %s being non-zero", w.instrPos(rt), short(w.exprOf(f, neg).String(), 120), short(w.exprOf(f, mag).String(), 80)))
			}
		}
		if len(bad) > 0 {
			r.bad(key, w.pos(f.Pos()), "a zero magnitude can be returned with neg=true (negative zero, Sign() == -1): "+strings.Join(bad, "; "))
		} else {
			r.ok(key, w.pos(f.Pos()), fmt.Sprintf("%d value-delivering returns; neg is false, or false whenever the magnitude is zero", nret), true)
		}
	}
	// (b) direct stores of the negative sentinel
	for _, name := range w.Names {
		f := w.Funcs[name]
		for _, b := range f.Blocks {
			for _, in := range b.Instrs {
				st, ok := in.(*ssa.Store)
				if !ok {
					continue
				}
				ld, isLd := st.Val.(*ssa.UnOp)
				if !isLd || ld.Op != token.MUL {
					continue
				}
				g, isG := ld.X.(*ssa.Global)
				if !isG || g.Name() != "negSentinel" {
					continue
				}
				key := name + " | negative sentinel store"
				if n := countKey(r, key); n > 0 {
					key = fmt.Sprintf("%s #%d", key, n+1)
				}
				switch name {
				case "(*BigInt).updateInner":
					// the sign is math/big's, but math/big can carry neg with an empty magnitude (GobDecode
					// does not normalise it): the marker must be under a test that the word slice is non-empty
					nonEmpty := false
					for _, gd := range guardsAt(b) {
						bo, isB := gd.Cond.(*ssa.BinOp)
						if !isB || !gd.Val || bo.Op != token.GTR {
							continue
						}
						k, isK := bo.Y.(*ssa.Const)
						lc, isCall := bo.X.(*ssa.Call)
						if !isK || ci(k) != 0 || !isCall {
							continue
						}
						if bi, isBI := lc.Common().Value.(*ssa.Builtin); isBI && bi.Name() == "len" {
							nonEmpty = true
						}
					}
					if nonEmpty {
						r.ok(key, w.instrPos(st), "math/big's sign, and only where its word slice is non-empty", true)
					} else {
						r.bad(key, w.instrPos(st), "the negative marker copies math/big's neg flag without checking the magnitude: big.Int.GobDecode([]byte{3}) yields neg with an empty magnitude, which math/big treats as zero but this stores as a negative zero (Sign() == -1, \"-0\")")
					}
					continue
				case "(*BigInt).updateInnerFromUint64":
					r.ok(key, w.instrPos(st), "tabled: neg comes from the *Inline helpers / SetInt64, checked separately", false)
					continue
				}
				guarded := false
				for _, gd := range guardsAt(b) {
					cond, val := gd.Cond, gd.Val
					for {
						u, isU := cond.(*ssa.UnOp)
						if !isU || u.Op != token.NOT {
							break
						}
						cond, val = u.X, !val
					}
					s := w.exprOf(f, cond).String()
					if !val && strings.Contains(s, "_inline") && strings.Contains(s, "==") {
						guarded = true
					}
					if val && strings.Contains(s, "_inline") && strings.Contains(s, "!=") {
						guarded = true
					}
					// a predicate helper on a BigInt whose every return is the all-zero comparison of the inline words
					if c, isC := cond.(*ssa.Call); isC && !val {
						if h := callee(c); h != nil && w.inPkg(h) && w.isInlineZeroPredicate(h) {
							guarded = true
						}
					}
				}
				// a helper that only carries out the decision of a tabled function: unexported, the store is under
				// its own bool parameter, and every caller is a tabled function handing on its own parameter
				if !guarded && f.Object() != nil && !f.Object().Exported() {
					for _, gd := range guardsAt(b) {
						prm, isP := gd.Cond.(*ssa.Parameter)
						if !isP || !gd.Val {
							continue
						}
						idx := -1
						for i, q := range f.Params {
							if q == prm {
								idx = i
							}
						}
						callers := w.callersOf(f)
						all := idx >= 0 && len(callers) > 0
						for _, c := range callers {
							if w.shortName(c.Parent()) != "(*BigInt).updateInnerFromUint64" || idx >= len(c.Common().Args) {
								all = false
								break
							}
							if _, isParam := c.Common().Args[idx].(*ssa.Parameter); !isParam {
								all = false
							}
						}
						if all {
							guarded = true
						}
					}
				}
				if guarded {
					r.ok(key, w.instrPos(st), "under a guard that the inline words are not all zero", true)
				} else {
					r.bad(key, w.instrPos(st), "the negative marker is set without checking that the magnitude is non-zero: Neg(0) would be a negative zero")
				}
			}
		}
	}
	// (c) SetInt64: neg only under x < 0 (then |x| != 0)
	if f := w.fn("(*BigInt).SetInt64"); f != nil {
		key := "(*BigInt).SetInt64 | neg only for x < 0"
		ok := false
		for _, c := range w.callsTo(f, "(*BigInt).updateInnerFromUint64") {
			neg := c.Common().Args[2]
			// neg := x < 0 written directly
			if bo, isB := neg.(*ssa.BinOp); isB {
				if k, isK := bo.Y.(*ssa.Const); isK && ci(k) == 0 && bo.Op == token.LSS && bo.X == ssa.Value(f.Params[1]) {
					ok = true
				}
				if k, isK := bo.X.(*ssa.Const); isK && ci(k) == 0 && bo.Op == token.GTR && bo.Y == ssa.Value(f.Params[1]) {
					ok = true
				}
			}
			if phi, isPhi := neg.(*ssa.Phi); isPhi {
				allOK := true
				for i, e := range phi.Edges {
					k, isK := e.(*ssa.Const)
					if !isK {
						allOK = false
						continue
					}
					if boolConst(k) {
						lt := false
						for _, g := range edgeGuards(phi.Block().Preds[i], phi.Block()) {
							if bo, isB := g.Cond.(*ssa.BinOp); isB && bo.Op == token.LSS && g.Val && bo.X == ssa.Value(f.Params[1]) {
								lt = true
							}
						}
						if !lt {
							allOK = false
						}
					}
				}
				ok = allOK
			}
		}
		if ok {
			r.ok(key, w.pos(f.Pos()), "neg is true only on the x < 0 edge", true)
		} else {
			r.bad(key, w.pos(f.Pos()), "SetInt64 can mark a non-negative (possibly zero) value negative")
		}
	}
}

func boolConst(k *ssa.Const) bool {
	return k != nil && k.Value != nil && k.Value.String() == "true"
}

// negConditionedOnMagnitude: neg's value (data or control dependence) involves
// a comparison of the returned magnitude with zero, or the return itself is
// guarded by such a comparison.
func (w *World) negConditionedOnMagnitude(f *ssa.Function, neg, mag ssa.Value, b *ssa.BasicBlock) bool {
	isMagCmp := func(v ssa.Value) bool {
		bo, ok := v.(*ssa.BinOp)
		if !ok || (bo.Op != token.NEQ && bo.Op != token.EQL && bo.Op != token.GTR) {
			return false
		}
		k, isK := bo.Y.(*ssa.Const)
		return isK && ci(k) == 0 && bo.X == mag
	}
	found := false
	seen := map[ssa.Value]bool{}
	var visit func(v ssa.Value)
	visit = func(v ssa.Value) {
		if seen[v] || found {
			return
		}
		seen[v] = true
		if isMagCmp(v) {
			found = true
			return
		}
		switch x := v.(type) {
		case *ssa.Phi:
			for i, e := range x.Edges {
				for _, g := range edgeGuards(x.Block().Preds[i], x.Block()) {
					if isMagCmp(g.Cond) {
						found = true
					}
				}
				visit(e)
			}
		case *ssa.BinOp:
			visit(x.X)
			visit(x.Y)
		case *ssa.UnOp:
			visit(x.X)
		}
	}
	visit(neg)
	if found {
		return true
	}
	// explicit normalisation on the path: `if diff == 0 { neg = false }` shows as a φ handled above;
	// a guard on the return block also counts
	for _, g := range guardsAt(b) {
		if isMagCmp(g.Cond) {
			return true
		}
	}
	return false
}

// sameSignSum: addInline's x+y branch: both operands have the same sign, so a
// zero sum means both are zero, and a zero operand is never negative by this
// very invariant (induction over constructors, which all go through the rules
// of C16.R3).
func (w *World) sameSignSum(f *ssa.Function, rt *ssa.Return) bool {
	for _, g := range guardsAt(rt.Block()) {
		if bo, ok := g.Cond.(*ssa.BinOp); ok && (bo.Op == token.EQL && g.Val || bo.Op == token.NEQ && !g.Val) {
			l, r := w.exprOf(f, bo.X).String(), w.exprOf(f, bo.Y).String()
			if (l == "xNeg" && r == "yNeg") || (l == "yNeg" && r == "xNeg") {
				// and the returned sign is xNeg (or yNeg) itself
				s := w.exprOf(f, rt.Results[1]).String()
				return s == "xNeg" || s == "yNeg"
			}
		}
	}
	return false
}

// bigIntHasMethod reports whether *math/big.Int has a method with this name.
func (w *World) bigIntHasMethod(name string) bool {
	for _, imp := range w.Pkg.Types.Imports() {
		if imp.Path() != "math/big" {
			continue
		}
		obj := imp.Scope().Lookup("Int")
		if obj == nil {
			return true
		}
		ms := types.NewMethodSet(types.NewPointer(obj.Type()))
		return ms.Lookup(imp, name) != nil
	}
	return true
}

// writesBackHelper: h is an unexported function that calls
// (*BigInt).updateInner(p_o, p_v) with two of its own parameters before every
// return that does not report an error; returns their indices.
func (w *World) writesBackHelper(h *ssa.Function) (int, int, bool) {
	if h == nil || !w.inPkg(h) || (h.Object() != nil && h.Object().Exported()) || len(h.Blocks) == 0 {
		return 0, 0, false
	}
	for _, u := range w.callsTo(h, "(*BigInt).updateInner") {
		oi, vi := -1, -1
		for i, p := range h.Params {
			if u.Common().Args[0] == ssa.Value(p) {
				oi = i
			}
			if u.Common().Args[1] == ssa.Value(p) {
				vi = i
			}
		}
		if oi < 0 || vi < 0 {
			continue
		}
		all := true
		for _, b := range h.Blocks {
			rt, ok := b.Instrs[len(b.Instrs)-1].(*ssa.Return)
			if !ok || w.isErrorReturn(rt) {
				continue
			}
			if !seenBefore(rt, func(in ssa.Instruction) bool { return in == ssa.Instruction(u) }) {
				all = false
			}
		}
		if all {
			return oi, vi, true
		}
	}
	return 0, 0, false
}

// inlinePairs: the (magnitude uint64, neg bool) result pairs of an *Inline
// helper: by name when the results are named (quoVal/quoNeg, remVal/remNeg in
// whatever order they are listed), else by adjacency. The last result is ok.
func inlinePairs(sig *types.Signature) [][2]int {
	res := sig.Results()
	kind := func(i int) types.BasicKind {
		if b, ok := res.At(i).Type().Underlying().(*types.Basic); ok {
			return b.Kind()
		}
		return types.Invalid
	}
	var out [][2]int
	named := true
	for i := 0; i < res.Len(); i++ {
		if res.At(i).Name() == "" {
			named = false
		}
	}
	if named {
		for i := 0; i < res.Len()-1; i++ {
			if kind(i) != types.Uint64 {
				continue
			}
			stem := strings.TrimSuffix(res.At(i).Name(), "Val")
			for j := 0; j < res.Len()-1; j++ {
				if kind(j) == types.Bool && strings.TrimSuffix(res.At(j).Name(), "Neg") == stem && res.At(j).Name() != stem {
					out = append(out, [2]int{i, j})
				}
			}
		}
		if len(out) > 0 {
			return out
		}
	}
	for i := 0; i+1 < res.Len()-1; i++ {
		if kind(i) == types.Uint64 && kind(i+1) == types.Bool {
			out = append(out, [2]int{i, i + 1})
		}
	}
	return out
}

// deadDistinctNonNil: blocks and edges of f that are dead when all its parameters are different, non-nil objects.
func deadDistinctNonNil(f *ssa.Function) (map[*ssa.BasicBlock]bool, map[[2]int]bool) {
	pidx := func(v ssa.Value) int {
		for k, q := range f.Params {
			if ssa.Value(q) == v {
				return k
			}
		}
		return -1
	}
	return deadUnder(f, func(bo *ssa.BinOp) (bool, bool) {
		x, y := pidx(bo.X), pidx(bo.Y)
		eq := false
		switch {
		case x >= 0 && y >= 0:
			eq = x == y
		case x >= 0 && isNilConst(bo.Y), y >= 0 && isNilConst(bo.X):
			eq = false
		default:
			return false, false
		}
		return eq == (bo.Op == token.EQL), true
	})
}

// forwardTarget: f itself does not call math/big's method of the given name, but calls an unexported function
// of the package with exactly its own parameters, in order, which does: that function.
func (w *World) forwardTarget(f *ssa.Function, method string) *ssa.Function {
	for _, c := range callsIn(f) {
		if cc, ok := c.(*ssa.Call); ok && w.calleeName(cc) == "(*math/big.Int)."+method {
			return nil
		}
	}
	for _, c := range callsIn(f) {
		cc, ok := c.(*ssa.Call)
		if !ok {
			continue
		}
		h := callee(cc)
		if h == nil || !w.inPkg(h) || h == f || len(h.Blocks) == 0 || (h.Object() != nil && h.Object().Exported()) || len(h.Params) != len(f.Params) || len(cc.Common().Args) != len(f.Params) {
			continue
		}
		same := true
		for i, a := range cc.Common().Args {
			if a != ssa.Value(f.Params[i]) {
				same = false
			}
		}
		if !same {
			continue
		}
		for _, hc := range callsIn(h) {
			if x, ok := hc.(*ssa.Call); ok && w.calleeName(x) == "(*math/big.Int)."+method {
				return h
			}
		}
	}
	return nil
}

// wrapperMethod: the math/big method name f is the BigInt wrapper of: its own name, or — for the forwarded slow
// path of an exported wrapper — that wrapper's name.
func (w *World) wrapperMethod(f *ssa.Function) string {
	if w.fwdMemo == nil {
		w.fwdMemo = map[*ssa.Function]string{}
		for _, g := range w.Funcs {
			recv := g.Signature.Recv()
			if recv == nil || w.apdTypeName(recv.Type()) != "BigInt" || g.Object() == nil || !g.Object().Exported() {
				continue
			}
			if h := w.forwardTarget(g, g.Name()); h != nil {
				w.fwdMemo[h] = g.Name()
			}
		}
	}
	if n, ok := w.fwdMemo[f]; ok {
		return n
	}
	return f.Name()
}

// isInlineZeroPredicate: h is a side-effect-free bool method whose every return is the comparison of the
// receiver's whole inline array with the zero array.
func (w *World) isInlineZeroPredicate(h *ssa.Function) bool {
	res := h.Signature.Results()
	if res.Len() != 1 || len(h.Params) != 1 || !typeIs(h.Params[0].Type(), apdPath, "BigInt") {
		return false
	}
	if b, ok := res.At(0).Type().Underlying().(*types.Basic); !ok || b.Kind() != types.Bool {
		return false
	}
	n := 0
	for _, b := range h.Blocks {
		for _, in := range b.Instrs {
			switch x := in.(type) {
			case *ssa.Store, ssa.CallInstruction:
				return false
			case *ssa.Return:
				s := w.exprOf(h, x.Results[0]).String()
				if !strings.Contains(s, "_inline") || !strings.Contains(s, "==") || strings.Contains(s, "[") && strings.Contains(s, "]") && strings.Contains(s, "_inline[") {
					return false
				}
				n++
			}
		}
	}
	return n > 0
}

// mustPassFromUnlessFailed is mustPassFrom with one more way out: a path that leaves a test of the mutating
// call's own boolean result (math/big's ok) on its false side, and ends in a return that hands that very
// boolean on, reports the failure to the caller and has nothing to write back.
func mustPassFromUnlessFailed(call *ssa.Call, ev func(ssa.Instruction) bool, exempt func(*ssa.Return) bool) (bool, *ssa.Return) {
	isOK := func(v ssa.Value) bool {
		ex, ok := v.(*ssa.Extract)
		if !ok || ex.Tuple != ssa.Value(call) {
			return false
		}
		b, isB := ex.Type().Underlying().(*types.Basic)
		return isB && b.Kind() == types.Bool
	}
	type st struct {
		b      *ssa.BasicBlock
		failed bool
	}
	seen := map[st]bool{}
	var walk func(b *ssa.BasicBlock, start int, failed bool) (bool, *ssa.Return)
	walk = func(b *ssa.BasicBlock, start int, failed bool) (bool, *ssa.Return) {
		for i := start; i < len(b.Instrs); i++ {
			in := b.Instrs[i]
			if ev(in) {
				return true, nil
			}
			if r, ok := in.(*ssa.Return); ok {
				if exempt != nil && exempt(r) {
					return true, nil
				}
				if failed {
					for _, v := range r.Results {
						if isOK(v) {
							return true, nil
						}
					}
				}
				return false, r
			}
		}
		if start == 0 {
			if seen[st{b, failed}] {
				return true, nil
			}
			seen[st{b, failed}] = true
		}
		for i, s := range b.Succs {
			f2 := failed
			if iff, ok := b.Instrs[len(b.Instrs)-1].(*ssa.If); ok {
				cond, neg := iff.Cond, false
				for {
					u, isU := cond.(*ssa.UnOp)
					if !isU || u.Op != token.NOT {
						break
					}
					cond, neg = u.X, !neg
				}
				if isOK(cond) && (i == 1) != neg {
					f2 = true
				}
			}
			if ok, r := walk(s, 0, f2); !ok {
				return false, r
			}
		}
		return true, nil
	}
	return walk(call.Block(), instrIndex(call)+1, false)
}
