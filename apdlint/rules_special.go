package main

import (
	"fmt"
	"go/token"
	"strings"

	"golang.org/x/tools/go/ssa"
)

func init() {
	register(&Rule{ID: "C08.R1", Min: 20,
		Text: "NaN prologue everywhere: every exported Context method with *Decimal operands tests shouldSetAsNaN on all of its operands (first operand first) before any other read of an operand field, and returns setAsNaN with the same operands on the true edge",
		Run:  ruleNaNPrologue})
	register(&Rule{ID: "C08.R2", Min: 1,
		Text: "NaN selection order in setAsNaN: every path enumerated — a signaling x wins, then a signaling y, then a quiet x, then a quiet y; a signaling source yields Form=NaN with InvalidOperation, a quiet one no flag",
		Run:  ruleNaNSelection})
	register(&Rule{ID: "C08.R3", Min: 25,
		Text: "invalid ⇔ NaN result: every path that stores the shared NaN into the destination returns InvalidOperation, DivisionUndefined or DivisionImpossible, every raise of those stores the shared NaN, and DivisionByZero goes with the shared infinity",
		Run:  ruleInvalidNaNPairing})
	register(&Rule{ID: "C08.R4", Min: 8,
		Text: "sign of special results: in the two-operand operations every copy of the unsigned shared infinity or of a zero into the destination is followed by a store of d.Negative computed from the operands' signs",
		Run:  ruleSpecialSigns})
	register(&Rule{ID: "C08.R5", Min: 1,
		Text: "exact-zero sum: in add the sign stored on the Coeff.Sign()==0 edge is c.Rounding == RoundFloor",
		Run:  ruleZeroSumSign})
}

var prologueHelpers = map[string]bool{
	"(*Context).add": true, "(*Context).quoSpecials": true, "(*Context).rootSpecials": true, "(*Context).logSpecials": true, "(*Context).toIntegralSpecials": true,
}

// prologueExempt: exported Context methods whose *Decimal parameters are not
// arithmetic operands.
var prologueExempt = map[string]string{
	"(*Context).SetString":     "parses text; its *Decimal is the destination",
	"(*Context).NewFromString": "parses text",
}

func ruleNaNPrologue(w *World, r *RuleResult) {
	if !r.need(w, "(*Context).shouldSetAsNaN") || !r.need(w, "(*Context).setAsNaN") {
		return
	}
	check := func(f *ssa.Function) (bool, string) {
		roles := w.roles(f)
		var ops []int
		for i, p := range f.Params {
			if roles[i] == RoleOperand && isDecimalPtr(p.Type()) {
				ops = append(ops, i)
			}
		}
		if len(ops) == 0 {
			return true, "no operands"
		}
		b0 := f.Blocks[0]
		// the prologue may be delegated to a helper as the very first call
		for _, in := range b0.Instrs {
			c, ok := in.(*ssa.Call)
			if !ok {
				continue
			}
			cn := w.calleeName(c)
			if prologueHelpers[cn] || (strings.HasPrefix(cn, "(*Context).") && cn != "(*Context).shouldSetAsNaN" && w.fn(cn) != nil && w.isOpLike(w.fn(cn))) {
				// all operands must be forwarded, in order
				g := callee(c)
				groles := w.roles(g)
				var fwd []ssa.Value
				for j, a := range c.Common().Args {
					if j < len(groles) && groles[j] == RoleOperand && isDecimalPtr(g.Params[j].Type()) {
						fwd = append(fwd, a)
					}
				}
				if len(fwd) < len(ops) {
					return false, fmt.Sprintf("delegates to %s without forwarding all operands", cn)
				}
				for k, oi := range ops {
					if fwd[k] != ssa.Value(f.Params[oi]) {
						// Ceil/Floor style: Add(d, d, one) later; only first-instruction delegation counts
						return false, fmt.Sprintf("delegates to %s with operands in a different order or not its own", cn)
					}
				}
				ok, why := w.prologueOf(g)
				if !ok {
					return false, "delegate " + cn + ": " + why
				}
				return true, "delegated to " + cn + " (" + why + ")"
			}
			if cn == "(*Context).shouldSetAsNaN" {
				args := c.Common().Args
				if args[1] != ssa.Value(f.Params[ops[0]]) {
					return false, "shouldSetAsNaN's first argument is not the first operand"
				}
				if len(ops) > 1 {
					if args[2] != ssa.Value(f.Params[ops[1]]) {
						return false, "shouldSetAsNaN is not applied to the second operand (" + w.exprOf(f, args[2]).String() + ")"
					}
				}
				// branch on it; true edge returns setAsNaN(d, same operands)
				iff, ok := b0.Instrs[len(b0.Instrs)-1].(*ssa.If)
				if !ok || iff.Cond != ssa.Value(c) {
					return false, "the entry block does not branch on shouldSetAsNaN"
				}
				tb := b0.Succs[0]
				var sc *ssa.Call
				for _, x := range tb.Instrs {
					if k, ok := x.(*ssa.Call); ok && w.calleeName(k) == "(*Context).setAsNaN" {
						sc = k
					}
				}
				if sc == nil {
					return false, "the NaN edge does not call setAsNaN"
				}
				sa := sc.Common().Args
				if sa[2] != args[1] || !(sa[3] == args[2] || isNilConst(sa[3]) && isNilConst(args[2])) {
					return false, "setAsNaN receives different operands (or a different order) than shouldSetAsNaN tested"
				}
				if _, ok := tb.Instrs[len(tb.Instrs)-1].(*ssa.Return); !ok {
					return false, "the NaN edge does not return"
				}
				// nothing reads an operand before the test
				for _, x := range b0.Instrs {
					if x == ssa.Instruction(c) {
						break
					}
					if k, ok := x.(*ssa.Call); ok {
						return false, "call to " + w.calleeName(k) + " precedes the NaN test"
					}
					if ld, ok := x.(*ssa.UnOp); ok && ld.Op == token.MUL {
						if fa, ok := ld.X.(*ssa.FieldAddr); ok {
							for _, oi := range ops {
								if fa.X == ssa.Value(f.Params[oi]) {
									return false, "an operand field is read before the NaN test"
								}
							}
						}
					}
				}
				return true, "shouldSetAsNaN on all operands first; NaN edge returns setAsNaN with the same operands"
			}
			return false, "first call is " + cn + ", not a NaN test"
		}
		return false, "no NaN test in the entry block"
	}
	w.prologueCheck = check
	for _, f := range w.exportedAPI() {
		recv := f.Signature.Recv()
		if recv == nil || w.apdTypeName(recv.Type()) != "Context" {
			continue
		}
		name := w.shortName(f)
		roles := w.roles(f)
		has := false
		for i, p := range f.Params {
			if roles[i] == RoleOperand && isDecimalPtr(p.Type()) {
				has = true
			}
		}
		if !has {
			continue
		}
		key := name + " | NaN prologue"
		if why := prologueExempt[name]; why != "" {
			r.ok(key, w.pos(f.Pos()), "tabled: "+why, false)
			continue
		}
		ok, why := check(f)
		if ok {
			r.ok(key, w.pos(f.Pos()), why, true)
		} else {
			r.bad(key, w.pos(f.Pos()), "NaN operands are not handled before anything else: "+why+" (a signaling NaN would not raise InvalidOperation / a NaN would be processed as a number)")
		}
	}
}

func (w *World) prologueOf(g *ssa.Function) (bool, string) {
	if w.prologueCheck == nil {
		return false, "no checker"
	}
	return w.prologueCheck(g)
}

// isOpLike: an in-package Context method with (Condition, error)-style results
// and a Decimal destination (Add→add, Sub→add).
func (w *World) isOpLike(g *ssa.Function) bool {
	if g == nil || w.condResultIndex(g) < 0 {
		return false
	}
	roles := w.roles(g)
	for i, p := range g.Params {
		if roles[i] == RoleDest && isDecimalPtr(p.Type()) {
			return true
		}
	}
	return false
}

// ---- R2 ---------------------------------------------------------------------

func ruleNaNSelection(w *World, r *RuleResult) {
	f := w.fn("(*Context).setAsNaN")
	if f == nil {
		r.anchorMissing("(*Context).setAsNaN")
		return
	}
	forms := w.formConsts()
	sn, qn := forms["NaNSignaling"], forms["NaN"]
	cc := w.conditionConsts()
	paths, ok := enumPaths(f, 4096)
	key := "(*Context).setAsNaN | selection order and signaling"
	if !ok {
		r.undecided(key, w.pos(f.Pos()), "not loop-free")
		return
	}
	xi, yi := paramIndex(f, "x"), paramIndex(f, "y")
	if xi < 0 || yi < 0 {
		r.anchorMissing("(*Context).setAsNaN params x,y")
		return
	}
	var bad []string
	checked := 0
	for _, p := range paths {
		// facts: Form(x)==k / Form(y)==k with truth, and y != nil
		known := map[string]bool{}
		has := map[string]bool{}
		for _, d := range p.Decisions {
			bo, ok := d.Cond.(*ssa.BinOp)
			if !ok || (bo.Op != token.EQL && bo.Op != token.NEQ) {
				continue
			}
			val := d.Val
			if bo.Op == token.NEQ {
				val = !val
			}
			e := w.exprOf(f, bo.X).String()
			k, isK := bo.Y.(*ssa.Const)
			if !isK {
				continue
			}
			if k.IsNil() {
				continue
			}
			fact := fmt.Sprintf("%s==%d", e, ci(k))
			known[fact] = val
			has[fact] = true
		}
		// which value is copied on this path?
		var src ssa.Value
		for _, b := range p.Blocks {
			for _, in := range b.Instrs {
				if c, ok := in.(*ssa.Call); ok && w.calleeName(c) == "(*Decimal).Set" {
					src = phiOnPath(c.Common().Args[1], p)
				}
			}
		}
		if src == nil {
			continue // the "no NaN found" error path
		}
		checked++
		is := func(who string, form int64) (bool, bool) {
			k := fmt.Sprintf("%s.Form==%d", who, form)
			return known[k], has[k]
		}
		xs, hxs := is("x", sn)
		ys, _ := is("y", sn)
		xq, _ := is("x", qn)
		switch src {
		case ssa.Value(f.Params[xi]):
			if !(xs && hxs) {
				// quiet x chosen: neither may be signaling
				if v, h := is("x", sn); !h || v {
					bad = append(bad, "x chosen without having excluded/established its form")
				}
				if v, h := is("y", sn); h && v {
					bad = append(bad, "quiet x chosen although y is signaling")
				}
				if !xq {
					bad = append(bad, "x chosen on a path where x is not known to be a NaN")
				}
			}
		case ssa.Value(f.Params[yi]):
			if v, h := is("x", sn); !h || v {
				bad = append(bad, "y chosen before x's signaling test failed")
			}
			if !ys {
				// quiet y: x must be known not quiet
				if v, h := is("x", qn); !h || v {
					bad = append(bad, "quiet y chosen although x may be a (quiet) NaN: first operand first")
				}
			}
		default:
			bad = append(bad, "setAsNaN copies something that is neither x nor y")
		}
		// flags: InvalidOperation iff source signaling; Form forced to NaN then
		flags := phiOnPath(p.Ret.Results[0], p)
		bits, isK := condBits(flags)
		srcSignaling := (src == ssa.Value(f.Params[xi]) && xs) || (src == ssa.Value(f.Params[yi]) && ys)
		// the nan.Form == NaNSignaling test after the copy
		for _, d := range p.Decisions {
			if bo, ok := d.Cond.(*ssa.BinOp); ok && bo.Op == token.EQL {
				if k, ok := bo.Y.(*ssa.Const); ok && !k.IsNil() && ci(k) == sn {
					if ld, ok := bo.X.(*ssa.UnOp); ok {
						if fa, ok := ld.X.(*ssa.FieldAddr); ok && phiOnPath(fa.X, p) == src {
							if d.Val != srcSignaling && has[fmt.Sprintf("%s.Form==%d", w.exprOf(f, src).String(), sn)] {
								// infeasible path (contradictory facts): skip flag check
								isK = false
								srcSignaling = false
								bits = 0
								goto next
							}
							srcSignaling = d.Val
						}
					}
				}
			}
		}
		if isK {
			if srcSignaling && bits != cc["InvalidOperation"] {
				bad = append(bad, "a signaling NaN source does not raise exactly InvalidOperation")
			}
			if !srcSignaling && bits != 0 {
				bad = append(bad, "a quiet NaN source raises a flag")
			}
		} else {
			bad = append(bad, "returned flags are not a constant on an enumerated path")
		}
		if srcSignaling {
			stored := false
			for _, b := range p.Blocks {
				for _, in := range b.Instrs {
					if st, ok := in.(*ssa.Store); ok && w.exprOf(f, st.Addr).String() == "&d.Form" {
						if k, ok := st.Val.(*ssa.Const); ok && ci(k) == qn {
							stored = true
						}
					}
				}
			}
			if !stored {
				bad = append(bad, "a signaling NaN is copied without being quieted (Form = NaN)")
			}
		}
	next:
	}
	if len(bad) > 0 || checked < 4 {
		r.bad(key, w.pos(f.Pos()), fmt.Sprintf("%d NaN-selecting paths enumerated: %s", checked, strings.Join(uniqStrings(bad), "; ")))
	} else {
		r.ok(key, w.pos(f.Pos()), fmt.Sprintf("%d NaN-selecting paths enumerated: sNaN(x) > sNaN(y) > NaN(x) > NaN(y); signaling ⇒ InvalidOperation + quieted, quiet ⇒ no flag", checked), true)
	}
}
