package main

import (
	"fmt"
	"go/token"
	"os"
	"strings"

	"golang.org/x/tools/go/ssa"
)

func init() {
	register(&Rule{ID: "C08.R1", Min: 13,
		Text: "NaN prologue everywhere: every exported Context method with *Decimal operands tests shouldSetAsNaN on all of its operands (first operand first) before any other read of an operand field, and returns setAsNaN with the same operands on the true edge",
		Run:  ruleNaNPrologue})
	register(&Rule{ID: "C08.R2", Min: 1,
		Text: "NaN selection order in setAsNaN: every path enumerated — a signaling x wins, then a signaling y, then a quiet x, then a quiet y; a signaling source yields Form=NaN with InvalidOperation, a quiet one no flag",
		Run:  ruleNaNSelection})
	register(&Rule{ID: "C08.R3", Min: 22,
		Text: "invalid ⇔ NaN result: every path that stores the shared NaN into the destination returns InvalidOperation, DivisionUndefined or DivisionImpossible, every raise of those stores the shared NaN, and DivisionByZero goes with the shared infinity",
		Run:  ruleInvalidNaNPairing})
	register(&Rule{ID: "C08.R4", Min: 6,
		Text: "sign of special results: in the two-operand operations every copy of the unsigned shared infinity or of a zero into the destination is followed by a store of d.Negative computed from the operands' signs",
		Run:  ruleSpecialSigns})
	register(&Rule{ID: "C08.R5", Min: 1,
		Text: "exact-zero sum: in add the sign stored on the Coeff.Sign()==0 edge is c.Rounding == RoundFloor",
		Run:  ruleZeroSumSign})
}

var prologueHelpers = map[string]bool{
	"(*Context).add": true, "(*Context).quoSpecials": true, "(*Context).rootSpecials": true, "(*Context).logSpecials": true, "(*Context).toIntegralSpecials": true,
}

// gdaOperations: the Context operations with operands that exist in the API the properties were
// stated for (by method name).
var gdaOperations = map[string]bool{
	"Abs": true, "Add": true, "Cbrt": true, "Ceil": true, "Cmp": true, "Exp": true, "Floor": true, "Ln": true, "Log10": true,
	"Mul": true, "Neg": true, "Pow": true, "Quantize": true, "Quo": true, "QuoInteger": true, "Reduce": true, "Rem": true,
	"Round": true, "RoundToIntegralExact": true, "RoundToIntegralValue": true, "Sqrt": true, "Sub": true,
	"SetString": true, "NewFromString": true,
}

// prologueExempt: exported Context methods whose *Decimal parameters are not
// arithmetic operands.
var prologueExempt = map[string]string{
	"(*Context).SetString":     "parses text; its *Decimal is the destination",
	"(*Context).NewFromString": "parses text",
}

func ruleNaNPrologue(w *World, r *RuleResult) {
	if !r.need(w, "(*Context).shouldSetAsNaN") || !r.need(w, "(*Context).setAsNaN") {
		return
	}
	check := func(f *ssa.Function) (bool, string) {
		roles := w.roles(f)
		var ops []int
		for i, p := range f.Params {
			if roles[i] == RoleOperand && isDecimalPtr(p.Type()) {
				ops = append(ops, i)
			}
		}
		if len(ops) == 0 {
			return true, "no operands"
		}
		b0 := f.Blocks[0]
		// the prologue may be delegated to a helper as the very first call
		for _, in := range b0.Instrs {
			c, ok := in.(*ssa.Call)
			if !ok {
				continue
			}
			cn := w.calleeName(c)
			if prologueHelpers[cn] || (strings.HasPrefix(cn, "(*Context).") && cn != "(*Context).shouldSetAsNaN" && w.fn(cn) != nil && w.isOpLike(w.fn(cn))) {
				// all operands must be forwarded, in order
				g := callee(c)
				groles := w.roles(g)
				var fwd []ssa.Value
				for j, a := range c.Common().Args {
					if j < len(groles) && groles[j] == RoleOperand && isDecimalPtr(g.Params[j].Type()) {
						fwd = append(fwd, a)
					}
				}
				if len(fwd) < len(ops) {
					return false, fmt.Sprintf("delegates to %s without forwarding all operands", cn)
				}
				for k, oi := range ops {
					if fwd[k] != ssa.Value(f.Params[oi]) {
						// Ceil/Floor style: Add(d, d, one) later; only first-instruction delegation counts
						return false, fmt.Sprintf("delegates to %s with operands in a different order or not its own", cn)
					}
				}
				ok, why := w.prologueOf(g)
				if !ok {
					return false, "delegate " + cn + ": " + why
				}
				return true, "delegated to " + cn + " (" + why + ")"
			}
			if cn == "(*Context).shouldSetAsNaN" {
				args := c.Common().Args
				if args[1] != ssa.Value(f.Params[ops[0]]) {
					return false, "shouldSetAsNaN's first argument is not the first operand"
				}
				if len(ops) > 1 {
					if args[2] != ssa.Value(f.Params[ops[1]]) {
						return false, "shouldSetAsNaN is not applied to the second operand (" + w.exprOf(f, args[2]).String() + ")"
					}
				}
				// branch on it; true edge returns setAsNaN(d, same operands)
				iff, ok := b0.Instrs[len(b0.Instrs)-1].(*ssa.If)
				if !ok || iff.Cond != ssa.Value(c) {
					return false, "the entry block does not branch on shouldSetAsNaN"
				}
				tb := b0.Succs[0]
				var sc *ssa.Call
				for _, x := range tb.Instrs {
					if k, ok := x.(*ssa.Call); ok && w.calleeName(k) == "(*Context).setAsNaN" {
						sc = k
					}
				}
				if sc == nil {
					return false, "the NaN edge does not call setAsNaN"
				}
				sa := sc.Common().Args
				if sa[2] != args[1] || !(sa[3] == args[2] || isNilConst(sa[3]) && isNilConst(args[2])) {
					return false, "setAsNaN receives different operands (or a different order) than shouldSetAsNaN tested"
				}
				if _, ok := tb.Instrs[len(tb.Instrs)-1].(*ssa.Return); !ok {
					return false, "the NaN edge does not return"
				}
				// nothing reads an operand before the test
				for _, x := range b0.Instrs {
					if x == ssa.Instruction(c) {
						break
					}
					if k, ok := x.(*ssa.Call); ok {
						return false, "call to " + w.calleeName(k) + " precedes the NaN test"
					}
					if ld, ok := x.(*ssa.UnOp); ok && ld.Op == token.MUL {
						if fa, ok := ld.X.(*ssa.FieldAddr); ok {
							for _, oi := range ops {
								if fa.X == ssa.Value(f.Params[oi]) {
									return false, "an operand field is read before the NaN test"
								}
							}
						}
					}
				}
				return true, "shouldSetAsNaN on all operands first; NaN edge returns setAsNaN with the same operands"
			}
			return false, "first call is " + cn + ", not a NaN test"
		}
		return false, "no NaN test in the entry block"
	}
	w.prologueCheck = check
	for _, f := range w.exportedAPI() {
		recv := f.Signature.Recv()
		if recv == nil || w.apdTypeName(recv.Type()) != "Context" {
			continue
		}
		name := w.shortName(f)
		roles := w.roles(f)
		has := false
		for i, p := range f.Params {
			if roles[i] == RoleOperand && isDecimalPtr(p.Type()) {
				has = true
			}
		}
		if !has {
			continue
		}
		key := name + " | NaN prologue"
		if !gdaOperations[f.Name()] {
			// an operation added after this rule set was written: whether NaNs propagate through it is part of
			// its own specification (compare-total, for instance, orders NaNs); not decided here
			r.ok(key, w.pos(f.Pos()), "not one of the operations the property was stated for: not decided", false)
			continue
		}
		if why := prologueExempt[name]; why != "" {
			r.ok(key, w.pos(f.Pos()), "tabled: "+why, false)
			continue
		}
		ok, why := check(f)
		if ok {
			r.ok(key, w.pos(f.Pos()), why, true)
		} else {
			r.bad(key, w.pos(f.Pos()), "NaN operands are not handled before anything else: "+why+" (a signaling NaN would not raise InvalidOperation / a NaN would be processed as a number)")
		}
	}
}

func (w *World) prologueOf(g *ssa.Function) (bool, string) {
	if w.prologueCheck == nil {
		return false, "no checker"
	}
	return w.prologueCheck(g)
}

// isOpLike: an in-package Context method with (Condition, error)-style results
// and a Decimal destination (Add→add, Sub→add).
func (w *World) isOpLike(g *ssa.Function) bool {
	if g == nil || w.condResultIndex(g) < 0 {
		return false
	}
	roles := w.roles(g)
	for i, p := range g.Params {
		if roles[i] == RoleDest && isDecimalPtr(p.Type()) {
			return true
		}
	}
	return false
}

// ---- R2 ---------------------------------------------------------------------

func ruleNaNSelection(w *World, r *RuleResult) {
	f := w.fn("(*Context).setAsNaN")
	if f == nil {
		r.anchorMissing("(*Context).setAsNaN")
		return
	}
	forms := w.formConsts()
	sn, qn := forms["NaNSignaling"], forms["NaN"]
	inv := w.conditionConsts()["InvalidOperation"]
	key := "(*Context).setAsNaN | selection order and signaling"
	paths, ok := enumPaths(f, 8192)
	if !ok {
		r.undecided(key, w.pos(f.Pos()), "not loop-free")
		return
	}
	xi, yi := paramIndex(f, "x"), paramIndex(f, "y")
	if xi < 0 || yi < 0 {
		r.anchorMissing("(*Context).setAsNaN params x,y")
		return
	}
	px, py := ssa.Value(f.Params[xi]), ssa.Value(f.Params[yi])
	// finite domain: the Form of x and of y is only ever compared with constants
	type asg struct {
		xf, yf int64 // sn, qn or -1 (any other form)
		ynil   bool
	}
	var bad []string
	checked := 0
	for _, xf := range []int64{sn, qn, -1} {
		for _, ynil := range []bool{true, false} {
			for _, yf := range []int64{sn, qn, -1} {
				if ynil && yf != -1 {
					continue
				}
				a := asg{xf, yf, ynil}
				desc := fmt.Sprintf("x=%s y=%s", formName(xf, sn, qn), map[bool]string{true: "nil", false: formName(yf, sn, qn)}[ynil])
				// evaluate a condition on a path under the assignment; ok=false when undecidable
				eval := func(cond ssa.Value, p Path) (bool, bool) {
					cond = phiOnPath(cond, p) // `a && b` used as a switch-true case is a φ of bools
					if k, isK := cond.(*ssa.Const); isK && k.Value != nil {
						return boolConst(k), true
					}
					bo, isB := cond.(*ssa.BinOp)
					if !isB || (bo.Op != token.EQL && bo.Op != token.NEQ) {
						return false, false
					}
					var res bool
					switch {
					case isNilConst(bo.Y) && phiOnPath(bo.X, p) == py:
						res = a.ynil
					default:
						ld, isL := bo.X.(*ssa.UnOp)
						k, isK := bo.Y.(*ssa.Const)
						if !isL || !isK {
							return false, false
						}
						fa, isFA := ld.X.(*ssa.FieldAddr)
						if !isFA || w.exprOf(f, ld.X).Name != "Form" {
							return false, false
						}
						var form int64
						switch phiOnPath(fa.X, p) {
						case px:
							form = a.xf
						case py:
							if a.ynil {
								return false, false // dereferencing nil: infeasible by construction
							}
							form = a.yf
						default:
							return false, false
						}
						res = form == ci(k)
					}
					if bo.Op == token.NEQ {
						res = !res
					}
					return res, true
				}
				var hit *Path
				for i := range paths {
					p := paths[i]
					feasible := true
					for _, d := range p.Decisions {
						v, known := eval(d.Cond, p)
						if os.Getenv("APDLINT_DEBUG") != "" {
							fmt.Fprintf(os.Stderr, "DBG %s path#%d cond=%s val=%v -> %v known=%v\n", desc, i, w.exprOf(f, d.Cond).String(), d.Val, v, known)
						}
						if !known {
							// a dereference of nil y on an infeasible path, or a condition outside the domain
							feasible = false
							break
						}
						if v != d.Val {
							feasible = false
							break
						}
					}
					if feasible {
						if hit != nil {
							bad = append(bad, desc+": more than one feasible path (condition outside the Form/nil domain)")
						}
						hit = &paths[i]
					}
				}
				if hit == nil {
					bad = append(bad, desc+": no feasible path could be evaluated")
					continue
				}
				checked++
				p := *hit
				var src ssa.Value
				quieted := false
				for _, b := range p.Blocks {
					for _, in := range b.Instrs {
						if c, ok := in.(*ssa.Call); ok && w.calleeName(c) == "(*Decimal).Set" {
							src = phiOnPath(c.Common().Args[1], p)
						}
						if st, ok := in.(*ssa.Store); ok && w.exprOf(f, st.Addr).String() == "&"+w.destName(f)+".Form" {
							if k, ok := st.Val.(*ssa.Const); ok && ci(k) == qn {
								quieted = true
							}
						}
					}
				}
				var want ssa.Value
				wantSig := false
				switch {
				case a.xf == sn:
					want, wantSig = px, true
				case !a.ynil && a.yf == sn:
					want, wantSig = py, true
				case a.xf == qn:
					want = px
				case !a.ynil && a.yf == qn:
					want = py
				}
				if want == nil {
					if src != nil {
						bad = append(bad, desc+": a value is copied although neither operand is a NaN")
					}
					continue
				}
				if src != want {
					got := "nothing"
					if src != nil {
						got = w.exprOf(f, src).String()
					}
					bad = append(bad, fmt.Sprintf("%s: result is taken from %s, the rules require %s", desc, got, w.exprOf(f, want).String()))
					continue
				}
				retFlags := phiOnPath(p.Ret.Results[0], p)
				bits, isK := condBits(retFlags)
				if ex, isEx := retFlags.(*ssa.Extract); isEx && !isK && ex.Index == 0 {
					// return c.goError(<literal>): goError hands its argument back (C03.R1)
					if gc, isCall := ex.Tuple.(*ssa.Call); isCall && w.isGoErrorCall(gc) {
						flagsArg := gc.Common().Args[len(gc.Common().Args)-1]
						if w.calleeName(gc) == "(Condition).GoError" {
							flagsArg = gc.Common().Args[0]
						}
						bits, isK = condBits(phiOnPath(flagsArg, p))
					}
				}
				if !isK {
					bad = append(bad, desc+": returned flags are not a constant on the evaluated path")
					continue
				}
				if wantSig && (bits != inv || !quieted) {
					bad = append(bad, fmt.Sprintf("%s: a signaling NaN must give InvalidOperation and a quiet NaN result (flags %#x, quieted %v)", desc, bits, quieted))
				}
				if !wantSig && bits != 0 {
					bad = append(bad, fmt.Sprintf("%s: a quiet NaN must propagate silently (flags %#x)", desc, bits))
				}
			}
		}
	}
	if len(bad) > 0 {
		r.bad(key, w.pos(f.Pos()), strings.Join(uniqStrings(bad), "; "))
	} else {
		r.ok(key, w.pos(f.Pos()), fmt.Sprintf("%d operand-form combinations evaluated over the finite domain {sNaN, NaN, other} × {nil, sNaN, NaN, other}: sNaN(x) > sNaN(y) > NaN(x) > NaN(y); signaling ⇒ InvalidOperation + quieted, quiet ⇒ no flag", checked), true)
	}
}

func formName(v, sn, qn int64) string {
	switch v {
	case sn:
		return "sNaN"
	case qn:
		return "NaN"
	}
	return "other"
}
