package main

import (
	"fmt"
	"go/token"
	"go/types"
	"math/bits"
	"sort"
	"strings"

	"golang.org/x/tools/go/ssa"
)

func init() {
	register(&Rule{ID: "C02.R1", Min: 50,
		Text: "closed flag set: the declared Condition constants are 12 distinct single bits, and every Condition-typed value in the package is built only from those constants, zero, other Condition values and the operators | & &^ ^ (no shifts, arithmetic or integer conversions outside Condition.String's bit scan): no 13th bit can be returned",
		Run:  ruleClosedFlags})
	register(&Rule{ID: "C02.R2", Min: 11,
		Text: "implications by construction: a constant with Inexact also carries Rounded, or Rounded is or-ed on every path through the site, or the result becomes infinite; a constant with Overflow also carries Inexact or SystemOverflow (or Inexact is already set); Underflow is raised only together with SystemUnderflow, under the test Inexact∧Subnormal, or inside negateOverflowFlags together with Subnormal",
		Run:  ruleFlagImplications})
	register(&Rule{ID: "C02.R3", Min: 84,
		Text: "no flag is dropped: every Condition produced by a callee flows into the returned Condition (through | & &^ φ, goError, negateOverflowFlags, ErrDecimal.update) or into a branch condition; discards are limited to a frozen, reasoned table",
		Run:  ruleNoFlagDropped})
	register(&Rule{ID: "C02.R4", Min: 6,
		Text: "division conditions sit under the guards the specification gives them: DivisionUndefined only under IsZero(x)∧IsZero(y); DivisionByZero only under IsZero(y)∧¬IsZero(x); DivisionImpossible only under NumDigits(quotient) > c.Precision; and the functions that must raise them still do",
		Run:  ruleDivisionGuards})
}

func ruleClosedFlags(w *World, r *RuleResult) {
	cc := w.conditionConsts()
	var all uint64
	okConsts := len(cc) == 12
	for _, v := range cc {
		if bits.OnesCount64(v) != 1 || all&v != 0 {
			okConsts = false
		}
		all |= v
	}
	for _, v := range w.conditionUnions() {
		if v&^all != 0 || v == 0 {
			okConsts = false
		}
	}
	if okConsts && all == 1<<12-1 {
		r.ok("Condition constants", "condition.go", fmt.Sprintf("%d constants, distinct single bits, union %#x", len(cc), all), true)
	} else {
		r.bad("Condition constants", "condition.go", fmt.Sprintf("declared Condition constants are not 12 distinct single bits 1<<0..1<<11 (have %d, union %#x)", len(cc), all))
	}
	for _, name := range w.Names {
		f := w.Funcs[name]
		var bad []string
		n := 0
		// a function out of which no Condition value can flow (it renders or tests one): whatever it
		// computes on the way cannot become a returned flag
		sink := w.condSink(f, 0)
		for _, b := range f.Blocks {
			for _, in := range b.Instrs {
				v, ok := in.(ssa.Value)
				if !ok || !typeIs(v.Type(), apdPath, "Condition") || isPointer(v.Type()) {
					continue
				}
				n++
				if sink {
					continue
				}
				switch x := in.(type) {
				case *ssa.BinOp:
					switch x.Op {
					case token.OR, token.AND, token.AND_NOT, token.XOR:
					case token.SHL:
						bad = append(bad, "shift at "+w.instrPos(in))
					default:
						bad = append(bad, "operator "+x.Op.String()+" at "+w.instrPos(in))
					}
				case *ssa.UnOp:
					if x.Op != token.XOR && x.Op != token.MUL {
						bad = append(bad, "operator "+x.Op.String()+" at "+w.instrPos(in))
					}
				case *ssa.Convert:
					if _, isConst := x.X.(*ssa.Const); !isConst {
						bad = append(bad, "conversion from "+x.X.Type().String()+" at "+w.instrPos(in))
					}
				case *ssa.Phi, *ssa.Call, *ssa.Extract, *ssa.Field, *ssa.Index, *ssa.Lookup, *ssa.TypeAssert:
				default:
					bad = append(bad, fmt.Sprintf("%T at %s", in, w.instrPos(in)))
				}
			}
			// constants used as Condition operands must stay inside the 12 bits
			for _, in := range b.Instrs {
				for _, op := range in.Operands(nil) {
					if *op == nil {
						continue
					}
					if k, ok := (*op).(*ssa.Const); ok && typeIs(k.Type(), apdPath, "Condition") && !isPointer(k.Type()) {
						if v, ok := condBits(k); ok && v&^all != 0 {
							// ^(Inexact|Rounded) style masks have high bits set: allowed only as operand of &
							if bo, isBin := in.(*ssa.BinOp); isBin && (bo.Op == token.AND) {
								continue
							}
							bad = append(bad, fmt.Sprintf("constant %#x outside the declared bits at %s", v, w.instrPos(in)))
						}
					}
				}
			}
		}
		if n == 0 && len(bad) == 0 {
			continue
		}
		key := name + " | Condition algebra"
		if len(bad) > 0 {
			r.bad(key, w.pos(f.Pos()), "a Condition value is built by something other than the 12 constants and | & &^ ^: "+strings.Join(uniqStrings(bad), "; "))
		} else {
			r.ok(key, w.pos(f.Pos()), fmt.Sprintf("%d Condition-typed values, all from constants and | & &^ ^ φ calls", n), n > 1)
		}
	}
}

// condConstUses lists (instruction, constant bits, kind) for every use of a
// Condition constant in f. For phi operands the site is the end of the
// predecessor block.
type constUse struct {
	site ssa.Instruction
	user ssa.Instruction
	bits uint64
}

func (w *World) condConstUses(f *ssa.Function) []constUse {
	var out []constUse
	for _, b := range f.Blocks {
		for _, in := range b.Instrs {
			if phi, ok := in.(*ssa.Phi); ok {
				for i, e := range phi.Edges {
					if typeIs(e.Type(), apdPath, "Condition") && !isPointer(e.Type()) {
						if v, ok := condBits(e); ok {
							pb := b.Preds[i]
							out = append(out, constUse{pb.Instrs[len(pb.Instrs)-1], phi, v})
						}
					}
				}
				continue
			}
			for _, op := range in.Operands(nil) {
				if *op == nil {
					continue
				}
				if k, ok := (*op).(*ssa.Const); ok && typeIs(k.Type(), apdPath, "Condition") && !isPointer(k.Type()) {
					if v, ok := condBits(k); ok {
						out = append(out, constUse{in, in, v})
					}
				}
			}
		}
	}
	return out
}

func ruleFlagImplications(w *World, r *RuleResult) {
	cc := w.conditionConsts()
	inexact, rounded, overflow, underflow := cc["Inexact"], cc["Rounded"], cc["Overflow"], cc["Underflow"]
	sysO, sysU, subn := cc["SystemOverflow"], cc["SystemUnderflow"], cc["Subnormal"]
	if inexact*rounded*overflow*underflow*sysO*sysU*subn == 0 {
		r.anchorMissing("Condition constants")
		return
	}
	orsBit := func(bit uint64) func(ssa.Instruction) bool {
		return func(in ssa.Instruction) bool {
			if bo, ok := in.(*ssa.BinOp); ok && bo.Op == token.OR {
				for _, o := range []ssa.Value{bo.X, bo.Y} {
					if v, ok := condBits(o); ok && v&bit != 0 {
						return true
					}
				}
			}
			if phi, ok := in.(*ssa.Phi); ok {
				all := len(phi.Edges) > 0
				for _, e := range phi.Edges {
					if v, ok := condBits(e); !ok || v&bit == 0 {
						all = false
					}
				}
				return all
			}
			return false
		}
	}
	for _, name := range w.Names {
		f := w.Funcs[name]
		if strings.HasPrefix(name, "(Condition).") && name != "(Condition).negateOverflowFlags" || strings.HasPrefix(name, "init") {
			continue
		}
		if w.inexactByDef(f) != "" && w.ownerIn(f, []string{"(*Context).Exp"}) == "" {
			continue // transcendental: Inexact by definition, outside the arithmetic kernel
		}
		idx := map[string]int{}
		mk := func(what string) string {
			idx[what]++
			k := fmt.Sprintf("%s | %s", name, what)
			if idx[what] > 1 {
				k = fmt.Sprintf("%s #%d", k, idx[what])
			}
			return k
		}
		for _, u := range w.condConstUses(f) {
			// masks (operands of & / &^) are not raises
			if bo, ok := u.user.(*ssa.BinOp); ok && (bo.Op == token.AND || bo.Op == token.AND_NOT) {
				continue
			}
			if u.bits > 1<<12 {
				continue
			}
			// the constant of a comparison (res&both == both) is not a raise either
			if bo, ok := u.user.(*ssa.BinOp); ok && (bo.Op == token.EQL || bo.Op == token.NEQ) {
				continue
			}
			if u.bits&inexact != 0 && u.bits&overflow == 0 {
				key := mk("Inexact implies Rounded")
				switch {
				case u.bits&rounded != 0:
					r.ok(key, w.instrPos(u.site), "constant carries Rounded too", false)
				default:
					before := seenBefore(u.site, orsBit(rounded)) || orsBit(rounded)(u.site)
					after, _ := mustPassFrom(u.site, orsBit(rounded), func(rt *ssa.Return) bool { return w.isErrorReturn(rt) })
					if before || after {
						r.ok(key, w.instrPos(u.site), "Rounded is or-ed on every path through this site", true)
					} else {
						r.bad(key, w.instrPos(u.site), "Inexact can be returned on a finite result without Rounded")
					}
				}
			}
			if u.bits&overflow != 0 {
				key := mk("Overflow implies Inexact")
				switch {
				case u.bits&(inexact|sysO) != 0:
					r.ok(key, w.instrPos(u.site), "constant carries Inexact or SystemOverflow", false)
				case otherOperandHas(u.user, inexact|sysO):
					r.ok(key, w.instrPos(u.site), "or-ed onto a constant that already carries Inexact", false)
				case seenBefore(u.site, orsBit(inexact)):
					r.ok(key, w.instrPos(u.site), "Inexact is already set on every path to this site", true)
				case name == "(Condition).negateOverflowFlags":
					r.ok(key, w.instrPos(u.site), "mask/test inside negateOverflowFlags", false)
				case mustPassOK(u.site, orsBit(inexact)):
					r.ok(key, w.instrPos(u.site), "Inexact is or-ed in on every path from this site (the bits are added one by one)", true)
				default:
					r.bad(key, w.instrPos(u.site), "Overflow can be raised without Inexact")
				}
			}
			if u.bits&underflow != 0 {
				key := mk("Underflow only with Subnormal∧Inexact")
				switch {
				case u.bits&sysU != 0:
					r.ok(key, w.instrPos(u.site), "system underflow", false)
				case name == "(Condition).negateOverflowFlags" && (u.bits&subn != 0 || seenBefore(u.site, orsBit(subn)) || mustPassOK(u.site, orsBit(subn))):
					r.ok(key, w.instrPos(u.site), "negateOverflowFlags raises Underflow together with Subnormal", true)
				default:
					ok := false
					gb := w.guardedBitsAt(u.site.Block())
					hasI, hasS := gb&inexact != 0, gb&subn != 0
					if !hasI && seenBefore(u.site, orsBit(inexact)) {
						hasI = true // Inexact was or-ed in on every path to the site
					}
					ok = hasI && hasS
					if ok {
						r.ok(key, w.instrPos(u.site), "under the guard res.Inexact() ∧ res.Subnormal()", true)
					} else if _, isCall := u.user.(ssa.CallInstruction); isCall || isCondTest(u.user) {
						r.ok(key, w.instrPos(u.site), "test/mask, not a raise", false)
					} else {
						r.bad(key, w.instrPos(u.site), "Underflow is raised without the Inexact∧Subnormal test")
					}
				}
			}
		}
	}
}

// otherOperandHas: user is `a | b` with both operands constant and one of them
// carrying the bit.
func otherOperandHas(user ssa.Instruction, bit uint64) bool {
	bo, ok := user.(*ssa.BinOp)
	if !ok || bo.Op != token.OR {
		return false
	}
	for _, o := range []ssa.Value{bo.X, bo.Y} {
		if v, ok := condBits(o); ok && v&bit != 0 {
			return true
		}
	}
	return false
}

func isCondTest(in ssa.Instruction) bool {
	bo, ok := in.(*ssa.BinOp)
	return ok && (bo.Op == token.EQL || bo.Op == token.NEQ || bo.Op == token.AND || bo.Op == token.AND_NOT)
}

// ---- C02.R3 ----------------------------------------------------------------

// discardTable: (function -> callee) pairs whose Condition result is
// deliberately not propagated.
var discardTable = map[string]string{
	"(*Context).Log10 -> (*Context).Ln":                "Log10 raises Inexact itself and re-rounds; Ln's flags describe the intermediate",
	"(*loop).done -> (*Context).Sub":                   "convergence delta; only the error matters",
	"(*Decimal).SetFloat64 -> (*Decimal).SetString":    "API has no Condition result",
	"(*Decimal).Scan -> (*Decimal).SetString":          "API has no Condition result",
	"(*Decimal).UnmarshalText -> (*Decimal).SetString": "API has no Condition result",
	"makeConst -> (*Decimal).SetString":                "package constant; error is checked",
	"makeConstWithPrecision -> (*Decimal).SetString":   "package constant; error is checked",
	"makeConstWithPrecision -> (*Context).Round":       "package constant; error is checked",
	"(*Context).Ln -> (*Decimal).SetFloat64":           "initial estimate only",
	"(*Context).Cbrt -> (*Context).goError":            "kept: res,err both used",
	"(*Context).Sqrt -> (*Context).round":              "truncation of the iterate to the candidate the exactness test works on: its flags describe a value that is only compared with the operand (the result's own rounding is a second call, whose flags are returned)",
	"(*Context).Cbrt -> (*Context).round":              "the nearest-rounded candidate of the exactness test: its flags describe a value that is only compared with the operand (the result's own rounding is a second call, whose flags are returned)",
}

// partialDropOK: (function -> callee) pairs whose flags are deliberately left out of some returns.
var partialDropOK = map[string]string{}

// alwaysPropagated: the flag producers whose result describes the value just stored in the destination;
// it must be part of the Condition of every later non-error return (helpers returning (set, res, err)
// triples are consumed under their own `set` test and are not listed).
var alwaysPropagated = map[string]bool{
	"(*Decimal).setExponent": true, "(Rounder).Round": true, "(*Context).round": true, "(*Context).quantize": true,
}

func (w *World) condResultIndex(f *ssa.Function) int {
	res := f.Signature.Results()
	for i := 0; i < res.Len(); i++ {
		if typeIs(res.At(i).Type(), apdPath, "Condition") && !isPointer(res.At(i).Type()) {
			return i
		}
	}
	return -1
}

func ruleNoFlagDropped(w *World, r *RuleResult) {
	through := func(c ssa.CallInstruction) bool {
		n := w.calleeName(c)
		return n == "(*Context).goError" || n == "(Condition).GoError" || n == "(Condition).negateOverflowFlags" || w.isCondTransformer(callee(c))
	}
	for _, name := range w.Names {
		f := w.Funcs[name]
		if strings.HasPrefix(name, "init") {
			continue
		}
		for _, c := range callsIn(f) {
			call, ok := c.(*ssa.Call)
			if !ok {
				continue
			}
			g := callee(call)
			if g == nil || !w.inPkg(g) {
				continue
			}
			ci := w.condResultIndex(g)
			if ci < 0 {
				continue
			}
			gn := w.shortName(g)
			if strings.HasPrefix(gn, "(Condition).") && gn != "(Condition).GoError" && gn != "(Condition).negateOverflowFlags" {
				continue
			}
			key := fmt.Sprintf("%s -> %s", name, gn)
			if n := countKey(r, key); n > 0 {
				key = fmt.Sprintf("%s #%d", key, n+1)
			}
			// the Condition value of this call
			var val ssa.Value
			if g.Signature.Results().Len() == 1 {
				val = call
			} else if refs := call.Referrers(); refs != nil {
				for _, u := range *refs {
					if ex, ok := u.(*ssa.Extract); ok && ex.Index == ci {
						val = ex
					}
				}
			}
			base := fmt.Sprintf("%s -> %s", name, gn)
			if discardTable[base] == "" {
				// a helper extracted from a tabled function inherits its entry
				var owners []string
				for k := range discardTable {
					parts := strings.SplitN(k, " -> ", 2)
					if len(parts) == 2 && parts[1] == gn {
						owners = append(owners, parts[0])
					}
				}
				sort.Strings(owners)
				// … also a helper that several tabled functions share (and nobody else calls)
				if o := w.ownerIn(f, owners); o != "" {
					base = o + " -> " + gn
				}
			}
			if w.isGoErrorCall(call) {
				// goError/GoError return their argument: dropping the copy loses nothing
				r.ok(key, w.instrPos(call), "flags→error conversion returns its argument unchanged", false)
				continue
			}
			used := false
			dropAt := ""
			if val != nil {
				used = flowsTo(val, func(user ssa.Instruction, op ssa.Value) bool {
					switch u := user.(type) {
					case *ssa.Return:
						return true
					case *ssa.If:
						return true
					case ssa.CallInstruction:
						n := w.calleeName(u)
						if n == "(*ErrDecimal).update" || strings.HasPrefix(n, "(Condition).") && !through(u) {
							return true
						}
					case *ssa.Store:
						// e.Flags |= res
						if fa, ok := u.Addr.(*ssa.FieldAddr); ok && typeIs(fa.X.Type(), apdPath, "ErrDecimal") {
							return true
						}
					}
					return false
				}, through)
			}
			// stronger, per return: in a function that itself returns a Condition, every non-error return
			// reachable from the call delivers an expression that still contains the call's flags
			if used && val != nil && w.condResultIndex(f) >= 0 && discardTable[base] == "" && partialDropOK[base] == "" && alwaysPropagated[gn] {
				fi := w.condResultIndex(f)
				for _, b := range f.Blocks {
					rt, isRet := b.Instrs[len(b.Instrs)-1].(*ssa.Return)
					if !isRet || fi >= len(rt.Results) || w.isErrorReturn(rt) {
						continue
					}
					if !(b == call.Block() || reaches(call.Block(), b)) {
						continue
					}
					if !call.Block().Dominates(b) {
						continue // the return is also reachable without the call: its φ decides (not handled)
					}
					if _, isConst := condBits(rt.Results[fi]); isConst {
						continue // a literal flag set replaces the flags on purpose (Quantize's InvalidOperation)
					}
					if gc, isCall := rt.Results[fi].(*ssa.Extract); isCall {
						if cc, ok := gc.Tuple.(*ssa.Call); ok && !w.isGoErrorCall(cc) && w.isCondTransformer(callee(cc)) {
							// a helper that returns the Condition it is handed (set NaN, goError(res)): a literal
							// argument replaces the flags on purpose, as goError(<literal>) does
							lit := false
							for i, p := range callee(cc).Params {
								if typeIs(p.Type(), apdPath, "Condition") && !isPointer(p.Type()) && i < len(cc.Common().Args) {
									_, lit = condBits(cc.Common().Args[i])
								}
							}
							if lit {
								continue
							}
						}
						if cc, ok := gc.Tuple.(*ssa.Call); ok && !w.isGoErrorCall(cc) && w.returnsLiteralFlags(callee(cc)) {
							continue // a helper that delivers a literal flag set of its own (set NaN, goError(InvalidOperation))
						}
						if cc, ok := gc.Tuple.(*ssa.Call); ok && w.isGoErrorCall(cc) {
							flagsArg := cc.Common().Args[len(cc.Common().Args)-1]
							if w.calleeName(cc) == "(Condition).GoError" {
								flagsArg = cc.Common().Args[0]
							}
							if _, isConst := condBits(flagsArg); isConst {
								continue // goError(<literal>)
							}
						}
					}
					found := false
					w.exprOf(f, rt.Results[fi]).walk(func(x *Expr) bool {
						if x.V == val || x.V == ssa.Value(call) {
							found = true
						}
						return !found
					})
					if !found {
						used = false
						dropAt = w.instrPos(rt)
					}
				}
			}
			switch {
			case used:
				r.ok(key, w.instrPos(call), "result flags flow to the returned Condition / ErrDecimal.Flags / a test", true)
			case dropAt != "":
				r.bad(key, w.instrPos(call), "the Condition returned by "+gn+" does not reach the Condition delivered by the return at "+dropAt+" (overwritten or left out on that path)")
			case discardTable[base] != "":
				r.ok(key, w.instrPos(call), "tabled discard: "+discardTable[base], false)
			default:
				r.bad(key, w.instrPos(call), "the Condition returned by "+gn+" is dropped or overwritten before it can reach the caller's result")
			}
		}
	}
}

// ---- C02.R4 ----------------------------------------------------------------

// guardFacts renders the guards of a block as normalised facts.
func (w *World) guardFacts(f *ssa.Function, b *ssa.BasicBlock) map[string]bool {
	out := map[string]bool{}
	for _, g := range guardsAt(b) {
		w.addFact(out, f, g.Cond, g.Val)
	}
	return out
}

func (w *World) addFact(out map[string]bool, f *ssa.Function, cond ssa.Value, val bool) {
	tv := func(b bool) string {
		if b {
			return "T"
		}
		return "F"
	}
	switch x := cond.(type) {
	case *ssa.UnOp:
		if x.Op == token.NOT {
			w.addFact(out, f, x.X, !val)
			return
		}
	case *ssa.Call:
		n := w.calleeName(x)
		if n == "(*Decimal).IsZero" {
			if p, ok := x.Common().Args[0].(*ssa.Parameter); ok {
				out["IsZero("+p.Name()+")="+tv(val)] = true
				return
			}
		}
		out[w.exprOf(f, cond).String()+"="+tv(val)] = true
		return
	case *ssa.BinOp:
		e := w.exprOf(f, cond)
		lx, ly := w.exprOf(f, x.X).leaves(), w.exprOf(f, x.Y).leaves()
		hasND := func(m map[string]bool) bool {
			return m["call:NumDigits"] || m["call:(*Decimal).NumDigits"]
		}
		// the digit count of ONE value compared with the precision (an estimate computed from several digit
		// counts and exponents is a bound, not the count)
		isCount := func(v ssa.Value) bool {
			for {
				switch c := v.(type) {
				case *ssa.Convert:
					v = c.X
					continue
				case *ssa.ChangeType:
					v = c.X
					continue
				}
				break
			}
			call, ok := v.(*ssa.Call)
			return ok && strings.HasSuffix(strings.TrimSuffix(w.calleeName(call), ")"), "NumDigits")
		}
		if (x.Op == token.GTR && hasND(lx) && isCount(x.X) && ly["c.Precision"]) || (x.Op == token.LSS && hasND(ly) && isCount(x.Y) && lx["c.Precision"]) {
			out["NumDigits>Precision="+tv(val)] = true
		}
		// x.Sign()==0 style
		if x.Op == token.EQL || x.Op == token.NEQ {
			for _, side := range [][2]ssa.Value{{x.X, x.Y}, {x.Y, x.X}} {
				if c, ok := side[0].(*ssa.Call); ok && (w.calleeName(c) == "(*Decimal).Sign") {
					if k, ok := side[1].(*ssa.Const); ok && ci(k) == 0 {
						if p, ok := c.Common().Args[0].(*ssa.Parameter); ok {
							out["IsZero("+p.Name()+")="+tv(val == (x.Op == token.EQL))] = true
						}
					}
				}
			}
		}
		out[e.String()+"="+tv(val)] = true
		return
	}
	out[w.exprOf(f, cond).String()+"="+tv(val)] = true
}

func ruleDivisionGuards(w *World, r *RuleResult) {
	cc := w.conditionConsts()
	need := map[string][]string{
		"DivisionUndefined":  {"IsZero(x)=T", "IsZero(y)=T"},
		"DivisionByZero":     {"IsZero(x)=F", "IsZero(y)=T"},
		"DivisionImpossible": {"NumDigits>Precision=T"},
	}
	raised := map[string]map[string]bool{} // function -> flag -> true
	for _, name := range w.Names {
		f := w.Funcs[name]
		if strings.HasPrefix(name, "(Condition).") || strings.HasPrefix(name, "init") {
			continue
		}
		for _, u := range w.condConstUses(f) {
			if bo, ok := u.user.(*ssa.BinOp); ok && (bo.Op == token.AND || bo.Op == token.AND_NOT || bo.Op == token.EQL || bo.Op == token.NEQ) {
				continue
			}
			if u.bits >= 1<<12 {
				continue
			}
			for _, flag := range sortedKeys(need) {
				if u.bits&cc[flag] == 0 {
					continue
				}
				if raised[name] == nil {
					raised[name] = map[string]bool{}
				}
				raised[name][flag] = true
				key := fmt.Sprintf("%s | %s guard", name, flag)
				if n := countKey(r, key); n > 0 {
					key = fmt.Sprintf("%s #%d", key, n+1)
				}
				facts := w.guardFacts(f, u.site.Block())
				var missing []string
				for _, want := range need[flag] {
					if !facts[want] {
						missing = append(missing, want)
					}
				}
				// a helper that only delivers the condition ("set NaN and raise it") is guarded by its callers
				if len(missing) > 0 && (f.Object() == nil || !f.Object().Exported()) && !w.addressTaken(f) {
					if sites := w.allCallsTo(name); len(sites) > 0 {
						all := true
						for _, s := range sites {
							sf := w.guardFacts(s.Parent(), s.Block())
							for _, want := range need[flag] {
								if !facts[want] && !sf[want] {
									all = false
								}
							}
							if raised[w.shortName(s.Parent())] == nil {
								raised[w.shortName(s.Parent())] = map[string]bool{}
							}
							raised[w.shortName(s.Parent())][flag] = true
						}
						if all {
							r.ok(key, w.instrPos(u.site), fmt.Sprintf("raised in an unexported helper, each of whose %d call sites is under %s", len(sites), strings.Join(need[flag], " ∧ ")), true)
							continue
						}
					}
				}
				if len(missing) == 0 {
					r.ok(key, w.instrPos(u.site), "raised under "+strings.Join(need[flag], " ∧ "), true)
				} else {
					var have []string
					for k := range facts {
						have = append(have, k)
					}
					sort.Strings(have)
					r.bad(key, w.instrPos(u.site), fmt.Sprintf("%s is raised without the guard %s (facts here: %s)", flag, strings.Join(missing, " ∧ "), short(strings.Join(have, ", "), 300)))
				}
			}
		}
	}
	mustRaise := map[string][]string{
		"(*Context).quoSpecials": {"DivisionUndefined", "DivisionByZero"},
		"(*Context).Rem":         {"DivisionUndefined", "DivisionImpossible"},
		"(*Context).QuoInteger":  {"DivisionImpossible"},
	}
	for _, fn := range sortedKeys(mustRaise) {
		if !r.need(w, fn) {
			continue
		}
		for _, flag := range mustRaise[fn] {
			key := fmt.Sprintf("%s | raises %s", fn, flag)
			if raised[fn][flag] {
				r.ok(key, w.pos(w.fn(fn).Pos()), "site present", false)
			} else {
				r.bad(key, w.pos(w.fn(fn).Pos()), "the function no longer raises "+flag+" anywhere")
			}
		}
	}
}

func mustPassOK(from ssa.Instruction, ev func(ssa.Instruction) bool) bool {
	ok, _ := mustPassFrom(from, ev, nil)
	return ok
}

// isCondTransformer: an unexported package function that takes a Condition and returns a Condition every
// return of which is computed from that parameter (it adjusts flags, it does not produce them).
func (w *World) isCondTransformer(g *ssa.Function) bool {
	if g == nil || !w.inPkg(g) || g.Object() == nil || g.Object().Exported() || len(g.Blocks) == 0 {
		return false
	}
	ri := w.condResultIndex(g)
	if ri < 0 {
		return false
	}
	var cp *ssa.Parameter
	for _, p := range g.Params {
		if typeIs(p.Type(), apdPath, "Condition") && !isPointer(p.Type()) {
			cp = p
		}
	}
	if cp == nil {
		return false
	}
	for _, b := range g.Blocks {
		rt, ok := b.Instrs[len(b.Instrs)-1].(*ssa.Return)
		if !ok {
			continue
		}
		if ri >= len(rt.Results) {
			return false
		}
		// on every path: a φ derives from the parameter only if each of its incoming values does
		var derives func(x *Expr, depth int) bool
		derives = func(x *Expr, depth int) bool {
			if x.V == ssa.Value(cp) {
				return true
			}
			if depth > 12 {
				return false
			}
			if x.Op == "phi" {
				if len(x.Args) == 0 {
					return false
				}
				for _, a := range x.Args {
					if a.Op == "cycle" {
						continue
					}
					if !derives(a, depth+1) {
						return false
					}
				}
				return true
			}
			for _, a := range x.Args {
				if derives(a, depth+1) {
					return true
				}
			}
			return false
		}
		if !derives(w.exprOf(g, rt.Results[ri]), 0) {
			return false
		}
	}
	return true
}

// condSink: no Condition computed in f can leave it: f has no Condition result, stores no Condition outside
// its own locals, and hands Conditions only to functions of the package that are sinks themselves (or to
// other packages, which have no way to hand one back).
func (w *World) condSink(f *ssa.Function, depth int) bool {
	if f == nil || depth > 3 || len(f.Blocks) == 0 {
		return false
	}
	isCond := func(t types.Type) bool {
		if p, ok := t.Underlying().(*types.Pointer); ok {
			t = p.Elem()
		}
		return typeIs(t, apdPath, "Condition")
	}
	res := f.Signature.Results()
	for i := 0; i < res.Len(); i++ {
		if isCond(res.At(i).Type()) {
			return false
		}
	}
	for _, p := range f.Params {
		if isPointer(p.Type()) && isCond(p.Type()) {
			return false
		}
	}
	for _, b := range f.Blocks {
		for _, in := range b.Instrs {
			switch x := in.(type) {
			case *ssa.Store:
				if isCond(x.Val.Type()) {
					if _, local := basePtr(x.Addr).(*ssa.Alloc); !local {
						return false
					}
				}
			case ssa.CallInstruction:
				passes := false
				for _, a := range x.Common().Args {
					if isCond(a.Type()) {
						passes = true
					}
				}
				if !passes {
					continue
				}
				g := callee(x)
				if g == nil {
					return false
				}
				if w.inPkg(g) && g != f && !w.condSink(g, depth+1) {
					return false
				}
			case *ssa.MakeClosure:
				return false
			}
		}
	}
	return true
}

// returnsLiteralFlags: an unexported helper without a Condition parameter whose every return delivers a
// literal flag set, directly or through goError(<literal>) — "set d to NaN and report InvalidOperation".
func (w *World) returnsLiteralFlags(h *ssa.Function) bool {
	if h == nil || !w.inPkg(h) || h.Object() == nil || h.Object().Exported() || len(h.Blocks) == 0 {
		return false
	}
	fi := w.condResultIndex(h)
	if fi < 0 {
		return false
	}
	for _, p := range h.Params {
		if typeIs(p.Type(), apdPath, "Condition") && !isPointer(p.Type()) {
			return false
		}
	}
	n := 0
	for _, b := range h.Blocks {
		rt, isRet := b.Instrs[len(b.Instrs)-1].(*ssa.Return)
		if !isRet || fi >= len(rt.Results) {
			continue
		}
		n++
		v := rt.Results[fi]
		if _, isK := condBits(v); isK {
			continue
		}
		ex, isEx := v.(*ssa.Extract)
		if !isEx {
			return false
		}
		cc, isCall := ex.Tuple.(*ssa.Call)
		if !isCall || !w.isGoErrorCall(cc) {
			return false
		}
		flagsArg := cc.Common().Args[len(cc.Common().Args)-1]
		if w.calleeName(cc) == "(Condition).GoError" {
			flagsArg = cc.Common().Args[0]
		}
		if _, isK := condBits(flagsArg); !isK {
			return false
		}
	}
	return n > 0
}
