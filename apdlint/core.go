package main

import (
	"fmt"
	"go/token"
	"go/types"
	"os"
	"path/filepath"
	"sort"
	"strings"

	"golang.org/x/tools/go/packages"
	"golang.org/x/tools/go/ssa"
	"golang.org/x/tools/go/ssa/ssautil"
)

const apdPath = "github.com/cockroachdb/apd/v3"

// World is one loaded, type-checked and SSA-lowered configuration of /repo.
type World struct {
	nonNilDepth int
	Repo        string
	Arch        string
	Fset        *token.FileSet
	Pkg         *packages.Package
	Prog        *ssa.Program
	SSA         *ssa.Package
	Funcs       map[string]*ssa.Function // short name -> function (source functions only)
	nanExitMemo map[*ssa.Function]int
	fwdMemo     map[*ssa.Function]string
	Names       []string // sorted short names
	Files       []string

	sums          map[*ssa.Function]*Summary
	prologueCheck func(*ssa.Function) (bool, string)
	raiseBusy     map[*ssa.Function]bool
	flowMem       map[flowKey]*FlowResult
}

// loadWorld loads the non-test files of the package at repo for GOARCH arch.
// Any load or type error is fatal for the check (never a vacuous pass).
func loadWorld(repo, arch string) (*World, error) {
	env := append(os.Environ(), "GOWORK=off", "GOFLAGS=-mod=mod", "GOPROXY=off", "GOSUMDB=off", "GOTOOLCHAIN=local", "CGO_ENABLED=0")
	if arch != "" {
		env = append(env, "GOARCH="+arch, "GOOS=linux")
	}
	cfg := &packages.Config{Mode: packages.LoadAllSyntax, Dir: repo, Env: env, Tests: false}
	pkgs, err := packages.Load(cfg, ".")
	if err != nil {
		return nil, fmt.Errorf("load: %v", err)
	}
	if len(pkgs) != 1 {
		return nil, fmt.Errorf("load: expected 1 package, got %d", len(pkgs))
	}
	p := pkgs[0]
	if p.PkgPath != apdPath {
		return nil, fmt.Errorf("load: unexpected package path %q", p.PkgPath)
	}
	if len(p.Errors) > 0 {
		return nil, fmt.Errorf("load: package has errors: %v", p.Errors[0])
	}
	if len(p.Syntax) == 0 {
		return nil, fmt.Errorf("load: no syntax")
	}
	prog, spkgs := ssautil.Packages(pkgs, ssa.InstantiateGenerics)
	if spkgs[0] == nil {
		return nil, fmt.Errorf("ssa: package not built")
	}
	spkgs[0].Build()
	w := &World{Repo: repo, Arch: arch, Fset: p.Fset, Pkg: p, Prog: prog, SSA: spkgs[0],
		Funcs: map[string]*ssa.Function{}, sums: map[*ssa.Function]*Summary{}, flowMem: map[flowKey]*FlowResult{}}
	for _, f := range p.GoFiles {
		w.Files = append(w.Files, filepath.Base(f))
	}
	sort.Strings(w.Files)
	for f := range ssautil.AllFunctions(prog) {
		if f.Pkg != w.SSA || f.Synthetic != "" && !strings.HasPrefix(f.Name(), "init") {
			continue
		}
		if f.Blocks == nil {
			continue
		}
		name := w.shortName(f)
		if _, dup := w.Funcs[name]; dup {
			// init#1, init#2 ... are distinct names already; anything else is a bug.
			return nil, fmt.Errorf("duplicate function name %s", name)
		}
		w.Funcs[name] = f
	}
	for n := range w.Funcs {
		w.Names = append(w.Names, n)
	}
	sort.Strings(w.Names)
	if len(w.Funcs) < 100 {
		return nil, fmt.Errorf("only %d functions found; expected the whole package", len(w.Funcs))
	}
	return w, nil
}

func (w *World) shortName(f *ssa.Function) string {
	return f.RelString(w.SSA.Pkg)
}

// fn returns the named function or nil.
func (w *World) fn(name string) *ssa.Function { return w.Funcs[name] }

func (w *World) pos(p token.Pos) string {
	if !p.IsValid() {
		return "?"
	}
	ps := w.Fset.Position(p)
	return fmt.Sprintf("%s:%d", filepath.Base(ps.Filename), ps.Line)
}

// instrPos returns a usable position for an instruction (falls back to the
// closest preceding instruction with a position, then the function).
func (w *World) instrPos(in ssa.Instruction) string {
	if in == nil {
		return "?"
	}
	if in.Pos().IsValid() {
		return w.pos(in.Pos())
	}
	if v, ok := in.(ssa.Value); ok {
		_ = v
	}
	b := in.Block()
	if b != nil {
		idx := -1
		for i, x := range b.Instrs {
			if x == in {
				idx = i
			}
		}
		for i := idx; i >= 0; i-- {
			if b.Instrs[i].Pos().IsValid() {
				return w.pos(b.Instrs[i].Pos())
			}
		}
		for i := idx + 1; i < len(b.Instrs) && i > 0; i++ {
			if b.Instrs[i].Pos().IsValid() {
				return w.pos(b.Instrs[i].Pos())
			}
		}
		return w.pos(b.Parent().Pos())
	}
	return "?"
}

// callee returns the statically resolved callee of a call instruction, or nil
// (interface invoke / dynamic call).
func callee(c ssa.CallInstruction) *ssa.Function {
	return c.Common().StaticCallee()
}

// calleeName returns a stable name for any call: short name for in-package
// functions, full name for externals, "invoke <iface>.<method>" for interface
// calls, "dynamic" otherwise.
func (w *World) calleeName(c ssa.CallInstruction) string {
	cc := c.Common()
	if f := cc.StaticCallee(); f != nil {
		if f.Pkg == w.SSA {
			return w.shortName(f)
		}
		return f.String()
	}
	if cc.IsInvoke() {
		return "invoke " + types.TypeString(cc.Value.Type(), nil) + "." + cc.Method.Name()
	}
	if b, ok := cc.Value.(*ssa.Builtin); ok {
		return "builtin " + b.Name()
	}
	return "dynamic"
}

func (w *World) inPkg(f *ssa.Function) bool { return f != nil && f.Pkg == w.SSA }

// namedType returns the name of the (possibly pointer-to) named type defined
// in the apd package, or "" otherwise.
func (w *World) apdTypeName(t types.Type) string {
	if p, ok := t.Underlying().(*types.Pointer); ok {
		t = p.Elem()
	}
	if n, ok := t.(*types.Named); ok {
		if n.Obj().Pkg() != nil && n.Obj().Pkg().Path() == apdPath {
			return n.Obj().Name()
		}
	}
	return ""
}

func isPointer(t types.Type) bool {
	_, ok := t.Underlying().(*types.Pointer)
	return ok
}

func pointee(t types.Type) types.Type {
	if p, ok := t.Underlying().(*types.Pointer); ok {
		return p.Elem()
	}
	return nil
}

// typeIs reports whether t is the named type pkg.name or a pointer to it.
func typeIs(t types.Type, pkg, name string) bool {
	if p, ok := t.Underlying().(*types.Pointer); ok {
		t = p.Elem()
	}
	n, ok := t.(*types.Named)
	if !ok {
		return false
	}
	return n.Obj().Name() == name && n.Obj().Pkg() != nil && n.Obj().Pkg().Path() == pkg
}

// exportedAPI returns the exported functions and methods (on exported types)
// of the package: the entry points a user can call.
func (w *World) exportedAPI() []*ssa.Function {
	var out []*ssa.Function
	for _, n := range w.Names {
		f := w.Funcs[n]
		if f.Object() == nil || !f.Object().Exported() {
			continue
		}
		if recv := f.Signature.Recv(); recv != nil {
			tn := w.apdTypeName(recv.Type())
			if tn == "" || !token.IsExported(tn) {
				continue
			}
		}
		out = append(out, f)
	}
	return out
}

// reachable returns the set of in-package functions reachable from roots
// through static calls (the package has no dynamic dispatch into itself except
// fmt/sql interfaces, whose implementations are exported methods and hence
// roots themselves).
func (w *World) reachable(roots []*ssa.Function) map[*ssa.Function]bool {
	seen := map[*ssa.Function]bool{}
	var visit func(f *ssa.Function)
	visit = func(f *ssa.Function) {
		if seen[f] || !w.inPkg(f) {
			return
		}
		seen[f] = true
		for _, b := range f.Blocks {
			for _, in := range b.Instrs {
				if c, ok := in.(ssa.CallInstruction); ok {
					if g := callee(c); g != nil {
						visit(g)
					}
				}
			}
		}
	}
	for _, r := range roots {
		visit(r)
	}
	return seen
}

// callersOf returns every call instruction in the package whose static callee
// is f.
func (w *World) callersOf(f *ssa.Function) []ssa.CallInstruction {
	var out []ssa.CallInstruction
	for _, n := range w.Names {
		g := w.Funcs[n]
		for _, b := range g.Blocks {
			for _, in := range b.Instrs {
				if c, ok := in.(ssa.CallInstruction); ok && callee(c) == f {
					out = append(out, c)
				}
			}
		}
	}
	return out
}

// paramIndex returns the index of the parameter with the given name, or -1.
func paramIndex(f *ssa.Function, name string) int {
	for i, p := range f.Params {
		if p.Name() == name {
			return i
		}
	}
	return -1
}

func sortedKeys[M ~map[string]V, V any](m M) []string {
	out := make([]string, 0, len(m))
	for k := range m {
		out = append(out, k)
	}
	sort.Strings(out)
	return out
}
