package main

import (
	"fmt"
	"go/constant"
	"go/token"
	"sort"
	"strings"

	"golang.org/x/tools/go/ssa"
)

func init() {
	register(&Rule{ID: "C04.R4", Min: 16,
		Text: "every loop reachable from the exported API is bounded: a counted/range loop; a tabled loop with a named variant; or, when its body is driven by ErrDecimal wrappers (no-ops after the first error), every cycle passes a loop.done or ed.Err() test whose error edge leaves the loop; loop.done itself counts iterations against maxIterations; Exp's series length is capped",
		Run:  ruleLoopsBounded})
	register(&Rule{ID: "C04.R5", Min: 2,
		Text: "the parser cannot produce an ill-formed value: the digit string handed to BigInt.SetString (which accepts a sign) is the very value a dominating sign rejection was applied to; Form stays NaN on every error return; the success path returns through setExponent",
		Run:  ruleParserWellFormed})
}

// loopTable: loops that are neither counted nor error-checked on every cycle,
// keyed by function, each with the variant that bounds it. The number of
// entries is the number of such loops the function may contain: an additional
// unclassified loop in the same function is reported.
var loopTable = map[string][]string{
	"(*Context).integerPower":   {"b is halved (Rsh 1) every iteration until zero"},
	"(*Decimal).Reduce":         {"i divided by 10000 per iteration", "i divided by 10 per iteration (i != 0)", "coefficient divided by ten per iteration; exits at the first non-zero digit", "non-zero coefficient divided by 10**1000 per iteration; exits at the first non-zero remainder (a thousand zeros at a time)"},
	"(*constWithPrecision).get": {"precision divided by 16 per iteration", "precision halved per iteration"},
	"(Condition).String":        {"one set bit of r is cleared per iteration (closed 12-bit set, C02.R1)"},
	"(*Context).Sqrt":           {"p = min(2p-2, maxp) strictly increases from 3 to maxp; the exit does not depend on any wrapper result"},
}

// progressNeedsBaseCtx: functions whose error-checked, uncapped loops make progress only under the
// package-wide exponent range.
var progressNeedsBaseCtx = map[string]string{
	"(*Context).Cbrt": "its exit needs the operand scaled by 8 (or 1/8) to reach [1/8, 1], which takes non-saturating arithmetic",
}

func ruleLoopsBounded(w *World, r *RuleResult) {
	reach := w.apiReachable()
	tabUsed := map[string]int{}
	tabTaken := map[string]map[int]bool{}
	for _, name := range w.Names {
		f := w.Funcs[name]
		if !reach[f] {
			continue
		}
		loops := loopsOf(f)
		if len(loops) == 0 {
			continue
		}
		for _, h := range f.Blocks {
			body, ok := loops[h]
			if !ok {
				continue
			}
			conds := w.loopExitConds(f, body)
			desc := strings.Join(conds, " ; ")
			key := fmt.Sprintf("%s | loop exit %s", name, short(desc, 120))
			if n := countKey(r, key); n > 0 {
				key = fmt.Sprintf("%s #%d", key, n+1)
			}
			pos := w.instrPos(h.Instrs[0])
			// does the exit depend on Decimal values (which wrappers stop updating after an error)?
			decimalDriven := w.exitDependsOnDecimal(f, body)
			hasWrappers := false
			for b := range body {
				for _, in := range b.Instrs {
					if c, ok := in.(*ssa.Call); ok {
						if g := callee(c); g != nil && g.Signature.Recv() != nil && w.apdTypeName(g.Signature.Recv().Type()) == "ErrDecimal" && errDecimalNonWrappers[g.Name()] == "" {
							hasWrappers = true
						}
					}
				}
			}
			if w.isCountedLoop(f, h, body) {
				r.ok(key, pos, "counted / range loop: an induction variable moves monotonically to a loop-invariant bound", true)
				continue
			}
			if ok, why := w.errorCheckedCycle(f, h, body); ok {
				if strings.HasPrefix(why, "ed.Err()") {
					// no iteration cap: besides stopping on errors the loop must make progress. For the scaling
					// loops tabled here that means arithmetic that cannot saturate (underflow to zero, overflow):
					// their context has to be the package-wide one, not the caller's.
					if reason := progressNeedsBaseCtx[name]; reason != "" && decimalDriven && !w.loopCtxFromBase(f, body) {
						r.bad(key, pos, "the loop stops on errors, but "+reason+": under the caller's exponent limits the scaled value can underflow to zero (or overflow) without any error when the condition is not trapped, and then never reaches the exit")
						continue
					}
					r.ok(key, pos, "iteration loop: "+why+"; beyond that its termination rests on numeric convergence, which is not decided here (necessary conditions: C12.R5 half-even working context)", true)
					continue
				}
				r.ok(key, pos, "iteration loop: "+why+" (loop.done caps the iteration count)", true)
				continue
			}
			if hasWrappers && decimalDriven {
				if w.loopCtxFromBase(f, body) && tabUsed[name] < len(loopTable[name]) {
					r.ok(key, pos, "tabled: "+loopTable[name][tabUsed[name]], false)
					tabUsed[name]++
					continue
				}
				r.bad(key, pos, "loop driven by ErrDecimal wrappers (no-ops after the first error) whose exit depends on the values they compute, with no loop.done / ed.Err() test on every cycle: it never terminates once an internal step traps")
				continue
			}
			// the table entry: the function's own, or — for an unexported helper split off a tabled function —
			// one of its owner's; a loop that divides a big coefficient takes a "coefficient" entry, any other
			// loop one of the others
			tname := name
			if len(loopTable[tname]) == 0 {
				var keys []string
				for k := range loopTable {
					keys = append(keys, k)
				}
				sort.Strings(keys)
				if o := w.ownerIn(f, keys); o != "" {
					tname = o
				}
			}
			bigDiv := false
			for lb := range body {
				for _, in := range lb.Instrs {
					if c, isC := in.(*ssa.Call); isC && w.calleeName(c) == "(*BigInt).QuoRem" {
						bigDiv = true
					}
				}
			}
			pick := -1
			for ti, v := range loopTable[tname] {
				if tabTaken[tname] == nil {
					tabTaken[tname] = map[int]bool{}
				}
				if !tabTaken[tname][ti] && strings.Contains(v, "coefficient") == bigDiv {
					pick = ti
					break
				}
			}
			if pick >= 0 {
				variant := loopTable[tname][pick]
				tabTaken[tname][pick] = true
				zeroOut := w.zeroExcludedAt(f, h)
				if !zeroOut && tname != name && !w.addressTaken(f) {
					// a helper: the value is the caller's, excluded there
					sites := w.allCallsTo(name)
					zeroOut = len(sites) > 0
					for _, sc := range sites {
						if !w.zeroExcludedAt(sc.Parent(), sc.Block()) {
							zeroOut = false
						}
					}
				}
				// a digit-stripping loop (exit: remainder != 0) only terminates for a non-zero value
				if strings.Contains(variant, "non-zero") && strings.Contains(variant, "coefficient") && !zeroOut {
					r.bad(key, pos, "the loop divides by ten until a remainder is non-zero, but no dominating test excludes a zero value (for zero every remainder is 0 and the loop never ends); a zero can reach it whenever the zero test is tied to one representation only")
					continue
				}
				r.ok(key, pos, "tabled: "+variant, false)
				continue
			}
			r.bad(key, pos, "loop that is neither counted, nor error-checked on every cycle, nor tabled with a variant (exit conditions: "+desc+")")
		}
	}
	// loop.done counts iterations
	if d := w.fn("(*loop).done"); d != nil {
		key := "(*loop).done | iteration cap"
		incr, capTest := false, false
		var capIf *ssa.If
		var capFn *ssa.Function
		hasSuffixLeaf := func(m map[string]bool, suf string) bool {
			for l := range m {
				if strings.HasSuffix(l, suf) {
					return true
				}
			}
			return false
		}
		// the counter may live in done itself or in a helper done was split into
		for _, g := range w.closureFuncs(d) {
			gi, gc := false, (*ssa.If)(nil)
			for _, b := range g.Blocks {
				for _, in := range b.Instrs {
					if st, ok := in.(*ssa.Store); ok && w.exprOf(g, st.Addr).Name == "i" {
						if bo, ok := st.Val.(*ssa.BinOp); ok && bo.Op == token.ADD && w.exprOf(g, bo.X).Name == "i" {
							gi = true
						}
					}
					if iff, ok := in.(*ssa.If); ok {
						lv := w.exprOf(g, iff.Cond).leaves()
						if hasSuffixLeaf(lv, ".i") && hasSuffixLeaf(lv, ".maxIterations") {
							gc = iff
						}
					}
				}
			}
			if gi && gc != nil {
				incr, capTest, capIf, capFn = true, true, gc, g
			}
		}
		okRet := false
		if capIf != nil {
			// in the function holding the counter: every return without an error is dominated by the cap test,
			// whose other edge returns an error
			ei := capFn.Signature.Results().Len() - 1
			okRet = true
			nOK := 0
			for _, b := range capFn.Blocks {
				rt, ok := b.Instrs[len(b.Instrs)-1].(*ssa.Return)
				if !ok || ei < 0 || ei >= len(rt.Results) || !isNilConst(rt.Results[ei]) {
					continue
				}
				if capFn == d {
					// done itself: only the "not yet" returns (false, nil) need the cap
					k, isK := rt.Results[0].(*ssa.Const)
					if !isK || k.Value == nil || constant.BoolVal(k.Value) {
						continue
					}
				}
				nOK++
				if !capIf.Block().Dominates(b) {
					okRet = false
				}
			}
			if nOK == 0 {
				okRet = false
			}
			errEdge := false
			for _, s := range capIf.Block().Succs {
				if rt, ok := s.Instrs[len(s.Instrs)-1].(*ssa.Return); ok && w.isErrorReturn(rt) {
					errEdge = true
				}
			}
			okRet = okRet && errEdge
			// done's own "not yet" returns hand on the counter function's error result
			if capFn != d {
				for _, b := range d.Blocks {
					rt, ok := b.Instrs[len(b.Instrs)-1].(*ssa.Return)
					if !ok || len(rt.Results) != 2 {
						continue
					}
					k, isK := rt.Results[0].(*ssa.Const)
					if !isK || k.Value == nil || constant.BoolVal(k.Value) {
						continue
					}
					fromCap := false
					switch v := rt.Results[1].(type) {
					case *ssa.Call:
						fromCap = callee(v) == capFn
					case *ssa.Extract:
						if c, isC := v.Tuple.(*ssa.Call); isC {
							fromCap = callee(c) == capFn
						}
					}
					if !fromCap && !w.definitelyNonNil(rt.Results[1], b) {
						okRet = false
					}
				}
			}
		}
		if incr && capTest && okRet {
			r.ok(key, w.pos(d.Pos()), "l.i is incremented and compared with maxIterations before every `not yet` return; the cap edge returns an error", true)
		} else {
			r.bad(key, w.pos(d.Pos()), fmt.Sprintf("loop.done no longer bounds the iteration count (increment=%v cap-test=%v cap dominates continue-return=%v)", incr, capTest, okRet))
		}
	} else {
		r.anchorMissing("(*loop).done")
	}
	// Exp: series length cap
	if e := w.fn("(*Context).Exp"); e != nil {
		key := "(*Context).Exp | series length cap"
		capped := false
		// in Exp itself or in an unexported helper the computation of the count was moved to
		for _, ef := range w.closureFuncs(e) {
			for _, b := range ef.Blocks {
				iff, ok := b.Instrs[len(b.Instrs)-1].(*ssa.If)
				if !ok {
					continue
				}
				bo, ok := iff.Cond.(*ssa.BinOp)
				if !ok || bo.Op != token.GTR {
					continue
				}
				k, isK := bo.Y.(*ssa.Const)
				if !isK || k.Value == nil || !strings.Contains(w.exprOf(ef, bo.X).String(), "math.Ceil") {
					continue
				}
				// true edge returns an error; the loops using n are dominated by the false side
				if rt, ok := b.Succs[0].Instrs[len(b.Succs[0].Instrs)-1].(*ssa.Return); ok && w.isErrorReturn(rt) {
					capped = true
				}
			}
		}
		if capped {
			r.ok(key, w.pos(e.Pos()), "the term count derives from a value rejected with an error when above a constant cap", true)
		} else {
			r.bad(key, w.pos(e.Pos()), "the Taylor term count is no longer capped: huge or NaN estimates make the series loop run (practically) forever")
		}
	} else {
		r.anchorMissing("(*Context).Exp")
	}
}

// loopExitConds returns the normalised conditions of the branches that leave
// the loop.
func (w *World) loopExitConds(f *ssa.Function, body map[*ssa.BasicBlock]bool) []string {
	var out []string
	for _, b := range f.Blocks {
		if !body[b] {
			continue
		}
		iff, ok := b.Instrs[len(b.Instrs)-1].(*ssa.If)
		if !ok {
			continue
		}
		leaves := false
		for _, s := range b.Succs {
			if !body[s] {
				leaves = true
			}
		}
		if leaves {
			out = append(out, w.exprOf(f, iff.Cond).String())
		}
	}
	return uniqStrings(out)
}

// exitDependsOnDecimal: some loop-leaving condition reads a Decimal (method
// call on a Decimal or a field of a local Decimal).
func (w *World) exitDependsOnDecimal(f *ssa.Function, body map[*ssa.BasicBlock]bool) bool {
	dep := false
	for b := range body {
		iff, ok := b.Instrs[len(b.Instrs)-1].(*ssa.If)
		if !ok {
			continue
		}
		leaves := false
		for _, s := range b.Succs {
			if !body[s] {
				leaves = true
			}
		}
		if !leaves {
			continue
		}
		w.exprOf(f, iff.Cond).walk(func(x *Expr) bool {
			if x.Op == "call" && strings.HasPrefix(x.Name, "(*Decimal).") {
				// only calls evaluated inside the loop make the exit loop-variant
				if c, ok := x.V.(*ssa.Call); ok && body[c.Block()] {
					dep = true
				}
			}
			return true
		})
	}
	return dep
}

// loopCtxFromBase: the ErrDecimal used in the loop wraps a context derived from
// BaseContext (fixed DefaultTraps), not from the caller's context.
func (w *World) loopCtxFromBase(f *ssa.Function, body map[*ssa.BasicBlock]bool) bool {
	for _, c := range w.callsTo(f, "MakeErrDecimal") {
		e := w.exprOf(f, c.Common().Args[0])
		ok := false
		e.walk(func(x *Expr) bool {
			if x.Op == "call" && x.Name == "(*Context).WithPrecision" && len(x.Args) > 0 && strings.Contains(x.Args[0].String(), "BaseContext") {
				ok = true
			}
			return true
		})
		if ci := w.ctxCtor(c.Common().Args[0]); ci != nil && ci.fromBaseContext() {
			ok = true
		}
		// BaseContext itself (exact arithmetic, the package's fixed traps)
		if g, isG := basePtr(c.Common().Args[0]).(*ssa.Global); isG && g.Name() == "BaseContext" {
			ok = true
		}
		if !ok {
			return false
		}
	}
	return true
}

// isCountedLoop: some exit condition compares an induction variable
// (φ(init, φ±const)) — or a range iterator — with a loop-invariant bound.
func (w *World) isCountedLoop(f *ssa.Function, h *ssa.BasicBlock, body map[*ssa.BasicBlock]bool) bool {
	invariant := func(v ssa.Value) bool {
		switch x := v.(type) {
		case *ssa.Const, *ssa.Parameter, *ssa.Global:
			return true
		case ssa.Instruction:
			if call, ok := v.(*ssa.Call); ok {
				if b, ok := call.Common().Value.(*ssa.Builtin); ok && b.Name() == "len" {
					return true
				}
			}
			if ld, ok := v.(*ssa.UnOp); ok && ld.Op == token.MUL {
				// a field that no instruction of the loop stores to
				if fa, ok := ld.X.(*ssa.FieldAddr); ok {
					stored := false
					for b := range body {
						for _, in := range b.Instrs {
							if st, ok := in.(*ssa.Store); ok {
								if fb, ok := st.Addr.(*ssa.FieldAddr); ok && fb.Field == fa.Field && fb.X == fa.X {
									stored = true
								}
							}
							if c, ok := in.(ssa.CallInstruction); ok {
								for _, a := range c.Common().Args {
									if basePtr(a) == basePtr(fa.X) && pointerLike(a.Type()) {
										stored = true
									}
								}
							}
						}
					}
					if !stored {
						return true
					}
				}
			}
			if cv, ok := v.(*ssa.Convert); ok {
				_ = cv
			}
			return !body[x.Block()]
		}
		return false
	}
	var induction func(v ssa.Value) bool
	induction = func(v ssa.Value) bool {
		if bo, ok := v.(*ssa.BinOp); ok && (bo.Op == token.ADD || bo.Op == token.SUB) {
			if _, isK := bo.Y.(*ssa.Const); isK {
				return induction(bo.X)
			}
		}
		if cv, ok := v.(*ssa.Convert); ok {
			return induction(cv.X)
		}
		phi, ok := v.(*ssa.Phi)
		if !ok || !body[phi.Block()] {
			return false
		}
		step := false
		for i, e := range phi.Edges {
			if !body[phi.Block().Preds[i]] {
				continue
			}
			bo, ok := e.(*ssa.BinOp)
			if !ok || (bo.Op != token.ADD && bo.Op != token.SUB) {
				return false
			}
			if _, isK := bo.Y.(*ssa.Const); !isK || bo.X != ssa.Value(phi) {
				return false
			}
			step = true
		}
		return step
	}
	for b := range body {
		iff, ok := b.Instrs[len(b.Instrs)-1].(*ssa.If)
		if !ok {
			continue
		}
		leaves := false
		for _, s := range b.Succs {
			if !body[s] {
				leaves = true
			}
		}
		if !leaves {
			continue
		}
		switch c := iff.Cond.(type) {
		case *ssa.BinOp:
			switch c.Op {
			case token.LSS, token.LEQ, token.GTR, token.GEQ, token.NEQ:
				if c.Op == token.NEQ {
					continue // i != n is not monotone-safe in general; tabled when used
				}
				if (induction(c.X) && invariant(c.Y)) || (induction(c.Y) && invariant(c.X)) {
					return true
				}
			}
		case *ssa.Extract:
			// range over map/string: ok flag of Next
			if _, ok := c.Tuple.(*ssa.Next); ok {
				return true
			}
		}
	}
	return false
}

// errorCheckedCycle: a loop.done / ed.Err() test whose error edge leaves the
// loop lies on every cycle (its block dominates every back-edge source).
func (w *World) errorCheckedCycle(f *ssa.Function, h *ssa.BasicBlock, body map[*ssa.BasicBlock]bool) (bool, string) {
	var latches []*ssa.BasicBlock
	for _, p := range h.Preds {
		if body[p] {
			latches = append(latches, p)
		}
	}
	for b := range body {
		iff, ok := b.Instrs[len(b.Instrs)-1].(*ssa.If)
		if !ok {
			continue
		}
		bo, ok := iff.Cond.(*ssa.BinOp)
		if !ok || (bo.Op != token.NEQ && bo.Op != token.EQL) || !isNilConst(bo.Y) {
			continue
		}
		src := ""
		switch x := bo.X.(type) {
		case *ssa.Call:
			if w.calleeName(x) == "(*ErrDecimal).Err" {
				src = "ed.Err()"
			}
		case *ssa.Extract:
			if c, ok := x.Tuple.(*ssa.Call); ok && w.calleeName(c) == "(*loop).done" && x.Index == 1 {
				src = "loop.done"
			}
		}
		if src == "" {
			continue
		}
		errSucc := b.Succs[0]
		if bo.Op == token.EQL {
			errSucc = b.Succs[1]
		}
		if body[errSucc] {
			continue
		}
		domAll := true
		for _, l := range latches {
			if !b.Dominates(l) {
				domAll = false
			}
		}
		if domAll {
			return true, src + " is tested on every cycle and its error edge leaves the loop"
		}
	}
	return false, "no error test dominates the back edge"
}

// ---- R5 ---------------------------------------------------------------------

func ruleParserWellFormed(w *World, r *RuleResult) {
	f := w.fn("(*Decimal).setString")
	if f == nil {
		r.anchorMissing("(*Decimal).setString")
		return
	}
	var sets []*ssa.Call
	top := f
	for _, pf := range w.parserFuncs() {
		sets = append(sets, w.callsTo(pf, "(*BigInt).SetString")...)
	}
	if len(sets) == 0 {
		r.anchorMissing("(*Decimal).setString: call of (*BigInt).SetString")
		return
	}
	for i, c := range sets {
		f := c.Parent()
		key := "(*Decimal).setString | digits handed to BigInt.SetString are sign-free"
		if i > 0 {
			key = fmt.Sprintf("%s #%d", key, i+1)
		}
		arg := c.Common().Args[1]
		ok := false
		for _, g := range guardsAt(c.Block()) {
			call, isCall := g.Cond.(*ssa.Call)
			if !isCall || g.Val {
				continue
			}
			n := w.calleeName(call)
			if (n == "strings.ContainsAny" || n == "strings.IndexAny") && call.Common().Args[0] == arg {
				if k, isK := call.Common().Args[1].(*ssa.Const); isK && k.Value != nil {
					cs := constant.StringVal(k.Value)
					if strings.Contains(cs, "+") && strings.Contains(cs, "-") {
						ok = true
					}
				}
			}
		}
		// a value that is never re-assembled after the leading-sign rejection is also fine:
		// it is then a suffix-free slice of the checked string
		if !ok && !w.containsConcat(f, arg) {
			for _, g := range guardsAt(c.Block()) {
				if bo, isOr := g.Cond.(*ssa.BinOp); isOr && !g.Val {
					_ = bo
				}
				if call, isCall := g.Cond.(*ssa.Call); isCall && !g.Val && w.calleeName(call) == "strings.HasPrefix" {
					ok = true
				}
			}
		}
		if ok {
			r.ok(key, w.instrPos(c), "a dominating rejection of '+'/'-' is applied to this very string value", true)
		} else {
			r.bad(key, w.instrPos(c), "the string "+short(w.exprOf(f, arg).String(), 200)+" reaches BigInt.SetString (which accepts its own sign) without a sign rejection applied to that value: input such as \".-5\" yields a negative coefficient")
		}
	}
	// Form stays NaN on error returns
	forms := w.formConsts()
	nan := forms["NaN"]
	key := "(*Decimal).setString | Form is a NaN form on every error return"
	snan := forms["NaNSignaling"]
	var bad []string
	for _, pf := range w.parserFuncs() {
		isTop := pf == top
		// inside a helper "not stored yet" (-1) is the state the parser entered it with
		bad = append(bad, w.formAtReturns(pf, func(rt *ssa.Return) bool { return w.isErrorReturn(rt) }, func(v int64) bool { return v == nan || v == snan || (v == -1 && !isTop) })...)
	}
	if len(bad) == 0 {
		r.ok(key, w.pos(f.Pos()), "the only Form stores reaching an error return store NaN", true)
	} else {
		r.bad(key, w.pos(f.Pos()), "an error return can leave Form = "+strings.Join(bad, ",")+" (a partially parsed value that looks valid)")
	}
	// success (finite) path returns through setExponent
	key = "(*Decimal).setString | finite success returns through setExponent"
	okExp := false
	fin := forms["Finite"]
	for _, pf := range w.parserFuncs() {
		for _, b := range pf.Blocks {
			for _, in := range b.Instrs {
				st, ok := in.(*ssa.Store)
				if !ok || !w.recvFieldStore(pf, st, "Form") {
					continue
				}
				if k, ok := st.Val.(*ssa.Const); ok && ci(k) == fin {
					good, _ := mustPassFrom(st, func(x ssa.Instruction) bool {
						c, ok := x.(*ssa.Call)
						return ok && w.calleeName(c) == "(*Decimal).setExponent"
					}, nil)
					okExp = good
				}
			}
		}
	}
	if okExp {
		r.ok(key, w.pos(f.Pos()), "after Form = Finite every path passes setExponent (exponent and adjusted-exponent limits)", true)
	} else {
		r.bad(key, w.pos(f.Pos()), "a finite value can be returned without the exponent range check of setExponent")
	}
	// an exponent outside the package limits must not leave a finite-looking receiver behind
	{
		key := "(*Decimal).setString | no finite value is left when the exponent is out of range"
		okReset, nSE := false, 0
		for _, pf := range w.parserFuncs() {
			for _, se := range w.callsTo(pf, "(*Decimal).setExponent") {
				nSE++
				for _, st := range storesIn(pf) {
					if !w.recvFieldStore(pf, st, "Form") {
						continue
					}
					k, isK := st.Val.(*ssa.Const)
					if !isK || (ci(k) != nan && ci(k) != snan) {
						continue
					}
					// ... under a test of the System* bits of that call's result
					if w.underSystemTest(st.Block(), 0) {
						for _, b := range pf.Blocks {
							if iff, isIf := b.Instrs[len(b.Instrs)-1].(*ssa.If); isIf {
								if c, isC := iff.Cond.(*ssa.Call); isC && len(c.Common().Args) > 0 && c.Common().Args[0] == ssa.Value(se) {
									okReset = true
								}
								// the mask form: res&(SystemOverflow|SystemUnderflow) != 0
								if w.systemMaskTestEdge(iff.Cond, true) || w.systemMaskTestEdge(iff.Cond, false) {
									derives := false
									w.exprOf(pf, iff.Cond).walk(func(e *Expr) bool {
										if e.V == ssa.Value(se) {
											derives = true
										}
										return true
									})
									if derives {
										okReset = true
									}
								}
							}
						}
					}
				}
			}
		}
		switch {
		case nSE == 0:
			r.ok(key, w.pos(top.Pos()), "the parser does not call setExponent itself: not decided for this shape", false)
		case okReset:
			r.ok(key, w.pos(top.Pos()), "Form is set back to NaN where setExponent reported a System* condition", true)
		default:
			r.bad(key, w.pos(top.Pos()), "Form = Finite is stored before setExponent; when that fails with a System* condition the receiver keeps a finite coefficient with exponent 0 (SetString(\"7e100001\") returns an error and leaves 7)")
		}
	}
	// Context.SetString: nil Decimal and zero flags on error
	if g := w.fn("(*Context).SetString"); g != nil {
		key := "(*Context).SetString | no partial value on error"
		bad := false
		n := 0
		for _, b := range g.Blocks {
			rt, ok := b.Instrs[len(b.Instrs)-1].(*ssa.Return)
			if !ok || !w.definitelyNonNil(rt.Results[2], b) {
				continue
			}
			// error from the parser itself (not a trapped condition)
			if ex, ok := rt.Results[2].(*ssa.Extract); ok {
				if c, ok := ex.Tuple.(*ssa.Call); ok && w.calleeName(c) == "(*Decimal).setString" {
					n++
					bits, isK := condBits(rt.Results[1])
					if !isNilConst(rt.Results[0]) || !isK || bits != 0 {
						bad = true
					}
				}
			}
		}
		if bad || n == 0 {
			r.bad(key, w.pos(g.Pos()), "a parse error is returned together with a non-nil Decimal or non-zero flags")
		} else {
			r.ok(key, w.pos(g.Pos()), "parse errors return (nil, 0, err)", true)
		}
	} else {
		r.anchorMissing("(*Context).SetString")
	}
}

func (w *World) containsConcat(f *ssa.Function, v ssa.Value) bool {
	found := false
	w.exprOf(f, v).walk(func(x *Expr) bool {
		if x.Op == "bin" && x.Name == "+" {
			found = true
		}
		return !found
	})
	return found
}

// formAtReturns: forward analysis of the constants stored into d.Form; returns
// the offending values (as strings) that may be current at a selected return.
func (w *World) formAtReturns(f *ssa.Function, sel func(*ssa.Return) bool, okVal func(int64) bool) []string {
	n := len(f.Blocks)
	type set map[int64]bool
	in := make([]set, n)
	in[0] = set{-1: true} // -1: not stored yet
	var bad []string
	changed := true
	for iter := 0; changed && iter < 8*n+16; iter++ {
		changed = false
		for _, b := range f.Blocks {
			if in[b.Index] == nil {
				continue
			}
			cur := set{}
			for k := range in[b.Index] {
				cur[k] = true
			}
			for _, x := range b.Instrs {
				if st, ok := x.(*ssa.Store); ok && w.recvFieldStore(f, st, "Form") {
					cur = set{}
					if k, ok := st.Val.(*ssa.Const); ok {
						cur[ci(k)] = true
					} else if vals, ok := w.constResultsOf(st.Val); ok {
						for _, v := range vals {
							cur[v] = true
						}
					} else {
						cur[-2] = true
					}
				}
			}
			for _, s := range b.Succs {
				if in[s.Index] == nil {
					in[s.Index] = set{}
				}
				for k := range cur {
					if !in[s.Index][k] {
						in[s.Index][k] = true
						changed = true
					}
				}
			}
		}
	}
	for _, b := range f.Blocks {
		rt, ok := b.Instrs[len(b.Instrs)-1].(*ssa.Return)
		if !ok || !sel(rt) || in[b.Index] == nil {
			continue
		}
		cur := set{}
		for k := range in[b.Index] {
			cur[k] = true
		}
		for _, x := range b.Instrs {
			if st, ok := x.(*ssa.Store); ok && w.recvFieldStore(f, st, "Form") {
				cur = set{}
				if k, ok := st.Val.(*ssa.Const); ok {
					cur[ci(k)] = true
				} else if vals, ok := w.constResultsOf(st.Val); ok {
					for _, v := range vals {
						cur[v] = true
					}
				} else {
					cur[-2] = true
				}
			}
		}
		for k := range cur {
			if !okVal(k) {
				bad = append(bad, fmt.Sprint(k))
			}
		}
	}
	return uniqStrings(bad)
}

// zeroExcludedAt: block h is dominated by a test that excludes a zero value of
// one of f's Decimal parameters (Sign() == 0 false / != 0 true / IsZero()
// false), in either the Decimal or the coefficient form.
func (w *World) zeroExcludedAt(f *ssa.Function, h *ssa.BasicBlock) bool {
	isParamBased := func(v ssa.Value) bool {
		_, ok := basePtr(v).(*ssa.Parameter)
		return ok
	}
	excludes := func(g Guard) bool {
		switch c := g.Cond.(type) {
		case *ssa.Call:
			n := w.calleeName(c)
			if (n == "(*Decimal).IsZero") && !g.Val && isParamBased(c.Common().Args[0]) {
				return true
			}
		case *ssa.BinOp:
			call, isC := c.X.(*ssa.Call)
			k, isK := c.Y.(*ssa.Const)
			if !isC || !isK || ci(k) != 0 {
				return false
			}
			n := w.calleeName(call)
			if n != "(*Decimal).Sign" && n != "(*BigInt).Sign" || !isParamBased(call.Common().Args[0]) {
				return false
			}
			if (c.Op == token.EQL && !g.Val) || (c.Op == token.NEQ && g.Val) {
				return true
			}
		}
		return false
	}
	for _, dg := range w.guardsAtDeep(f, h) {
		if excludes(dg.Guard) {
			return true
		}
	}
	// the test may be one half of an earlier `A && zero` case that was not taken, with A known here
	// (switch { case diff < 0 && d.IsZero(): … case diff < 0: <here> }): every way to be here that is not
	// contradictory excludes zero
	if alts := feasibleAlternatives(guardAlternativesDeep(h)); len(alts) > 0 {
		all := true
		for _, alt := range alts {
			found := false
			for _, g := range alt {
				if excludes(g) {
					found = true
				}
			}
			if !found {
				all = false
			}
		}
		return all
	}
	return false
}

// constResultsOf: v is result #i of a call to a function of the package all of
// whose returns deliver a constant there; returns those constants.
func (w *World) constResultsOf(v ssa.Value) ([]int64, bool) {
	ex, ok := v.(*ssa.Extract)
	if !ok {
		// a single-result call
		if c1, isC := v.(*ssa.Call); isC {
			g := callee(c1)
			if g == nil || !w.inPkg(g) || len(g.Blocks) == 0 || g.Signature.Results().Len() != 1 {
				return nil, false
			}
			var out []int64
			for _, b := range g.Blocks {
				rt, isRet := b.Instrs[len(b.Instrs)-1].(*ssa.Return)
				if !isRet {
					continue
				}
				k, isK := rt.Results[0].(*ssa.Const)
				if !isK || k.Value == nil {
					return nil, false
				}
				out = append(out, ci(k))
			}
			return out, len(out) > 0
		}
		return nil, false
	}
	call, ok := ex.Tuple.(*ssa.Call)
	if !ok {
		return nil, false
	}
	g := callee(call)
	if g == nil || !w.inPkg(g) || len(g.Blocks) == 0 {
		return nil, false
	}
	var out []int64
	for _, b := range g.Blocks {
		rt, isRet := b.Instrs[len(b.Instrs)-1].(*ssa.Return)
		if !isRet {
			continue
		}
		if ex.Index >= len(rt.Results) {
			return nil, false
		}
		k, isK := rt.Results[ex.Index].(*ssa.Const)
		if !isK || k.Value == nil {
			return nil, false
		}
		out = append(out, ci(k))
	}
	return out, len(out) > 0
}
