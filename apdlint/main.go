package main

import (
	"encoding/json"
	"flag"
	"fmt"
	"os"
	"path/filepath"
	"sort"
	"strconv"
	"strings"
	"time"

	"golang.org/x/tools/go/ssa"
)

var (
	rules      = map[string]*Rule{}
	properties = map[string]*PropertyDef{}
)

func register(r *Rule) {
	if _, dup := rules[r.ID]; dup {
		panic("duplicate rule " + r.ID)
	}
	rules[r.ID] = r
}

func registerProperty(p *PropertyDef) { properties[p.ID] = p }

type replayFile struct {
	Property   string     `json:"property"`
	Repo       string     `json:"repo"`
	Arch       string     `json:"arch"`
	Obligation Obligation `json:"obligation"`
	RuleText   string     `json:"rule_text"`
}

func main() {
	repo := flag.String("repo", "/repo", "repository to analyse")
	prop := flag.String("property", "", "property id (C01..C20) or 'all'")
	tier := flag.String("tier", "", "quick | thorough (default: $VERIF_TIER or quick)")
	evDir := flag.String("evidence-dir", "/verif/evidence", "directory for evidence files")
	known := flag.String("known", "/verif/known_findings.json", "known-findings file (read only)")
	replay := flag.String("replay", "", "replay a violation file")
	dump := flag.String("dump", "", "debug: dump summaries/flows of a function")
	listRules := flag.Bool("list", false, "list properties and rules")
	variants := flag.String("variants", "/verif/variants", "directory with seeded/benign variants for the thorough self-test")
	noSelf := flag.Bool("no-selftest", false, "thorough tier without the variant self-test")
	only := flag.String("rule", "", "run only this rule (debug)")
	flag.Parse()

	if *listRules {
		ids := sortedKeys(properties)
		for _, id := range ids {
			p := properties[id]
			fmt.Printf("%s %s\n", id, p.Title)
			for _, r := range p.Rules {
				if rules[r] == nil {
					fmt.Printf("   %s  <MISSING RULE>\n", r)
					continue
				}
				fmt.Printf("   %s (min %d) %s\n", r, rules[r].Min, short(rules[r].Text, 110))
			}
		}
		return
	}
	if *replay != "" {
		os.Exit(doReplay(*replay))
	}
	if *tier == "" {
		*tier = os.Getenv("VERIF_TIER")
	}
	if *tier != "thorough" {
		*tier = "quick"
	}
	if *dump != "" {
		w, err := loadWorld(*repo, "")
		if err != nil {
			fail(2, "%v", err)
		}
		w.computeSummaries()
		debugDump(w, *dump)
		return
	}
	if *prop == "" {
		fail(2, "missing -property")
	}
	var ids []string
	if *prop == "all" {
		ids = sortedKeys(properties)
	} else {
		for _, id := range strings.Split(*prop, ",") {
			if properties[id] == nil {
				fail(2, "unknown property %q", id)
			}
			ids = append(ids, id)
		}
	}
	seed := 0
	if s := os.Getenv("VERIF_SEED"); s != "" {
		seed, _ = strconv.Atoi(s)
	}
	kf, err := loadKnown(*known)
	if err != nil {
		fail(2, "known findings file: %v", err)
	}

	t0 := time.Now()
	// both word sizes in both tiers: BigInt's inline representation has two words on 64-bit and four on
	// 32-bit builds, and code that is dead on one is live on the other
	archs := []string{"amd64", "386"}
	var worlds []*World
	for _, a := range archs {
		w, err := loadWorld(*repo, a)
		if err != nil {
			fail(2, "cannot analyse %s (GOARCH=%s): %v", *repo, a, err)
		}
		w.computeSummaries()
		worlds = append(worlds, w)
	}
	loadS := time.Since(t0).Seconds()

	exit := 0
	for _, id := range ids {
		code := runProperty(properties[id], worlds, *tier, seed, kf, *evDir, *repo, loadS, *only, *variants, *noSelf)
		if code > exit {
			exit = code
		}
	}
	os.Exit(exit)
}

// runProperty evaluates all rules of a property on all loaded configurations.
func runProperty(p *PropertyDef, worlds []*World, tier string, seed int, kf *KnownFile, evDir, repo string, loadS float64, only, variants string, noSelf bool) int {
	t0 := time.Now()
	var all []Obligation
	type ruleStat struct {
		Rule       string `json:"rule"`
		Text       string `json:"text"`
		Instances  int    `json:"instances"`
		Min        int    `json:"expected_min"`
		Discharged int    `json:"discharged"`
		Violated   int    `json:"violated"`
		Undecided  int    `json:"undecided"`
	}
	var stats []ruleStat
	var broken []string
	funcsAnalysed, callSites := 0, 0
	for _, w := range worlds {
		funcsAnalysed += len(w.Funcs)
		callSites += w.countCallSites()
	}
	for _, rid := range p.Rules {
		if only != "" && rid != only {
			continue
		}
		rule := rules[rid]
		if rule == nil {
			broken = append(broken, "rule "+rid+" is not implemented")
			continue
		}
		st := ruleStat{Rule: rid, Text: rule.Text, Min: rule.Min}
		for _, w := range worlds {
			rr := &RuleResult{Rule: rid, Text: rule.Text, MinInst: rule.Min}
			func() {
				defer func() {
					if e := recover(); e != nil {
						broken = append(broken, fmt.Sprintf("rule %s panicked on GOARCH=%s: %v", rid, w.Arch, e))
					}
				}()
				rule.Run(w, rr)
			}()
			for _, a := range rr.Anchors {
				broken = append(broken, fmt.Sprintf("rule %s: unresolved anchor %s (GOARCH=%s)", rid, a, w.Arch))
			}
			if len(rr.Obs) < rule.Min {
				broken = append(broken, fmt.Sprintf("rule %s matched %d constructs on GOARCH=%s, fewer than the %d confirmed by hand (vacuous)", rid, len(rr.Obs), w.Arch, rule.Min))
			}
			for _, o := range rr.Obs {
				o.Arch = w.Arch
				all = append(all, o)
			}
			if w == worlds[0] {
				st.Instances = len(rr.Obs)
			}
		}
		stats = append(stats, st)
	}
	// de-duplicate across configurations (same rule+construct+status)
	seen := map[string]int{}
	var obs []Obligation
	for _, o := range all {
		k := obKey(o) + "|" + o.Status
		if i, ok := seen[k]; ok {
			if !strings.Contains(obs[i].Arch, o.Arch) {
				obs[i].Arch += "," + o.Arch
			}
			continue
		}
		seen[k] = len(obs)
		obs = append(obs, o)
	}
	sortObs(obs)
	nontrivial := map[string]bool{}
	nViol, nKnown, nUndec := 0, 0, 0
	for i := range stats {
		for _, o := range obs {
			if o.Rule != stats[i].Rule {
				continue
			}
			switch o.Status {
			case "discharged":
				stats[i].Discharged++
			case "violated":
				stats[i].Violated++
			case "undecided":
				stats[i].Undecided++
			}
		}
	}
	violDir := filepath.Join(evDir, p.ID+".violations")
	os.RemoveAll(violDir)
	var knownLines []string
	for _, o := range obs {
		if o.Nontrivial {
			nontrivial[obKey(o)] = true
		}
		switch o.Status {
		case "undecided":
			nUndec++
			broken = append(broken, fmt.Sprintf("undecided obligation %s: %s", obKey(o), o.Detail))
		case "violated":
			if f := kf.match(p.ID, o); f != nil {
				nKnown++
				knownLines = append(knownLines, fmt.Sprintf("KNOWN-FINDING: property=%s %s | %s: %s", p.ID, o.Rule, o.Key, f.WhatFails))
				continue
			}
			nViol++
			path := filepath.Join(violDir, fmt.Sprintf("%d.json", nViol))
			arch := strings.Split(o.Arch, ",")[0]
			writeJSON(path, replayFile{Property: p.ID, Repo: repo, Arch: arch, Obligation: o, RuleText: rules[o.Rule].Text})
			fmt.Printf("VIOLATION property=%s replay=%s\n", p.ID, path)
			fmt.Printf("  %s: %s: %s: %s: %s\n", o.Pos, o.Rule, short(rules[o.Rule].Text, 160), o.Key, o.Detail)
		}
	}
	for _, l := range knownLines {
		fmt.Println(l)
	}

	selfNote := ""
	if tier == "thorough" && !noSelf && only == "" {
		okN, skipN, failMsgs := runSelfTest(p, variants, repo)
		selfNote = fmt.Sprintf("variant self-test: %d as expected, %d skipped (patch no longer applies)", okN, skipN)
		for _, m := range failMsgs {
			broken = append(broken, "self-test: "+m)
		}
	}

	// evidence
	samples := pickSamples(obs)
	cov := map[string]interface{}{
		"explanation":         p.Explain,
		"evaluations":         len(obs),
		"distinct_nontrivial": len(nontrivial),
		"rule":                "one obligation per (rule, construct) found in the SSA of /repo's current tree; non-trivial = the obligation needed a dataflow, dominance, provenance or constant-evaluation argument (not a syntactically constant operand)",
		"samples":             samples,
		"obligations":         len(obs),
		"discharged":          len(obs) - nViol - nKnown - nUndec,
		"known_findings":      nKnown,
		"undecided":           nUndec,
		"rules":               stats,
		"functions_analysed":  funcsAnalysed,
		"call_sites":          callSites,
		"configs":             archsOf(worlds),
		"files":               worlds[0].Files,
		"not_decided":         p.NotDecided,
		"checker_cmd":         fmt.Sprintf("bin/apdlint -repo %s -property %s -tier %s", repo, p.ID, tier),
		"trusted_base":        []string{"go/types + go/ssa model of the program (x/tools v0.29.0)", "hand-written mod/ref table for math/big.Int methods", "hand summaries of the unsafe helpers (*BigInt).inner and noescape"},
		"exhaustive":          true,
		"load_s":              loadS,
	}
	if selfNote != "" {
		cov["self_test"] = selfNote
	}
	if len(broken) > 0 {
		cov["machinery_errors"] = broken
	}
	ev := Evidence{PropertyID: p.ID, Tier: tier, Seed: seed, Level: "other", Coverage: cov,
		Assumptions: p.Assumes, WallS: time.Since(t0).Seconds() + loadS, Violations: nViol}
	if err := writeJSON(filepath.Join(evDir, p.ID+".json"), ev); err != nil {
		fail(2, "write evidence: %v", err)
	}
	fmt.Printf("%s [%s]: %d obligations over %d rules (%d non-trivial), %d discharged, %d violated, %d known findings, %d undecided; %d functions, %s\n",
		p.ID, tier, len(obs), len(stats), len(nontrivial), len(obs)-nViol-nKnown-nUndec, nViol, nKnown, nUndec, funcsAnalysed, strings.Join(archsOf(worlds), "+"))
	if len(broken) > 0 {
		for _, b := range broken {
			fmt.Fprintf(os.Stderr, "apdlint: %s: CHECK BROKEN: %s\n", p.ID, b)
		}
	}
	if nViol > 0 {
		return 1
	}
	if len(broken) > 0 {
		return 2
	}
	return 0
}

func archsOf(ws []*World) []string {
	var out []string
	for _, w := range ws {
		out = append(out, "linux/"+w.Arch)
	}
	return out
}

func pickSamples(obs []Obligation) []Obligation {
	// a few obligations per rule, non-trivial first
	per := map[string]int{}
	var out []Obligation
	sorted := append([]Obligation(nil), obs...)
	sort.SliceStable(sorted, func(i, j int) bool { return sorted[i].Nontrivial && !sorted[j].Nontrivial })
	for _, o := range sorted {
		if per[o.Rule] >= 3 {
			continue
		}
		per[o.Rule]++
		o.Detail = short(o.Detail, 400)
		out = append(out, o)
	}
	sortObs(out)
	return out
}

func (w *World) countCallSites() int {
	n := 0
	for _, name := range w.Names {
		for _, b := range w.Funcs[name].Blocks {
			for _, in := range b.Instrs {
				if _, ok := in.(ssa.CallInstruction); ok {
					n++
				}
			}
		}
	}
	return n
}

func doReplay(path string) int {
	b, err := os.ReadFile(path)
	if err != nil {
		fail(2, "%v", err)
	}
	var rf replayFile
	if err := json.Unmarshal(b, &rf); err != nil {
		fail(2, "%v", err)
	}
	rule := rules[rf.Obligation.Rule]
	if rule == nil {
		fail(2, "unknown rule %s", rf.Obligation.Rule)
	}
	w, err := loadWorld(rf.Repo, rf.Arch)
	if err != nil {
		fail(2, "%v", err)
	}
	w.computeSummaries()
	rr := &RuleResult{Rule: rule.ID, Text: rule.Text}
	rule.Run(w, rr)
	fmt.Printf("replay of %s on %s (GOARCH=%s)\nrule %s: %s\n", path, rf.Repo, rf.Arch, rule.ID, rule.Text)
	found := false
	for _, o := range rr.Obs {
		if o.Key == rf.Obligation.Key {
			found = true
			fmt.Printf("construct: %s\nposition:  %s\nstatus:    %s\ndetail:    %s\n", o.Key, o.Pos, o.Status, o.Detail)
			if o.Status == "violated" {
				fmt.Printf("VIOLATION property=%s replay=%s\n", rf.Property, path)
				return 1
			}
		}
	}
	if !found {
		fmt.Println("construct no longer present in the analysed tree")
	}
	return 0
}
