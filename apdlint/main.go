package main

import (
	"fmt"
	"os"
	"time"

	"golang.org/x/tools/go/packages"
	"golang.org/x/tools/go/ssa"
	"golang.org/x/tools/go/ssa/ssautil"
)

func main() {
	t0 := time.Now()
	cfg := &packages.Config{Mode: packages.LoadAllSyntax, Dir: "/repo", Env: append(os.Environ(), "GOWORK=off", "GOFLAGS=-mod=mod")}
	pkgs, err := packages.Load(cfg, ".")
	if err != nil {
		panic(err)
	}
	fmt.Println(len(pkgs), pkgs[0].PkgPath, len(pkgs[0].Errors), time.Since(t0))
	prog, spkgs := ssautil.Packages(pkgs, ssa.InstantiateGenerics)
	spkgs[0].Build()
	_ = prog
	fmt.Println(len(spkgs[0].Members), time.Since(t0))
}
