package main

import (
	"fmt"
	"go/token"
	"go/types"
	"strings"

	"golang.org/x/tools/go/ssa"
)

// sharedSetSites returns the calls d.Set(<shared global g>) in f.
func (w *World) sharedSetSites(f *ssa.Function, global string) []*ssa.Call {
	return w.sharedSetSitesDepth(f, global, 0)
}

func (w *World) sharedSetSitesDepth(f *ssa.Function, global string, depth int) []*ssa.Call {
	var out []*ssa.Call
	p := w.newProv(f, nil)
	for _, c := range w.callsTo(f, "(*Decimal).Set") {
		for _, l := range p.roots(c.Common().Args[1]) {
			if l.Root.Kind == RGlobalObj && l.Root.Name == global {
				out = append(out, c)
			}
		}
	}
	if depth > 2 || (global != "decimalNaN" && global != "decimalInfinity") {
		return out // only NaN and infinity are looked for inside helpers (other shared constants may be mere initial values)
	}
	// calls of unexported helpers that store the shared value into their destination on every path
	for _, ci := range callsIn(f) {
		c, ok := ci.(*ssa.Call)
		if !ok {
			continue
		}
		g := callee(c)
		if g == nil || !w.inPkg(g) || g == f || (g.Object() != nil && g.Object().Exported()) || w.shortName(g) == "(*Decimal).Set" || w.shortName(g) == "(*Decimal).setSlow" {
			continue
		}
		sites := w.sharedSetSitesDepth(g, global, depth+1)
		if len(sites) == 0 {
			continue
		}
		isSite := func(in ssa.Instruction) bool {
			for _, s := range sites {
				if ssa.Instruction(s) == in {
					return true
				}
			}
			return false
		}
		all := true
		for _, b := range g.Blocks {
			if rt, isRet := b.Instrs[len(b.Instrs)-1].(*ssa.Return); isRet && !seenBefore(rt, isSite) {
				all = false
			}
		}
		// and the helper's destination is an argument of this call
		if all {
			out = append(out, c)
		}
	}
	return out
}

// raisesBits: the instruction uses a Condition constant with any of the bits
// as a raise (not a mask/test); jumps count when they feed such a constant
// into a successor's φ.
func (w *World) raisesBits(in ssa.Instruction, bits uint64) bool {
	switch x := in.(type) {
	case *ssa.BinOp:
		if x.Op != token.OR {
			return false
		}
		for _, o := range []ssa.Value{x.X, x.Y} {
			if v, ok := condBits(o); ok && typeIs(o.Type(), apdPath, "Condition") && v&bits != 0 && v < 1<<12 {
				return true
			}
		}
	case *ssa.Call:
		if !w.isGoErrorCall(x) {
			// a helper that hands a Condition of its caller through (d.Set(NaN); return c.goError(res)):
			// what is raised is what the caller passes
			if g := callee(x); w.isCondTransformer(g) {
				for i, p := range g.Params {
					if typeIs(p.Type(), apdPath, "Condition") && !isPointer(p.Type()) && i < len(x.Common().Args) {
						if valueCarriesBits(x.Common().Args[i], bits, 0) {
							return true
						}
					}
				}
			}
			// an unexported helper every return of which raises the bits (e.g. "set NaN and return InvalidOperation")
			if g := callee(x); g != nil && w.inPkg(g) && (g.Object() == nil || !g.Object().Exported()) && w.condResultIndex(g) >= 0 && !w.raiseBusy[g] {
				if w.raiseBusy == nil {
					w.raiseBusy = map[*ssa.Function]bool{}
				}
				w.raiseBusy[g] = true
				defer delete(w.raiseBusy, g)
				all, n := true, 0
				for _, b := range g.Blocks {
					rt, isRet := b.Instrs[len(b.Instrs)-1].(*ssa.Return)
					if !isRet || w.isErrorReturn(rt) {
						continue
					}
					n++
					if !w.raisesBits(rt, bits) && !seenBefore(rt, func(in ssa.Instruction) bool { return w.raisesBits(in, bits) }) {
						all = false
					}
				}
				return all && n > 0
			}
			return false
		}
		for _, o := range x.Common().Args {
			if v, ok := condBits(o); ok && typeIs(o.Type(), apdPath, "Condition") && v&bits != 0 && v < 1<<12 {
				return true
			}
		}
	case *ssa.Return:
		for _, o := range x.Results {
			if v, ok := condBits(o); ok && typeIs(o.Type(), apdPath, "Condition") && v&bits != 0 && v < 1<<12 {
				return true
			}
		}
	case *ssa.Jump, *ssa.If:
		b := in.Block()
		for _, s := range b.Succs {
			for _, y := range s.Instrs {
				phi, ok := y.(*ssa.Phi)
				if !ok {
					break
				}
				for i, e := range phi.Edges {
					if s.Preds[i] == b {
						if v, ok := condBits(e); ok && typeIs(e.Type(), apdPath, "Condition") && v&bits != 0 && v < 1<<12 {
							return true
						}
					}
				}
			}
		}
	}
	return false
}

func ruleInvalidNaNPairing(w *World, r *RuleResult) {
	cc := w.conditionConsts()
	invalid := cc["InvalidOperation"] | cc["DivisionUndefined"] | cc["DivisionImpossible"]
	dbz := cc["DivisionByZero"]
	if invalid == 0 || dbz == 0 {
		r.anchorMissing("Condition constants")
		return
	}
	errExempt := func(rt *ssa.Return) bool { return w.isErrorReturn(rt) }
	for _, name := range w.Names {
		f := w.Funcs[name]
		if strings.HasPrefix(name, "(Condition).") || strings.HasPrefix(name, "init") || name == "(*Context).setAsNaN" {
			continue
		}
		isNaNSet := func(in ssa.Instruction) bool {
			for _, c := range w.sharedSetSites(f, "decimalNaN") {
				if ssa.Instruction(c) == in {
					return true
				}
			}
			return false
		}
		isInfSet := func(in ssa.Instruction) bool {
			for _, c := range w.sharedSetSites(f, "decimalInfinity") {
				if ssa.Instruction(c) == in {
					return true
				}
			}
			return false
		}
		raise := func(bits uint64) func(ssa.Instruction) bool {
			return func(in ssa.Instruction) bool { return w.raisesBits(in, bits) }
		}
		// (→) NaN stored ⇒ an invalid-class flag is returned
		for i, c := range w.sharedSetSites(f, "decimalNaN") {
			key := fmt.Sprintf("%s | NaN result #%d carries an invalid-class flag", name, i+1)
			before := seenBefore(c, raise(invalid)) || raise(invalid)(c) // a helper may store NaN and raise in one call
			after, _ := mustPassFrom(c, raise(invalid), errExempt)
			if !before && !after {
				// stored where an error value was found non-nil, and every return reached from here hands that
				// very error on: the failure path of a parsing step
				for _, g := range guardsAt(c.Block()) {
					bo, isB := g.Cond.(*ssa.BinOp)
					if !isB || !isNilConst(bo.Y) || !types.Identical(bo.X.Type(), types.Universe.Lookup("error").Type()) {
						continue
					}
					if !(bo.Op == token.NEQ && g.Val || bo.Op == token.EQL && !g.Val) {
						continue
					}
					errV := bo.X
					if ok, _ := mustPassFrom(c, func(ssa.Instruction) bool { return false }, func(rt *ssa.Return) bool {
						if errExempt(rt) {
							return true
						}
						for _, v := range rt.Results {
							if v == errV {
								return true
							}
						}
						return false
					}); ok {
						after = true
					}
				}
			}
			if !before && !after && w.underSystemTest(c.Block(), 0) {
				// the value of an operation refused for an exponent outside the package limits: the Condition
				// carries the System* flag that was just tested, which goError always turns into an error
				r.ok(key, w.instrPos(c), "stored only where a System* flag was found set: the operation fails with 'exponent out of range' (C03.R1)", true)
				continue
			}
			if !before && !after && w.isCondTransformer(f) && !w.addressTaken(f) {
				// the condition is the caller's: every call site passes one of the class
				sites := w.allCallsTo(name)
				all := len(sites) > 0
				for _, s := range sites {
					if !w.raisesBits(s, invalid) {
						all = false
					}
				}
				if all {
					r.ok(key, w.instrPos(c), fmt.Sprintf("the helper returns the Condition it is handed, and each of its %d call sites hands it an invalid-class flag", len(sites)), true)
					continue
				}
			}
			if before || after {
				r.ok(key, w.instrPos(c), "InvalidOperation/DivisionUndefined/DivisionImpossible is raised on every path through this store", true)
			} else {
				r.bad(key, w.instrPos(c), "a NaN result can be returned without InvalidOperation, DivisionUndefined or DivisionImpossible")
			}
		}
		// (←) invalid-class raise ⇒ NaN stored
		n := 0
		for _, b := range f.Blocks {
			for _, in := range b.Instrs {
				if !w.raisesBits(in, invalid) {
					continue
				}
				n++
				key := fmt.Sprintf("%s | invalid-class flag #%d comes with a NaN result", name, n)
				before := seenBefore(in, isNaNSet) || isNaNSet(in)
				after, _ := mustPassFrom(in, isNaNSet, errExempt)
				if _, isRet := in.(*ssa.Return); isRet {
					after = false
				}
				if before || after {
					r.ok(key, w.instrPos(in), "the shared NaN is stored into the destination on every path through this raise", true)
				} else {
					r.bad(key, w.instrPos(in), "an invalid-class condition is raised but the destination is not set to NaN on every path")
				}
			}
		}
		// DivisionByZero ⇒ infinity stored
		n = 0
		for _, b := range f.Blocks {
			for _, in := range b.Instrs {
				if !w.raisesBits(in, dbz) {
					continue
				}
				n++
				key := fmt.Sprintf("%s | DivisionByZero #%d comes with an infinite result", name, n)
				before := seenBefore(in, isInfSet)
				after, _ := mustPassFrom(in, isInfSet, errExempt)
				if before || after {
					r.ok(key, w.instrPos(in), "the shared infinity is stored on every path through this raise", true)
				} else {
					r.bad(key, w.instrPos(in), "DivisionByZero is raised without an infinite result")
				}
			}
		}
	}
}

// ---- R4 ---------------------------------------------------------------------

var signedSpecialFns = []string{"(*Context).add", "(*Context).Mul", "(*Context).quoSpecials", "(*Context).Pow"}

func ruleSpecialSigns(w *World, r *RuleResult) {
	for _, topName := range signedSpecialFns {
		top := w.fn(topName)
		if top == nil {
			r.anchorMissing(topName)
			continue
		}
		// the function and the helpers its special cases may have been moved into
		for _, f := range w.closureFuncs(top) {
			name := w.shortName(f)
			di := destArgIndex(w, f)
			if di < 0 || di >= len(f.Params) || !isDecimalPtr(f.Params[di].Type()) {
				continue
			}
			// a helper is looked at only if it deals with signs itself (stores the destination's Negative
			// field): one that is reached for operands of a known sign only (x > 0 in the caller) copies the
			// unsigned constants rightly
			if f != top {
				storesSign := false
				for _, st := range storesIn(f) {
					if fa, ok := st.Addr.(*ssa.FieldAddr); ok && fa.X == ssa.Value(f.Params[di]) && w.exprOf(f, st.Addr).Name == "Negative" {
						storesSign = true
					}
				}
				if !storesSign {
					continue
				}
			}
			var sites []*ssa.Call
			sites = append(sites, w.sharedSetSites(f, "decimalInfinity")...)
			sites = append(sites, w.sharedSetSites(f, "decimalZero")...)
			sites = append(sites, w.sharedSetSites(f, "decimalOne")...)
			for _, c := range w.callsTo(f, "(*Decimal).SetInt64") {
				if c.Common().Args[0] == ssa.Value(f.Params[di]) {
					sites = append(sites, c)
				}
			}
			for i, c := range sites {
				key := fmt.Sprintf("%s | special/zero result #%d gets its sign from the operands", name, i+1)
				okSign := func(in ssa.Instruction) bool {
					st, ok := in.(*ssa.Store)
					if !ok || w.exprOf(f, st.Addr).String() != "&"+f.Params[di].Name()+".Negative" {
						return false
					}
					n := 0
					for l := range w.valueAndControlLeaves(f, st.Val) {
						if strings.HasSuffix(l, ".Negative") {
							n++
						}
					}
					// a helper that is handed the sign: every call passes one computed from the operands' signs
					if prm, isP := st.Val.(*ssa.Parameter); isP && f != top && n == 0 {
						idx := -1
						for i, q := range f.Params {
							if q == prm {
								idx = i
							}
						}
						callers := w.callersOf(f)
						all := idx >= 0 && len(callers) > 0
						for _, cs := range callers {
							if idx >= len(cs.Common().Args) {
								all = false
								break
							}
							m := 0
							for l := range w.valueAndControlLeaves(cs.Parent(), cs.Common().Args[idx]) {
								if strings.HasSuffix(l, ".Negative") {
									m++
								}
							}
							if m == 0 {
								all = false
							}
						}
						if all {
							return true
						}
					}
					return n > 0
				}
				// a helper that copies the special and sets the sign from an argument
				if g := callee(c); g != nil && w.shortName(g) != "(*Decimal).Set" && w.shortName(g) != "(*Decimal).SetInt64" {
					n := 0
					for _, a := range c.Common().Args {
						for _, v := range w.storedFieldValues(f, c, a, "Negative", 0) {
							if strings.Contains(v, ".Negative") || w.localDerivesFromSigns(f, c, v) {
								n++
							}
						}
					}
					if n > 0 {
						r.ok(key, w.instrPos(c), "the helper stores d.Negative from an argument computed from the operands' signs", true)
						continue
					}
				}
				// the one-operand exits (0**positive etc.) are still covered: Pow stores neg on all of them
				ok, ret := mustPassFrom(c, okSign, func(rt *ssa.Return) bool { return w.isErrorReturn(rt) })
				if ok {
					r.ok(key, w.instrPos(c), "d.Negative is stored afterwards from an expression over the operands' Negative fields", true)
				} else if topName == "(*Context).Pow" && w.isPowPositiveExit(f, c) {
					r.ok(key, w.instrPos(c), "tabled: x**0 = +1 for finite non-zero x", false)
				} else {
					r.bad(key, w.instrPos(c), fmt.Sprintf("an unsigned shared constant is copied into the destination and returned at %s without setting the sign from the operands", w.instrPos(ret)))
				}
			}
		}
	}
}

// isPowPositiveExit: d.Set(decimalOne) under the guard ys == 0.
func (w *World) isPowPositiveExit(f *ssa.Function, c *ssa.Call) bool {
	p := w.newProv(f, nil)
	one := false
	for _, l := range p.roots(c.Common().Args[1]) {
		if l.Root.Kind == RGlobalObj && l.Root.Name == "decimalOne" {
			one = true
		}
	}
	if !one {
		return false
	}
	for _, g := range guardsAt(c.Block()) {
		if bo, ok := g.Cond.(*ssa.BinOp); ok && bo.Op == token.EQL && g.Val {
			if call, ok := bo.X.(*ssa.Call); ok && w.calleeName(call) == "(*Decimal).Sign" {
				if k, ok := bo.Y.(*ssa.Const); ok && ci(k) == 0 {
					return true
				}
			}
		}
	}
	return false
}

// ---- R5 ---------------------------------------------------------------------

func ruleZeroSumSign(w *World, r *RuleResult) {
	f := w.fn("(*Context).add")
	if f == nil {
		r.anchorMissing("(*Context).add")
		return
	}
	floor := w.rounderConsts()["RoundFloor"]
	key := "(*Context).add | sign of an exact-zero sum"
	found, good := false, false
	// in add itself, or in a helper it was split into that computes the magnitude and returns the sign
	for _, af := range w.closureFuncs(f) {
		for _, b := range af.Blocks {
			zeroGuard := false
			for _, g := range guardsAt(b) {
				bo, ok := g.Cond.(*ssa.BinOp)
				if !ok || bo.Op != token.EQL || !g.Val {
					continue
				}
				if call, ok := bo.X.(*ssa.Call); ok && w.calleeName(call) == "(*BigInt).Sign" {
					if k, ok := bo.Y.(*ssa.Const); ok && ci(k) == 0 {
						zeroGuard = true
					}
				}
			}
			if !zeroGuard {
				continue
			}
			for _, in := range b.Instrs {
				switch x := in.(type) {
				case *ssa.Store:
					if !strings.HasSuffix(w.exprOf(af, x.Addr).String(), ".Negative") {
						continue
					}
					found = true
					if w.exprOf(af, x.Val).String() == "(c.Rounding == "+floor+")" {
						good = true
					}
				case *ssa.Return:
					// the helper returns the sign of the sum
					if af == f {
						continue
					}
					for _, res := range x.Results {
						if bt, isB := res.Type().Underlying().(*types.Basic); !isB || bt.Kind() != types.Bool {
							continue
						}
						found = true
						if w.exprOf(af, res).String() == "(c.Rounding == "+floor+")" {
							good = true
						}
					}
				}
			}
		}
	}
	// minus(x) is subtract(0, x): 0 − (+0) is −0 under RoundFloor, so Context.Neg must consult the mode for zeros
	if g := w.fn("(*Context).Neg"); g != nil {
		k2 := "(*Context).Neg | sign of a zero result under RoundFloor"
		di := destArgIndex(w, g)
		ok := false
		for _, st := range storesIn(g) {
			fa, isFA := st.Addr.(*ssa.FieldAddr)
			if !isFA || fa.X != ssa.Value(g.Params[di]) || w.exprOf(g, st.Addr).Name != "Negative" {
				continue
			}
			floorG, zeroG := false, false
			for _, gd := range guardsAt(st.Block()) {
				if !gd.Val {
					continue
				}
				if bo, isB := gd.Cond.(*ssa.BinOp); isB && bo.Op == token.EQL {
					l, rr := w.exprOf(g, bo.X).String(), w.exprOf(g, bo.Y).String()
					if (strings.HasSuffix(l, ".Rounding") && rr == floor) || (strings.HasSuffix(rr, ".Rounding") && l == floor) {
						floorG = true
					}
				}
				if c, isC := gd.Cond.(*ssa.Call); isC && w.calleeName(c) == "(*Decimal).IsZero" {
					zeroG = true
				}
			}
			// equivalent form: the constant true stored where the operand's sign was additionally found false
			if k, isK := st.Val.(*ssa.Const); isK && k.Value != nil && boolConst(k) && floorG && zeroG {
				for _, gd := range guardsAt(st.Block()) {
					if gd.Val {
						continue
					}
					for l := range w.valueAndControlLeaves(g, gd.Cond) {
						if strings.HasSuffix(l, ".Negative") {
							ok = true
						}
					}
				}
			}
			// the stored sign is the complement of the operand's sign
			if u, isU := st.Val.(*ssa.UnOp); isU && u.Op == token.NOT && floorG && zeroG {
				for l := range w.valueAndControlLeaves(g, u.X) {
					if strings.HasSuffix(l, ".Negative") {
						ok = true
					}
				}
			}
		}
		if ok {
			r.ok(k2, w.pos(g.Pos()), "for a zero result under RoundFloor d.Negative = !x.Negative (0 − (+0) = −0, 0 − (−0) = +0)", true)
		} else {
			r.bad(k2, w.pos(g.Pos()), "Neg does not consult RoundFloor for a zero result: Neg(+0) under RoundFloor must be −0, as Sub(0, 0) is")
		}
	} else {
		r.anchorMissing("(*Context).Neg")
	}
	switch {
	case found && good:
		r.ok(key, w.pos(f.Pos()), "on the Coeff.Sign()==0 edge d.Negative = (c.Rounding == RoundFloor)", true)
	case found:
		r.bad(key, w.pos(f.Pos()), "the sign of an exact-zero sum is not (c.Rounding == RoundFloor): zero sums must be +0 except under RoundFloor")
	default:
		r.bad(key, w.pos(f.Pos()), "add no longer sets the sign of an exact-zero difference")
	}
}

// valueAndControlLeaves: data leaves of v plus, for φ values (short-circuit
// && / || chains), the leaves of the branch conditions selecting the edges.
func (w *World) valueAndControlLeaves(f *ssa.Function, v ssa.Value) map[string]bool {
	out := w.exprOf(f, v).leaves()
	seen := map[ssa.Value]bool{}
	var visit func(x ssa.Value)
	visit = func(x ssa.Value) {
		phi, ok := x.(*ssa.Phi)
		if !ok || seen[x] {
			return
		}
		seen[x] = true
		for i, e := range phi.Edges {
			for _, g := range edgeGuards(phi.Block().Preds[i], phi.Block()) {
				for l := range w.exprOf(f, g.Cond).leaves() {
					out[l] = true
				}
			}
			visit(e)
		}
	}
	visit(v)
	return out
}

// localDerivesFromSigns: the rendered value names a local of f (e.g. "neg", a φ or comparison) whose
// data/control leaves include an operand's Negative field.
func (w *World) localDerivesFromSigns(f *ssa.Function, c *ssa.Call, rendered string) bool {
	for _, a := range c.Common().Args {
		if w.exprOf(f, a).String() != rendered {
			continue
		}
		for l := range w.valueAndControlLeaves(f, a) {
			if strings.HasSuffix(l, ".Negative") {
				return true
			}
		}
	}
	return false
}

// valueCarriesBits: the Condition value v has one of the bits set whatever path produced it: a constant with
// the bit, an | with such a value, or a φ all of whose incoming values carry one.
func valueCarriesBits(v ssa.Value, bits uint64, depth int) bool {
	if depth > 6 {
		return false
	}
	if k, ok := condBits(v); ok && typeIs(v.Type(), apdPath, "Condition") {
		return k&bits != 0 && k < 1<<12
	}
	switch x := v.(type) {
	case *ssa.BinOp:
		if x.Op == token.OR {
			return valueCarriesBits(x.X, bits, depth+1) || valueCarriesBits(x.Y, bits, depth+1)
		}
	case *ssa.Phi:
		for _, e := range x.Edges {
			if !valueCarriesBits(e, bits, depth+1) {
				return false
			}
		}
		return len(x.Edges) > 0
	}
	return false
}
