package main

import (
	"fmt"
	"go/token"
	"sort"
	"strings"

	"golang.org/x/tools/go/ssa"
)

func init() {
	register(&Rule{ID: "C01.R5", Min: 2,
		Text: "the result argument of every ShouldAddOne call is the truncated value: the object it points to was last written by a truncating producer (quotient of QuoRem/Quo, Modf's integer part, SetInt64 of a constant) on every path to the call — round-to-even and 05up look at that digit",
		Run:  ruleResultArgTruncated})
	register(&Rule{ID: "C02.R5", Min: 1,
		Text: "the subnormal boundary is the same everywhere: Rounder.Round, setExponent and Quo all treat a value as subnormal exactly when its adjusted exponent is < c.MinExponent (Quo's own rounding runs on the complementary >= edge)",
		Run:  ruleSubnormalBoundary})
	register(&Rule{ID: "C07.R5", Min: 7,
		Text: "the digit count handed to setExponent is unknownNumDigits or a NumDigits result (never a string length or an estimate), and the final rounding of every composite operation runs under a context whose exponent limits are the caller's",
		Run:  ruleSetExponentArgs})
	register(&Rule{ID: "C08.R6", Min: 1,
		Text: "coefficient parity is only used for values known to have exponent 0: every Coeff.Bit(0) test on a Decimal is paired with an Exponent == 0 test of the same value",
		Run:  ruleParityNeedsExponentZero})
	register(&Rule{ID: "C16.R4", Min: 5,
		Text: "fast-path write-backs take value and sign from one helper: every updateInnerFromUint64(val, neg) passes neg=false, or (val, neg) are results #0/#1 of the same *Inline helper call (whose zero-sign rule is C16.R3), or is SetInt64's own split",
		Run:  ruleFastPathWriteBack})
}

// lastWritersAt: forward analysis of which callee last wrote object `obj`
// (identified by base pointer) at instruction `at`.
func (w *World) lastWritersAt(f *ssa.Function, ptr ssa.Value, at ssa.Instruction) []string {
	obj := basePtr(ptr)
	field := ""
	if fa, ok := ptr.(*ssa.FieldAddr); ok && typeIs(fa.X.Type(), apdPath, "Decimal") {
		field = w.exprOf(f, ptr).Name
	}
	return w.lastWritersAtObj(f, obj, field, at, 0)
}

// lastWritersAtObj: the same for (object, Decimal field). When the object is a
// parameter of an unexported function and nothing in the function wrote it
// yet, the answer is taken from every call site (what the callers last did to
// the argument), to a small depth.
func (w *World) lastWritersAtObj(f *ssa.Function, obj ssa.Value, field string, at ssa.Instruction, depth int) []string {
	res := w.lastWritersLocal(f, obj, field, at)
	pr, isParam := obj.(*ssa.Parameter)
	if !isParam || depth > 3 || f.Object() == nil || f.Object().Exported() {
		return res
	}
	var out []string
	resolved := false
	for _, t := range res {
		if t != "<none>" {
			out = append(out, t)
			continue
		}
		idx := -1
		for i, p := range f.Params {
			if p == pr {
				idx = i
			}
		}
		callers := w.callersOf(f)
		if idx < 0 || len(callers) == 0 {
			out = append(out, t)
			continue
		}
		for _, c := range callers {
			args := c.Common().Args
			if c.Common().IsInvoke() || idx >= len(args) {
				out = append(out, t)
				continue
			}
			a := args[idx]
			fld := field
			if fa, ok := a.(*ssa.FieldAddr); ok && typeIs(fa.X.Type(), apdPath, "Decimal") && field == "" {
				fld = w.exprOf(c.Parent(), a).Name
			}
			out = append(out, w.lastWritersAtObj(c.Parent(), basePtr(a), fld, c, depth+1)...)
			resolved = true
		}
	}
	if resolved {
		sort.Strings(out)
		out = uniqStrings(out)
	}
	return out
}

func (w *World) lastWritersLocal(f *ssa.Function, obj ssa.Value, field string, at ssa.Instruction) []string {
	touches := func(a ssa.Value, g *ssa.Function, i int) bool {
		if basePtr(a) != obj {
			return false
		}
		if field == "" {
			return true
		}
		if fa, ok := a.(*ssa.FieldAddr); ok && typeIs(fa.X.Type(), apdPath, "Decimal") {
			return w.exprOf(f, a).Name == field
		}
		// the whole Decimal is passed: does the callee write that field?
		if g != nil && w.inPkg(g) {
			s := w.summary(g)
			return i < len(s.Writes) && (s.Writes[i][field] || s.Writes[i][allFields])
		}
		return true
	}
	n := len(f.Blocks)
	type set map[string]bool
	in := make([]set, n)
	in[0] = set{"<none>": true}
	apply := func(cur set, x ssa.Instruction) set {
		switch y := x.(type) {
		case *ssa.Store:
			if touches(y.Addr, nil, 0) {
				return set{"store": true}
			}
		case *ssa.Call:
			g := callee(y)
			cn := w.calleeName(y)
			for i, a := range y.Common().Args {
				if !pointerLike(a.Type()) || !touches(a, g, i) {
					continue
				}
				writes := false
				if g != nil && w.inPkg(g) {
					s := w.summary(g)
					writes = i < len(s.Writes) && len(s.Writes[i]) > 0
				} else if strings.HasPrefix(cn, "(*math/big.Int).") {
					writes = i == 0
				}
				if writes {
					tag := cn
					if cn == "(*BigInt).SetInt64" || cn == "(*BigInt).SetUint64" {
						if k, ok := y.Common().Args[1].(*ssa.Const); ok {
							tag = fmt.Sprintf("%s(const %d)", cn, ci(k))
						}
					}
					if (cn == "(*BigInt).QuoRem" || cn == "(*Decimal).Modf") && i != 0 {
						tag = fmt.Sprintf("%s arg%d", cn, i)
					}
					return set{tag: true}
				}
			}
		}
		return cur
	}
	changed := true
	for iter := 0; changed && iter < 8*n+16; iter++ {
		changed = false
		for _, b := range f.Blocks {
			if in[b.Index] == nil {
				continue
			}
			cur := set{}
			for k := range in[b.Index] {
				cur[k] = true
			}
			for _, x := range b.Instrs {
				cur = apply(cur, x)
			}
			for _, s := range b.Succs {
				if in[s.Index] == nil {
					in[s.Index] = set{}
				}
				for k := range cur {
					if !in[s.Index][k] {
						in[s.Index][k] = true
						changed = true
					}
				}
			}
		}
	}
	b := at.Block()
	if in[b.Index] == nil {
		return nil
	}
	cur := set{}
	for k := range in[b.Index] {
		cur[k] = true
	}
	for _, x := range b.Instrs {
		if x == at {
			return sortedFieldSet(cur)
		}
		cur = apply(cur, x)
	}
	return sortedFieldSet(cur)
}

func ruleResultArgTruncated(w *World, r *RuleResult) {
	truncating := func(tag string) bool {
		switch {
		case tag == "(*BigInt).QuoRem", tag == "(*BigInt).Quo":
			return true // receiver = truncated quotient
		case tag == "(*Decimal).Modf arg1":
			return true // integer part
		case strings.HasPrefix(tag, "(*BigInt).SetInt64(const"):
			return true
		}
		return false
	}
	for _, c := range w.allCallsTo(shouldAddOne) {
		f := c.Parent()
		key := fmt.Sprintf("%s | ShouldAddOne result argument", w.shortName(f))
		if n := countKey(r, key); n > 0 {
			key = fmt.Sprintf("%s #%d", key, n+1)
		}
		ws := w.lastWritersAt(f, c.Common().Args[1], c)
		var bad []string
		for _, t := range ws {
			if !truncating(t) {
				bad = append(bad, t)
			}
		}
		if len(ws) > 0 && len(bad) == 0 {
			r.ok(key, w.instrPos(c), "last written by "+strings.Join(ws, ", ")+" on every path", true)
		} else {
			r.bad(key, w.instrPos(c), fmt.Sprintf("the value whose last digit the rounding decision inspects (%s) was last written by %v, not by a truncating producer: half-even / 05up would look at the wrong digit", w.exprOf(f, c.Common().Args[1]).String(), ws))
		}
	}
}

func ruleSubnormalBoundary(w *World, r *RuleResult) {
	for _, name := range []string{rounderRound, "(*Decimal).setExponent", "(*Context).Quo"} {
		f := w.fn(name)
		if f == nil {
			r.anchorMissing(name)
			continue
		}
		key := name + " | subnormal iff adjusted exponent < c.MinExponent"
		n := 0
		var bad []string
		hasLeaf := func(m map[string]bool, suffix string) bool {
			for l := range m {
				if strings.HasSuffix(l, suffix) {
					return true
				}
			}
			return false
		}
		top := f
		var blocks []*ssa.BasicBlock
		for _, g := range w.closureFuncs(top) {
			blocks = append(blocks, g.Blocks...)
		}
		var cmps []*ssa.BinOp
		for _, b := range blocks {
			for _, in := range b.Instrs {
				if bo, ok := in.(*ssa.BinOp); ok {
					switch bo.Op {
					case token.LSS, token.GTR, token.LEQ, token.GEQ:
						cmps = append(cmps, bo)
					}
				}
			}
		}
		for _, bo := range cmps {
			f := bo.Parent()
			lx, ly := w.exprOf(f, bo.X).leaves(), w.exprOf(f, bo.Y).leaves()
			minRight := hasLeaf(ly, ".MinExponent") && !hasLeaf(lx, ".MinExponent") && !hasLeaf(ly, ".Precision")
			minLeft := hasLeaf(lx, ".MinExponent") && !hasLeaf(ly, ".MinExponent") && !hasLeaf(lx, ".Precision")
			if !minRight && !minLeft {
				continue
			}
			n++
			op := bo.Op
			if minLeft { // MinExponent <op> adj  ==  adj <flip op> MinExponent
				op = map[token.Token]token.Token{token.LSS: token.GTR, token.GTR: token.LSS, token.LEQ: token.GEQ, token.GEQ: token.LEQ}[op]
			}
			if op != token.LSS && op != token.GEQ {
				bad = append(bad, fmt.Sprintf("%s at %s puts the boundary case adj == MinExponent on the wrong side", w.exprOf(f, bo).String(), w.instrPos(bo)))
			}
		}
		if n == 0 {
			bad = append(bad, "no comparison with c.MinExponent found")
		}
		if len(bad) > 0 {
			r.bad(key, w.pos(f.Pos()), strings.Join(bad, "; "))
		} else {
			r.ok(key, w.pos(f.Pos()), fmt.Sprintf("%d comparisons with c.MinExponent, each of the form adj < Emin or adj >= Emin", n), true)
		}
	}
}

func ruleSetExponentArgs(w *World, r *RuleResult) {
	se := w.fn("(*Decimal).setExponent")
	if se == nil {
		r.anchorMissing("(*Decimal).setExponent")
		return
	}
	ndi := paramIndex(se, "nd")
	for _, c := range w.callersOf(se) {
		f := c.Parent()
		key := fmt.Sprintf("%s | setExponent digit-count argument", w.shortName(f))
		if n := countKey(r, key); n > 0 {
			key = fmt.Sprintf("%s #%d", key, n+1)
		}
		e := w.exprOf(f, c.Common().Args[ndi])
		ok := true
		var why []string
		var chk func(x *Expr)
		chk = func(x *Expr) {
			switch x.Op {
			case "const":
				if x.Name != "-1" {
					ok = false
					why = append(why, "constant "+x.Name)
				}
			case "call":
				if x.Name != "NumDigits" && x.Name != "(*Decimal).NumDigits" {
					ok = false
					why = append(why, x.Name)
				}
			case "phi", "local", "localfield":
				for _, a := range x.Args {
					chk(a)
				}
			case "param":
				// forwarded by a wrapper: its own callers are checked
			case "cycle":
			default:
				ok = false
				why = append(why, x.String())
			}
		}
		chk(e)
		// the constant 1 is the digit count of a receiver that was just set to a one-digit package constant
		if k, isK := c.Common().Args[ndi].(*ssa.Const); isK && ci(k) == 1 {
			recv := basePtr(c.Common().Args[0])
			if seenBefore(c, func(in ssa.Instruction) bool {
				sc, isCall := in.(*ssa.Call)
				if !isCall || w.calleeName(sc) != "(*Decimal).Set" || basePtr(sc.Common().Args[0]) != recv {
					return false
				}
				for _, l := range w.newProv(f, nil).roots(sc.Common().Args[1]) {
					if l.Root.Kind == RGlobalObj && (l.Root.Name == "decimalZero" || l.Root.Name == "decimalOne") {
						return true
					}
				}
				return false
			}) && len(w.lastWritersAt(f, c.Common().Args[0], c)) > 0 {
				ok, why = true, nil
			}
		}
		// inside Rounder.Round, after the digit-dropping division, the digit count may be asserted from the
		// precision (the quotient keeps Precision digits; roundAddOne renormalises a carry, C07.R2): an
		// arithmetic claim this rule does not decide
		if !ok && w.ownerIn(f, []string{rounderRound}) != "" && len(w.digitDiscardSites(f)) > 0 {
			only := true
			for _, y := range uniqStrings(why) {
				if y != "constant 1" && !strings.HasSuffix(y, ".Precision") && !strings.Contains(y, ".Precision)") {
					only = false
				}
			}
			if only {
				r.ok(key, w.instrPos(c), "digit count asserted from the context's precision after the digit-dropping division: "+short(e.String(), 120)+" (arithmetic claim, not decided)", false)
				continue
			}
		}
		if ok {
			r.ok(key, w.instrPos(c), "nd = "+short(e.String(), 120), true)
		} else {
			r.bad(key, w.instrPos(c), "the digit count passed to setExponent is "+short(e.String(), 200)+" ("+strings.Join(uniqStrings(why), ", ")+"), not unknownNumDigits or a NumDigits result: the adjusted-exponent limits are checked against a wrong length")
		}
	}
	// final rounding context: exponent limits of the caller's context
	for _, name := range []string{"(*Context).Sqrt", "(*Context).Cbrt", "(*Context).Exp", "(*Context).Ln", "(*Context).Log10", "(*Context).Pow"} {
		f := w.fn(name)
		if f == nil {
			r.anchorMissing(name)
			continue
		}
		key := name + " | final rounding under the caller's exponent limits"
		reach := w.reachesFn(rounderRound)
		di := destArgIndex(w, f)
		var last []*ssa.Call
		for _, c := range callsIn(f) {
			call, ok := c.(*ssa.Call)
			if !ok {
				continue
			}
			g := callee(call)
			if g == nil || !reach[g] || g.Signature.Recv() == nil || w.apdTypeName(g.Signature.Recv().Type()) != "Context" {
				continue
			}
			gi := destArgIndex(w, g)
			if gi < len(call.Common().Args) && call.Common().Args[gi] == ssa.Value(f.Params[di]) {
				// a rounding call on the real destination: is it final (no later such call reachable)?
				last = append(last, call)
			}
		}
		var finals []*ssa.Call
		for _, a := range last {
			later := false
			for _, b := range last {
				if a != b && (a.Block() == b.Block() && instrIndex(b) > instrIndex(a) || a.Block() != b.Block() && reaches(a.Block(), b.Block())) {
					later = true
				}
			}
			if !later {
				finals = append(finals, a)
			}
		}
		if len(finals) == 0 {
			r.bad(key, w.pos(f.Pos()), "no rounding call on the destination found")
			continue
		}
		var bad []string
		for _, c := range finals {
			ctx := c.Common().Args[0]
			if ctx == ssa.Value(f.Params[0]) {
				continue
			}
			// a derived context: its limits must come from c (WithPrecision on c) or be stored from c's
			ce := w.exprOf(f, ctx)
			fromC := false
			if ci := w.ctxCtor(ctx); ci != nil {
				if pr, isP := ci.fromParam(); isP && pr == f.Params[0] {
					// a copy of the caller's context; its limits are the caller's unless the constructor overwrote them
					_, mx := ci.Consts["MaxExponent"]
					_, mn := ci.Consts["MinExponent"]
					fromC = !mx && !mn
				}
			}
			if !fromC {
				isC := func(in ssa.Instruction) bool { return in == ssa.Instruction(c) }
				mx := w.lastStoresVia(f, ctx, "MaxExponent", isC)
				mn := w.lastStoresVia(f, ctx, "MinExponent", isC)
				if len(mx) == 1 && mx[0] == "c.MaxExponent" && len(mn) == 1 && mn[0] == "c.MinExponent" {
					fromC = true
				}
			}
			if !fromC {
				bad = append(bad, fmt.Sprintf("the final rounding at %s runs under %s, whose exponent limits are not the caller's: the result can lie outside the caller's exponent range", w.instrPos(c), short(ce.String(), 100)))
			}
		}
		if len(bad) > 0 {
			r.bad(key, w.pos(f.Pos()), strings.Join(uniqStrings(bad), "; "))
		} else {
			r.ok(key, w.pos(f.Pos()), fmt.Sprintf("%d final rounding call(s) on the destination, each under c or a context carrying c's MaxExponent/MinExponent", len(finals)), true)
		}
	}
}

func ruleParityNeedsExponentZero(w *World, r *RuleResult) {
	n := 0
	for _, name := range w.Names {
		f := w.Funcs[name]
		for _, c := range w.callsTo(f, "(*BigInt).Bit") {
			fa, ok := c.Common().Args[0].(*ssa.FieldAddr)
			if !ok || !typeIs(fa.X.Type(), apdPath, "Decimal") {
				continue
			}
			if k, ok := c.Common().Args[1].(*ssa.Const); !ok || ci(k) != 0 {
				continue
			}
			// the rule is about the parity of the VALUE (odd integer exponents decide a sign); the parity of
			// the coefficient's last digit, used to break a rounding tie on that very coefficient, is a
			// different and legitimate use: it steers an increment of the same coefficient
			tieBreak := false
			if refs := c.Referrers(); refs != nil {
				for _, u := range *refs {
					bo, isB := u.(*ssa.BinOp)
					if !isB {
						continue
					}
					for _, blk := range f.Blocks {
						iff, isIf := blk.Instrs[len(blk.Instrs)-1].(*ssa.If)
						if !isIf || !w.condMentions(iff.Cond, bo) {
							continue
						}
						for _, in := range blk.Succs[0].Instrs {
							if ac, isCall := in.(*ssa.Call); isCall && w.calleeName(ac) == "(*BigInt).Add" && basePtr(ac.Common().Args[0]) == basePtr(fa) {
								tieBreak = true
							}
						}
					}
				}
			}
			if tieBreak {
				continue
			}
			n++
			key := fmt.Sprintf("%s | parity of %s", name, w.exprOf(f, fa.X).String())
			obj := fa.X
			ok2 := false
			for _, b := range f.Blocks {
				for _, in := range b.Instrs {
					bo, isB := in.(*ssa.BinOp)
					if !isB || bo.Op != token.EQL {
						continue
					}
					ld, isL := bo.X.(*ssa.UnOp)
					k, isK := bo.Y.(*ssa.Const)
					if !isL || !isK || ci(k) != 0 {
						continue
					}
					ea, isFA := ld.X.(*ssa.FieldAddr)
					if !isFA || ea.X != obj || w.exprOf(f, ld.X).Name != "Exponent" {
						continue
					}
					// related by dominance (the two tests are parts of one && chain)
					if b.Dominates(c.Block()) || c.Block().Dominates(b) {
						ok2 = true
					}
				}
			}
			if ok2 {
				r.ok(key, w.instrPos(c), "paired with an Exponent == 0 test of the same value", true)
			} else {
				r.bad(key, w.instrPos(c), "the low bit of the coefficient is taken as the value's parity without checking Exponent == 0: 1E+1 (coefficient 1) would be treated as odd")
			}
		}
	}
	if n == 0 {
		r.ok("package | no coefficient-parity test on Decimals", "", "nothing to check", false)
	}
}

func ruleFastPathWriteBack(w *World, r *RuleResult) {
	for _, c := range w.allCallsTo("(*BigInt).updateInnerFromUint64") {
		f := c.Parent()
		name := w.shortName(f)
		key := fmt.Sprintf("%s | fast-path write-back", name)
		if n := countKey(r, key); n > 0 {
			key = fmt.Sprintf("%s #%d", key, n+1)
		}
		val, neg := c.Common().Args[1], c.Common().Args[2]
		if k, ok := neg.(*ssa.Const); ok && !boolConst(k) {
			r.ok(key, w.instrPos(c), "neg = false", false)
			continue
		}
		if name == "(*BigInt).SetInt64" {
			r.ok(key, w.instrPos(c), "SetInt64's own sign/magnitude split (checked by C16.R3)", false)
			continue
		}
		ev, ok1 := val.(*ssa.Extract)
		en, ok2 := neg.(*ssa.Extract)
		paired := false
		if ok1 && ok2 && ev.Tuple == en.Tuple {
			if hc, ok := ev.Tuple.(*ssa.Call); ok {
				if h := callee(hc); h != nil {
					for _, pr := range inlinePairs(h.Signature) {
						if pr[0] == ev.Index && pr[1] == en.Index {
							paired = true
						}
					}
				}
			}
		}
		if paired {
			if hc, ok := ev.Tuple.(*ssa.Call); ok && strings.HasSuffix(w.calleeName(hc), "Inline") {
				r.ok(key, w.instrPos(c), fmt.Sprintf("(val, neg) = results #%d,#%d of %s", ev.Index, en.Index, w.calleeName(hc)), true)
				continue
			}
		}
		r.bad(key, w.instrPos(c), "value "+short(w.exprOf(f, val).String(), 80)+" and sign "+short(w.exprOf(f, neg).String(), 80)+" do not come from one *Inline helper: the zero-is-never-negative normalisation is bypassed")
	}
}

// condMentions: v occurs in the (φ-expanded) condition cond.
func (w *World) condMentions(cond ssa.Value, v ssa.Value) bool {
	seen := map[ssa.Value]bool{}
	var walk func(x ssa.Value) bool
	walk = func(x ssa.Value) bool {
		if x == v {
			return true
		}
		if seen[x] {
			return false
		}
		seen[x] = true
		switch y := x.(type) {
		case *ssa.Phi:
			for _, e := range y.Edges {
				if walk(e) {
					return true
				}
			}
		case *ssa.BinOp:
			return walk(y.X) || walk(y.Y)
		case *ssa.UnOp:
			return walk(y.X)
		}
		return false
	}
	return walk(cond)
}
