package posex

type big struct{ v int }

func (b *big) cmp(o *big) int { return b.v - o.v }

// Shadow reproduces the NumDigits defect: the inner a shadows the outer one,
// which stays nil on the negative branch.
func Shadow(b *big) int {
	var a *big
	if b.v < 0 {
		var tmp big
		a := &tmp
		a.v = -b.v
	} else {
		a = b
	}
	return a.cmp(b)
}
