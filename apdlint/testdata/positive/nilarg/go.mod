module posex

go 1.17
