package posex

import "strconv"

type ed struct{ err error }

func (e *ed) Err() error { return e.err }

// Stale reproduces the shape of the Exp defect: err is nil on this path, so a
// failing e.Err() makes the function return (0, nil).
func Stale(e *ed, s string) (int, error) {
	n, err := strconv.Atoi(s)
	if err != nil {
		return 0, err
	}
	if err != e.Err() {
		return 0, err
	}
	return n, nil
}
